#!/bin/sh
# Offline setup: warm the Go build cache for the harness (every check rebuilds it anyway) and
# verify that TLC starts. Nothing is fetched.
set -e
cd /verif
export GOFLAGS=-mod=mod GOPROXY=off GOSUMDB=off GOTOOLCHAIN=local
python3 -c "import sys; sys.path.insert(0,'lib'); import vlib; vlib.write_gomod('harness')"
(cd harness && go build -tags verif -o /dev/null ./cmd/vh)
java -cp /opt/veriftools/tla/tla2tools.jar tlc2.TLC -h >/dev/null 2>&1 || true
mkdir -p evidence replays
echo "setup ok"
