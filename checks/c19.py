"""C19 Parent selection is well-formed.
Spec: specs/msc/ParentSelect.tla -- the relation Valid(existing, options, kinds, metric, result) written
from the statement (existing parents first and in order; at most one new option per strategy; new ones
offered, distinct, not existing; shorter only when the options are exhausted; a metric strategy picks an
option of maximal metric among those still available).  MC_ParentSelect.tla (pattern S) enumerates the
inputs; the harness runs the real ancestor.ChooseParents on each case 21 times (map-order shuffling of
the options, free strategies picking first/last/random) and logs the distinct results;
ParentSelectTrace.tla (pattern T) lets TLC judge every logged result against Valid."""
import json
from concurrent.futures import ThreadPoolExecutor
import vlib


def run(c):
    # the relation itself: satisfiable for every small case, and it fixes the number of new parents
    # (runs concurrently with the enumeration and the harness build)
    bg = ThreadPoolExecutor(max_workers=2)
    fsan = bg.submit(c.tlc_must_pass, "msc", "MC_ParentSelect", cfg=c.pick("MC_ParentSelect_sanityq", "MC_ParentSelect_sanity"),
                     workers=2, timeout=3000, count=False)
    fbuild = bg.submit(c.harness)
    cfg = c.pick("MC_ParentSelect_q%d" % (c.seed % 4), "MC_ParentSelect_thorough")
    cases = c.path("ps_cases.ndjson")
    res = c.tlc_must_pass("msc", "MC_ParentSelect", cfg=cfg, edges_out=cases, workers=4, timeout=3000)
    c.log("TLC %s enumerated %d cases" % (cfg, res.edges))
    c.guard("cases", res.edges)
    trace = c.path("ps_trace.ndjson")
    runs = 21          # three runs for each of the seven embeddings of the metric ranks into uint64
    fbuild.result()
    stats = json.loads(c.vh(["parentsrun", cases, trace, runs]).stdout)
    c.log("ChooseParents executed:", stats)
    if stats.get("cases") != res.edges:
        raise vlib.Infra("harness ran %s of %d cases" % (stats.get("cases"), res.edges))
    for g in ("cases_with_duplicate_options", "cases_with_option_equal_to_existing", "cases_options_exhausted",
              "cases_more_options_than_strategies", "cases_metric_with_choice", "cases_metric_tie_at_max",
              "cases_with_several_results"):
        c.guard(g, stats.get(g, 0))
    r = vlib.validate_scenarios(c, "msc", "ParentSelectTrace", trace, chunks=6, max_rej=4)
    san = fsan.result()
    c.log("relation sanity on %d cases: satisfiable, number of new parents determined" % san.distinct)
    for rej in r["rejections"]:
        case = rej["scenario"][0]
        rec = rej["record"]
        sig = "existing=%s options=%s kinds=%s metric=%s -> %s" % (
            case.get("existing"), case.get("options"), ",".join(case.get("kinds") or []), case.get("metric"),
            rec.get("res") if isinstance(rec, dict) and rec.get("ok") else "panic")
        c.violation("parents-valid", sig,
                    "ChooseParents result %s rejected by ParentSelect!Valid for existing=%s options=%s kinds=%s metric=%s" % (
                        json.dumps(rec), case.get("existing"), case.get("options"), case.get("kinds"), case.get("metric")),
                    replay=rej)
    if r.get("unvalidated_lines"):
        c.notes.append("%d trace lines left unvalidated after repeated rejections" % r["unvalidated_lines"])
    with open(trace) as f:
        lines = f.readlines()
    step = max(1, len(lines) // 5)
    samples = [[json.loads(x) for x in lines[i:i + 3]] for i in range(0, len(lines), step)][:5]
    return c.finish("exploration", dict(
        evaluations=stats["runs"], distinct_nontrivial=stats.get("cases_with_several_results", 0),
        cases_enumerated_by_tlc=res.edges, result_lines_validated=r["validated_lines"] - r["scenarios"] if not r["rejections"] else None,
        trace_lines=r["lines"], tlc_validation_runs=r["runs"], runs_per_case=runs,
        exhaustive=True,
        rule="every input enumerated by MC_ParentSelect.tla for cfg %s (existing lists, option lists with overlaps and duplicates, "
             "0..3 strategies free/metric, metric tables over {0,1,2} on the addable options); ChooseParents run %d times per case; "
             "every distinct result validated by TLC against ParentSelect!Valid" % (cfg, runs),
        harness_stats=stats, samples=samples,
    ), assumptions=["free strategies are scripted (first / last / seeded random offer) or ancestor.RandomStrategy; the relation leaves their choice open",
                    "metric entries of parents that cannot be added are fixed to 0 in the enumeration (they cannot influence a valid result)",
                    "the specification's metric values {0,1,2} are ranks; the harness embeds them into uint64 through seven strictly "
                    "increasing maps (small, around 2^31/2^32, 2^63 or more apart, up to MaxUint64), one per run in rotation",
                    "every second run uses long-lived MetricStrategy objects shared by all cases and runs (their metric function reads "
                    "the table of the selection in progress); the relation judges every selection on its own",
                    "distinct_nontrivial = cases in which the repeated runs produced more than one result (map-order nondeterminism observed)"])
