"""C30 Events semaphore bounds, waits and times out correctly.
Specs: specs/msc/Semaphore.tla (abstract two-dimensional semaphore with call / linearization / return,
model-checked at small scope for the time-free clauses), SemScenarios.tla (pattern S: TLC enumerates the
driver scripts of acquire/try/release/terminate/sleep steps), SemContention.tla (second script family: the semaphore is
filled, two or three callers with requests of different sizes block, releases free room that fits the oldest waiter, only
a later one, several or none), SemLateWake.tla (third family: a caller with a finite timeout is woken late in its waiting
time by releases that free too little, then nothing happens until well after its deadline), SemaphoreTrace.tla (patterns T+L: validates
the call/ret/warn/settled lines recorded from the real DataSemaphore in real time, searching for
linearization points and adding the time bounds: refusal by timeout within [timeout, timeout+slack];
at every settled point nobody is in flight whose request fits, exceeds the capacity or is overdue;
Processing() equals the specified held amount).
A rejected scenario is executed once more, alone and with the same step timing, before it is reported;
if rejections do not reproduce too often the host is declared too noisy (exit 2)."""
import json
import random
import re
from concurrent.futures import ThreadPoolExecutor
import vlib

SLACK = 150
SETTLE = 30


def step_str(st):
    if st["fn"] == "acq":
        return "acq(%d,%d;%dms)" % (st["w"][0], st["w"][1], st["timeout"])
    if st["fn"] == "sleep" and st["timeout"]:
        return "sleep(%dms)" % st["timeout"]
    if st["fn"] in ("try", "rel"):
        return "%s(%d,%d)" % (st["fn"], st["w"][0], st["w"][1])
    return st["fn"]


def label(rej):
    """names what the rejected line is about (a description, not a verdict)"""
    rec = rej["record"]
    sc = rej["scenario"]
    if not isinstance(rec, dict):
        return "unreadable-line"
    upto = sc[:rej["line"]]
    calls = {}
    for l in upto[:-1]:
        if l["op"] == "call" and l["g"] > 0:
            calls[l["g"]] = l
        elif l["op"] == "ret" and l["g"] > 0:
            calls.pop(l["g"], None)
    op = rec.get("op")
    if op == "settled":
        if any(rec["at"] - c["at"] >= c["timeout"] + SLACK for c in calls.values()):
            return "acquire-still-blocked-after-timeout-plus-slack"
        if calls:
            return "caller-in-flight-at-settled-point-or-held-mismatch"
        return "held-amount-mismatch"
    if op == "ret":
        if rec["g"] > 0:
            c = calls.get(rec["g"]) or {}
            if not rec["ok"] and c and rec["el"] > c["timeout"] + SLACK:
                return "acquire-refused-later-than-timeout-plus-slack"
            if not rec["ok"] and c and rec["el"] < c["timeout"]:
                return "acquire-refused-although-allowed-or-too-early"
            return "acquire-%s-not-allowed" % ("grant" if rec["ok"] else "refusal")
        fn = [l for l in upto[:-1] if l["op"] == "call" and l["g"] == 0][-1]["fn"]
        return "%s-result-not-allowed" % fn
    if op == "stuck":
        return "caller-never-returned-after-terminate"
    if op == "warn":
        return "warning-not-allowed-or-wrong-arguments"
    return "%s-line-not-allowed" % op


def run(c):
    bg = ThreadPoolExecutor(max_workers=2)
    fbuild = bg.submit(c.harness)
    fmc = bg.submit(c.tlc_must_pass, "msc", "MC_Semaphore", cfg=c.pick("MC_Semaphore_quick", "MC_Semaphore_thorough"),
                    workers=c.pick(2, 6), timeout=3000)
    rnd = random.Random(c.seed)
    # (module, cfg, {script length: sample size}; lengths not named are taken completely)
    plan = c.pick([("MC_SemContention", "MC_SemContention_quick", {}), ("SemLateWake", "SemLateWake_quick", {}),
                   ("MC_SemScen", "MC_SemScen_q345", {4: 500, 5: 250})],
                  [("MC_SemContention", "MC_SemContention_thorough", {}), ("SemLateWake", "SemLateWake_thorough", {}),
                   ("MC_SemScen", "MC_SemScen_q345", {}),
                   ("MC_SemScen", "MC_SemScen_t4", {4: 4000})])
    scen = c.path("sem_scen.ndjson")
    enumerated = {}
    nscen = 0

    def enum(job):
        module, cfg, _ = job
        part = c.path(cfg + ".ndjson")
        c.tlc_must_pass("msc", module, cfg=cfg, edges_out=part, workers=2, timeout=3000, count=False)
        return open(part).readlines()
    with ThreadPoolExecutor(max_workers=4) as ex:
        parts = list(ex.map(enum, plan))
    selected = {}
    with open(scen, "w") as out:
        for (module, cfg, samples), lines in zip(plan, parts):
            by_len = {}
            for ln in lines:
                by_len.setdefault(ln.count('"fn"'), []).append(ln)
            for k in sorted(by_len):
                ls = by_len[k]
                name = "%s/%d-step" % (cfg, k)
                enumerated[name] = len(ls)
                if samples.get(k) and len(ls) > samples[k]:
                    ls = rnd.sample(ls, samples[k])
                selected[name] = len(ls)
                out.writelines(ls)
                nscen += len(ls)
    c.log("TLC enumerated scripts %s; %d selected" % (enumerated, nscen))
    c.guard("scenarios", nscen)
    fbuild.result()
    trace = c.path("sem_trace.ndjson")
    stats = json.loads(c.vh(["semrun", "-par", 48, "-settle", SETTLE, "-slack", SLACK, scen, trace]).stdout)
    c.log("executed on the real semaphore:", stats)
    for g in ("acquire_granted_at_once", "acquire_granted_after_waiting", "acquire_refused_after_waiting",
              "acquire_refused_at_once", "warnings", "settled_with_blocked_caller", "settled_with_two_or_more_blocked_callers",
              "acquire_refused_after_being_woken_by_a_release"):
        c.guard(g, stats.get(g, 0))
    r = vlib.validate_scenarios(c, "msc", "SemaphoreTrace", trace, chunks=6, max_rej=c.pick(8, 40))
    c.log("trace validation: %d lines, %d scenarios, %d rejected" % (r["lines"], r["scenarios"], len(r["rejections"])))
    # second opinion for every rejected scenario: run it again alone (same settle time: the scripts' timing matters)
    confirmed, noise, not_rerun = [], 0, 0
    confirmed_per_label = {}

    def second(job):
        i, lab, rej = job
        script = rej["scenario"][0]["script"]
        sp = c.path("sem_rerun_%d.ndjson" % i)
        tp = c.path("sem_rerun_trace_%d.ndjson" % i)
        vlib.ndjson_write(sp, [dict(cap=rej["scenario"][0]["cap"], script=script)])
        c.vh(["semrun", "-par", 1, "-settle", SETTLE, "-slack", SLACK, sp, tp])
        ok, rejline, _ = c.validate_trace("msc", "SemaphoreTrace", tp, heap="2g")
        rej2 = None
        if not ok:
            m = re.match(r'<<"REJECTED", (\d+), (.*)>>$', rejline)
            try:
                rec = json.loads(json.loads(m.group(2)))
            except ValueError:
                rec = m.group(2)
            rej2 = dict(line=int(m.group(1)), record=rec, scenario=vlib.ndjson_read(tp))
        return lab, script, rej, rej2
    # every rejected scenario gets a second run, in batches; once a kind of rejection has reproduced three times the
    # remaining scenarios of that kind are not run again
    todo = [(i, label(rej), rej) for i, rej in enumerate(r["rejections"])]
    while todo:
        batch, rest = [], []
        for job in todo:
            if confirmed_per_label.get(job[1], 0) >= 3:
                not_rerun += 1
            elif len(batch) < 8:
                batch.append(job)
            else:
                rest.append(job)
        todo = rest
        with ThreadPoolExecutor(max_workers=4) as ex:
            for lab, script, rej, r2 in ex.map(second, batch):
                if r2 is not None and label(r2) == lab:
                    confirmed.append((lab, script, rej, r2))
                    confirmed_per_label[lab] = confirmed_per_label.get(lab, 0) + 1
                else:
                    noise += 1
                    c.notes.append("rejection '%s' of script [%s] did not reproduce on the second run" % (lab, " ".join(map(step_str, script))))
    for lab, script, rej, rej2 in confirmed:
        sig = "%s/%s" % (lab, " ".join(map(step_str, script)))
        c.violation("semaphore-trace", sig,
                    "DataSemaphore trace rejected by SemaphoreTrace.tla at %s (twice); script [%s]" % (
                        json.dumps(rej["record"]), " ".join(map(step_str, script))),
                    replay=dict(first=rej, second=rej2))
    if not_rerun:
        c.notes.append("%d further rejected scenarios of an already confirmed kind were not run a second time" % not_rerun)
    if r.get("unvalidated_lines"):
        c.notes.append("%d trace lines left unvalidated after repeated rejections" % r["unvalidated_lines"])
        if not confirmed:
            raise vlib.Infra("host too noisy: %d rejections that did not reproduce left %d trace lines unvalidated" % (
                noise, r["unvalidated_lines"]))
    if noise > max(3, nscen // 50):
        raise vlib.Infra("host too noisy: %d of %d rejected scenarios did not reproduce" % (noise, len(r["rejections"])))
    mc = fmc.result()
    c.log("abstract semaphore model-checked: %d distinct states, %d transitions" % (mc.distinct, mc.generated))
    with open(trace) as f:
        head = [json.loads(next(f)) for _ in range(14)]
    return c.finish("model_checking", dict(
        states=mc.distinct, transitions=mc.generated,
        traces_validated_against_impl=r["scenarios"],
        trace_lines_validated=r["validated_lines"],
        scripts_enumerated_by_tlc=enumerated, scripts_selected=selected, scenarios_run=nscen,
        rejections_first_run=len(r["rejections"]), rejections_not_reproduced=noise,
        settle_ms=SETTLE, slack_ms=SLACK,
        exhaustive=c.pick(False, False),
        rule="driver scripts of SemScenarios.tla (capacity (2,4)) and SemContention.tla (capacity (4,10), 2-3 blocked callers of different sizes); timeouts {30 ms, 5 s}; %s), each executed in real time on a "
             "real DataSemaphore (blocking calls in goroutines, %d ms settle time after each step, final Terminate), every trace "
             "validated by TLC against SemaphoreTrace.tla; Semaphore.tla itself model-checked (%s)" % (
                 ", ".join("%s: %d of %d" % (k, selected[k], enumerated[k]) for k in sorted(enumerated)),
                 SETTLE, c.pick("2 callers", "3 callers")),
        harness_stats=stats, samples=[head],
    ), assumptions=["real time: the host is assumed to run a woken goroutine within the settle time (%d ms) and within the slack (%d ms) "
                    "of a deadline; a rejection is reported only if it reproduces on a second, slower run" % (SETTLE, SLACK),
                    "the log order of call/ret/warn lines is the order in which the harness logger's mutex was taken",
                    "longer scripts are sampled (seeded) in the quick tier"])
