"""C16 Items fetcher asks the right peers and does not forget pending items.
Specs: specs/gsp/Fetcher.tla (abstract machine with an integer-millisecond clock whose guards are the clauses of
C16; MC_Fetcher.tla closes it for model checking at small scope), FetcherScen.tla (environment model: TLC
enumerates every script of L steps over 2 peers, 2 items: announcements, suspension toggles, receipts, interest
changes, waits), FetcherTrace.tla (trace specification).  Every script is executed in real time on the real
Fetcher (arrive 60 ms, forget 3 s); the harness records announcements, receipts, the environment's answers, every
OnlyInterested call and every request with millisecond time stamps and measures its own sleep overshoot.  The
safety clauses are checked at every request, the bounded-liveness clause at the end of a 6-arrive idle period.
A rejected script is executed again before it is reported; a noisy host gives exit 2."""
import json
import random
import vlib
from checks import gsp_util


def classify(rej):
    recd, scn = rej["record"], rej["scenario"]
    op = recd.get("op") if isinstance(recd, dict) else "?"
    if op != "end":
        return "fetcher:%s-not-allowed" % op
    susp = False
    while_susp = False
    for x in scn[1:]:
        if x.get("op") == "suspend":
            susp = x["b"]
        elif x.get("op") == "announce" and susp:
            while_susp = True
    return "fetcher:end:item-announced-while-suspended-not-requested" if while_susp else "fetcher:end:pending-item-not-requested"


def run_scripts(c, scen_path, trace_path, par):
    p = c.vh(["gsp-fetcher", scen_path, trace_path, par], timeout=3000)
    return json.loads(p.stdout)


def replay(c):
    _, reset = gsp_util.load_replay(c)
    scen, trace = c.path("replay_scen.ndjson"), c.path("replay_trace.ndjson")
    with open(scen, "w") as f:
        f.write(json.dumps({"script": reset["script"]}) + "\n")
    st = run_scripts(c, scen, trace, 1)
    if st.get("discarded_noisy"):
        raise vlib.Infra("host too noisy for the replay (worst overshoot %d us)" % st.get("worst_noise_us", 0))
    r = gsp_util.validate_many(c, "gsp", "FetcherTrace", trace, parallel=1)
    return gsp_util.finish_replay(c, r, "Fetcher")


def run(c):
    if c.replay:
        return replay(c)
    W = 6
    res = c.tlc_must_pass("gsp", "MC_Fetcher", cfg=c.pick("MC_Fetcher_quick", "MC_Fetcher_thorough"), workers=W, timeout=1500)
    c.log("MC_Fetcher: %d distinct states, safety invariants hold on the specification" % res.distinct)
    vac = c.tlc("gsp", "MC_Fetcher", cfg="MC_Fetcher_vacuity", workers=2, timeout=600, count=False)
    if "EndAlwaysPossible" not in vac.invariant_violated:
        raise vlib.Infra("the liveness obligation of Fetcher.tla is vacuous in the model (End is always enabled)")

    # ---- scenarios
    rnd = random.Random(c.seed)
    scen = c.path("fetch_scen.ndjson")
    counts = {}
    part = c.path("fetch_scen_all.ndjson")
    c.tlc_must_pass("gsp", "FetcherScen", cfg=c.pick("MC_FetcherScen_quick", "MC_FetcherScen_thorough"), edges_out=part, workers=W, timeout=3000)
    bylen = {}
    for line in open(part):
        bylen.setdefault(len(json.loads(line)["script"]), []).append(line)
    caps = c.pick({5: 700}, {6: 5000})
    with open(scen, "w") as out:
        for L in sorted(bylen):
            lines = bylen[L]
            counts["L%d_enumerated" % L] = len(lines)
            if L in caps and len(lines) > caps[L]:
                lines = rnd.sample(lines, caps[L])
            counts["L%d_run" % L] = len(lines)
            out.writelines(lines)
    nscen = sum(v for k, v in counts.items() if k.endswith("_run"))
    c.log("TLC enumerated scripts:", counts)

    trace = c.path("fetch_trace.ndjson")
    stats = run_scripts(c, scen, trace, 48)
    c.log("executed in real time on the real Fetcher:", stats)
    disc = stats.get("discarded_noisy", 0)
    if disc * 10 > nscen:
        raise vlib.Infra("host too noisy for the real-time check: %d of %d scenarios overshot their own sleeps by more than 30 ms "
                         "three times (worst %d us)" % (disc, nscen, stats.get("worst_noise_us", 0)))
    if disc:
        c.notes.append("%d of %d scenarios discarded as too noisy (sleep overshoot > 30 ms in three runs)" % (disc, nscen))
    for g in ("request", "announce_while_suspended", "unsuspend", "received", "interest_toggle", "validated_scenarios"):
        c.guard(g, stats.get(g, 0))

    r = gsp_util.validate_many(c, "gsp", "FetcherTrace", trace, parallel=W, lines_per_piece=40000, max_rej_piece=4, max_rej_total=10)
    c.log("fetcher: %d scenarios, %d lines validated, %d rejections" % (r["scenarios"], r["validated_lines"], len(r["rejections"])))

    for rej in r["rejections"]:
        c.log("rejected (to be run again):", classify(rej), json.dumps(rej["record"]), gsp_util.scenario_text(rej["scenario"][:rej["line"]], 40))
    # ---- every rejection is timing-dependent in principle: run the script again (twice if it then passes)
    unreproduced = 0
    confirmed = []
    if r["rejections"]:
        rer = c.path("fetch_rerun.ndjson")
        with open(rer, "w") as f:
            for rej in r["rejections"]:
                f.write(json.dumps({"script": rej["scenario"][0]["script"]}) + "\n")
        verdicts = [[] for _ in r["rejections"]]
        for attempt in (1, 2):
            todo = [i for i, v in enumerate(verdicts) if attempt == 1 or v == [False]]
            if not todo:
                break
            part = c.path("fetch_rerun_%d.ndjson" % attempt)
            lines = open(rer).readlines()
            with open(part, "w") as f:
                f.writelines(lines[i] for i in todo)
            tr = c.path("fetch_rerun_trace_%d.ndjson" % attempt)
            for tries in range(4):
                st2 = run_scripts(c, part, tr, 4)
                if not st2.get("discarded_noisy", 0):
                    break
            else:
                raise vlib.Infra("host too noisy: re-runs of a rejected script were discarded four times (worst %d us); rejected: %s" % (
                    st2.get("worst_noise_us", 0), [classify(x) for x in r["rejections"]]))
            r2 = gsp_util.validate_many(c, "gsp", "FetcherTrace", tr, parallel=W, max_rej_piece=50, max_rej_total=50)
            again = {}
            for rej2 in r2["rejections"]:
                again[rej2["scenario"][0]["scen"]] = rej2
            for k, i in enumerate(todo):
                verdicts[i].append(again.get(k + 1) or False)
        for rej, v in zip(r["rejections"], verdicts):
            second = [x for x in v if x]
            if second and classify(second[0]) == classify(rej):
                confirmed.append((rej, second[0]))
            elif not second and len(v) == 2:
                unreproduced += 1
            else:
                raise vlib.Infra("a rejected fetcher script gave mixed results when run again (host too noisy?): %s then %s" % (
                    classify(rej), [classify(x) if x else "accepted" for x in v]))
    for rej, rej2 in confirmed:
        recd, scn = rej["record"], rej["scenario"]
        c.violation("fetcher-trace", classify(rej),
                    "Fetcher trace rejected by Fetcher.tla at line %d %s (and again when the script was run a second time); history: %s" % (
                        rej["line"], json.dumps(recd), gsp_util.scenario_text(scn[:rej["line"]], 40)),
                    replay=dict(first=rej, second=rej2))
    if unreproduced:
        c.notes.append("%d rejection(s) did not reproduce in two further runs of the same script and were attributed to host timing" % unreproduced)
    if r.get("unvalidated_lines"):
        c.notes.append("%d trace lines left unvalidated after repeated rejections" % r["unvalidated_lines"])
    return c.finish("model_checking", dict(
        states=c.tlc_states, transitions=c.tlc_transitions,
        traces_validated_against_impl=r["scenarios"], trace_lines_validated=r["validated_lines"],
        scenarios_enumerated_by_tlc=sum(v for k, v in counts.items() if k.endswith("_enumerated")), scenario_counts=counts,
        unreproduced_rejections=unreproduced, worst_sleep_overshoot_us=stats.get("worst_noise_us", 0),
        rule="scripts of FetcherScen.tla (2 peers, 2 items, announce/suspend/receive/interest/wait): %s; each run in real time on a "
             "fresh Fetcher (arrive 60 ms, forget 3 s, steps 6 ms apart, waits of 1.5 arrive, final idle period of 6 arrive); "
             "every recorded line validated against Fetcher.tla" % json.dumps(counts),
        harness_stats=stats, samples=[gsp_util.head_lines(trace, 16)],
    ), assumptions=[
        "real time: margins are 2*arrive for 'stops requesting' and 4*arrive for the liveness deadline (the code needs about 0 and "
        "1-2 arrive); a scenario whose own 2 ms sleeps overshoot by more than 30 ms is re-run and finally discarded; a rejection is "
        "reported only if the same script is rejected again with the same signature",
        "an item counts as reported received / not interesting from the time of the NotifyReceived call / of the OnlyInterested call "
        "that left it out; stop events less than arrive/2 before an announcement cancel its liveness obligation (racing notifications)",
        "requests issued while suspended are not constrained (the statement does not forbid them)",
        "longer scripts are sampled (seeded) from the TLC-enumerated set",
    ])
