"""C10 Consensus output matches an independent reference implementation (LachesisTrace.tla is the reference)."""
from checks import lach_common as lc


def run(c):
    ex = lc.run_exhaustive(c, c.pick(["x11_7"], ["x11_8_full", "x21_8_full", "x31f_7"]), "reference")
    c.guard("model_dags_with_blocks", ex["total"]["dags_with_blocks"])
    cor = lc.run_exhaustive(c, c.pick(["corpus:variants", "corpus:frames"], ["corpus:variants", "corpus:ties", "corpus:frames", "corpus:forkless", "corpus:structural"]), "reference", orders=4)
    c.guard("corpus_spec_ties", cor["total"].get("spec_ties", 0))
    # code-shaped model of abft/election (incremental votes, reset + re-vote after each decision) against the definition
    for cfg in c.pick(["e31f_6"], ["e11_8", "e31f_6", "e211_7"]):
        r = c.tlc_must_pass("lachesis", "MC_Election", cfg="MC_Election_" + cfg, workers=8, timeout=3400)
        c.log("Election.tla %s: %d distinct states, ElectionMatchesDefinition holds" % (cfg, r.distinct))
    if not c.quick:
        # random behaviours of the 4-validator model for a fixed time (the exhaustive configurations are too shallow for ties)
        r = c.tlc("lachesis", "MC_Election", cfg="MC_Election_s1111", workers=8, timeout=300, simulate="num=100000000", depth=27, ok_timeout=True)
        if r.invariant_violated or "violated" in r.out:
            raise lc.vlib.Infra("Election.tla: simulation found a disagreement with the definition (spec bug): " + lc.vlib.tail(r.out, 20))
    res = lc.run_profile(c, "c10", c.pick(14, 150), "reference")
    st = res["stats"]
    c.guard("blocks", st.get("blocks", 0))
    c.guard("accepted", st.get("accepted", 0))
    c.guard("dags_with_13_or_more_validators", st.get("dags_with_13_or_more_validators", 0))
    # coverage counters of the reference election, over the random DAGs and the corpus replays together
    c.guard("spec_no_quorum_decisions", st.get("spec_no_quorum_decisions", 0) + cor["total"].get("spec_no_quorum_decisions", 0))
    c.guard("spec_atropos_not_first", st.get("spec_atropos_not_first", 0) + cor["total"].get("spec_atropos_not_first", 0))
    return lc.finish(c, res, "seeded random DAGs with equal-weight even validator sets (ties), lagging validators (no-quorum decisions, "
                     "deep rounds) and forks < 1/3; every accepted frame and every emitted block compared with the reference",
                     extra=dict(exhaustive_part=ex["total"], model_samples=ex["samples"], tie_corpus=cor["total"]))
