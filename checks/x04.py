"""X04 (extra, beyond the 33 listed properties): kvdb/flushable.LazyFlushable opens its real database on first use.
Spec: specs/ext/Lazy.tla over the byte-string map of specs/kv (KVDefs.tla, Bytes.tla copied into the scratch spec directory):
Put / Delete go to the cache; reads show the cache over the produced database, over nothing before it is produced; Flush and
InitUnderlyingDb ask the producer only while nothing has been produced; a failing producer's error is returned and nothing else
changes (the store stays usable and a later call asks again); NotFlushedPairs, DropNotFlushed, Close.  TLC explores the complete
bounded graph (initial database contents x number of upcoming producer failures), checks the properties on the specification
and prints states and transitions; every transition is executed on the real LazyFlushable over a memorydb handed out by a
counting, failing-on-demand producer (pattern R), plus random walks on long-lived stores.

FINDING (reported, not repaired): after one failed producer call the store is unusable -- `initUnderlyingDb` assigns the
producer's nil result to `underlying`, so the producer is never asked again, InitUnderlyingDb answers (nil, nil) and the next
Flush / Close / GetSnapshot dereference nil.  Mismatches on walks that contain a failed producer call are classified under the
signature `lazy:unusable-after-producer-failure`, registered as a known finding by this module."""
import json
import os
import shutil
import vlib

KNOWN_SIG = "lazy:unusable-after-producer-failure"
KEYS = ("edges", "applied", "skipped", "distinct_pre", "distinct_edges", "walks", "walk_steps", "ops", "mismatch_count")


def join(raw_path, out_path):
    states, raws = {}, []
    with open(raw_path) as f:
        for line in f:
            d = json.loads(line)
            if "key" in d:
                states[json.dumps(d["key"], sort_keys=True)] = d
            elif "pre" in d:
                raws.append(d)
    st = dict(states=len(states), transitions=len(raws), producer_failures=0, first_open_by_flush=0, first_open_by_init=0,
              reads_before_open_hide_real=0, flush_moves_cache=0)
    for s in states.values():
        a = s["state"]
        st["reads_before_open_hide_real"] += (not a["opened"]) and a["real"] != [] and not a["closed"]
    sample = []
    with open(out_path, "w") as out:
        for i, e in enumerate(raws):
            p = states.get(json.dumps(e["pre"], sort_keys=True))
            q = states.get(json.dumps(e["post"], sort_keys=True))
            if p is None or q is None:
                raise vlib.Infra("a transition refers to a state TLC did not print")
            a = e["act"]
            st["producer_failures"] += a.get("err") == "producer failed"
            opens = (not p["state"]["opened"]) and q["state"]["opened"]
            st["first_open_by_flush"] += opens and a["op"] == "flush"
            st["first_open_by_init"] += opens and a["op"] == "initdb"
            st["flush_moves_cache"] += a["op"] == "flush" and a["err"] == "" and p["state"]["mods"] != [] and q["state"]["real"] != p["state"]["real"]
            full = dict(pre=p["state"], act=a, post=q["state"], obs=q["obs"])
            if len(sample) < 2 and i % (len(raws) // 2 + 1) == 11:
                sample.append(dict(pre=full["pre"], act=a, post=full["post"]))
            out.write(json.dumps(full, separators=(",", ":")) + "\n")
    return st, sample


def after_producer_failure(m):
    """the mismatch happened on a long-lived store that had seen a failing producer call before (or in) this step"""
    if m.get("mode") != "walk":
        return False
    steps = list(m.get("path") or []) + [m["edge"]]
    return any(e["act"].get("err") == "producer failed" for e in steps[:-1]) or (
        m["edge"]["pre"]["pcalls"] > 0 and not m["edge"]["pre"]["opened"])


def run(c):
    c.known.append(dict(property=c.pid, status="known", clause="lazy-flushable", signature=KNOWN_SIG,
                        description="LazyFlushable is unusable after one failed producer call: initUnderlyingDb stores the producer's nil result, "
                                    "the producer is never asked again, InitUnderlyingDb returns (nil, nil), the next Flush / Close / GetSnapshot "
                                    "dereference nil (input: producer fails once; Flush -> error; Flush -> panic)"))
    d = c._specdir("ext")
    for m in ("KVDefs.tla", "Bytes.tla"):
        shutil.copy(os.path.join(os.path.dirname(d), "kv", m), d)
    cfg = c.pick("MC_Lazy_quick", "MC_Lazy_thorough")
    raw = c.path("lazy_raw.ndjson")
    res = c.tlc_must_pass("ext", "MC_Lazy", cfg=cfg, edges_out=raw, workers=c.pick(4, 8), timeout=c.pick(600, 3000))
    confs = res.printed("XCONF")
    if not confs:
        raise vlib.Infra("the model printed no XCONF line:\n" + vlib.tail(res.out, 30))
    confp = c.path("lazy_conf.json")
    with open(confp, "w") as f:
        json.dump(confs[0], f)
    edges = c.path("lazy_edges.ndjson")
    st, sample = join(raw, edges)
    c.log("TLC: %d distinct states, %d transitions (%.0fs); %s" % (st["states"], st["transitions"], res.wall, st))
    for g in ("producer_failures", "first_open_by_flush", "first_open_by_init", "reads_before_open_hide_real", "flush_moves_cache"):
        c.guard(g, st[g])
    p = c.vh(["replay", "-walks", c.pick(400, 4000), "-len", c.pick(30, 60), "lazy", edges], env={"EXT_KVCONF": confp}, timeout=3000)
    try:
        rep = json.loads(p.stdout)
    except ValueError:
        raise vlib.Infra("replay report unreadable: " + p.stdout[-500:] + p.stderr[-2000:])
    if rep.get("applied", 0) == 0:
        raise vlib.Infra("replay applied no transition")
    kept = rep.get("mismatches") or []
    all_known = bool(kept)
    for m in kept:
        if after_producer_failure(m):
            c.violation("lazy-flushable", KNOWN_SIG, "%s after a failed producer call: %s" % (m["op"], json.dumps(m.get("got"))[:200]), replay=m)
        else:
            all_known = False
            c.violation("lazy-flushable", m["sig"], "%s after %s from state %s: spec wants %s, code gave %s (mode %s)" % (
                m["kind"], json.dumps(m["edge"]["act"]), json.dumps(m["edge"]["pre"])[:300], json.dumps(m.get("want"))[:300],
                json.dumps(m.get("got"))[:300], m.get("mode")), replay=m)
    for sig, n in (rep.get("sigs") or {}).items():
        if not any(m["sig"] == sig for m in kept):
            follow_up = all_known and sig in ("lazy:flush:panic", "lazy:close:panic", "lazy:initdb:err", "lazy:initdb:post", "lazy:flush:err", "lazy:flush:post")
            c.violation("lazy-flushable", KNOWN_SIG if follow_up else sig, "%d mismatching walk steps (%s)" % (n, sig))
    for op in ("put", "del", "flush", "initdb", "dropnotflushed", "close"):
        c.guard("op_" + op, rep["ops"].get(op, 0))
    c.guard("walk_steps", rep["walk_steps"])
    return c.finish("model_checking", dict(
        states=res.distinct, transitions=res.generated,
        traces_validated_against_impl=rep["walks"], edges_replayed_on_impl=rep["applied"], exhaustive=True,
        rule="complete reachable graph of Lazy.tla for %s (initial database contents x 0..2 upcoming producer failures); every transition executed on a "
             "real LazyFlushable from a rebuilt pre-state, comparing the returned error and the projection (Get/Has/NewIterator through the store, the "
             "produced database read directly, NotFlushedPairs, number of producer calls); plus random walks on long-lived stores" % cfg,
        model_statistics=st, replay={k: rep[k] for k in KEYS}, samples=sample or rep.get("sample") or [],
    ), assumptions=[
        "the produced database is a kvdb/memorydb that exists, with its content, before the store asks for it",
        "a pre-state 'not produced, n producer calls so far' is rebuilt without replaying the failed calls: the finding shows on the random walks only",
        "NotFlushedPairs of a closed store dereferences nil (misuse): not read after Close",
        "snapshots and the flushable semantics after opening are covered by C22 (adapter lazy:mem)",
        "TLC/SANY/Json module trusted"])
