"""C23 Storage backends and wrappers share one key-value semantics.
Spec: specs/kv/KV.tla (ordered byte-string map: put/delete/batch put+delete+write+reset+replay/snapshots,
read side = Get/Has for a probe list and NewIterator for a (prefix, start) table, also through every live
snapshot) over specs/kv/Bytes.tla.  TLC explores the bounded model exhaustively (depth-bounded from designed
initial states, `clear`/`goto` close the graph) and by random simulation; every explored transition is
replayed (pattern R) on 18 stackings: memorydb / LevelDB / Pebble, each raw and under table, flushable,
synced, table-over-flushable and flushable-over-table; random walks run on long-lived stores.

This module also holds the helpers shared by the KV family (C22, C24 import them)."""
import json
import os
import threading

import vlib

BACKENDS = ("mem", "ldb", "peb")
LAYERS = ("raw", "table", "flushable", "synced", "table/flushable", "flushable/table")


# ---------------------------------------------------------------------------------- shared helpers
def gen_edges(c, module, cfg, out, workers=4, timeout=900, simulate=None, depth=None):
    """Run TLC on specs/kv/<module> with <cfg>; transitions and per-state observations go to <out> (ndjson).
    Returns (TLCResult, observation plan printed by the model, #transition lines, #state lines)."""
    res = c.tlc_must_pass("kv", module, cfg=cfg, edges_out=out, workers=workers, timeout=timeout,
                          simulate=simulate, depth=depth, count=simulate is None)
    confs = res.printed("KVCONF")
    if not confs:
        raise vlib.Infra("model %s/%s printed no KVCONF line:\n%s" % (module, cfg, vlib.tail(res.out, 30)))
    ne = ns = 0
    with open(out) as f:
        for line in f:
            if line.startswith('{"pre"'):
                ne += 1
            elif line.startswith('{"key"'):
                ns += 1
    if ne == 0 or ns == 0:
        raise vlib.Infra("model %s/%s emitted %d transitions and %d states" % (module, cfg, ne, ns))
    return res, confs[0], ne, ns


def gen_parallel(c, jobs):
    """jobs: list of dict(module=, cfg=, out=, ...gen_edges kwargs); runs them concurrently, returns results in order."""
    results = [None] * len(jobs)
    errors = []

    def work(i, j):
        try:
            results[i] = gen_edges(c, **j)
        except Exception as e:  # noqa: BLE001  (re-raised below)
            errors.append(e)

    ths = [threading.Thread(target=work, args=(i, j)) for i, j in enumerate(jobs)]
    for t in ths:
        t.start()
    for t in ths:
        t.join()
    if errors:
        raise errors[0]
    return results


def prebuild(c):
    """Build the harness in the background while TLC runs (linking takes tens of seconds on a loaded box)."""
    box = {}

    def work():
        try:
            c.harness()
        except Exception as e:  # noqa: BLE001  (re-raised by the waiter)
            box["err"] = e

    t = threading.Thread(target=work)
    t.start()

    def wait():
        t.join()
        if "err" in box:
            raise box["err"]
    return wait


def concat(c, name, parts):
    path = c.path(name)
    with open(path, "w") as out:
        for p in parts:
            with open(p) as f:
                for line in f:
                    out.write(line)
    return path


def diff_paths(want, got, path="", out=None, limit=4):
    """First few places where the projection of the real store differs from the specification (for the report only)."""
    if out is None:
        out = []
    if len(out) >= limit:
        return out
    if isinstance(want, dict) and isinstance(got, dict):
        for k in sorted(set(want) | set(got)):
            diff_paths(want.get(k), got.get(k), path + "." + k, out, limit)
    elif isinstance(want, list) and isinstance(got, list) and len(want) == len(got) and path.split(".")[-1] in (
            "get", "has", "iters", "snaps", "tables"):
        for i, (w, g) in enumerate(zip(want, got)):
            diff_paths(w, g, "%s[%d]" % (path, i), out, limit)
    elif want != got and not (want in ([], {}) and got in ([], {})):
        out.append((path.lstrip("."), want, got))
    return out


def describe(name, m, conf):
    parts = []
    for path, w, g in diff_paths(m.get("want"), m.get("got")):
        what = path
        if "iters[" in path:
            i = int(path.split("iters[")[1].split("]")[0])
            what += " NewIterator(prefix=%r, start=%r)" % tuple(conf["iters"][i])
        elif "get[" in path or "has[" in path:
            i = int(path.rsplit("[", 1)[1].split("]")[0])
            what += " key %r" % conf["probe"][i]
        parts.append("%s: spec %s, code %s" % (what, json.dumps(w)[:160], json.dumps(g)[:160]))
    if not parts:
        parts = ["spec %s, code %s" % (json.dumps(m.get("want"))[:200], json.dumps(m.get("got"))[:200])]
    return "%s %s: %s -- after %s from state %s (%s)" % (name, m["kind"], "; ".join(parts), json.dumps(m["edge"]["act"])[:160],
                                                        json.dumps(m["edge"]["pre"])[:240], m.get("mode"))


def kv_replay(c, spec, adapters, edges, conf, walks, wlen, par, clause, timeout=3000):
    """Pattern R through `vh kvreplay`: every adapter replays every transition from a rebuilt pre-state and
    walks the graph on a long-lived object; mismatches between the specification and the real code become
    violations.  Returns the decoded output of the harness."""
    confp = c.path("conf-%s.json" % spec)
    with open(confp, "w") as f:
        json.dump(conf, f)
    p = c.vh(["kvreplay", "-spec", spec, "-conf", confp, "-adapters", ",".join(adapters), "-walks", walks,
              "-len", wlen, "-par", par, edges], timeout=timeout)
    try:
        out = json.loads(p.stdout)
    except ValueError:
        raise vlib.Infra("kvreplay output unreadable: " + p.stdout[-500:] + p.stderr[-2000:])
    left = [d for d in os.listdir(c.scratch) if d.startswith("kvdb-")]
    if left:
        raise vlib.Infra("harness left database directories behind: %s" % left)
    cases = []
    for name in adapters:
        rep = out["reports"].get(name)
        if rep is None or rep.get("applied", 0) == 0:
            raise vlib.Infra("replay applied no transition for adapter " + name)
        for m in rep.get("mismatches") or []:
            cases.append(dict(adapter=name, mismatch=m))
    if not cases:
        return out
    # DESIGN.md section 2: a contradiction counts only if it reproduces on an immediate second run of the same
    # scenario (fresh process, fresh databases): path of the walk + offending transition, twice
    casep = c.path("confirm-%s.json" % spec)
    with open(casep, "w") as f:
        json.dump(cases, f)
    cp = c.vh(["kvconfirm", "-spec", spec, "-conf", confp, casep], timeout=timeout)
    try:
        verdicts = json.loads(cp.stdout)
    except ValueError:
        raise vlib.Infra("kvconfirm output unreadable: " + cp.stdout[-500:] + cp.stderr[-2000:])
    confirmed_adapters = set()
    unreproduced = []
    for case, v in zip(cases, verdicts):
        name, m = case["adapter"], case["mismatch"]
        if v["again"] > 0:
            confirmed_adapters.add(name)
            m["confirmed_again"] = v
            c.violation(clause, m["sig"], describe(name, m, conf), replay=m)
        else:
            unreproduced.append("%s (%s)" % (m["sig"], describe(name, m, conf)[:300]))
    for name in adapters:
        rep = out["reports"][name]
        kept = set(m["sig"] for m in rep.get("mismatches") or [])
        for sig, n in (rep.get("sigs") or {}).items():
            if sig not in kept:
                if name in confirmed_adapters:
                    c.violation(clause, sig, "%s: %d mismatching transitions (other mismatches of this stacking reproduced)" % (name, n))
                else:
                    unreproduced.append("%s x%d" % (sig, n))
    if unreproduced:
        c.notes.append("mismatches that did NOT reproduce on an immediate second run: " + "; ".join(unreproduced[:8]))
        c.log("WARNING: %d mismatch(es) did not reproduce on a fresh run:" % len(unreproduced), unreproduced[:3])
        if not c.violations:
            raise vlib.Infra("the replay saw %d mismatch(es) that did not reproduce on an immediate second run (first: %s); "
                             "environment too noisy or a non-deterministic backend failure, no verdict" % (
                                 len(unreproduced), unreproduced[0][:400]))
    return out


def summarize(out):
    keys = ("edges", "applied", "skipped", "distinct_pre", "distinct_edges", "walks", "walk_steps", "ops", "mismatch_count")
    return {n: {k: r[k] for k in keys} for n, r in out["reports"].items()}


def guard_ops(c, out, ops):
    tot = {}
    for r in out["reports"].values():
        for k, v in r["ops"].items():
            tot[k] = tot.get(k, 0) + v
    for op in ops:
        c.guard("op_" + op, tot.get(op, 0))
    c.guard("walk_steps", sum(r["walk_steps"] for r in out["reports"].values()))
    return tot


def sum_stats(out, adapters=None):
    """Coverage counters of the harness adapters (harness/kv/stats.go), summed; for vacuity guards only."""
    tot = {}
    for name, st in (out.get("stats") or {}).items():
        if adapters is not None and name not in adapters:
            continue
        for k, v in st.items():
            tot[k] = tot.get(k, 0) + int(v)
    return tot


def first_sample(out):
    for r in out["reports"].values():
        if r.get("sample"):
            return [dict(pre=e["pre"], act=e["act"], post=e["post"]) for e in r["sample"][:2]]
    return []


# ---------------------------------------------------------------------------------- the check
def run(c):
    built = prebuild(c)
    ex = c.path("kv_ex.ndjson")
    sim = c.path("kv_sim.ndjson")
    jobs = [dict(module="MC_KV", cfg=c.pick("MC_KV_quick", "MC_KV_thorough"), out=ex, workers=c.pick(3, 5), timeout=c.pick(600, 3000)),
            dict(module="MC_KV", cfg="MC_KV_sim", out=sim, workers=1, timeout=c.pick(600, 3000),
                 simulate="num=%d" % c.pick(20, 250), depth=c.pick(40, 60))]
    (res, conf, ne, ns), (sres, sconf, sne, sns) = gen_parallel(c, jobs)
    if conf != sconf:
        raise vlib.Infra("exhaustive and simulation models disagree on the observation plan")
    c.log("TLC exhaustive: %d distinct states, %d transitions (%d printed, %d state lines, %.0fs); simulation: %d transitions (%.0fs)" % (
        res.distinct, res.generated, ne, ns, res.wall, sne, sres.wall))
    c.guard("tlc_transitions", ne)
    c.guard("tlc_sim_transitions", sne)
    edges = concat(c, "kv_all.ndjson", [ex, sim])
    built()
    adapters = ["%s:%s" % (b, l) for b in BACKENDS for l in LAYERS]
    out = kv_replay(c, "kv", adapters, edges, conf, walks=c.pick(30, 300), wlen=c.pick(60, 150), par=6,
                    clause="kv-semantics")
    c.log("replayed %d transitions on %d stackings; walls %s" % (
        out["edges"], len(adapters), {k: round(v, 1) for k, v in out["wall_s"].items()}))
    guard_ops(c, out, ("put", "del", "bput", "bdel", "bwrite", "breset", "breplay", "snap", "release", "clear", "goto"))
    # every second instance assembles its pre-state through the store's one long-lived batch object: operations queued
    # on an object that has been written and Reset before must have been exercised on every backend family
    st = sum_stats(out)
    c.guard("batch_reuse_ops", st.get("batch_reuse_ops", 0))
    c.guard("batch_reuse_writes", st.get("batch_reuse_writes", 0))
    reports = summarize(out)
    return c.finish("model_checking", dict(
        batch_object_reuse=dict(ops=st.get("batch_reuse_ops", 0), writes=st.get("batch_reuse_writes", 0)),
        states=res.distinct + sns, transitions=res.generated + sne,
        traces_validated_against_impl=sum(r["walks"] for r in reports.values()),
        edges_replayed_on_impl=sum(r["applied"] for r in reports.values()),
        stackings=adapters,
        exhaustive=True,
        rule="complete graph of KV.tla for cfg %s (depth-bounded from the designed initial states, closed by clear/goto) plus "
             "TLC -simulate traces of MC_KV_sim; every transition executed on each of the 18 stackings from a rebuilt pre-state, "
             "comparing Get/Has for %d probe keys and the full result of %d (prefix,start) iterations on the store and on every "
             "live snapshot; plus random walks on long-lived stores" % (jobs[0]["cfg"], len(conf["probe"]), len(conf["iters"])),
        replay=reports, samples=first_sample(out),
    ), assumptions=[
        "after Batch.Write the model only resets the batch (backends differ on writing a batch twice; the property does not say)",
        "Replay 'into the store' on a synced stacking targets the store under the lock wrapper: a synced batch replayed into "
        "its own synced store self-deadlocks (RWMutex held during Replay); treated as misuse, see design-notes/built/kv.md",
        "flushable layers inside a stacking are flushed after every third mutating call (must be invisible)",
        "TLC/SANY/Json module trusted; Go projection = Get/Has/NewIterator only"])
