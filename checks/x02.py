"""X02 (extra, beyond the 33 listed properties): utils/workers, the worker pool of the event processor / fetcher / seeder.
Specs: specs/ext/Workers.tla (queue of at most maxTasks functions, Start / Enqueue / Drain / TasksCount plus the owner's
close(quit) and wg.Wait; every call split into call / internal step(s) / return, the workers contribute Take, Exit and the
logged TaskStart / TaskEnd), MC_Workers.tla (free environment: TLC model-checks the rules at small scope -- bounded queue, a
task is in exactly one place and runs at most once, never more tasks in progress than workers, Drain returns only on an empty
queue, TasksCount is the queue length, Enqueue is refused only after quit, and under fair workers a queue with live workers
empties) and WorkersTrace.tla (patterns L+T): histories recorded from the real pool driven by 1-3 concurrent callers
(call / ret lines, start / end lines written by the task functions themselves) are validated line by line, TLC searching
for the internal steps.  The recorder emits a `stuck` line, which no action matches, when something the rules promise
(a blocked Enqueue returns after quit, live workers empty the queue, workers leave after quit) did not happen within 10 s."""
import json
from concurrent.futures import ThreadPoolExecutor
import vlib


def label(rej):
    rec = rej["record"]
    if not isinstance(rec, dict):
        return "unreadable-line"
    op = rec.get("op")
    if op == "stuck":
        return "stuck:" + rec.get("what", "?").replace(" ", "-")
    if op == "ret":
        fn = "?"
        for l in rej["scenario"][:rej["line"] - 1]:
            if l.get("op") == "call" and l.get("g") == rec.get("g"):
                fn = l["a"]["fn"]
        return "%s-result-not-allowed:%s" % (fn, rec["res"]["s"])
    if op in ("start", "end"):
        return "task-%s-not-allowed" % op
    return "%s-line-not-allowed" % op


def run(c):
    bg = ThreadPoolExecutor(max_workers=3)
    fbuild = bg.submit(c.harness)
    fmc = bg.submit(c.tlc_must_pass, "ext", "MC_Workers", cfg=c.pick("MC_Workers_quick", "MC_Workers_thorough"),
                    workers=c.pick(4, 8), timeout=c.pick(600, 3000))
    flive = bg.submit(c.tlc_must_pass, "ext", "MC_Workers", cfg="MC_Workers_live", workers=2, timeout=600)
    fbuild.result()
    trace = c.path("workers_trace.ndjson")
    stats = json.loads(c.vh(["extworkers", "-runs", c.pick(600, 15000), "-out", trace], timeout=3000).stdout)
    c.log("recorded from the real pool:", stats)
    for g in ("scenarios", "enqueue_ok", "enqueue_refused", "enqueue_overlapped_by_other_lines", "count_nonzero", "drains", "tasks_run",
              "tasks_not_run", "scenario_full", "scenario_drain-noworkers", "scenario_blocked-until-quit", "scenario_rendezvous",
              "scenario_stop-while-busy", "scenario_late-start", "scenario_random"):
        c.guard(g, stats.get(g, 0))
    mc, live = fmc.result(), flive.result()
    c.log("TLC on the rules: %d distinct states / %d transitions (%.0fs); liveness model %d states (%.0fs)" % (
        mc.distinct, mc.generated, mc.wall, live.distinct, live.wall))
    r = vlib.validate_scenarios(c, "ext", "WorkersTrace", trace, lines_per_chunk=4000, max_rej=c.pick(6, 20))
    c.log("trace validation: %d lines, %d scenarios, %d TLC runs, %d rejected" % (r["lines"], r["scenarios"], r["runs"], len(r["rejections"])))
    c.guard("validated_lines", r["validated_lines"])
    for rej in r["rejections"]:
        lab = label(rej)
        c.violation("workers-trace", lab, "Workers.tla has no behaviour that continues the recorded history with line %d %s (scenario %s, queue size %s)" % (
            rej["line"], json.dumps(rej["record"])[:200], rej["scenario"][0].get("scenario"), rej["scenario"][0].get("cap")), replay=rej)
    if r.get("unvalidated_lines"):
        c.notes.append("%d lines after the last kept rejection of a chunk were not validated" % r["unvalidated_lines"])
    with open(trace) as f:
        sample = [json.loads(next(f)) for _ in range(8)]
    return c.finish("model_checking", dict(
        states=max(1, c.tlc_states), transitions=max(1, c.tlc_transitions),
        traces_validated_against_impl=r["scenarios"], trace_lines_validated=r["validated_lines"],
        recorder_statistics=stats,
        rule="MC_Workers.tla (%s) model-checked with a free environment; %d seeded scenarios (1/4 designed: full queue with a busy worker, drain "
             "without workers, callers blocked until quit, rendezvous queue, stop while busy, late start; 3/4 random: queue size 0-3, 0-3 workers, "
             "1-3 callers with 2-5 calls each incl. gated tasks) recorded from the real pool and validated against WorkersTrace.tla" % (
                 c.pick("MC_Workers_quick", "MC_Workers_thorough"), stats.get("scenarios", 0)),
        samples=sample,
    ), assumptions=[
        "call / ret / start / end lines are appended under one mutex: a call's logged interval contains its real interval, a start line follows the real take",
        "quit is closed once; Start is not concurrent with wg.Wait (misuse of sync.WaitGroup otherwise)",
        "liveness is observed through 10 s time-outs of the recorder (`stuck` lines); a host that starves a goroutine that long would raise a false alarm",
        "TLC/SANY/Json/IOUtils modules trusted"])
