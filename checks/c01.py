"""C01 Order-independent agreement on blocks.
(a) exhaustive small scope: TLC explores every DAG of the bounded model Lachesis.tla in every parents-first creation order,
    checking that the blocks are a function of the event set and only grow; every distinct DAG is replayed into the real
    consensus in several orders and the emitted blocks are compared with the model's;
(b) large scope: seeded random multi-epoch DAGs, each fed to four instances in different orders, every call validated
    against the reference specification LachesisTrace.tla."""
from checks import lach_common as lc


def run(c):
    ex = lc.run_exhaustive(c, c.pick(["x31_6", "x11_7", "x211f_5"], ["x31_8", "x11_8", "x21_8", "x31f_7", "x211f_6"]), "order-independence",
                           orders=c.pick(3, 4))
    c.guard("model_dags_with_blocks", ex["total"]["dags_with_blocks"])
    st0 = lc.binding_selftest(c)
    c.guard("binding_selftest_rejections", len(st0.get("rejected") or []))
    if st0.get("corruptions") and len(st0["rejected"]) != len(st0["corruptions"]):
        c.notes.append("binding selftest: corrupted traces accepted: %s" % sorted(set(st0["corruptions"]) - set(st0["rejected"])))
    # DAGs found by TLC simulation of Election.tla: a multi-frame root causes a decision at one of its lower frames and the
    # re-vote then decides more frames; the application seals on the second of those blocks
    casc = lc.run_exhaustive(c, ["corpus:cascade", "corpus:structural"], "order-independence", orders=2)
    c.guard("corpus_seals_inside_a_cascade", casc["total"].get("traced_seals_inside_a_cascade_of_a_multi_frame_root", 0))
    res = lc.run_profile(c, "c01", c.pick(8, 120), "order-independence")
    st = res["stats"]
    c.guard("blocks", st.get("blocks", 0))
    c.guard("seals", st.get("seals", 0))
    c.guard("epochs_with_cheaters", st.get("epochs_with_cheaters", 0))
    return lc.finish(c, res, "(a) every distinct state of the bounded Lachesis.tla model replayed into the real consensus in several "
                     "parents-first orders; (b) seeded random multi-epoch DAGs (3-7 validators, forks < 1/3, lagging/partitioned "
                     "validators), each fed to 4 instances in different orders; every Process call validated against the reference "
                     "specification, whose outputs are a function of the processed set",
                     extra=dict(exhaustive_part=ex["total"], model_samples=ex["samples"], binding_selftest=st0))
