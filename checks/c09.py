"""C09 Epoch sealing switches cleanly to the new validator set; an instance Reset() directly to a later epoch emits
the same blocks for that epoch's events."""
from checks import lach_common as lc


def run(c):
    # DAGs found by TLC simulation of Election.tla: a multi-frame root causes a decision at one of its lower frames and the
    # re-vote then decides more frames; the application seals on the second of those blocks
    casc = lc.run_exhaustive(c, ["corpus:cascade"], "sealing", orders=2)
    c.guard("corpus_seals_inside_a_cascade", casc["total"].get("traced_seals_inside_a_cascade_of_a_multi_frame_root", 0))
    res = lc.run_profile(c, "c09", c.pick(10, 100), "sealing")
    st = res["stats"]
    c.guard("seals", st.get("seals", 0))
    c.guard("blocks", st.get("blocks", 0))
    c.guard("epoch_first_blocks", st.get("epoch_first_blocks", 0))
    c.guard("scenarios", st.get("scenarios", 0))
    c.guard("resets_mid_epoch", st.get("resets_mid_epoch", 0))
    return lc.finish(c, res, "seals scripted at frames 1..5 with mutated/unchanged validator sets; epoch, validator set, last decided frame and block frames checked after every call; instances reset directly to epochs 2 and 3 validated on the same events", extra=None)
