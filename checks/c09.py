"""C09 Epoch sealing switches cleanly to the new validator set; an instance Reset() directly to a later epoch emits
the same blocks for that epoch's events."""
from checks import lach_common as lc


def run(c):
    res = lc.run_profile(c, "c09", c.pick(10, 100), "sealing")
    st = res["stats"]
    c.guard("seals", st.get("seals", 0))
    c.guard("blocks", st.get("blocks", 0))
    c.guard("epoch_first_blocks", st.get("epoch_first_blocks", 0))
    c.guard("scenarios", st.get("scenarios", 0))
    c.guard("resets_mid_epoch", st.get("resets_mid_epoch", 0))
    return lc.finish(c, res, "seals scripted at frames 1..5 with mutated/unchanged validator sets; epoch, validator set, last decided frame and block frames checked after every call; instances reset directly to epochs 2 and 3 validated on the same events", extra=None)
