"""C32 Index encodings are invertible and order preserving.
Specs (specs/fn): Codec.tla (digit definitions BE/LE, limb-wise forms, event id layout); CodecApa.tla (pattern P: round trip and order
preservation over the full 16/32/64-bit ranges, limb-wise = value-wise, event-id order; Apalache); CodecVec.tla (TLC prints the complete
16-bit table and the encodings of boundary/random 32- and 64-bit values given as 16-bit limbs, of event ids and the order of pairs).
The real bigendian/littleendian/idx/dag/hash code is compared with every vector."""
import json
import random

import vlib
from checks import fnlib

BL = [0, 1, 255, 256, 32767, 32768, 65534, 65535]


def jobs(c):
    rnd = random.Random(c.seed)
    out = []
    rl = lambda: rnd.choice([rnd.choice(BL), rnd.randrange(0, 65536)])
    tail = lambda: [rnd.choice([0, 255, rnd.randrange(256)]) for _ in range(24)]
    # 31-bit integers (TLC holds them as numbers): boundaries and random
    ns = {0, 1, 255, 256, 65535, 65536, 2 ** 24 - 1, 2 ** 24, 2 ** 31 - 1, 2 ** 31 - 2, 0x01020304, 0x7F000000}
    while len(ns) < c.pick(300, 3000):
        ns.add(rnd.randrange(0, 2 ** 31))
    out += [dict(k="u32", n=n) for n in sorted(ns)]
    # wide values as limbs: all boundary combinations for 32 bits, all (thorough) or a sample (quick) for 64 bits, random ones
    w32 = [[a, b] for a in BL for b in BL]
    w64 = [[a, b, x, y] for a in BL for b in BL for x in BL for y in BL]
    if c.quick:
        w64 = rnd.sample(w64, 500)
    w32 += [[rl(), rl()] for _ in range(c.pick(300, 3000))]
    w64 += [[rl(), rl(), rl(), rl()] for _ in range(c.pick(300, 3000))]
    out += [dict(k="w", limbs=l) for l in [[x] for x in BL] + w32 + w64]
    # pairs: neighbours (differ in the last limb / carry into the next limb), same value, random
    def nxt(l, d):
        v = (sum(x << (16 * (len(l) - 1 - i)) for i, x in enumerate(l)) + d) % (1 << (16 * len(l)))
        return [(v >> (16 * (len(l) - 1 - i))) & 0xFFFF for i in range(len(l))]
    pairs = []
    for l in rnd.sample(w32, 200) + rnd.sample(w64, 200):
        for d in (1, 255, 256, 65536, 0):
            pairs.append((l, nxt(l, d)))
            pairs.append((nxt(l, d), l))
    for _ in range(c.pick(300, 3000)):
        n = rnd.choice([2, 4])
        a = [rl() for _ in range(n)]
        b = [rl() for _ in range(n)]
        if rnd.random() < 0.5:                       # common prefix: the order is decided in a late byte
            k = rnd.randrange(1, n)
            b[:k] = a[:k]
        pairs.append((a, b))
    out += [dict(k="pair", a=a, b=b) for a, b in pairs]
    # event ids and their order
    ids = [dict(epoch=[rl(), rl()], lamport=[rl(), rl()], tail=tail()) for _ in range(c.pick(300, 3000))]
    ids += [dict(epoch=[a, b], lamport=[x, y], tail=tail()) for a in (0, 65535) for b in (0, 1, 65535) for x in (0, 32768, 65535) for y in (0, 255, 256)]
    out += [dict(k="id", **i) for i in ids]
    for _ in range(c.pick(400, 4000)):
        a = rnd.choice(ids)
        m = rnd.random()
        if m < 0.35:     # same epoch, other lamport; the tail would sort the other way round
            b = dict(epoch=a["epoch"], lamport=nxt(a["lamport"], rnd.choice([1, 255, 256, 65536 * 3])), tail=[255 - t for t in a["tail"]])
        elif m < 0.6:    # other epoch, lamport sorts the other way round
            b = dict(epoch=nxt(a["epoch"], rnd.choice([1, 256, 65536])), lamport=nxt(a["lamport"], 2 ** 32 - 1), tail=tail())
        elif m < 0.7:    # epoch and lamport swapped
            b = dict(epoch=a["lamport"], lamport=a["epoch"], tail=a["tail"])
        else:
            b = rnd.choice(ids)
        out.append(dict(k="idpair", a=a, b=b))
    return out


def run(c):
    each = [(w, inv) for w in (2, 4) for inv in ("RoundTrip", "OrderPreserved", "Injective", "LimbWise", "LimbOrder")] + [(8, "RoundTrip8"), (8, "Order8")]
    combined = [(2, "All24"), (4, "All24"), (8, "All8")]
    text = dict(RoundTrip="decode(encode(n)) = n, both byte orders", OrderPreserved="n < m <=> BE(n) <_bytes BE(m)", Injective="different values differ in a byte",
                LimbWise="bytes of the 16-bit limbs are the bytes of the value", LimbOrder="limb order = value order", All24="round trip, order, injectivity, limb-wise form",
                RoundTrip8="64-bit round trip by 32-bit halves", Order8="64-bit value order = (epoch, lamport) order = byte order of the 8 bytes",
                All8="64-bit round trip and order by 32-bit halves, every 64-bit value is Key(hi, lo), the 8 bytes of Key(e, l) are the bytes of e then of l")
    obls = [("%d-byte values: %s" % (w, text[inv]), "Init", inv, True, ["--cinit=CInit%d" % w]) for w, inv in c.pick(combined, each)]
    if not c.quick:     # (quick: both are conjuncts of All8)
        obls += [("every 64-bit value is Key(hi, lo) of two 32-bit halves", "Init", "Halves", True, ["--cinit=CInit8"]),
                 ("the 8 bytes of Key(e, l) are the 4 bytes of e followed by the 4 bytes of l (event id prefix)", "Init", "SplitDigits", True, ["--cinit=CInit8"])]
    obls += [("non-vacuity: little-endian bytes do NOT order like the values", "Init", "LEOrderPreserved", False, ["--cinit=CInit4"])]
    obl = fnlib.Obligations(c, "fn", "CodecApa", obls, par=c.pick(2, 3), timeout=1500)
    inp = c.path("codec_jobs.ndjson")
    js = jobs(c)
    vlib.ndjson_write(inp, js)
    out = c.path("codec_vec.ndjson")
    res = c.tlc_must_pass("fn", "CodecVec", cfg="CodecVec", env={"IN": inp}, edges_out=out, workers=c.pick(4, 6), timeout=c.pick(900, 3000))
    c.log("TLC: %d vectors (256 blocks of the 16-bit table + %d jobs)" % (res.edges, len(js)))
    rep = fnlib.vec(c, "codec", out, "codec")
    cnt = rep["counts"]
    c.log("codec: %d observations compared, %s" % (rep["compared"], cnt))
    c.guard("values16", cnt.get("values16", 0) if cnt.get("values16", 0) == 65536 else 0)
    for g in ("values32", "values32_ge_2p31", "values64", "pair_cmp_-1", "pair_cmp_0", "pair_cmp_1", "id", "idpair_ordered", "idpair_same_epoch"):
        c.guard(g, cnt.get(g, 0))
    # ---- the mutable event as a state machine (EventId.tla): ids carry the CURRENT epoch/lamport whatever was stamped before
    iedges = c.path("eventid_edges.ndjson")
    ires = c.tlc_must_pass("fn", "EventId", cfg="MC_EventId", edges_out=iedges, workers=4, timeout=900)
    irep = vlib.replay_edges(c, "eventid", iedges, walks=c.pick(300, 3000), wlen=c.pick(20, 40), clause="event-id-machine")
    stale = 0        # Build / SetID on an event whose stamped id carries another epoch or lamport than the current ones
    with open(iedges) as f:
        for l in f:
            e = json.loads(l)
            pre = e["pre"]
            if e["act"]["op"] in ("build", "setid") and any(pre["id"]) and e["act"].get("res", {}).get("id", e["post"]["id"])[:8] != pre["id"][:8]:
                stale += 1
    c.log("EventId: %d states, %d transitions replayed on dag.MutableBaseEvent (%d re-stamp a stale id), %d walks" % (
        ires.distinct, irep["applied"], stale, irep["walks"]))
    c.guard("restamped_stale_ids", stale)
    for op in ("setepoch", "setlamport", "setid", "build"):
        c.guard("eventid_" + op, irep["ops"].get(op, 0))
    # ---- encoders/decoders under a hostile caller (CodecSeq.tla): results are values, inputs are not modified
    qedges = c.path("codecseq_edges.ndjson")
    qres = c.tlc_must_pass("fn", "CodecSeq", cfg="MC_CodecSeq", edges_out=qedges, workers=4, timeout=900)
    qrep = vlib.replay_edges(c, "codec-seq", qedges, walks=c.pick(200, 2000), wlen=c.pick(40, 80), clause="codec-purity")
    c.log("CodecSeq: %d states, %d ordered pairs of encodes replayed (returned slices overwritten and appended to, every encoding decoded twice), %d walks" % (
        qres.distinct, qrep["applied"], qrep["walks"]))
    c.guard("codecseq_pairs", qrep["applied"])
    samples = []
    with open(out) as f:
        for l in f:
            v = json.loads(l)
            if v["k"] == "u16blk":
                if not any(s.get("k") == "u16blk" for s in samples):
                    samples.append(dict(k="u16blk", n0=v["n0"], be=v["be"][:3], le=v["le"][:3], note="first 3 of 256 values of the block"))
            elif not any(s.get("k") == v["k"] for s in samples):
                samples.append(v)
    distinct = cnt.get("values16", 0) + rep["distinct"] - cnt.get("u16blk", 0)
    trivial = 2  # the values 0 (all bytes equal in every order) of each width are counted as trivial
    obl.wait()
    cov = dict(
        evaluations=rep["compared"] + irep["applied"] + irep["walk_steps"] + qrep["applied"] + qrep["walk_steps"],
        codec_purity=dict(states=qres.distinct, transitions=qres.generated, edges_replayed=qrep["applied"], walks=qrep["walks"], walk_steps=qrep["walk_steps"]),
        event_id_machine=dict(states=ires.distinct, transitions=ires.generated, edges_replayed=irep["applied"], restamping_stale_id=stale,
                              walks=irep["walks"], walk_steps=irep["walk_steps"]),
        traces_validated_against_impl=irep["walks"] + qrep["walks"],
        distinct_nontrivial=distinct - trivial,
        rule="complete 16-bit table (65 536 values, TLC-enumerated); 32-bit values: seeded/boundary integers below 2^31 and limb pairs (all 64 combinations of "
             "{0,1,255,256,32767,32768,65534,65535} + random); 64-bit values as 4 limbs (%s boundary combinations + random); pairs of values (neighbours across byte "
             "and limb carries, common prefixes, equal, random) with the order computed by TLC; event ids (epoch, lamport, 24-byte tail) and pairs of ids. Each vector "
             "is compared with bigendian/littleendian encoders and decoders, every idx.*.Bytes/BytesTo*, MutableBaseEvent.Build/SetID and hash.Event.Epoch/Lamport. "
             "EventId.tla: complete state graph of the mutable event (SetEpoch, SetLamport, SetID, Build over 2 epochs x 2 lamports x 2 tails), "
             "every transition replayed on dag.MutableBaseEvent. Distinct = distinct vector lines (table values counted singly); the all-zero values are counted as trivial" % ("500 sampled" if c.quick else "all 4096"),
        vectors=rep["vectors"], classes=cnt, states=c.tlc_states, transitions=c.tlc_transitions, exhaustive=False,
        samples=samples,
    )
    cov.update(obl.summary())
    return c.finish("exploration", cov, assumptions=[
        "round trip and order preservation are proved on the specification for all values of each width (Apalache; the 64-bit case by 32-bit halves); "
        "the Go code is bound to the specification by vectors: exhaustively for 16 bits, by boundary and random values for 32 and 64 bits",
        "values >= 2^31 reach TLC as 16-bit limbs; the limb-wise operators are proved equal to the value-wise ones (CodecApa!LimbWise, LimbOrder) and "
        "checked by TLC on every 31-bit vector (CodecVec!Int32)",
        "event id order is claimed for ids that differ in (epoch, lamport) only, as in the statement",
        "TLC, SANY, Apalache/Z3 and the Json/IOUtils modules are trusted"])
