"""C26 Multi-DB routing is deterministic and isolating.
Spec: specs/kvp/MultiDB.tla (+ MultiDBGrammar.tla, MC_MultiDB.tla).  TLC enumerates every routing table of a
small grammar (default route, exact routes "g", "g/t", pattern routes "ep-%d", "ep-%s", "lp-%d" with several
destinations each) and
 (1) for every table and every request path the candidate routes of RouteOf (longest matching path prefix,
     exact before pattern, Sscanf matching); replayed on multidb.Producer.RouteOf through 50 producer
     instances built from the same Go map: one answer only, and it is a candidate;
 (2) for the unambiguous tables every sequence of OpenDB calls (with a restart from the persisted
     databases in between) and Verify() under a configuration changed in one route; replayed on a
     multidb.Producer over a flaggedproducer and a SyncedPool backend: accepted/refused, RouteOf, and what
     every live store shows after each call (isolation), Verify's verdict.
The invariants Isolated / RecordsDisjoint / ReopenStable / VerifySelf are model-checked on the specification."""
import json
from concurrent.futures import ThreadPoolExecutor

import vlib


def replay(c, adapter, edges, walks, wlen, clause):
    p = c.vh(["replay", "-walks", walks, "-len", wlen, adapter, edges], timeout=3000)
    try:
        rep = json.loads(p.stdout)
    except ValueError:
        raise vlib.Infra("replay report unreadable: " + p.stdout[-500:] + p.stderr[-2000:])
    if rep.get("applied", 0) == 0:
        raise vlib.Infra("replay applied no edge for " + adapter)
    seen = set()
    for m in rep.get("mismatches") or []:
        if m["sig"] in seen:
            continue
        seen.add(m["sig"])
        pre = m["edge"]["pre"]
        c.violation(clause, m["sig"], "%s %s: routing table %s, calls so far %s, call %s: spec wants %s, code gave %s" % (
            adapter, m["kind"], json.dumps(pre.get("rt"), sort_keys=True), json.dumps(pre.get("hist")),
            json.dumps({k: v for k, v in m["edge"]["act"].items() if k != "rt2"}),
            json.dumps(m.get("want"))[:300], json.dumps(m.get("got"))[:300]), replay=m)
    for sig, n in (rep.get("sigs") or {}).items():
        if sig not in seen:
            c.violation(clause, sig, "%s: %d mismatching transitions" % (adapter, n))
    return rep


def run(c):
    route_edges = c.path("mdb_route.ndjson")
    open_edges = c.path("mdb_open.ndjson")
    open_cfg = c.pick("MC_MultiDB_open_quick", "MC_MultiDB_open_thorough")
    with ThreadPoolExecutor(max_workers=2) as ex:
        f1 = ex.submit(c.tlc_must_pass, "kvp", "MC_MultiDB", cfg="MC_MultiDB_route", edges_out=route_edges, workers=2, timeout=1500)
        f2 = ex.submit(c.tlc_must_pass, "kvp", "MC_MultiDB", cfg=open_cfg, edges_out=open_edges, workers=c.pick(4, 6),
                       timeout=c.pick(900, 3000))
        c.harness()
        r1, r2 = f1.result(), f2.result()
    c.log("TLC routing queries: %d tables, %d edges; open/restart/verify: %d states, %d edges" % (
        r1.distinct, r1.edges, r2.distinct, r2.edges))
    # what the emitted edges cover (counted on TLC's output)
    cov = dict(route_queries=0, route_ambiguous=0, route_nested=0, open_ok=0, open_refused=0, reopen=0, open_after_restart=0,
               restart=0, verify_ok=0, verify_fail=0)
    with open(route_edges) as f:
        for line in f:
            a = json.loads(line)["act"]
            cov["route_queries"] += 1
            cov["route_ambiguous"] += len(a["cands"]) > 1
            cov["route_nested"] += "/" in a["req"]
    with open(open_edges) as f:
        for line in f:
            e = json.loads(line)
            a = e["act"]
            hist = e["pre"]["hist"]
            if a["op"] == "open":
                cov["open_ok" if a["res"]["ok"] else "open_refused"] += 1
                cov["reopen"] += any(h.get("req") == a["req"] for h in hist)
                cov["open_after_restart"] += any(h["op"] == "restart" for h in hist)
            elif a["op"] == "restart":
                cov["restart"] += 1
            elif a["op"] == "verify":
                cov["verify_ok" if a["res"]["ok"] else "verify_fail"] += 1
    for k, v in cov.items():
        c.guard(k, v)
    rep1 = replay(c, "multidb-route", route_edges, 0, 1, "routing-deterministic")
    rep2 = replay(c, "multidb", open_edges, c.pick(200, 2000), 8, "open-isolate-verify")
    keep = ("edges", "applied", "skipped", "distinct_pre", "distinct_edges", "walks", "walk_steps", "ops", "mismatch_count")
    return c.finish("model_checking", dict(
        states=c.tlc_states, transitions=c.tlc_transitions,
        traces_validated_against_impl=rep2["walks"],
        edges_replayed_on_impl=rep1["applied"] + rep2["applied"],
        producer_instances_per_routing_query=50,
        exhaustive=True,
        rule="all 216 routing tables of the grammar x all request paths (RouteOf through 50 producer instances each); all OpenDB/"
             "restart sequences and single-route configuration changes of cfg %s on multidb.Producer over flaggedproducer + SyncedPool "
             "backends that restart from persisted contents; compared: accepted/refused, route, every live store's full contents, "
             "Verify verdict" % open_cfg,
        covered=cov, replay={"multidb-route": {k: rep1[k] for k in keep}, "multidb": {k: rep2[k] for k in keep}},
        samples=(rep1.get("sample") or [])[:2] + (rep2.get("sample") or [])[:2],
    ), assumptions=[
        "pattern matching is fmt.Sscanf's (trailing input ignored, %s takes the rest of the request); the unmatched rest of a path is "
        "appended to the table innermost segment first and an unrouted first segment to the database name, as RouteOf returns them",
        "which of several matching pattern routes is taken is left open by the statement: the spec only asks for one answer",
        "the records key and the flush-mark key are filtered from what a store shows (tables that are prefixes of the metadata key are excluded by the statement)",
        "TLC/SANY/Json module trusted; Go projection = iteration over every live store"])
