"""C11 Quorum arithmetic is safe for every validator set.
Specs (specs/fn): Quorum.tla (definitions), QuorumApa.tla (pattern P: the clauses for all totals 1..2^31-1, Apalache),
WeightCounter.tla (pattern R: the counter machine, every transition replayed on pos.WeightCounter),
QuorumVec.tla (TLC-evaluated Quorum() values and construction near the limit), QuorumSweep.tla (TLC validates a
run-length record of the real Quorum() over EVERY total 1..2^31-1, taken through the verif hook)."""
import json
import random

import vlib
from checks import fnlib

MAXT = 2 ** 31 - 1


def blocks(c):
    """first totals of the blocks for which TLC evaluates Q: boundaries plus seeded random ones"""
    n = 1000
    rnd = random.Random(c.seed)
    bases = [1 + k * n for k in range(c.pick(20, 100))]                      # 1..20 000 | 1..100 000 exhaustively
    bases += [2 ** k - n // 2 for k in range(11, 31)]                        # around every power of two
    bases += [MAXT - n + 1, MAXT - 2 * n + 1, 715827882 - n // 2, 1431655765 - n // 2, 2 ** 30 + 2 ** 29 - n // 2]
    bases += [rnd.randrange(1, MAXT - n) for _ in range(c.pick(60, 900))]
    return [dict(t0=b, n=n) for b in bases]


def run(c):
    each = [
        ("uint32 evaluation of total*2/3+1 equals floor(2t/3)+1 for t in 1..2^31-1", "Init", "NoOverflow", True),
        ("overflow-free form used by TLC equals floor(2t/3)+1", "Init", "SafeForm", True),
        ("the whole set reaches the quorum", "Init", "Whole", True),
        ("3a <= 2t implies a < Q(t)", "Init", "TwoThirds", True),
        ("two quorums share more than t/3", "Init", "Intersect", True),
        ("a >= Q(t) iff 3a > 2t", "Init", "Strict", True),
        ("Q(t+3) = Q(t)+2", "Init", "Periodic", True)]
    one = [("for all totals 1..2^31-1 and subset weights: no uint32 overflow, overflow-free form, whole set reaches Q, 3a <= 2t => a < Q, two quorums "
            "share > t/3, a >= Q <=> 3a > 2t, Q(t+3) = Q(t)+2 (one conjunction)", "Init", "AllClauses", True)]
    neg = [("non-vacuity: with the total 2^31 admitted the uint32 evaluation overflows", "InitOver", "NoOverflow", False),
           ("non-vacuity: intersection bound t/3+1 is refuted", "Init", "IntersectTooStrong", False),
           ("non-vacuity: 3a <= 2t+3 may reach the quorum", "Init", "TwoThirdsTooStrong", False)]
    obl = fnlib.Obligations(c, "fn", "QuorumApa", c.pick(one + neg[:1], each + neg), par=c.pick(2, 3))
    # ---- pattern R: the counter machine
    applied = 0
    derived = {}
    reports = {}
    walks = 0
    sample = None
    for cfg in ("MC_WeightCounter_small", "MC_WeightCounter_big"):
        edges = c.path(cfg + ".ndjson")
        res = c.tlc_must_pass("fn", "MC_WeightCounter", cfg=cfg, edges_out=edges, workers=4, timeout=1200)
        c.log("TLC %s: %d distinct states, %d transitions, %d edges" % (cfg, res.distinct, res.generated, res.edges))
        c.guard("edges_" + cfg, res.edges)
        rep = vlib.replay_edges(c, "weightcounter", edges, walks=c.pick(300, 3000), wlen=c.pick(12, 24), clause="weight-counter")
        # the same transitions on counters of DERIVED sets: a copy, a set rebuilt from the set's builder, a set decoded from its RLP encoding
        # (quick tier: on the graph with boundary weights only, 15 584 transitions; thorough: on both graphs)
        for via in (("copy", "builder", "rlp") if (cfg.endswith("big") or not c.quick) else ()):
            drep = vlib.replay_edges(c, "weightcounter-" + via, edges, walks=c.pick(50, 500), wlen=c.pick(12, 24), clause="weight-counter-derived-set")
            derived[via] = derived.get(via, 0) + drep["applied"]
            applied += drep["applied"]
            walks += drep["walks"]
        reports[cfg] = {k: rep[k] for k in ("edges", "applied", "distinct_pre", "distinct_edges", "walks", "walk_steps", "ops", "mismatch_count")}
        applied += rep["applied"]
        walks += rep["walks"]
        sample = sample or rep.get("sample")
    for via in ("copy", "builder", "rlp"):
        c.guard("edges_on_counters_of_" + via, derived.get(via, 0))
    for op in ("count", "countbyidx", "hasquorum", "sum"):
        c.guard("op_" + op, sum(r["ops"].get(op, 0) for r in reports.values()))
    # ---- Quorum() and construction near the limit against TLC-evaluated vectors
    inp = c.path("quorum_blocks.ndjson")
    vlib.ndjson_write(inp, blocks(c))
    out = c.path("quorum_vec.ndjson")
    res = c.tlc_must_pass("fn", "MC_QuorumVec", cfg="MC_QuorumVec", env={"IN": inp}, edges_out=out, workers=4, timeout=1200)
    parts = fnlib.split_lines(out, {'"t0"': c.path("qv.ndjson"), '"ws"': c.path("bv.ndjson")})
    rq = fnlib.vec(c, "quorum", c.path("qv.ndjson"), "quorum-value")
    rb = fnlib.vec(c, "build", c.path("bv.ndjson"), "weight-limit")
    c.log("vectors: %d totals (%d >= 2^30), %d constructions (%d accepted, %d refused)" % (
        rq["counts"].get("totals", 0), rq["counts"].get("totals_ge_2p30", 0), rb["vectors"], rb["counts"].get("accepted", 0), rb["counts"].get("rejected", 0)))
    c.guard("quorum_vectors", rq["counts"].get("totals", 0))
    c.guard("quorum_vectors_ge_2p30", rq["counts"].get("totals_ge_2p30", 0))
    c.guard("build_accepted", rb["counts"].get("accepted", 0))
    c.guard("build_refused", rb["counts"].get("rejected", 0))
    # ---- every total through the real Quorum(), validated by TLC
    seg = c.path("quorum_segments.ndjson")
    st = json.loads(c.vh(["fnsweep", 1, MAXT, 64, seg]).stdout)
    res = c.tlc("fn", "QuorumSweep", cfg="QuorumSweep", env={"SEG": seg}, workers=1, timeout=1200)
    bad = res.printed("BAD")
    swept = [l for l in res.out.splitlines() if l.startswith('<<"SWEPT", 1, %d, ' % MAXT)]
    if not res.clean or (not swept and not bad):
        raise vlib.Infra("QuorumSweep run inconclusive:\n" + vlib.tail(res.out, 40))
    for s in bad[:20]:
        c.violation("quorum-sweep", "sweep:total=%s" % s.get("from"),
                    "real Quorum() over the totals %s..%s (first value %s, steps %s) disagrees with floor(2t/3)+1 or the record does not tile the range" % (
                        s.get("from"), s.get("to"), s.get("qfrom"), s.get("pat")), replay=dict(segment=s, how="vh fnsweep 1 %d 64 <out>; Quorum() via pos.VerifValidatorsWithTotal" % MAXT))
    c.guard("totals_swept", st["totals"] if st["totals"] == MAXT else 0)
    c.log("sweep: %d totals in %d segments, %d disagreeing" % (st["totals"], st["segments"], len(bad)))
    obl.wait()
    cov = dict(
        states=c.tlc_states, transitions=c.tlc_transitions,
        traces_validated_against_impl=walks + 1,
        edges_replayed_on_impl=applied, edges_replayed_on_counters_of_derived_sets=derived,
        quorum_vectors=rq["counts"].get("totals", 0), construction_vectors=rb["vectors"],
        totals_swept_through_real_quorum=st["totals"], sweep_segments=st["segments"],
        exhaustive=True,
        rule="complete state graph of WeightCounter.tla (all weight vectors of 1..4 validators over 1..4, and of 1..3 validators over boundary "
             "weights up to 2^31-1) with every transition replayed on pos.WeightCounter of the built set and of its Copy(), Builder().Build() and RLP round trip; Quorum() of every total 1..2^31-1 recorded from the real "
             "code and validated by TLC (QuorumSweep.tla + Apalache lemma Periodic); TLC-evaluated Quorum values and weight-limit verdicts compared exactly",
        replay=reports, samples=(sample or []) + rq["samples"][:1] + rb["samples"][:1],
    )
    cov.update(obl.summary())
    return c.finish("model_checking", cov, assumptions=[
        "the counted set of a WeightCounter is not readable: compared through Count's result, Sum() and HasQuorum()",
        "Count(id) for ids outside the set and CountByIdx beyond Len() are outside the statement and not exercised",
        "the sweep reads Quorum() through the verif hook VerifValidatorsWithTotal (cached total only); the same method is also run on sets built "
        "through the public builder for every vector",
        "TLC, SANY, Apalache/Z3 and the Json/IOUtils modules are trusted"])
