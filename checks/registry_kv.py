"""Registration data of the KV family (C22 flushable store, C23 backends/wrappers, C24 tables)."""

CHECKS = {
    "C22": dict(
        category="model_checking",
        text="TLC explores specs/kv/Flushable.tla (underlying map + overlay with tombstones, Flush, DropNotFlushed, "
             "NotFlushedPairs, batches, snapshots as frozen views; ghost variables restate the property without an overlay and "
             "invariants/action properties tie both formulations together) exhaustively within a depth bound from designed "
             "(underlying, overlay, batch, snapshot) states and by -simulate; every explored transition is replayed on "
             "flushable.Wrap over memorydb/LevelDB/Pebble, flushable over flushable and LazyFlushable, comparing after each step "
             "Get/Has for all probe keys, 36 (prefix,start) iterations incl. 0xff-boundary prefixes, NotFlushedPairs, the content "
             "of the underlying store and every live snapshot with the values TLC computed; random walks run on long-lived stores. "
             "A batch is a buffer of its own: the state variable bprev marks that the store's one long-lived batch object has been "
             "written and Reset since the last flush/drop, TLC checks ReusedBatchIsBuffered (queueing on it changes nothing the "
             "store, its snapshots or the underlying store show), and the harness realises such states by writing the overlay "
             "through that very batch object (Put.. Write Reset Put.. histories, values of equal length and different content). "
             "Iterators held open across writes/flushes/drops are recorded from the real store and validated by TLC against "
             "FlushableIter.tla (ascending in-range keys, every yielded pair was in the view between creation and yield, no panic).",
        note="Exhaustive only within the bounded model (6-7 keys over the alphabet 0x00,'a','b',0xff, values '' and '1', batches of "
             "<=2-4 operations, values '', '1', '2' in batches, 1-2 snapshot slots, depth 2-3 from 7 designed states); deeper histories are sampled by TLC simulation "
             "and random walks. Held-open iterators are checked only for the weak clauses the statement supports. Pre-states are built "
             "by writing the underlying store directly and the overlay through Put/Delete or the store's batch object. Vacuity guards "
             "count the specification's transitions from reused-batch states and the real batch objects' reuse operations. TLC, SANY and the Json/IOUtils modules are trusted.",
        technique="TLA+ spec + TLC state graph and simulation, edge replay (pattern R) into the Go stores; TLC trace validation (pattern T) for held-open iterators",
        design_ref="DESIGN.md section 5 (C22), section 4.2, section 3 patterns R and T",
    ),
    "C23": dict(
        category="model_checking",
        text="specs/kv/KV.tla is the single reference (ordered byte-string map: put, delete, batch put/delete/write/reset/replay into "
             "the store and into another batch, snapshots, empty value distinct from absent; iteration defined in Bytes.tla as the "
             "ascending keys with the prefix at or after prefix+start). TLC explores it exhaustively within a depth bound and by "
             "-simulate, checking the iteration, batch-order and snapshot clauses on the specification; the same transitions are "
             "replayed on 18 stackings (memorydb, LevelDB, Pebble; each raw and under table, flushable, synced, table over flushable, "
             "flushable over table) comparing Get/Has for all probe keys and the full result of 36 (prefix,start) iterations on the "
             "store and on every live snapshot; random walks run on long-lived databases (one LevelDB/Pebble instance per stacking, "
             "in a scratch directory that is removed).",
        note="Exhaustive only within the bounded model (6-7 keys, 2 values, batches <=2-4, 1-2 snapshots, depth 2-3 from 5 designed "
             "states). After Batch.Write the model only resets the batch. Replay 'into the store' on synced stackings targets the store "
             "under the lock wrapper, because a synced batch replayed into its own synced store self-deadlocks (documented in "
             "design-notes/built/kv.md, reproducible with KV_SYNCED_SELF_REPLAY=1). nil keys/values are out of scope.",
        technique="TLA+ spec + TLC state graph and simulation, edge replay (pattern R) into 18 store stackings",
        design_ref="DESIGN.md section 5 (C23), section 4.2, section 3 pattern R",
    ),
    "C24": dict(
        category="model_checking",
        text="specs/kv/Table.tla models two tables over one underlying store for 9 prefix pairs (empty prefix, 0x00, 'a', 'a\\xff', "
             "'\\xff', '\\xff\\xff', adjacent ranges, prefix-of-one-another, and three NewTable-nested pairs, two of them with "
             "parent/own prefixes that do not commute and one where own+parent is a key the store holds): table view = restriction to "
             "the prefix with the prefix removed, writes/batches/replays into either table/snapshots through a table, direct writes to "
             "the underlying store. TLC checks on the specification that writes stay inside the prefix and that independent tables "
             "never observe each other, and every explored transition is replayed on real tables over a recorder over "
             "memorydb/LevelDB/Pebble comparing both table views, the snapshot view, the raw content of the underlying store and the "
             "set of raw keys each call wrote. Every Compact(nil,nil) range seen by the recorder is validated by TLC against "
             "TableCompact.tla (start <= prefix, limit absent or above every key with the prefix). Tables are also driven the way "
             "callers use them (TableIter.tla, trace validation): iterators held open while lookups and writes go through the same "
             "table, a sibling table and the store underneath, with prefix/key slices that have spare capacity and caller-owned "
             "buffers overwritten after each call; an iterator that saw no write since its creation must yield exactly the view.",
        note="Exhaustive only within the bounded model (3-4 table keys incl. the empty key, 3 noise keys, depth 2 from 2-4 designed "
             "states per prefix pair). Only whole-table compaction is judged. Vacuity guards count snapshot states / real snapshot reads through the nested table of a non-commuting pair. The recorder counts batch keys as written when the batch "
             "is written.",
        technique="TLA+ spec + TLC state graph, edge replay (pattern R) into real tables over a recording store; TLC trace validation of Compact ranges",
        design_ref="DESIGN.md section 5 (C24), section 4.2, section 3 patterns R and T",
    ),
}
