"""C28 Thread-safe components are race free and linearizable.
Linearizability (pattern L): concurrent histories (2-4 goroutines, <= 16 operations, call/ret lines) of the flushable
store, the flush-buffering pool, the thread-safe LRU and the events semaphore are recorded from the real code and TLC
searches for linearization points against the sequential specifications specs/conc/{FlushLin,PoolLin,LRULin,SemLin}.tla;
the ordering buffer's concurrent runs are validated against EventsBuffer.tla (callbacks run under its mutex).
Race freedom is decided by the Go race detector inside a -race build of the harness running workloads that mix all
public operations (the specification decides linearizability only)."""
import json
import os
import re
import shutil
import vlib

COMPONENTS = [("lru", "LRULin"), ("flush", "FlushLin"), ("pool", "PoolLin"), ("sem", "SemLin"), ("pooldrop", "PoolDropLin")]
KNOWN_POOL = "pool:flush-not-atomic-across-databases"


def classify_pool(c, scen):
    """A pool history rejected by PoolLin: is it explained by the recorded finding (Flush not atomic across databases)?"""
    tp = c.path("poolna.ndjson")
    vlib.ndjson_write(tp, scen)
    ok, _, _ = c.validate_trace("conc", "PoolLinNA", tp)
    os.unlink(tp)
    return ok


def run(c):
    d = c._specdir("conc")
    shutil.copy(os.path.join(os.path.dirname(d), "util", "LRU.tla"), d)
    runs = c.pick(250, 3000)
    totals = dict(histories=0, lines=0, ops=0)
    samples = []
    for comp, mod in COMPONENTS + [("poolslow", "PoolLin")]:
        hp = c.path("hist_%s.ndjson" % comp)
        n = runs if comp not in ("poolslow", "pooldrop") else c.pick(45, 200) if comp == "poolslow" else c.pick(120, 1200)
        st = json.loads(c.vh(["concrecord", "-comp", comp, "-runs", n, "-out", hp]).stdout)
        r = vlib.validate_scenarios(c, "conc", mod, hp, lines_per_chunk=2500, max_rej=6)
        c.log("%s: %s; %d lines validated, %d rejections" % (comp, st, r["validated_lines"], len(r["rejections"])))
        totals["histories"] += r["scenarios"]
        totals["lines"] += r["validated_lines"]
        c.guard(comp + "_histories", r["scenarios"])
        if comp == "lru":
            c.guard("lru_duels", st.get("lru_duels", 0))
        for rej in r["rejections"]:
            scen = rej["scenario"]
            if mod == "PoolLin" and classify_pool(c, scen):
                c.violation("linearizability", KNOWN_POOL,
                            "SyncedPool.Flush contains a later write to one database but not an earlier write (by the same goroutine) "
                            "to another database: history rejected by PoolLin.tla, accepted by the non-atomic variant", replay=rej)
                continue
            c.violation("linearizability", "%s:not-linearizable" % comp,
                        "no linearization of the recorded %s history explains %s" % (comp, json.dumps(rej["record"])[:200]), replay=rej)
        if comp == "poolslow":
            c.guard("poolslow_histories", st.get("poolslow_histories", 0))
        with open(hp) as f:
            samples.append([json.loads(next(f)) for _ in range(6)])
    # ordering buffer: concurrent pushers, callbacks linearized by the buffer's mutex
    bt = c.path("buf_conc.ndjson")
    bst = json.loads(c.vh(["bufconc", c.pick(300, 4000), bt]).stdout)
    rb = vlib.validate_scenarios(c, "gossip", "EventsBufferTrace", bt)
    for rej in rb["rejections"]:
        c.violation("linearizability", "buffer:trace-rejected", "EventsBuffer.tla rejects a concurrent run at %s" % json.dumps(rej["record"])[:200], replay=rej)
    totals["histories"] += rb["scenarios"]
    totals["lines"] += rb["validated_lines"]
    c.guard("buffer_histories", rb["scenarios"])
    # race detector
    races = {}
    race_runs = 0
    for i in range(c.pick(2, 10)):
        p = c.vh(["concrace", "all", c.pick(400, 3000)], race=True, check=False, timeout=3000,
                 env={"VERIF_SEED": str(c.seed + i), "GORACE": "halt_on_error=0 exitcode=66"})
        race_runs += 1
        if p.returncode not in (0, 66):
            # the workload died: with race reports before it, or with a panic/fatal error raised inside the library under
            # concurrent use (e.g. a list corrupted by unsynchronised writers), that is an observation of the real code
            m = re.search(r"^(?:panic: .*|fatal error: .*)$", p.stderr, re.M)
            lib = re.search(r"^github\.com/Fantom-foundation/lachesis-base/(\S+?)\(", p.stderr[m.start():] if m else "", re.M)
            if "WARNING: DATA RACE" not in p.stderr and not (m and lib):
                raise vlib.Infra("race workload failed rc=%d: %s" % (p.returncode, p.stderr[-1500:]))
            if m and lib:
                races.setdefault("concurrent-use-crash:" + lib.group(1), p.stderr[m.start():m.start() + 1500])
        for rep in p.stderr.split("WARNING: DATA RACE")[1:]:
            frames = re.findall(r"^  (github\.com/Fantom-foundation/lachesis-base/[^\s(]+(?:\([^)]*\))?[^\s(]*)\(\)", rep, re.M)
            fr = []
            for f in frames:
                f = f.replace("github.com/Fantom-foundation/lachesis-base/", "")
                if f not in fr:
                    fr.append(f)
            # the two access sites: first repo frame of each stack
            blocks = re.split(r"\n\n", rep)
            sites = []
            for b in blocks[:2]:
                m = re.search(r"^  github\.com/Fantom-foundation/lachesis-base/(\S+?)\(\)", b, re.M)
                if m:
                    sites.append(m.group(1))
            sig = "race:" + "|".join(sorted(set(sites))) if sites else "race:" + "|".join(fr[:2])
            races.setdefault(sig, rep[:1500])
    for sig, rep in races.items():
        if sig.startswith("concurrent-use-crash:"):
            c.violation("race-freedom", sig, "the concurrent workload crashed inside the library: " + rep.splitlines()[0], replay=rep)
            continue
        c.violation("race-freedom", sig, "the Go race detector reports a data race between " + sig[5:], replay=rep)
    c.guard("race_runs", race_runs)
    return c.finish("model_checking", dict(
        states=max(1, c.tlc_states), transitions=max(1, c.tlc_transitions),
        traces_validated_against_impl=totals["histories"], trace_lines_validated=totals["lines"],
        race_detector_runs=race_runs, races_reported=len(races),
        rule="seeded concurrent histories (2-4 goroutines, 2-4 operations each, scheduler perturbation) of wlru, Flushable, SyncedPool, "
             "DataSemaphore; TLC searches linearization points against the sequential specs; EventsBuffer concurrent runs validated "
             "against its abstract machine; -race build workloads (2-8 goroutines, all public operations) for race freedom",
        samples=samples,
    ), assumptions=["call/ret lines are appended under one mutex: the logged interval contains the real interval of the call",
                    "race freedom is decided by the Go race detector on the executed workloads, not by a specification",
                    "iterators spanning several calls are exercised under the race detector only (not a single linearizable operation)"])
