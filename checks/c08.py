"""C08 Restart at any event boundary is invisible: the instance is torn down and rebuilt (databases copied, fresh
vector index, Bootstrap) after EVERY accepted event; Restart is a stuttering step of the specification."""
from checks import lach_common as lc


def run(c):
    res = lc.run_profile(c, "c08", c.pick(8, 80), "restart")
    st = res["stats"]
    c.guard("restarts", st.get("restarts", 0))
    c.guard("blocks", st.get("blocks", 0))
    c.guard("seals", st.get("seals", 0))
    return lc.finish(c, res, "restart after every accepted event of multi-epoch runs (including right after decisions and seals); every later call validated", extra=None)
