"""C08 Restart at any event boundary is invisible: the instance is torn down and rebuilt (databases copied, fresh
vector index, Bootstrap) after EVERY accepted event; Restart is a stuttering step of the specification."""
from checks import lach_common as lc


def run(c):
    # every DAG of the bounded fork model, replayed kept-running, restarted after every event and after every third event
    ex = lc.run_exhaustive(c, c.pick(["x211f_5", "corpus:structural", "corpus:frames"], ["x211f_6", "x31f_7", "corpus:structural", "corpus:frames", "corpus:cascade"]), "restart", orders=4, restarts=True)
    c.guard("model_dags_with_forks", ex["total"]["dags_with_forks"])
    res = lc.run_profile(c, "c08", c.pick(10, 80), "restart")
    st = res["stats"]
    c.guard("restarts", st.get("restarts", 0))
    c.guard("blocks", st.get("blocks", 0))
    c.guard("seals", st.get("seals", 0))
    return lc.finish(c, res, "restart after every accepted event of multi-epoch runs (including right after decisions and seals); every later call validated", extra=dict(exhaustive_part=ex["total"], model_samples=ex["samples"]))
