"""C06 Merged vector clock reports highest observed sequence or a fork (vecfc.Index.GetMergedHighestBefore and the
dagidx adapter), compared per event and validator with the definition in the trace specification."""
from checks import lach_common as lc


def run(c):
    vx = lc.run_vecindex(c, c.pick(["v31_5", "v11_5", "corpus:vecmarks", "sim:s211_7@40"], ["v31_6", "v11_6", "v211_5", "corpus:vecmarks", "sim:s211_7@150", "sim:s111_8@150", "sim:s1111_9@150"]), "merged-clock", ["merged-clock", "merged-clock-adapter"])
    c.guard("model_merged_fork_entries", vx["total"].get("merged_fork_entries", 0))
    c.guard("model_states_with_forks", vx["total"].get("states_with_forks", 0))
    c.guard("model_late_fork_marks", vx["total"].get("fork_mark_after_a_parent_with_two_plain_branches", 0))
    res = lc.run_profile(c, "c06", c.pick(10, 120), "merged-clock")
    st = res["stats"]
    c.guard("mhb_queries", st.get("mhb_queries", 0))
    c.guard("mhb_fork_entries", st.get("mhb_fork_entries", 0))
    c.guard("restarts", st.get("restarts", 0))
    return lc.finish(c, res, "merged highest-before vector of every processed event, from the index and from the adapter, two indexing orders, restarts every 7 events", extra=dict(vecindex_model=vx["total"], vecindex_sample=vx["sample"]))
