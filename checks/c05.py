"""C05 Forkless-cause index equals the graph definition: every answer of vecfc.Index.ForklessCause recorded as a query
line and compared by TLC with the definition evaluated on the spec's own ancestry sets."""
from checks import lach_common as lc


def run(c):
    vx = lc.run_vecindex(c, c.pick(["v31_5", "v11_5", "corpus:vecmarks", "sim:s211_7@40"], ["v31_6", "v11_6", "v211_5", "corpus:vecmarks", "sim:s211_7@150", "sim:s111_8@150", "sim:s1111_9@150"]), "forkless-cause", ["forkless-cause"])
    c.guard("model_fc_answers", vx["total"].get("fc_answers", 0))
    c.guard("model_states_with_forks", vx["total"].get("states_with_forks", 0))
    c.guard("model_late_fork_marks", vx["total"].get("fork_mark_after_a_parent_with_two_plain_branches", 0))
    # DAGs found by TLC simulation on which a mis-stated forkless cause (fork of B's creator ignored / cheaters counted) changes frames or Atropoi
    cor = lc.run_exhaustive(c, ["corpus:forkless"], "forkless-cause", orders=3)
    c.guard("corpus_dags", cor["total"].get("states", 0))
    res = lc.run_profile(c, "c05", c.pick(8, 100), "forkless-cause")
    st = res["stats"]
    c.guard("fc_queries", st.get("fc_queries", 0))
    c.guard("fc_true", st.get("fc_true", 0))
    c.guard("restarts", st.get("restarts", 0))
    c.guard("epochs_with_cheaters", st.get("epochs_with_cheaters", 0))
    return lc.finish(c, res, "random and all-pairs forkless-cause queries (warm, cold after restart, after failing adds), three indexing orders per DAG, forkers also beyond one third", extra=dict(vecindex_model=vx["total"], vecindex_sample=vx["sample"]))
