"""C03 Cheater lists name exactly the visible forkers, in canonical order (the canonical order is computed by the spec)."""
from checks import lach_common as lc


def run(c):
    ex = lc.run_exhaustive(c, c.pick(["x31f_6", "x211f_5"], ["x31f_7_full", "x211f_6"]), "cheaters")
    c.guard("model_dags_with_forks", ex["total"]["dags_with_forks"])
    # DAGs in which a validator listed as cheater by one block is not listed by the next (scripted, see corpus/scripts)
    cor = lc.run_exhaustive(c, ["corpus:structural"], "cheaters", orders=2)
    c.guard("corpus_cheater_missing_in_the_next_block", cor["total"].get("traced_cheater_of_a_block_missing_in_the_next_block", 0))
    res = lc.run_profile(c, "c03", c.pick(14, 200), "cheaters")
    st = res["stats"]
    c.guard("blocks", st.get("blocks", 0))
    c.guard("blocks_with_cheaters", st.get("blocks_with_cheaters", 0))
    c.guard("byz_epochs", st.get("byz_epochs", 0))
    c.guard("cheater_lists_not_in_id_order", st.get("cheater_lists_not_in_id_order", 0))
    return lc.finish(c, res, "cheater list of every block compared with the canonical-order list of validators whose fork is visible from the Atropos; runs with forkers >= 1/3 included (block contents given the logged Atropos)", extra=dict(exhaustive_part=ex["total"], model_samples=ex["samples"]))
