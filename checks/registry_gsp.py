"""Registration data of the gsp family (C15 event processor, C16 items fetcher, C17 stream seeder, C18 leechers)."""

CHECKS = {
    "C15": dict(
        category="model_checking",
        text="specs/gsp/Processor.tla is an abstract machine whose guards are the clauses of C15 (exactly-once release of every event "
             "of an accepted and finished batch by Stop, no handling of refused batches, semaphore within capacity / equal to the "
             "unreleased weight when idle / zero after Stop, buffer arrival of an ordered batch in batch order, far-future events "
             "never reach the buffer or Process); MC_Processor.tla closes it with an explicit semaphore and TLC checks balance and "
             "capacity invariants. Seeded concurrent scenarios (random DAGs with missing parents and duplicates, events around the "
             "far-future threshold, 1-8 enqueuers, ordered/unordered batches, failing checks and Process calls, tight capacities and "
             "buffer limits, Stop while batches are in flight: random, with callback jitter, and gated inside HighestLamport) run on the real Processor+DataSemaphore; every Enqueue call/return, Exists, Process, "
             "Released, done callback, idle sample and Stop is recorded with Processing() and the trace is validated by TLC.",
        note="Trace validation of sampled (seeded) concurrent runs, not an enumeration of schedules; the closed model is checked at "
             "small scope only. 'Accepted and finished handling' is judged when Stop returns: the done callback ran and every event of the batch was released or reached the ordering buffer (Stop may interrupt a batch and still runs its done callback). An Enqueue that is still "
             "blocked 1.4 s after its 100 ms timeout (datasemaphore.Acquire has no timer, C30/F10) is unblocked by stopping the "
             "processor and reported as a note, never as a C15 violation.",
        technique="TLA+ abstract spec + TLC model checking of the closed model + TLC trace validation of real-code traces",
        design_ref="DESIGN.md section 5 (C15), section 3 pattern T",
    ),
    "C16": dict(
        category="model_checking",
        text="specs/gsp/Fetcher.tla is an abstract machine with an integer-millisecond clock whose guards are the clauses of C16 "
             "(a request only to a peer that announced the item and only after the item was reported interesting; no request later "
             "than 2 arrive timeouts after the item was reported received / not interesting unless announced anew; at the end of a "
             "6-arrive idle period every announcement of an item that stayed interesting and unreceived has a request within "
             "4 arrive timeouts of the announcement or of the last un-suspension). MC_Fetcher.tla closes it for TLC (safety "
             "invariants, non-vacuity of the liveness obligation). TLC enumerates environment scripts (FetcherScen.tla: 2 peers, "
             "2 items, announce / suspend toggle / receive / interest toggle / wait); each script runs in real time on the real "
             "Fetcher and the recorded trace (announcements, receipts, OnlyInterested calls, requests, ms time stamps) is validated "
             "by TLC against Fetcher.tla.",
        note="Real time with generous margins (arrive 60 ms; the code needs about 0 resp. 1-2 arrive where the spec allows 2 resp. 4): "
             "the harness measures its own sleep overshoot per scenario, re-runs and finally discards scenarios with more than 30 ms, "
             "a rejection is reported only when the same script is rejected again, and a noisy host gives exit 2. Scripts of 3 and 4 "
             "steps are exhaustive, longer ones are a seeded sample of the TLC-enumerated set. Requests made while suspended are not "
             "constrained (the statement does not forbid them).",
        technique="TLA+ abstract spec with integer clock + TLC scenario enumeration + TLC trace validation of real-time traces",
        design_ref="DESIGN.md section 5 (C16), section 3 patterns S and T, section 7 (real-time caveats)",
    ),
    "C17": dict(
        category="model_checking",
        text="specs/gsp/Seeder.tla is an abstract machine whose guards are the clauses of C17 (per session incarnation a cursor: "
             "responses list start..stop-1 consecutively over all requests, exactly one done that completes the range, nothing after "
             "it, every response answers a requested chunk and every requested chunk of an unfinished session is answered when the "
             "seeder is quiet, item count / size at most one item over the request, a session ends only on unregistration or "
             "(possibly) when its peer opens a new session while holding three, pending memory <= limit + one response); TLC checks "
             "its invariants at small scope. TLC enumerates request scripts (SeederScen.tla: peers p,q, session ids 1..4, chunk "
             "counts 0..2, unregistrations, three payload limits) exhaustively for 4 (quick) / 5 (thorough) steps and simulates longer "
             "ones; each script runs on the real BaseSeeder with quiescence after every step and the recorded request / ForEachItem "
             "/ SendChunk log is validated by TLC; a sample of scripts runs again with MaxPendingResponsesSize = 5 and a slow SendChunk, and another sample with slow peers and "
             "*without* quiescence before a request that resumes the session of the step before it (chunks of two requests of one "
             "session in flight together must still enter SendChunk in order).",
        note="Exhaustive within the bounded script space only (canonical session ids, peer q restricted to one session id); longer "
             "scripts are TLC-simulated samples. Quiescence is determined with the add-only verif hooks VerifQueuedNotifications / "
             "VerifPendingResponsesSize and a barrier request of a third peer. Which sessions end when a fourth is opened is left "
             "open; the item-count limit is read as in the statement (one item over is allowed).",
        technique="TLA+ abstract spec + TLC scenario enumeration/simulation + TLC trace validation of real-code traces",
        design_ref="DESIGN.md section 5 (C17), section 3 patterns S and T",
    ),
    "C18": dict(
        category="model_checking",
        text="specs/gsp/BaseLeecher.tla and PeerLeecher.tla are abstract machines whose guards are the clauses of C18 (at most one "
             "session; after UnregisterPeer(p) returned no session with p is running or started later; no session start after "
             "Terminate; requested minus processed chunks never above the parallelism limit; no request while suspended; none after "
             "Done() returned true and the leecher is then stopped); TLC checks these clauses on the closed specifications. TLC "
             "enumerates every environment script (BaseLeecherScen.tla: register/unregister over 2 peers, tick, "
             "ShouldTerminateSession toggle, terminate, both candidate picks; PeerLeecherScen.tla: tick, chunk, processed(i), suspend "
             "toggle, setdone, parallelism 1 and 2) of 5/6 steps (quick) and 7/7 steps (thorough); each script is executed "
             "synchronously on the real BaseLeecher / BasePeerLeecher and the recorded call+callback log is validated by TLC.",
        note="Exhaustive within the bounded script space. The specifications leave open when and how much the leechers request or "
             "start, so a scenario-enumeration + trace-validation binding is used instead of plain edge replay. The peer leecher's "
             "private routine is driven through its loop (50 us ticker) which the harness holds at the start of every routine; "
             "requested-but-unprocessed is counted against the environment's truth.",
        technique="TLA+ abstract specs + TLC scenario enumeration + TLC trace validation of real-code traces",
        design_ref="DESIGN.md section 5 (C18), section 3 patterns S and T",
    ),
}
