"""Helpers shared by the gsp checks (C15-C18).  Kept outside lib/vlib.py (which this family does not own):

validate_many  - pattern T over a large file of concatenated scenarios: the file is streamed into pieces
                 of bounded size (cut at "reset" lines), at most `parallel` TLC instances run at a time,
                 a rejected scenario is recorded and cut out and the rest of its piece is validated again.
scenario_text  - compact rendering of a recorded scenario for a violation description.
"""
import json
import os
import re
import threading
from concurrent.futures import ThreadPoolExecutor

import vlib


def _pieces(trace_path, outdir, tag, reset_marker, lines_per_piece):
    """Stream the trace into piece files cut at scenario boundaries. Returns [(path, nlines, nscen)]."""
    pieces = []
    cur = None
    n = nsc = 0
    k = 0
    first = True
    with open(trace_path) as f:
        for line in f:
            is_reset = reset_marker in line
            if first:
                if not is_reset:
                    raise vlib.Infra("trace does not start with a reset line: " + line[:200])
                first = False
            if is_reset and (cur is None or n >= lines_per_piece):
                if cur is not None:
                    cur.close()
                    pieces.append((p, n, nsc))
                k += 1
                p = os.path.join(outdir, "piece-%s-%d.ndjson" % (tag, k))
                cur = open(p, "w")
                n = nsc = 0
            if is_reset:
                nsc += 1
            cur.write(line)
            n += 1
    if cur is not None:
        cur.close()
        pieces.append((p, n, nsc))
    return pieces


def validate_many(c, family, module, trace_path, cfg=None, reset_op="reset", lines_per_piece=60000, parallel=6,
                  max_rej_piece=3, max_rej_total=12, timeout=1800, heap="3g", env=None):
    """Returns dict(lines, scenarios, runs, validated_lines, rejections=[dict(line, record, scenario)], unvalidated_lines)."""
    marker = '"op":"%s"' % reset_op
    pieces = _pieces(trace_path, c.scratch, module, marker, lines_per_piece)
    if not pieces:
        raise vlib.Infra("empty trace " + trace_path)
    result = dict(lines=sum(p[1] for p in pieces), scenarios=sum(p[2] for p in pieces), runs=0, rejections=[],
                  validated_lines=0, unvalidated_lines=0, pieces=len(pieces))
    lock = threading.Lock()

    def work(idx, path, nlines):
        with lock:
            if len(result["rejections"]) >= max_rej_total:
                result["unvalidated_lines"] += nlines
                os.unlink(path)
                return
        with open(path) as f:
            seg = f.readlines()
        os.unlink(path)
        rej_here = 0
        while seg:
            tp = c.path("chunk-%s-%d-%d.ndjson" % (module, idx, rej_here))
            with open(tp, "w") as f:
                f.writelines(seg)
            ok, rej, res = c.validate_trace(family, module, tp, cfg=cfg, timeout=timeout, heap=heap, env=env)
            os.unlink(tp)
            with lock:
                result["runs"] += 1
            if ok:
                with lock:
                    result["validated_lines"] += len(seg)
                return
            m = re.match(r'<<"REJECTED", (\d+), (.*)>>$', rej)
            ln = int(m.group(1))
            try:
                recj = json.loads(json.loads(m.group(2)))
            except ValueError:
                recj = m.group(2)
            st = [i for i, l in enumerate(seg) if marker in l]
            s0 = max(i for i in st if i <= ln - 1)
            later = [i for i in st if i > s0]
            s1 = later[0] if later else len(seg)
            with lock:
                result["rejections"].append(dict(line=ln - s0, record=recj, scenario=[json.loads(x) for x in seg[s0:s1]]))
                result["validated_lines"] += s0
                total = len(result["rejections"])
            rej_here += 1
            if rej_here >= max_rej_piece or total >= max_rej_total:
                with lock:
                    result["unvalidated_lines"] += len(seg) - s1
                return
            seg = seg[s1:]

    with ThreadPoolExecutor(max_workers=max(1, min(len(pieces), parallel))) as ex:
        futs = [ex.submit(work, i, p, n) for i, (p, n, _) in enumerate(pieces)]
        for f in futs:
            f.result()
    return result


def scenario_text(scn, limit=40):
    out = []
    for r in scn[:limit]:
        r = dict(r)
        op = r.pop("op", "?")
        r.pop("script", None)
        out.append(op + ("(" + ",".join("%s=%s" % (k, json.dumps(v, separators=(",", ":"))) for k, v in sorted(r.items())) + ")" if r else ""))
    if len(scn) > limit:
        out.append("...")
    return " ".join(out)


def head_lines(path, n=12):
    res = []
    with open(path) as f:
        for line in f:
            res.append(json.loads(line))
            if len(res) >= n:
                break
    return res


def report_rejections(c, r, clause, sigprefix, what):
    """Turn trace rejections into violations; signature = <prefix>:<op of the rejected line>-not-allowed."""
    for rej in r["rejections"]:
        recd = rej["record"]
        op = recd.get("op") if isinstance(recd, dict) else "?"
        sig = "%s:%s-not-allowed" % (sigprefix, op)
        c.violation(clause, sig,
                    "%s trace rejected by the specification at line %d %s; history: %s" % (
                        what, rej["line"], json.dumps(recd), scenario_text(rej["scenario"][:rej["line"]])),
                    replay=rej)
    if r.get("unvalidated_lines"):
        c.notes.append("%s: %d trace lines left unvalidated after repeated rejections" % (what, r["unvalidated_lines"]))


# ---------------------------------------------------------------- ./check Cnn --replay <file>
def load_replay(c):
    """Returns the reset line (scenario parameters + script) stored in a replay file written by c.violation."""
    with open(c.replay) as f:
        d = json.load(f)
    rp = d.get("replay") or {}
    if "first" in rp:
        rp = rp["first"]
    scn = rp.get("scenario")
    if not scn:
        raise vlib.Infra("replay file %s holds no recorded scenario" % c.replay)
    return d, scn[0]


def finish_replay(c, r, what):
    """Verdict of a replay run: prints the outcome without touching evidence/."""
    if r["rejections"]:
        rej = r["rejections"][0]
        print("VIOLATION property=%s replay=%s" % (c.pid, c.replay))
        print("  reproduced: %s trace rejected at line %d %s; history: %s" % (
            what, rej["line"], json.dumps(rej["record"]), scenario_text(rej["scenario"][:rej["line"]], 60)))
        return 1
    print("%s: replay of %s conformed (%d lines validated)" % (c.pid, c.replay, r["validated_lines"]))
    return 0
