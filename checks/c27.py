"""C27 Caching producer reference-counts opens.
Spec: specs/kvp/CachedProducer.tla.  TLC explores the tree of all open/close/drop call sequences over
the names {a,b} up to the step bound, checks the clauses of C27 on the specification (same store while
open, underlying close exactly once at the last close, extra close is an error, underlying drop at most
once per open) and emits every transition; each transition is replayed (pattern R) on
cachedproducer.Wrap and cachedproducer.WrapAll over an underlying producer that only counts the
OpenDB/Close/Drop calls reaching it and fails opens on demand (OpenFail).
Concurrent mode (pattern S+T): for every call history up to 3 calls and every ordered pair of possible calls TLC emits a
scenario; the harness issues the second call while the first is held inside its underlying OpenDB/Close/Drop and records the
public calls and the calls reaching the underlying producer; CachedConcTrace.tla validates the order-independent clauses
(underlying drops <= opens, underlying closes <= underlying opens, underlying opens <= OpenDB calls)."""
from concurrent.futures import ThreadPoolExecutor
import json
import re

import vlib

ADAPTERS = ("cached-wrap", "cached-wrapall")


def root_signature(adapter, m):
    """Stable signature of a mismatch: the call that failed and how.  A pre-state that cannot even be
    rebuilt because an earlier call of the history panics is attributed to that call."""
    if m["kind"] in ("error",) and m["op"] == "new":
        mm = re.match(r"panic in (\w+) while rebuilding", str(m.get("got")))
        if mm:
            return "%s:%s:panic" % (adapter, mm.group(1))
    return m["sig"]


def run(c):
    cfg = c.pick("MC_CachedProducer_quick", "MC_CachedProducer_thorough")
    edges = c.path("cached_edges.ndjson")
    conc_scen = c.path("cached_conc_scen.ndjson")
    with ThreadPoolExecutor(max_workers=2) as ex:
        f1 = ex.submit(c.tlc_must_pass, "kvp", "CachedProducer", cfg=cfg, edges_out=edges, workers=c.pick(3, 5), timeout=c.pick(600, 3000))
        f2 = ex.submit(c.tlc_must_pass, "kvp", "CachedProducer", cfg=c.pick("MC_CachedProducer_conc_quick", "MC_CachedProducer_conc_thorough"), edges_out=conc_scen, workers=1, timeout=600)
        c.harness()
        res, res2 = f1.result(), f2.result()
    c.log("TLC: %d distinct states, %d transitions, %d edges emitted" % (res.distinct, res.generated, res.edges))
    c.guard("tlc_edges", res.edges)
    reports = {}
    sample = []
    applied = 0
    walks = 0
    for ad in ADAPTERS:
        p = c.vh(["replay", "-walks", c.pick(300, 3000), "-len", 12, ad, edges], timeout=3000)
        try:
            rep = json.loads(p.stdout)
        except ValueError:
            raise vlib.Infra("replay report unreadable: " + p.stdout[-500:] + p.stderr[-2000:])
        if rep.get("applied", 0) + rep.get("mismatch_count", 0) == 0:
            raise vlib.Infra("replay applied no edge for " + ad)
        seen = {}
        for m in rep.get("mismatches") or []:
            sig = root_signature(ad, m)
            if sig in seen:
                continue
            seen[sig] = True
            c.violation("refcount-model", sig, "%s %s on call history %s then %s: spec wants %s, code gave %s" % (
                ad, m["kind"], json.dumps([[h["op"], h["n"]] for h in (m["edge"]["pre"].get("hist") or [])]),
                json.dumps(m["edge"]["act"]), json.dumps(m.get("want"))[:300], json.dumps(m.get("got"))[:300]), replay=m)
        for sig, n in (rep.get("sigs") or {}).items():
            if sig.endswith(":new:error"):
                continue    # attributed to the failing call above
            if sig not in seen:
                c.violation("refcount-model", sig, "%s: %d mismatching transitions" % (ad, n))
        reports[ad] = {k: rep[k] for k in ("edges", "applied", "skipped", "distinct_pre", "distinct_edges", "walks",
                                            "walk_steps", "ops", "mismatch_count")}
        applied += rep["applied"]
        walks += rep["walks"]
        sample = sample or rep.get("sample") or []
    ops = reports["cached-wrapall"]["ops"]
    for op in ("open", "openfail", "close", "drop"):
        c.guard("op_" + op, ops.get(op, 0))
    # edges whose specified result is the interesting branch of each clause
    kinds = dict(same_store=0, extra_close_error=0, last_close=0, second_drop=0)
    with open(edges) as f:
        for line in f:
            e = json.loads(line)
            a = e["act"]
            if a["op"] == "open" and a["res"]["same"]:
                kinds["same_store"] += 1
            if a["op"] == "close" and a["res"]["err"]:
                kinds["extra_close_error"] += 1
    for k in ("same_store", "extra_close_error"):
        c.guard(k, kinds[k])
    # ---- concurrent mode
    ctrace = c.path("cached_conc_trace.ndjson")
    cstats = json.loads(c.vh(["cachedconc", conc_scen, ctrace], timeout=1800).stdout)
    c.log("concurrent scenarios on the real code:", cstats)
    for g in ("scenarios", "held_in_open", "held_in_close", "held_in_drop", "second_completed_while_first_held", "pair_drop_drop",
              "pair_drop_open", "same_name_pairs"):
        c.guard("conc_" + g, cstats.get(g, 0))
    with open(ctrace) as f:
        for line in f:
            if line.startswith('{"error"'):
                o = json.loads(line)
                c.violation("concurrent-calls", "conc:failure", "overlapping calls made the caching producer fail: %s" % o["error"], replay=o)
                break
    rr = vlib.validate_scenarios(c, "kvp", "CachedConcTrace", ctrace, chunks=c.pick(2, 4))
    for rej in rr["rejections"]:
        recd = rej["record"]
        reset = rej["scenario"][0]
        sig = "conc:%s-not-allowed:%s-during-%s" % (recd.get("op") if isinstance(recd, dict) else "?", reset["y"]["op"], reset["x"]["op"])
        c.violation("concurrent-calls", sig,
                    "%s: after the calls %s, %s(%s) was issued while %s(%s) was held inside its underlying call: the recorded %s is not "
                    "allowed by CachedConcTrace.tla (line %d of the scenario)" % (
                        reset["mode"], json.dumps([[h["op"], h["n"]] for h in reset["hist"]]), reset["y"]["op"], reset["y"]["n"],
                        reset["x"]["op"], reset["x"]["n"], json.dumps(recd), rej["line"]), replay=rej)
    return c.finish("model_checking", dict(
        states=res.distinct, transitions=res.generated,
        traces_validated_against_impl=walks + rr["scenarios"],
        concurrent=dict(scenarios_enumerated_by_tlc=res2.edges, harness=cstats, trace_lines_validated=rr["validated_lines"],
                        rejections=len(rr["rejections"])),
        edges_replayed_on_impl=applied,
        exhaustive=True,
        rule="complete tree of open/close/drop call sequences of CachedProducer.tla for cfg %s; every transition executed on "
             "Wrap and WrapAll from a pre-state rebuilt by executing the call history, comparing the error result, store "
             "identity and the counters of underlying OpenDB/Close/Drop; plus random walks on one long-lived producer" % cfg,
        replay=reports, clause_branches=kinds,
        samples=sample,
    ), assumptions=["Close/Drop are issued on the store most recently returned by OpenDB(name); using a store after its last close is outside the statement",
                    "concurrent mode: only the clauses that do not depend on the order of overlapping calls are checked (drops <= opens, "
                    "closes <= underlying opens, underlying opens <= OpenDB calls); one underlying call is held at a time",
                    "whether a failed OpenDB re-arms the underlying Drop is left open (Drop is not explored between a failed and the next successful open)",
                    "the reference count itself is private: it is observed through the underlying Close counter and the error result",
                    "TLC/SANY/Json module trusted; Go projection = counters of the underlying mock producer"])
