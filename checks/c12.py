"""C12 Validator sets have a canonical, serialisable form.
Specs (specs/fn): Canon.tla (canonical order), Validators.tla (builder machine: TLC enumerates every sequence of Set(id, w)
calls, each transition replayed on pos.ValidatorsBuilder/Validators incl. RLP round trip and Copy), BigStakes.tla (big-stake
scaling: integer level model-checked at L = 3, limb level proved equal at small limbs and evaluated by TLC for stakes up to 2^256
to obtain the expected weights for the real code, L = 31)."""
import json
import random

import vlib
from checks import fnlib

K = 17  # 16-bit limbs per stake


def limbs(x):
    return [(x >> (16 * k)) & 0xFFFF for k in range(K)]


def stake_vectors(c):
    rnd = random.Random(c.seed)
    P = lambda k: 2 ** k
    vs = [[P(31) - 1], [P(31)], [P(31) + 1], [P(31) - 1, 1], [P(31) - 2, 1], [P(30), P(30)], [P(30), P(30) - 1], [P(32) - 1], [P(32)], [P(32), 1, 1],
          [P(32) - 1, P(32) - 1, 5], [P(64), P(63), 3], [P(64) - 1, P(64) - 1], [P(64), 1], [P(255), P(255) - 1], [P(255)], [P(255), P(255)],
          [P(256) - 1], [P(256) - 1] * 4, [P(256) - 1] * 5, [P(256) - 1, 1, 0], [P(256) - 1, P(225), P(224), P(226) - 1, P(225) + 1],
          [0], [0, 0], [5, 0, 7], [3, 3, 3], [1, P(31) - 2], [1, P(31) - 1], [1, P(31)], [P(33) + 5, P(33) + 4, 3, 2, 1], [P(100), P(70), P(69), P(68)]]
    for k in (31, 32, 33, 47, 63, 64, 65, 128, 200, 255):
        vs.append([P(k) - 1, 1])            # the carry pushes the total over a power of two
        vs.append([P(k) - 2, 1])            # ... and here it does not
        vs.append([P(k - 1), P(k - 1) - 1, 1])
    def rstake():
        m = rnd.random()
        if m < 0.1:
            return rnd.choice([0, 1, 2])
        bits = rnd.choice([rnd.randrange(1, 257), rnd.choice([30, 31, 32, 33, 63, 64, 65, 255, 256])])
        x = rnd.getrandbits(bits)
        if m < 0.4:
            x = P(bits) - 1 - rnd.randrange(0, 3) if bits > 2 else x
        elif m < 0.6:
            x = P(bits - 1) + rnd.randrange(0, 3)
        return min(x, P(256) - 1)
    for _ in range(c.pick(250, 4000)):
        n = rnd.randrange(1, 6)
        v = [rstake() for _ in range(n)]
        if rnd.random() < 0.3 and n >= 2:       # near-equal stakes: order and ties after scaling
            v[1] = max(0, v[0] - rnd.randrange(0, 3))
        vs.append(v)
    return vs


def larger_sets(c):
    """sets of 13..40 validators with few distinct weights (ties between other weights), ids in random order"""
    rnd = random.Random(c.seed + 3)
    out = [dict(ids=list(range(1, 14)), ws=[1 + (7 * i) % 3 for i in range(1, 14)])]
    for _ in range(c.pick(60, 600)):
        n = rnd.choice([13, 13, 14, 16, 20, 24, 32, 40])
        ids = rnd.sample(range(1, 200), n)
        k = rnd.choice([2, 3, 3, 4])
        ws = [rnd.randrange(1, k + 1) for _ in range(n)]
        if rnd.random() < 0.3:
            ws = [rnd.choice([1, 1, 1, 5]) for _ in range(n)]          # one big tie group and a few heavier members
        out.append(dict(ids=ids, ws=ws))
    return out


def run(c):
    # ---- canonical form: every Set sequence, replayed
    cfg = c.pick("MC_Validators_quick", "MC_Validators_thorough")
    edges = c.path("validators_edges.ndjson")
    res = c.tlc_must_pass("fn", "Validators", cfg=cfg, edges_out=edges, workers=c.pick(4, 6), timeout=c.pick(900, 3000))
    c.log("TLC %s: %d distinct states, %d transitions, %d edges" % (cfg, res.distinct, res.generated, res.edges))
    c.guard("edges", res.edges)
    rep = vlib.replay_edges(c, "validators", edges, walks=c.pick(200, 2000), wlen=c.pick(4, 5), clause="canonical-form")
    nontriv = set()
    ties = overwrites = deletions = 0
    with open(edges) as f:
        for l in f:
            e = json.loads(l)
            o = e["obs"]
            if o["len"] >= 2:
                nontriv.add(json.dumps([e["pre"]["h"], e["act"]["id"], e["act"]["w"]]))
                if len(set(o["weights"])) < len(o["weights"]):
                    ties += 1
            pm = e["pre"]["m"][e["act"]["id"] - 1]
            if pm != 0 and e["act"]["w"] not in (0, pm):
                overwrites += 1
            if pm != 0 and e["act"]["w"] == 0:
                deletions += 1
    c.guard("sets_with_weight_ties", ties)
    c.guard("overwrites", overwrites)
    c.guard("deletions_by_zero_weight", deletions)
    # ---- canonical order of larger sets (13..40 members with weight ties), expected order evaluated by TLC
    cin, cout = c.path("canon_sets.ndjson"), c.path("canon_vec.ndjson")
    vlib.ndjson_write(cin, larger_sets(c))
    c.tlc_must_pass("fn", "CanonVec", cfg="CanonVec", env={"IN": cin}, edges_out=cout, workers=c.pick(4, 6), timeout=3000)
    rc_ = fnlib.vec(c, "canon", cout, "canonical-form-larger-sets")
    c.log("larger sets: %d sets (13..40 validators) compared in order/index/total, also as Copy, Builder().Build(), RLP round trip" % rc_["vectors"])
    c.guard("larger_sets", rc_["counts"].get("sets_ge_13", 0))
    # ---- big stakes: the clauses at small scope, limb level = integer level
    r_int = c.tlc_must_pass("fn", "MC_BigSmall", cfg=c.pick("MC_BigSmall_int_quick", "MC_BigSmall_int_thorough"), workers=c.pick(4, 6), timeout=3000)
    r_limb = c.tlc_must_pass("fn", "MC_BigSmall", cfg=c.pick("MC_BigSmall_limb_quick", "MC_BigSmall_limb_thorough"), workers=c.pick(4, 6), timeout=3000)
    c.log("BigStakes at L=3: %d stake vectors (clauses), %d stake vectors (limb level = integer level)" % (r_int.distinct, r_limb.distinct))
    # ---- big stakes: the real code (L = 31) against the TLC-evaluated limb level
    vs = stake_vectors(c)
    inp = c.path("stakes.ndjson")
    vlib.ndjson_write(inp, [dict(stakes=[limbs(x) for x in v]) for v in vs])
    out = c.path("bigvec.ndjson")
    r_vec = c.tlc_must_pass("fn", "BigVec", cfg="BigVec", env={"IN": inp}, edges_out=out, workers=c.pick(4, 6), timeout=3000)
    rb = fnlib.vec(c, "bigstakes", out, "big-stakes")
    c.log("big stakes: %d sets built by the real code, %s" % (rb["vectors"], rb["counts"]))
    for g in ("shifted", "with_dropped", "total_ge_2p30"):
        c.guard("big_" + g, rb["counts"].get(g, 0))
    c.guard("big_unshifted", rb["counts"].get("sets", 0) - rb["counts"].get("shifted", 0))
    return c.finish("exploration", dict(
        evaluations=rep["applied"] + rb["vectors"] + rc_["vectors"], larger_sets_compared=rc_["vectors"],
        distinct_nontrivial=len(nontriv) + rb["counts"].get("shifted", 0) if rb["distinct"] == rb["vectors"] else len(nontriv),
        rule="(a) every sequence of Set(id, w) calls of length <= %d over ids {1,2,3} and weights {0..3} (TLC, complete), each executed on the real "
             "builder and compared in SortedIDs/SortedWeights/Idxs/GetIdx/GetID/GetWeightByIdx/Get/Exists/TotalWeight/Len, RLP round trip (into a fresh receiver, into a receiver holding an unrelated set, into a by-value copy of the previous set whose source "
             "must stay unchanged; re-encoded bytes equal), Copy, Builder, and the set staying unchanged when builders derived from it (and from its copy) are mutated; (a2) %d seeded sets of 13..40 validators "
             "with few distinct weights, canonical order/index/total evaluated by TLC (CanonVec.tla), compared on the built set, its copy, its rebuilt and its decoded form; "
             "non-trivial = distinct call sequences whose resulting set has >= 2 members; (b) big-stake vectors (boundary around 2^31, 2^32, 2^64, 2^255, "
             "2^256-1 and seeded random, 1-5 stakes), expected weights evaluated by TLC from BigStakes.tla; non-trivial = distinct vectors with a non-zero shift"
             % (4 if c.quick else 5, rc_["vectors"]),
        states=c.tlc_states, transitions=c.tlc_transitions, traces_validated_against_impl=rep["walks"],
        edges_replayed_on_impl=rep["applied"], distinct_call_sequences=rep["distinct_edges"],
        big_stake_vectors=rb["vectors"], big_stake_counts=rb["counts"],
        small_scope_stake_vectors_model_checked=r_int.distinct, limb_level_agreement_vectors=r_limb.distinct,
        exhaustive=False,
        replay={k: rep[k] for k in ("edges", "applied", "distinct_pre", "distinct_edges", "walks", "walk_steps", "ops", "mismatch_count")},
        samples=(rep.get("sample") or [])[:2] + rb["samples"][:2],
    ), assumptions=[
        "stakes are non-negative (a negative *big.Int stake is outside the statement)",
        "big-stake expectations come from the limb-level operators of BigStakes.tla evaluated by TLC; their agreement with the integer-level "
        "statement is model-checked for 2-bit limbs only (same operators, LB is a parameter)",
        "the part (a) graph is complete for the bounded alphabet; part (b) is sampling, hence the level is exploration",
        "TLC, SANY and the Json/IOUtils modules are trusted; go-ethereum rlp is the codec used by the code itself"])
