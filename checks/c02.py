"""C02 Each block delivers exactly the new ancestry of its Atropos.
Exhaustive small scope (Lachesis.tla invariants NoDoubleConfirm, AncestryClosed, AtroposIsRoot; every state replayed into the
real consensus, delivered events compared as sets with multiplicity) + trace validation of random multi-epoch DAGs where
LachesisTrace.tla checks per block: delivered = anc[atropos] \\ confirmed with multiplicity one, frame numbers 1,2,3.. per
epoch, Atropos is a root of its frame."""
from checks import lach_common as lc


def run(c):
    ex = lc.run_exhaustive(c, c.pick(["x31_6_full"], ["x31_8_full", "x11_8_full", "x31f_7_full"]), "block-contents")
    c.guard("model_dags_with_blocks", ex["total"]["dags_with_blocks"])
    # DAGs found offline by the harness's generator in which one event is elected Atropos of two consecutive frames
    # (a root that passed several frames); no model expectation: the trace specification decides
    cor = lc.run_exhaustive(c, ["corpus:structural"], "block-contents", orders=3)
    c.guard("corpus_atropos_of_two_frames", cor["total"].get("traced_atropos_of_two_frames", 0))
    c.guard("corpus_older_fork_branch_deliveries", cor["total"].get("traced_blocks_delivering_an_older_fork_branch", 0))
    res = lc.run_profile(c, "c02", c.pick(20, 200), "block-contents")
    st = res["stats"]
    c.guard("blocks", st.get("blocks", 0))
    c.guard("seals", st.get("seals", 0))
    c.guard("blocks_with_cheaters", st.get("blocks_with_cheaters", 0))
    c.guard("blocks_over_260_events", st.get("blocks_over_260_events", 0))
    return lc.finish(c, res, "every block of every recorded run compared with anc[atropos] \\ confirmed (set and multiplicity), frame numbering and root-ness by the trace specification; bounded model states replayed", extra=dict(exhaustive_part=ex["total"], model_samples=ex["samples"]))
