"""C04 Frame rule: processing and building agree with the specification.
Wrong-frame clones, speculative builds with arbitrary parents, lazily chosen (lower but allowed) frames, build histories of
1..767 sparse speculative builds at the same epoch/Lamport in front of the build of a root (default-size index caches), and
the +100 cap (a validator sleeping for >100 frames)."""
from checks import lach_common as lc


def run(c):
    ex = lc.run_exhaustive(c, c.pick(["x31lazy_6"], ["x31lazy_7_full", "x31_8_full", "x11_8_full"]), "frame-rule")
    c.guard("model_states", ex["total"]["states"])
    # DAGs found by TLC simulation on which a mis-stated frame rule (roots registered only under their final frame, first events
    # allowed to climb, cheaters counted in forkless cause) would assign or accept other frames
    cor = lc.run_exhaustive(c, ["corpus:frames"], "frame-rule", orders=3)
    c.guard("corpus_dags", cor["total"].get("states", 0))
    res = lc.run_profile(c, "c04", c.pick(21, 210), "frame-rule")
    st = res["stats"]
    c.guard("clone_rejected", st.get("clone_rejected", 0))
    c.guard("builds", st.get("builds", 0))
    c.guard("build_after_history", st.get("build_after_history", 0))
    c.guard("resets_with_other_weights", st.get("resets_with_other_weights", 0))
    c.guard("builds_at_cap", st.get("builds_at_cap", 0))
    c.guard("accepted", st.get("accepted", 0))
    return lc.finish(c, res, "every Process verdict (accepted / wrong frame) and every Build result compared with Allowed / BuildFrame of the specification", extra=dict(exhaustive_part=ex["total"], model_samples=ex["samples"]))
