"""Registration data of the msc family (C19, C20, C21, C30, C33); lib/mkmanifest.py merges it into MANIFEST.json."""

CHECKS = {
    "C19": dict(
        category="exploration",
        text="The relation Valid(existing, options, strategies, metric, result) of specs/msc/ParentSelect.tla is written from the "
             "statement; TLC (MC_ParentSelect.tla) enumerates every small input (existing-parent lists with repeats, option lists "
             "with overlaps and duplicates, 0..3 strategies free/metric, metric tables over {0,1,2}), the real "
             "ancestor.ChooseParents is run 21 times on each (options reach the strategies in Go map order; free strategies pick "
             "first/last/random; the metric ranks are embedded into uint64 through seven increasing maps incl. values 2^63 apart "
             "and MaxUint64), and TLC validates every distinct logged result against Valid (ParentSelectTrace.tla). TLC also "
             "checks that the relation is satisfiable and fixes the number of new parents for every small input.",
        note="Exploration by model enumeration: exhaustive over the bounded input alphabet (3-4 parent ids), not over all inputs; the "
             "choice of free strategies and the order of options are left open by the relation, so only 21 executions per input "
             "sample that nondeterminism. Metric entries of parents that cannot be added are fixed to 0.",
        technique="TLA+ relation + TLC input enumeration (pattern S) + TLC validation of logged results (pattern T)",
        design_ref="DESIGN.md section 5 (C19), section 3 patterns S and T",
    ),
    "C20": dict(
        category="model_checking",
        text="specs/msc/QuorumIndexer.tla defines Median(v) as the largest s such that the validators whose latest processed event "
             "observed v at s or above hold a quorum (a fork is the maximal observation) and Metric(c) as the sum of the diff "
             "function over validators. TLC explores the complete state graph for 3 validators, several weight vectors and "
             "observation vectors over {0,1,2,FORK}, checks on the specification that the median is attained, maximal, an "
             "observation and monotone, and every explored transition is replayed on a real ancestor.QuorumIndexer (stub DagIndex "
             "returning the script's clocks, injective diff function), comparing GetGlobalMedianSeqs and GetMetricOf of every "
             "candidate clock; random walks run on long-lived indexers.",
        note="Exhaustive within the bounded alphabet (3 validators, 2 weight vectors per quick run selected by the seed, one with a "
             "total divisible by 3 and one without / 8 in the thorough tier, 4-6 observation vectors). The DagIndex is a stub: the real vecfc clocks are the subject of C06 and are "
             "not in this loop (DESIGN.md's optional second mode was not built).",
        technique="TLA+ spec + TLC exhaustive state graph, edge replay into the Go quorum indexer (pattern R)",
        design_ref="DESIGN.md section 5 (C20), section 3 pattern R",
    ),
    "C21": dict(
        category="exploration",
        text="specs/msc/DoubleSign.tla states the guard in exact integer arithmetic (Permitted, Wait = min(MaxDur, max_i(threshold - "
             "(now - t_i))), Parallel). Apalache proves over the whole int64 range that the verdict is consistent with the statement "
             "(permitted iff every timestamp is old enough; a timestamp-caused refusal carries a positive wait, equal to the longest "
             "remaining time or the cap) and three scale obligations that let TLC evaluate the operators at 16 ticks per unit instead "
             "of 2^60 ns. TLC evaluates them on boundary vectors (timestamps 0, +-1, +-7, +-8, +-9, +-20 units of 2^60 ns around now "
             "with +-1 ns offsets, thresholds from MinInt64 to MaxInt64, no-peer / not-synced flags); every vector is converted to "
             "time.Time / time.Duration and run through the real SyncedToEmit / DetectParallelInstance in nine representations of the "
             "same instants (location, monotonic reading, construction, origin moved to before the zero instant of time.Time; unset timestamps = the zero instant in five "
             "representations); the set of distinct verdicts/waits must be the singleton TLC gives.",
        note="The specification is proved symbolically, the code is bound to it by boundary vectors only (each timestamp alone, "
             "pairs, triples in the thorough tier): a defect confined to unsampled timestamps is not detected. No peer / sync "
             "unfinished: an error is required, the wait is unconstrained (DESIGN.md section 7). The identity of the error is not "
             "compared.",
        technique="TLA+ arithmetic spec + Apalache obligations (pattern P) + TLC-evaluated vectors replayed on the Go functions (pattern R)",
        design_ref="DESIGN.md section 5 (C21), section 7 (interpretation of C21), section 3 patterns P and R",
    ),
    "C30": dict(
        category="model_checking",
        text="specs/msc/Semaphore.tla models the two-dimensional semaphore with call / linearization / return steps and is "
             "model-checked for the time-free clauses (held within capacity, grants only when fitting, nothing granted after "
             "Terminate, over-release reported). TLC enumerates driver scripts of acquire/try/release/terminate/sleep steps "
             "(SemScenarios.tla) and scripts with two or three concurrently blocked callers of different sizes and releases that "
             "fit only some of them (SemContention.tla), and scripts in which a caller with a finite timeout is woken late by "
             "insufficient releases and must still be refused within timeout + slack (SemLateWake.tla); each script runs in real time on a real DataSemaphore (blocking calls in goroutines, a settle "
             "pause after every step, final Terminate) and the recorded call/ret/warn/settled lines are validated by TLC against "
             "SemaphoreTrace.tla, which searches linearization points and adds the time clauses: refusal by timeout within "
             "[timeout, timeout+150 ms], at every settled point nobody is in flight whose request fits, exceeds the capacity or is "
             "overdue, and Processing() equals the specified held amount.",
        note="Real time without an injectable clock: generous margins (30 ms settle, 150 ms slack), a rejected scenario is run a "
             "second time (alone, same step timing) before it is reported and a host on which rejections do not reproduce yields exit 2. Scripts of 3 steps "
             "are exhaustive in the quick tier, longer ones sampled by the seed; the thorough tier runs all scripts of 4 and 5 "
             "steps of the small alphabet and a sample of a larger alphabet.",
        technique="TLA+ abstract spec (TLC) + TLC script enumeration + TLC trace validation with internal linearization steps (patterns S, T, L)",
        design_ref="DESIGN.md section 5 (C30), section 3 patterns S, T, L, section 7 (real-time caveats)",
    ),
    "C33": dict(
        category="model_checking",
        text="specs/msc/RootStore.tla keeps, per frame, the set of (creator, id) registered in the current epoch (no cache in the "
             "specification). TLC explores every interleaving of AddRoot / GetFrameRoots / SwitchEpoch up to a bounded number of calls "
             "(frames 1..3, 2 validators, 3 ids) plus the complete graph of a smaller alphabet, checks the registry clauses on the "
             "specification, and every transition is replayed on a real abft.Store over memorydb under the 16 cache configurations "
             "RootsNum x RootsFrames in {0,1,2,50} x {0,1,2,5}: the pre-state is established through one of five histories (cold "
             "cache, warmed before / after the registrations, after an earlier epoch that left roots behind, interleaved with "
             "queries), GetFrameRoots is compared as a set with the specification's answer and a per-edge subset of frames is "
             "probed afterwards; random walks run on long-lived stores without reads between the steps.",
        note="Exhaustive up to 3 calls (quick) / 4 calls (thorough; VERIF_C33_DEPTH=5 or 6 selects the deeper configurations) instead "
             "of the 6 of DESIGN.md, because every edge costs 16 store instances; longer histories are covered by the five "
             "pre-state histories and by walks of 30-40 steps over a complete graph. Answers are compared as sets: the real store "
             "returns a duplicate entry when the same root is registered again while its frame is cached.",
        technique="TLA+ spec + TLC exhaustive bounded state graph, edge replay into abft.Store under 16 cache configurations (pattern R)",
        design_ref="DESIGN.md section 5 (C33), section 3 pattern R",
    ),
}
