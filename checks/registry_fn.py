"""Registration data of family fn (C11, C12, C13, C31, C32); merged into MANIFEST.json by lib/mkmanifest.py."""

CHECKS = {
    "C11": dict(
        category="model_checking",
        text="TLC explores the complete state graph of specs/fn/WeightCounter.tla (all weight vectors of 1-4 validators over weights 1-4, and of 1-3 "
             "validators over boundary weights whose sums reach 2^31-1) and every transition (Count, CountByIdx, HasQuorum, Sum) is replayed on the real "
             "pos.WeightCounter of the built set and of the sets derived from it (Copy(), Builder().Build(), RLP round trip); the real Validators.Quorum() is run for EVERY total 1..2^31-1 (verif hook) and the run-length record of its values is "
             "validated by TLC against floor(2t/3)+1 (QuorumSweep.tla); 10^5-10^6 TLC-evaluated Quorum values and ~4 700 constructions near the weight "
             "limit (2^31-1 accepted, 2^31 and wrap-arounds refused) are compared exactly. Apalache proves on the specification, for all totals "
             "1..2^31-1 and all subset weights: no uint32 overflow, whole set reaches the quorum, <= 2/3 does not, two quorums share > 1/3 "
             "(reported as extra obligations, each shown non-vacuous by a refuted strengthening).",
        note="The counter graph is exhaustive for the bounded alphabet only (<= 4 validators). The sweep of Quorum() is exhaustive over totals but reads the "
             "total through the verif hook (cached total only); sets built through the public builder are covered by the vectors. The segment validation "
             "relies on the Apalache lemma Q(t+3) = Q(t)+2. Count(id) for non-members and CountByIdx out of range are outside the statement.",
        technique="TLA+ spec + TLC exhaustive state graph with edge replay into Go; TLC validation of an exhaustive run-length trace of the real function; "
                  "Apalache for the arithmetic clauses",
        design_ref="DESIGN.md section 5 (C11), section 3 patterns R and P",
    ),
    "C12": dict(
        category="exploration",
        text="TLC enumerates every sequence of Set(id, w) calls (ids 1-3, weights 0-3, length <= 4 quick / <= 5 thorough) of specs/fn/Validators.tla, "
             "model-checks that the constructive canonical order is the declarative one (descending weight, ties by ascending id) and replays every transition "
             "on the real builder, comparing SortedIDs/SortedWeights/Idxs/GetIdx/GetID/GetWeightByIdx/Get/Exists/TotalWeight/Len with the specification and "
             "requiring RLP decode(encode(v)) (into a fresh receiver, into a receiver that already holds an unrelated set, and into a by-value copy of the "
             "previous set whose source must stay unchanged; re-encoded bytes equal), Copy() and Builder().Build() to show the same form, and the set (and its copy) to stay unchanged when builders derived from them are mutated. "
             "Seeded sets of 13-40 validators with few distinct weights are compared with the TLC-evaluated canonical order (CanonVec.tla). Big stakes: BigStakes.tla is model-checked at L = 3 over "
             "all small stake vectors (total fits, order kept, shift minimal, zeroed stakes dropped) and its limb-level operators, proved equal to the integer "
             "level for 2-bit limbs, are evaluated by TLC with 16-bit limbs for boundary (2^31, 2^32, 2^64, 2^255, 2^256-1) and seeded random stakes; the "
             "real ValidatorsBigBuilder.Build() (L = 31) is compared exactly with those values.",
        note="The canonical-form part is exhaustive within the bounded alphabet (model_checking strength); the big-stake part binds the code by vectors only, "
             "hence the claimed category is the weaker one. Stakes are assumed non-negative.",
        technique="TLA+ spec + TLC exhaustive call-sequence enumeration with edge replay; TLC-evaluated limb arithmetic as oracle for big-stake vectors",
        design_ref="DESIGN.md section 5 (C12), section 3 pattern R",
    ),
    "C13": dict(
        category="exploration",
        text="specs/fn/EventCheck.tla transcribes the statement of C13 as twelve named clauses (WellFormed); TLC enumerates (EventCheckVec.tla) every "
             "combination of the boundary values {0,1,2,2^31-3,2^31-2,2^31-1} for seq/epoch/frame/lamport with current epoch equal/different, creator "
             "validator or not and templated parent lists, plus ordinary field values with EVERY parent list of length 0-2 (quick) / 0-3 (thorough) over "
             "creator {self, other} x seq {-2,-1,0} x lamport {-2,-1,0} x {event, fork twin}, duplicates included (2.7*10^4 / ~6*10^5 vectors); each vector is "
             "run through eventcheck.Checkers.Validate on real events: accepted <=> WellFormed. EventCheckSeq.tla: every sequence of up to 3 (quick) / 4 (thorough) "
             "calls (reader changes its epoch/validators, events validated) runs on ONE Checkers value; the verdict must follow the reader's answer at call time. "
             "Vectors with field values up to 2^32-1 are validated by Apalache against the same WellFormed operator.",
        note="Exploration by model enumeration: exhaustive over the stated value sets only. Field values >= 2^31 are not enumerated (TLC integers are 32-bit). "
             "Non-trivial vectors (well-formed or violating exactly one clause) are counted separately; a vacuity guard requires each single clause to be the "
             "only violated one in some vector.",
        technique="TLA+ statement-level predicate + TLC enumeration of boundary vectors, each executed on the Go checkers",
        design_ref="DESIGN.md section 5 (C13)",
    ),
    "C31": dict(
        category="exploration",
        text="specs/fn/PieceFunc.tla transcribes NewFunc's validation and Func.Get with the real unit 10^6 and states the clauses. TLC checks the clauses on "
             "every small dot list (all x) and evaluates Get for seeded lists with coordinates <= 2000 (valid and invalid, arguments at/next to/between dots): "
             "2*10^4 (quick) to 2*10^5 (thorough) values compared EXACTLY with piecefunc.NewFunc(dots)(x), panics compared with ValidDots. At the range "
             "extremes (coordinates up to maxVal, x up to 2^64-1, coordinates just beyond the limit) the real code's results are recorded and Apalache "
             "checks that PieceFunc!Get/ValidDots yield the same. PieceSeq.tla treats the returned function as a sequential object whose result must not "
             "depend on earlier lookups: every ordered pair of lookups on 26 lists of 3-4 dots is replayed on ONE function instance, plus random walks; tables of up to 17 dots are queried at every dot. "
             "Extra obligations (Apalache, one pair of neighbouring dots over the whole range "
             "0..maxVal): no uint64 overflow, lo-1 <= f <= hi, |f-exact| <= |dy|/10^6+2, exact at the dots; the tightenings +1 and f >= lo are refuted.",
        note="The specification is proved symbolically for one piece over the full range, but the Go code is bound to it by vectors; a defect confined to "
             "an unsampled region of the 2^64 domain would go unnoticed. Piece selection is model-checked on small lists only.",
        technique="TLA+ transcription + TLC small-scope model checking and vector evaluation; Apalache symbolic arithmetic and validation of recorded extreme cases",
        design_ref="DESIGN.md section 5 (C31), section 3 pattern P",
    ),
    "C32": dict(
        category="exploration",
        text="specs/fn/Codec.tla defines BE(w, n)/LE(w, n) by digits, their limb-wise forms and the event-id layout. TLC prints the complete 16-bit table and "
             "the encodings of boundary and seeded random 32-/64-bit values (as 16-bit limbs; 31-bit values also as integers), the order of pairs of values and "
             "event ids with pairs of ids; bigendian/littleendian encoders and decoders, every idx.*.Bytes/BytesTo*, MutableBaseEvent.Build/SetID and "
             "hash.Event.Epoch/Lamport are compared with every vector, bytes.Compare with the TLC-computed order. EventId.tla models dag.MutableBaseEvent as a "
             "state machine (SetEpoch, SetLamport, SetID, Build in every order): every transition is replayed and Build must yield BE4(epoch) o BE4(lamport) o tail "
             "for the CURRENT values. CodecSeq.tla: every ordered pair of encodes per width runs in one process while the harness overwrites and appends to every "
             "returned slice and decodes every encoding twice from one buffer (results are values, inputs are not modified). Extra obligations (Apalache, all values of "
             "each width): decode(encode(n)) = n, n < m <=> BE(n) <_bytes BE(m), limb-wise = value-wise, 64-bit and event-id order by 32-bit halves; "
             "little-endian order preservation is refuted (non-vacuity).",
        note="Exhaustive for 16 bits; 32- and 64-bit values are bound by boundary/random vectors. The 64-bit obligations are discharged compositionally "
             "(Z3 does not finish them on a single 64-bit variable). Id order is claimed only for ids differing in (epoch, lamport).",
        technique="TLA+ digit definitions + TLC vector evaluation (limb sequences above 2^31); Apalache symbolic arithmetic",
        design_ref="DESIGN.md section 5 (C32), section 3 pattern P",
    ),
}
