"""C13 Event checkers accept exactly well-formed events.
Specs (specs/fn): EventCheck.tla transcribes the statement (WellFormed and its named clauses); EventCheckVec.tla lets TLC enumerate
events with boundary field values and every small parent list, printing the verdict for each; every vector is run through
eventcheck.Checkers.Validate on real tdag events (accept <=> WellFormed)."""
import vlib
from checks import fnlib

SINGLE = ["seq_range", "epoch_range", "frame_range", "lamport_range", "distinct", "epoch_current", "creator_valid", "lamport_next",
          "self_first", "self_iff_seq", "self_seq"]


def run(c):
    cfg = c.pick("MC_EventCheck_quick", "MC_EventCheck_thorough")
    out = c.path("eventcheck_vec.ndjson")
    res = c.tlc_must_pass("fn", "MC_EventCheck", cfg=cfg, edges_out=out, workers=c.pick(4, 6), timeout=c.pick(900, 3000))
    c.log("TLC %s: %d states, %d vectors" % (cfg, res.distinct, res.edges))
    rep = fnlib.vec(c, "eventcheck", out, "accept-iff-well-formed")
    cnt = rep["counts"]
    c.log("Checkers.Validate on %d vectors: %d well-formed, %d violating exactly one clause" % (
        rep["vectors"], cnt.get("well_formed", 0), cnt.get("violating_1_clauses", 0)))
    c.guard("vectors", rep["vectors"])
    c.guard("well_formed", cnt.get("well_formed", 0))
    for n in SINGLE:
        c.guard("only_" + n, cnt.get("only_" + n, 0))
    nontrivial = cnt.get("well_formed", 0) + cnt.get("violating_1_clauses", 0)
    return c.finish("exploration", dict(
        evaluations=rep["vectors"],
        distinct_nontrivial=nontrivial if rep["distinct"] == rep["vectors"] else min(nontrivial, rep["distinct"]),
        rule="all states of EventCheckVec.tla for cfg %s: (fields) every combination of {0,1,2,2^31-3,2^31-2,2^31-1} for seq/epoch/lamport (frame: %s), "
             "current epoch equal/different, creator validator or not, with 8 parent-list templates; (parents) seq in {1,2,3} x lamport in {1..%d} with every "
             "parent list of length 0..%d over creator{self,other} x seq{-2,-1,0} x lamport{-2,-1,0} x {event, fork twin}, duplicates included. "
             "Non-trivial = distinct vectors that are well-formed or violate exactly one clause of the statement (the acceptance boundary)" % (
                 cfg, "4 values" if c.quick else "6 values", 3 if c.quick else 4, 2 if c.quick else 3),
        vectors_by_class=cnt, states=res.distinct, transitions=res.generated, exhaustive=True,
        samples=rep["samples"],
    ), assumptions=[
        "field values >= 2^31 are not enumerated (TLC integers are 32-bit); the statement's bound 2^31-2 and both neighbours are",
        "parents are real tdag.TestEvent objects of the event's epoch; entries with the same identity k are the same event (same hash)",
        "the parents slice handed to Validate corresponds to e.Parents() (the API panics otherwise)",
        "TLC, SANY and the Json module are trusted"])
