"""C13 Event checkers accept exactly well-formed events.
Specs (specs/fn): EventCheck.tla transcribes the statement (WellFormed and its named clauses); EventCheckVec.tla lets TLC enumerate
events with boundary field values and every small parent list, printing the verdict for each; every vector is run through
eventcheck.Checkers.Validate on real tdag events (accept <=> WellFormed)."""
import json
import os
import random

import vlib
from checks import fnlib

SINGLE = ["seq_range", "epoch_range", "frame_range", "lamport_range", "distinct", "epoch_current", "creator_valid", "lamport_next",
          "self_first", "self_iff_seq", "self_seq"]


def wide_cases(c):
    """vectors with field values beyond 2^31 (up to 2^32-1): single-field changes of two well-formed events, wrap-arounds"""
    rnd = random.Random(c.seed)
    W = c.pick([2 ** 31 - 2, 2 ** 31, 2 ** 32 - 1], [2 ** 31 - 3, 2 ** 31 - 2, 2 ** 31 - 1, 2 ** 31, 2 ** 31 + 1, 2 ** 32 - 2, 2 ** 32 - 1])
    sp = dict(creator=1, seq=1, lamport=3, k=1)
    op = dict(creator=2, seq=7, lamport=2, k=2)
    base2 = dict(e=dict(creator=1, epoch=5, seq=2, frame=3, lamport=4), ps=[sp, op], cur=5, vals=[1, 2])
    base1 = dict(e=dict(creator=1, epoch=5, seq=1, frame=3, lamport=1), ps=[], cur=5, vals=[1, 2])
    out = [base1, base2]
    cp = lambda b: json.loads(json.dumps(b))
    for b in (base1, base2):
        for f in ("seq", "epoch", "frame", "lamport"):
            for w in W:
                v = cp(b)
                v["e"][f] = w
                if f == "epoch":
                    v["cur"] = w                     # the epoch IS the current one, only its size is wrong
                out.append(v)
    for w in W:
        # consistent big events: seq/lamport follow huge parents
        v = cp(base2); v["ps"][0]["seq"] = w; v["e"]["seq"] = (w + 1) % 2 ** 32; out.append(v)
        v = cp(base2); v["ps"][1]["lamport"] = w; v["e"]["lamport"] = (w + 1) % 2 ** 32; out.append(v)
        v = cp(base2); v["ps"][1]["lamport"] = w; out.append(v)                                # huge parent lamport, small own one
        v = cp(base2); v["ps"][1]["seq"] = w; out.append(v)                                    # other parent's seq is irrelevant
        v = cp(base2); v["e"]["creator"] = w; v["ps"][0]["creator"] = w; v["vals"] = [w, 2]; out.append(v)   # huge validator id
        v = cp(base2); v["e"]["creator"] = w; v["ps"][0]["creator"] = w; out.append(v)                        # ... not a validator
    for _ in range(c.pick(20, 200)):
        v = cp(rnd.choice([base1, base2]))
        for f in rnd.sample(["seq", "epoch", "frame", "lamport"], rnd.randrange(1, 3)):
            v["e"][f] = rnd.choice([rnd.choice(W), rnd.randrange(2 ** 31, 2 ** 32)])
        if rnd.random() < 0.5:
            v["cur"] = v["e"]["epoch"]
        if v["ps"] and rnd.random() < 0.5:
            v["ps"][0]["seq"] = (v["e"]["seq"] - 1) % 2 ** 32
            v["ps"][1]["lamport"] = (v["e"]["lamport"] - 1) % 2 ** 32
        out.append(v)
    return out


def run(c):
    # ---- values beyond TLC's integers: record the real verdicts, Apalache compares them with WellFormed
    win, wout = c.path("event_wide_in.ndjson"), c.path("event_wide_out.ndjson")
    vlib.ndjson_write(win, wide_cases(c))
    c.vh(["fnevent", win, wout])
    wide = vlib.ndjson_read(wout)
    with c._lock:
        specdir = c._specdir("fn")
    with open(os.path.join(specdir, "EventWide.tla"), "w") as f:
        f.write(fnlib.event_wide_module("EventWide", wide))
    wide_obl = fnlib.Obligations(c, "fn", "EventWide", [("recorded verdicts of Checkers.Validate on %d vectors with values up to 2^32-1 equal WellFormed" % len(wide),
                                                         "Init", "All", True)], par=1)
    cfg = c.pick("MC_EventCheck_quick", "MC_EventCheck_thorough")
    out = c.path("eventcheck_vec.ndjson")
    res = c.tlc_must_pass("fn", "MC_EventCheck", cfg=cfg, edges_out=out, workers=c.pick(4, 6), timeout=c.pick(900, 3000))
    c.log("TLC %s: %d states, %d vectors" % (cfg, res.distinct, res.edges))
    rep = fnlib.vec(c, "eventcheck", out, "accept-iff-well-formed")
    cnt = rep["counts"]
    c.log("Checkers.Validate on %d vectors: %d well-formed, %d violating exactly one clause" % (
        rep["vectors"], cnt.get("well_formed", 0), cnt.get("violating_1_clauses", 0)))
    c.guard("vectors", rep["vectors"])
    c.guard("well_formed", cnt.get("well_formed", 0))
    for n in SINGLE:
        c.guard("only_" + n, cnt.get("only_" + n, 0))
    # ---- one long-lived Checkers value while the epoch reader's answer changes (EventCheckSeq.tla)
    sedges = c.path("checkseq_edges.ndjson")
    sres = c.tlc_must_pass("fn", "MC_EventCheckSeq", cfg=c.pick("MC_EventCheckSeq_quick", "MC_EventCheckSeq_thorough"), edges_out=sedges, workers=4, timeout=1800)
    srep = vlib.replay_edges(c, "eventcheck-seq", sedges, walks=0, wlen=1, clause="verdict-from-current-reader-answer")
    late = 0      # validations of an event of an epoch the reader has LEFT after an earlier validation on the same checker
    with open(sedges) as f:
        for l in f:
            e = json.loads(l)
            if e["act"]["op"] == "validate" and not e["act"]["res"]:
                hs = e["pre"]["h"]
                if any(o["op"] == "validate" and o["e"]["epoch"] == e["act"]["e"]["epoch"] for o in hs) and any(o["op"] == "setreader" for o in hs):
                    late += 1
    c.log("EventCheckSeq: %d call sequences, %d transitions replayed on one Checkers value each (%d refusals after an earlier validation and a reader change)" % (
        sres.distinct, srep["applied"], late))
    c.guard("refusals_after_reader_change", late)
    # ---- Apalache verdict on the wide vectors
    wide_bad = []
    try:
        wide_obl.wait()
    except vlib.Infra as e:
        if "unexpected outcome" not in str(e):
            raise
        for k in fnlib.find_failing(c, "fn", "EventWide", lambda ex: fnlib.event_wide_module("EventWide", wide, ex), "Sel", len(wide)):
            cs = wide[k]
            wide_bad.append(cs)
            c.violation("accept-iff-well-formed", "eventcheck:wide:%s" % ("accepted-ill-formed" if cs["accepted"] else "rejected-well-formed"),
                        "Checkers.Validate %s %s; EventCheck!WellFormed (Apalache) says the opposite" % (
                            "accepted" if cs["accepted"] else "rejected (%s)" % cs["error"], json.dumps(dict(e=cs["e"], ps=cs["ps"], cur=cs["cur"], vals=cs["vals"]))),
                        replay=cs)
        if not wide_bad:
            raise vlib.Infra("EventWide conjunction failed but no single case does")
    c.guard("wide_vectors_accepted", len([w for w in wide if w["accepted"]]))
    c.guard("wide_vectors_rejected", len([w for w in wide if not w["accepted"]]))
    nontrivial = cnt.get("well_formed", 0) + cnt.get("violating_1_clauses", 0)
    return c.finish("exploration", dict(
        evaluations=rep["vectors"] + len(wide) + srep["applied"], call_sequences_on_one_checker=srep["applied"],
        wide_vectors_validated_by_apalache=len(wide), wide_vectors_disagreeing=len(wide_bad), apalache_runs=wide_obl.results,
        distinct_nontrivial=nontrivial if rep["distinct"] == rep["vectors"] else min(nontrivial, rep["distinct"]),
        rule="all states of EventCheckVec.tla for cfg %s: (fields) every combination of {0,1,2,2^31-3,2^31-2,2^31-1} for seq/epoch/lamport (frame: %s), "
             "current epoch equal/different, creator validator or not, with 8 parent-list templates; (parents) seq in {1,2,3} x lamport in {1..%d} with every "
             "parent list of length 0..%d over creator{self,other} x seq{-2,-1,0} x lamport{-2,-1,0} x {event, fork twin}, duplicates included. "
             "Plus %d vectors with values up to 2^32-1 validated by Apalache. Non-trivial = distinct TLC vectors that are well-formed or violate exactly one clause of the statement (the acceptance boundary)" % (
                 cfg, "4 values" if c.quick else "6 values", 3 if c.quick else 4, 2 if c.quick else 3, len(wide)),
        vectors_by_class=cnt, states=c.tlc_states, transitions=c.tlc_transitions, exhaustive=True,
        samples=rep["samples"],
    ), assumptions=[
        "field values >= 2^31 are not enumerated by TLC (32-bit integers); they are covered by a smaller set of vectors (single-field changes, wrap-arounds, "
        "seeded random) whose real verdicts are validated by Apalache against the same WellFormed operator",
        "histories: every sequence of up to %d calls (reader changes over 2 epochs x 2 validator sets, validations of 4 first events) runs on ONE Checkers value; "
        "the verdict must follow the reader's answer at call time" % (3 if c.quick else 4),
        "parents are real tdag.TestEvent objects of the event's epoch; entries with the same identity k are the same event (same hash)",
        "the parents slice handed to Validate corresponds to e.Parents() (the API panics otherwise)",
        "TLC, SANY and the Json module are trusted"])
