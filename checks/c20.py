"""C20 Quorum indexer medians and metrics follow their definition.
Spec: specs/msc/QuorumIndexer.tla -- Median(v) = the largest s such that the validators whose latest
processed event observed v at s or above hold a quorum of weight (a fork is the maximal observation),
Metric(c) = sum over validators of diff(median, own latest observation, candidate's observation).
TLC explores the complete state graph for 3 validators, several weight vectors and a set of
observation vectors over {0,1,2,FORK}, checking on the specification that the median is attained, is
maximal, is an observation and is monotone.  Every explored transition is replayed (pattern R) on a
real ancestor.QuorumIndexer fed by a stub DagIndex whose clocks are the script's vectors and by the
injective diff function of MC_QuorumIndexer.tla; GetGlobalMedianSeqs and GetMetricOf of every
candidate clock are compared with the specification's values after each step."""
import vlib


def run(c):
    cfg = c.pick("MC_QuorumIndexer_q%d" % (c.seed % 4), "MC_QuorumIndexer_thorough")
    edges = c.path("qi_edges.ndjson")
    res = c.tlc_must_pass("msc", "MC_QuorumIndexer", cfg=cfg, edges_out=edges, workers=c.pick(4, 6), timeout=c.pick(900, 3000))
    c.log("TLC %s: %d distinct states, %d transitions, %d edges" % (cfg, res.distinct, res.generated, res.edges))
    c.guard("tlc_edges", res.edges)
    rep = vlib.replay_edges(c, "quorumindexer", edges, walks=c.pick(300, 4000), wlen=c.pick(40, 80), clause="median-metric")
    c.log("replay: %d edges applied, %d walks / %d steps, %d mismatches" % (rep["applied"], rep["walks"], rep["walk_steps"], rep["mismatch_count"]))
    # vacuity: the explored states must contain fork medians, non-zero medians and medians below the best observation
    fork_median = nonzero = below_max = self_edges = 0
    weights = set()
    with open(edges) as f:
        import json
        for line in f:
            e = json.loads(line)
            med = e["obs"]["median"]
            lat = e["post"]["latest"]
            weights.add(tuple(e["pre"]["w"]))
            if 2147483646 in med:
                fork_median += 1
            if any(0 < m < 2147483646 for m in med):
                nonzero += 1
            if any(med[v] < max(lat[u][v] for u in range(3)) for v in range(3)):
                below_max += 1
            if e["act"].get("self"):
                self_edges += 1
    c.guard("states_with_fork_median", fork_median)
    c.guard("states_with_nonzero_median", nonzero)
    c.guard("states_with_median_below_best_observation", below_max)
    c.guard("self_events", self_edges)
    c.guard("weight_vectors", len(weights))
    c.guard("total_weights_divisible_by_3", len([w for w in weights if sum(w) % 3 == 0]))
    c.guard("total_weights_not_divisible_by_3", len([w for w in weights if sum(w) % 3 != 0]))
    keys = ("edges", "applied", "skipped", "distinct_pre", "distinct_edges", "walks", "walk_steps", "ops", "mismatch_count")
    return c.finish("model_checking", dict(
        states=res.distinct, transitions=res.generated,
        traces_validated_against_impl=rep["walks"],
        edges_replayed_on_impl=rep["applied"],
        exhaustive=True,
        rule="complete reachable graph of QuorumIndexer.tla for cfg %s (3 validators, weight vectors %s, observation values "
             "{0,1,2,FORK}); every transition executed on a real QuorumIndexer rebuilt in the pre-state, comparing "
             "GetGlobalMedianSeqs and GetMetricOf of every candidate clock; plus random walks on long-lived indexers" % (
                 cfg, sorted(weights)),
        replay={k: rep[k] for k in keys},
        samples=rep.get("sample") or [],
    ), assumptions=["the DagIndex is a stub returning the script's merged clocks; the real vecfc index is not in the loop (its "
                    "clocks are the subject of C06)",
                    "diff function = injective encoding of (median, current, update, validator) from MC_QuorumIndexer.tla",
                    "validator ids 1..3; medians are re-ordered from validator index to id through Validators.GetIdx"])
