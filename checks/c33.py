"""C33 Root registry returns exactly the registered roots.
Spec: specs/msc/RootStore.tla (no cache in the specification).  TLC explores every interleaving of
AddRoot / GetFrameRoots / SwitchEpoch up to a bounded number of calls over frames 1..3, 2 validators,
3 ids and checks the registry clauses on the specification; every explored transition is replayed on
a real abft.Store over memorydb under the 16 cache configurations RootsNum x RootsFrames in
{0,1,2,50} x {0,1,2,5} (pattern R).  Because the only public reader (GetFrameRoots) also changes the
hidden cache, the pre-state of each edge is established through several different histories and only
a per-edge subset of frames is read afterwards; random walks over a closed (unbounded) graph on a
smaller alphabet run on one long-lived store without any read between the steps."""
import json
import os
import vlib


def roots_replay(c, edges, extra, clause):
    p = c.vh(["rootsreplay"] + extra + [edges], timeout=3000)
    try:
        rep = json.loads(p.stdout)
    except ValueError:
        raise vlib.Infra("rootsreplay report unreadable: " + p.stdout[-500:] + p.stderr[-2000:])
    kept = set()
    for m in rep.get("mismatches") or []:
        kept.add(m["sig"])
        c.violation(clause, m["sig"], "abft.Store cache=%s history=%s %s frame %s: spec wants %s, code gave %s (%s)" % (
            m.get("cache"), m.get("variant") or "walk", m["kind"], m.get("frame"), json.dumps(m.get("want"))[:300],
            json.dumps(m.get("got"))[:300], m.get("mode")), replay=m)
    for sig, n in (rep.get("sigs") or {}).items():
        if sig not in kept:
            c.violation(clause, sig, "rootstore: %d mismatching transitions" % n)
    return rep


def run(c):
    depth = os.environ.get("VERIF_C33_DEPTH") or c.pick("3", "4")
    cfg = "MC_RootStore_d" + depth
    edges = c.path("roots_edges.ndjson")
    # one worker: the step counter is hidden from the VIEW, so only a strict breadth-first search reaches every state
    # first at its smallest depth and expands exactly the states within the bound (deterministic edge set)
    res = c.tlc_must_pass("msc", "MC_RootStore", cfg=cfg, edges_out=edges, workers=1, timeout=c.pick(600, 3000))
    c.log("TLC %s: %d distinct states, %d transitions, %d edges" % (cfg, res.distinct, res.generated, res.edges))
    c.guard("tlc_edges", res.edges)
    rep = roots_replay(c, edges, ["-variants", "rotate", "-par", 6], "root-registry")
    c.log("edge replay: %d edges x %d configurations, %d store instances, %d probes, %d mismatches" % (
        rep["edges"], rep["configs"], rep["applied"], rep["probes"], rep["mismatch_count"]))
    if rep["edges"] != res.edges:
        raise vlib.Infra("replayed %d of %d edges" % (rep["edges"], res.edges))
    # closed graph (no step bound) on a smaller alphabet: long walks on one store
    ccfg = c.pick("MC_RootStore_closed2", "MC_RootStore_closed3")
    cedges = c.path("roots_closed.ndjson")
    cres = c.tlc_must_pass("msc", "MC_RootStore", cfg=ccfg, edges_out=cedges, workers=6, timeout=c.pick(600, 3000))
    c.log("TLC %s: %d distinct states, %d edges (complete graph)" % (ccfg, cres.distinct, cres.edges))
    wrep = roots_replay(c, cedges, ["-variants", "rotate", "-par", 6, "-walks", c.pick(150, 1500), "-len", c.pick(30, 40)],
                        "root-registry")
    c.log("closed graph: %d edges replayed, %d walks, %d steps, %d queries (%d on a frame queried before), %d mismatches" % (
        wrep["edges"], wrep["walks"], wrep["walk_steps"], wrep["walk_gets"], wrep["gets_on_warm_cache"], wrep["mismatch_count"]))
    for op in ("add", "get", "switch"):
        c.guard("op_" + op, rep["ops"].get(op, 0))
    c.guard("nonempty_answers", rep["nonempty_gets"])
    c.guard("walk_queries", wrep["walk_gets"])
    c.guard("walk_queries_on_warm_cache", wrep["gets_on_warm_cache"])
    if rep["duplicate_entries_in_answers"] + wrep["duplicate_entries_in_answers"]:
        c.notes.append("GetFrameRoots answers contained %d duplicate entries (same frame, creator and id registered again while the "
                       "frame was cached); answers are compared as sets, as the statement says" % (
                           rep["duplicate_entries_in_answers"] + wrep["duplicate_entries_in_answers"]))
    return c.finish("model_checking", dict(
        states=res.distinct + cres.distinct, transitions=res.generated + cres.generated,
        traces_validated_against_impl=wrep["walks"],
        edges_replayed_on_impl=rep["applied"] + wrep["applied"],
        probes_compared=rep["probes"] + wrep["probes"],
        cache_configurations=rep["configs"], history_variants=rep["variants"],
        exhaustive=True,
        rule="all transitions of RootStore.tla within %s calls (frames 1..3, 2 validators, 3 ids) plus the complete graph of %s; "
             "every transition executed on a fresh abft.Store for each of the 16 cache configurations, the pre-state established "
             "through a history variant rotating over (edge, configuration), GetFrameRoots compared as a set with act.res and, "
             "for a per-edge subset of frames, with the post-state; %d walks of %d steps on long-lived stores" % (
                 depth, ccfg, wrep["walks"], c.pick(30, 40)),
        replay=dict(bounded={k: rep[k] for k in ("edges", "applied", "probes", "ops", "nonempty_gets", "mismatch_count")},
                    closed={k: wrep[k] for k in ("edges", "applied", "probes", "walks", "walk_steps", "walk_gets",
                                                  "gets_on_warm_cache", "mismatch_count")}),
        samples=(rep.get("sample") or [])[:2] + (wrep.get("sample") or [])[:1],
    ), assumptions=["answers are compared as sets of (frame, creator, id); an id of another epoch is projected to a negative id",
                    "epoch switch = Orderer.Reset(epoch+1, validators) on a bootstrapped Orderer over the store",
                    "TLC/SANY/Json module trusted"])
