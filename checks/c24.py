"""C24 Tables isolate their key spaces.
Spec: specs/kv/Table.tla (two tables over one underlying store, 9 prefix pairs incl. empty, 0x00/0xff
boundaries, prefix-of-one-another and NewTable-nested pairs, two of them with non-commuting parent/own prefixes; table view = stripped restriction; writes,
batches, replays into either table, snapshots through a table, direct writes to the underlying store) and
specs/kv/TableCompact.tla (trace spec: the range Compact(nil,nil) hands to the underlying store covers the
prefix).  TLC explores the bounded model; every transition is replayed (pattern R) on real tables over a
recorder over memorydb / LevelDB / Pebble, comparing both table views, the snapshot view, the raw content of
the underlying store and the set of raw keys each call wrote; recorded Compact ranges are validated by TLC.
Tables are also used the way callers use them (pattern T, specs/kv/TableIter.tla): iterators held open while
lookups and writes go through the same table, a sibling table under the same parent and the store underneath,
with prefix/key slices that have spare capacity and caller-owned buffers that are overwritten after each call;
an iterator that saw no write since its creation must yield exactly the table view."""
import json
import os

import vlib
from checks import c23 as kvlib


def hexs(b):
    return "".join("%02x" % x for x in b)


def noncommuting(cf):
    """nested configuration whose parent prefix and own prefix do not commute (one character per byte)"""
    if not cf["nested"]:
        return False
    own = cf["p2"][len(cf["p1"]):]
    return cf["p1"] + own != own + cf["p1"]


def spec_nested_snapshots(path, conf):
    """States of Table.tla with a live snapshot taken through the nested table of a non-commuting configuration:
    (all, those whose snapshot view of that table is non-empty, those where the store also holds a key under the
    prefixes taken in the wrong order own+parent)."""
    n = nonempty = foreign = 0
    with open(path) as f:
        for line in f:
            if not line.startswith('{"key"'):
                continue
            if '"live":true' not in line:
                continue
            st = json.loads(line)["state"]
            sn = st["snap"]
            cf = conf["cfgs"][st["cfg"] - 1]
            if not (sn["live"] and sn["t"] == 2 and noncommuting(cf)):
                continue
            n += 1
            keys = [p[0] for p in sn["view"]]
            wrong = cf["p2"][len(cf["p1"]):] + cf["p1"]
            if any(k.startswith(cf["p2"]) for k in keys):
                nonempty += 1
            if any(k.startswith(wrong) for k in keys):
                foreign += 1
    return n, nonempty, foreign


def start_table_iter(c, conf):
    """Record and validate the held-open-iterator scenarios in a thread while the edge replay runs."""
    import threading
    box = {}

    def work():
        try:
            confp = c.path("conf-titer.json")
            with open(confp, "w") as f:
                json.dump(conf, f)
            tr = c.path("table_iter_trace.ndjson")
            box["ist"] = json.loads(c.vh(["kvtiter", "-conf", confp, c.pick(200, 3500), tr]).stdout)
            box["tv"] = vlib.validate_scenarios(c, "kv", "TableIter", tr, chunks=c.pick(3, 6))
        except Exception as e:  # noqa: BLE001  (re-raised by the waiter)
            box["err"] = e

    t = threading.Thread(target=work)
    t.start()

    def wait():
        t.join()
        if "err" in box:
            raise box["err"]
        return box["ist"], box["tv"]
    return wait


def run(c):
    built = kvlib.prebuild(c)
    ex = c.path("tb_ex.ndjson")
    cfg = c.pick("MC_Table_quick", "MC_Table_thorough")
    res, conf, ne, ns = kvlib.gen_edges(c, "MC_Table", cfg, ex, workers=c.pick(4, 5), timeout=c.pick(600, 3000))
    c.log("TLC: %d distinct states, %d transitions (%d printed, %d state lines, %.0fs)" % (res.distinct, res.generated, ne, ns, res.wall))
    c.guard("tlc_transitions", ne)
    built()
    titer = start_table_iter(c, conf)
    adapters = ["rec:mem", "rec:ldb", "rec:peb"]
    out = kvlib.kv_replay(c, "tb", adapters, ex, conf, walks=c.pick(40, 300), wlen=c.pick(60, 150), par=3,
                          clause="table-view")
    c.log("replayed %d transitions on %d table stacks; walls %s" % (
        out["edges"], len(adapters), {k: round(v, 1) for k, v in out["wall_s"].items()}))
    kvlib.guard_ops(c, out, ("tput", "tdel", "rput", "rdel", "tbput", "tbdel", "tbwrite", "tbreset", "tbdrop", "tbreplay",
                             "tsnap", "trelease", "compact", "clear", "goto"))
    # ---- snapshots taken through a nested table (Table.NewTable) whose prefixes do not commute
    nsn = spec_nested_snapshots(ex, conf)
    c.guard("spec_nested_noncommuting_snapshot_states", nsn[0])
    c.guard("spec_nested_noncommuting_snapshot_states_nonempty", nsn[1])
    c.guard("spec_nested_noncommuting_snapshot_states_with_wrong_order_key", nsn[2])
    st = kvlib.sum_stats(out)
    for g in ("nested_snapshot_reads", "nested_noncommuting_snapshot_reads", "nested_noncommuting_snapshot_reads_nonempty",
              "nested_snapshot_actions"):
        c.guard(g, st.get(g, 0))
    c.log("nested-table snapshots: spec states (all, non-empty view, wrong-order key present) %s; real reads %s" % (
        list(nsn), {k: v for k, v in st.items() if k.startswith("nested")}))
    # ---- Compact(nil, nil) ranges seen by the recorder, judged by TableCompact.tla
    obs = []
    for name in adapters:
        obs += (out.get("extra") or {}).get(name) or []
    c.guard("compact_ranges_observed", len(obs))
    c.guard("compact_nested_table", sum(1 for o in obs if conf["cfgs"][o["cfg"] - 1]["nested"] and o["t"] == 2))
    c.guard("compact_unbounded_limit", sum(1 for o in obs if o["limitnil"]))
    pending = list(obs)
    accepted = 0
    runs = 0
    while pending:
        tp = c.path("compact_trace_%d.ndjson" % runs)
        vlib.ndjson_write(tp, pending)
        ok, rej, tres = c.validate_trace("kv", "TableCompact", tp)
        runs += 1
        if ok:
            accepted += len(pending)
            break
        ln = int(rej.split(",")[1])
        bad = pending[ln - 1]
        accepted += ln - 1
        c.violation("compact-range", "prefix=%s:start=%s:limit=%s" % (
            hexs(bad["prefix"]), "nil" if bad["startnil"] else hexs(bad["start"]), "nil" if bad["limitnil"] else hexs(bad["limit"])),
            "Compact(nil,nil) through table %d of prefix pair %d (%s) asked the underlying store for a range that does not "
            "cover the table's prefix" % (bad["t"], bad["cfg"], bad["backend"]), replay=bad)
        pending = pending[ln:]
    c.log("compact ranges: %d observed, %d accepted by TableCompact.tla" % (len(obs), accepted))
    # ---- iterators held open while the table, its siblings and the store are used (pattern T; ran concurrently)
    ist, tv = titer()
    if [d for d in os.listdir(c.scratch) if d.startswith("kvti-")]:
        raise vlib.Infra("kvtiter left its database directory behind")
    c.log("table iterator scenarios recorded:", ist)
    for g in ("yields", "yields_strict", "lookups_under_iterator", "writes_under_iterator"):
        c.guard("titer_" + g, ist.get(g, 0))
    for rej in tv["rejections"]:
        rec = rej["record"]
        op = rec.get("op") if isinstance(rec, dict) else "?"
        reset = rej["scenario"][0]
        c.violation("table-open-iterator", "%s:%s" % (reset.get("backend"), op),
                    "tables with prefixes %s over %s: line %d of the scenario, %s, is not what the table view allows "
                    "(TableIter.tla: Get/Has = view; an iterator with no write since its creation yields exactly the view's "
                    "range in order; otherwise ascending in-range pairs that were in the view)" % (
                        [hexs(x) for x in reset.get("prefixes", [])], reset.get("backend"), rej["line"], json.dumps(rec)[:300]),
                    replay=rej)
    c.log("table iterator traces: %d scenarios, %d lines validated, %d rejections" % (
        tv["scenarios"], tv["validated_lines"], len(tv["rejections"])))
    reports = kvlib.summarize(out)
    return c.finish("model_checking", dict(
        states=res.distinct, transitions=res.generated,
        traces_validated_against_impl=sum(r["walks"] for r in reports.values()) + runs + tv["scenarios"],
        table_iterator_scenarios=tv["scenarios"], table_iterator_trace_lines_validated=tv["validated_lines"],
        table_iterator_stats=ist,
        edges_replayed_on_impl=sum(r["applied"] for r in reports.values()),
        compact_ranges_validated=accepted, prefix_pairs=conf["cfgs"],
        nested_table_snapshots=dict(spec_states=nsn[0], spec_states_nonempty=nsn[1], spec_states_wrong_order_key=nsn[2],
                                    real={k: v for k, v in st.items() if k.startswith("nested")}),
        exhaustive=True,
        rule="complete graph of Table.tla for cfg %s (%d prefix pairs, depth-bounded from designed states, closed by clear/goto); "
             "every transition executed on real tables over a recorder over each backend from a rebuilt pre-state, comparing both "
             "table views (%d probe keys, %d (prefix,start) iterations each), the snapshot view, the raw store content and the set "
             "of raw keys written; every distinct Compact(nil,nil) range validated against TableCompact.tla" % (
                 cfg, len(conf["cfgs"]), len(conf["probe"]), len(conf["iters"])),
        replay=reports, samples=kvlib.first_sample(out) + obs[:2],
    ), assumptions=[
        "the recorder sits between the tables and the backend; keys queued in a batch count as written when the batch is written",
        "only Compact(nil, nil) is judged (the property speaks of compacting a whole table)",
        "caller-owned key/value buffers are overwritten after each call returns; the slices passed to NewIterator only after "
        "the iterator is released (stores may keep iterator bounds, as LevelDB and Pebble document)",
        "TLC/SANY/Json/IOUtils modules trusted; Go projection = Get/Has/NewIterator on tables and snapshot + direct read of the backend"])
