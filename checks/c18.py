"""C18 Leechers respect flow control and peer removal.
Specs: specs/gsp/BaseLeecher.tla and PeerLeecher.tla (abstract machines whose guards are the clauses of C18,
model-checked by TLC on their own), BaseLeecherScen.tla / PeerLeecherScen.tla (environment models: TLC enumerates
every script of L steps over two peers resp. ticks/chunks/processing/suspension/done), BaseLeecherTrace.tla /
PeerLeecherTrace.tla (trace specifications).  Every enumerated script is executed synchronously on the real
BaseLeecher / BasePeerLeecher and the recorded call+callback log is validated by TLC."""
import json
import vlib
from checks import gsp_util


def replay(c):
    _, reset = gsp_util.load_replay(c)
    scen, trace = c.path("replay_scen.ndjson"), c.path("replay_trace.ndjson")
    base = "pick" in reset
    with open(scen, "w") as f:
        f.write(json.dumps({k: reset[k] for k in (("pick", "script") if base else ("parallel", "script"))}) + "\n")
    c.vh(["gsp-baseleecher" if base else "gsp-peerleecher", scen, trace])
    r = gsp_util.validate_many(c, "gsp", "BaseLeecherTrace" if base else "PeerLeecherTrace", trace, parallel=1)
    return gsp_util.finish_replay(c, r, "BaseLeecher" if base else "BasePeerLeecher")


def run(c):
    if c.replay:
        return replay(c)
    W = 6
    # the clauses hold on the abstract machines themselves
    r1 = c.tlc_must_pass("gsp", "BaseLeecher", cfg="MC_BaseLeecher", workers=2, timeout=600)
    r2 = c.tlc_must_pass("gsp", "PeerLeecher", cfg="MC_PeerLeecher", workers=2, timeout=600)
    c.log("abstract specs: BaseLeecher %d states, PeerLeecher %d states" % (r1.distinct, r2.distinct))

    # ---- base leecher
    bl = c.pick(5, 7)
    bscen = c.path("bl_scen.ndjson")
    res = c.tlc_must_pass("gsp", "BaseLeecherScen", cfg="MC_BaseLeecherScen_%d" % bl, edges_out=bscen, workers=W, timeout=3000)
    nb = res.edges
    c.log("TLC enumerated %d base-leecher scripts of %d steps" % (nb, bl))
    btrace = c.path("bl_trace.ndjson")
    bstats = json.loads(c.vh(["gsp-baseleecher", bscen, btrace]).stdout)
    c.log("executed on the real BaseLeecher:", bstats)
    for g in ("start", "terminate", "tick_after_terminate", "unregister_session_peer", "termsession_running"):
        c.guard("base_" + g, bstats.get(g, 0))
    rb = gsp_util.validate_many(c, "gsp", "BaseLeecherTrace", btrace, parallel=W, lines_per_piece=150000)
    c.log("base leecher: %d scenarios, %d lines validated, %d rejections" % (rb["scenarios"], rb["validated_lines"], len(rb["rejections"])))
    for rej in rb["rejections"]:
        rej["script"] = " ".join(x["op"] + (":" + x["p"] if x["p"] else "") for x in rej["scenario"][0]["script"])
        c.log("rejected base-leecher script (pick %s): %s" % (rej["scenario"][0]["pick"], rej["script"]))
    gsp_util.report_rejections(c, rb, "base-leecher-trace", "baseleecher", "BaseLeecher")

    # ---- peer leecher
    pls = c.pick([6], [7])
    pscen = c.path("pl_scen.ndjson")
    npl = 0
    with open(pscen, "w") as out:
        for L in pls:
            part = c.path("pl_scen_%d.ndjson" % L)
            res = c.tlc_must_pass("gsp", "PeerLeecherScen", cfg="MC_PeerLeecherScen_%d" % L, edges_out=part, workers=W, timeout=3000)
            npl += res.edges
            out.write(open(part).read())
    c.log("TLC enumerated %d peer-leecher scripts of %s steps" % (npl, pls))
    ptrace = c.path("pl_trace.ndjson")
    pstats = json.loads(c.vh(["gsp-peerleecher", pscen, ptrace]).stdout)
    c.log("executed on the real BasePeerLeecher:", pstats)
    for g in ("request", "chunk_taken", "processed", "suspend", "setdone"):
        c.guard("peer_" + g, pstats.get(g, 0))
    rp = gsp_util.validate_many(c, "gsp", "PeerLeecherTrace", ptrace, parallel=W, lines_per_piece=150000)
    c.log("peer leecher: %d scenarios, %d lines validated, %d rejections" % (rp["scenarios"], rp["validated_lines"], len(rp["rejections"])))
    gsp_util.report_rejections(c, rp, "peer-leecher-trace", "peerleecher", "BasePeerLeecher")

    return c.finish("model_checking", dict(
        states=c.tlc_states, transitions=c.tlc_transitions,
        traces_validated_against_impl=rb["scenarios"] + rp["scenarios"],
        trace_lines_validated=rb["validated_lines"] + rp["validated_lines"],
        scenarios_enumerated_by_tlc=nb + npl,
        exhaustive=True,
        rule="every script of BaseLeecherScen.tla with L=%d (register/unregister over 2 peers, tick, ShouldTerminateSession toggle, "
             "terminate, both candidate picks; first mentioned peer = A by symmetry) and of PeerLeecherScen.tla with L in %s "
             "(tick, chunk, processed(i), suspend toggle, setdone; parallelism 1 and 2) executed on the real leechers; every "
             "recorded line validated against BaseLeecher.tla / PeerLeecher.tla" % (bl, pls),
        base_leecher=bstats, peer_leecher=pstats,
        samples=[gsp_util.head_lines(btrace, 10), gsp_util.head_lines(ptrace, 14)],
    ), assumptions=[
        "the base leecher is driven synchronously: Routine() under Mu is what its loop does on each tick; SelectSessionPeerCandidates "
        "returns the keys of the exported Peers map (the documented use)",
        "the peer leecher's loop runs freely with a 50us ticker but is held at the start of every routine (inside the Done() callback); "
        "the environment changes only there, so answers are constant during a routine",
        "requested-but-unprocessed is counted against the environment's truth (chunks handed over and reported processed), which is "
        "never smaller than what the leecher has learnt, so the window guard is not stronger than the statement",
    ])
