"""C15 Event processor releases every event and balances its semaphore.
Specs: specs/gsp/Processor.tla (abstract machine whose guards are the clauses of C15), MC_Processor.tla (closed
system with an explicit semaphore, model-checked by TLC: the guards keep the semaphore balanced and within
capacity), ProcessorTrace.tla (trace specification).  Seeded scenarios (random DAGs with missing parents,
duplicates, events around the far-future threshold, 1-8 concurrent enqueuers, ordered and unordered batches,
failing parentless/parents checks and Process calls, tight semaphore capacities and buffer limits, Stop while
batches are in flight: at a random moment, with random yields inside the callbacks, and with the inserter held in the
HighestLamport callback of a last event with a missing parent until Stop has been called and progressed) run on the
real Processor; every Enqueue call/return, Exists, Process, Released, done callback, idle sample and
Stop is recorded with the semaphore's Processing() value and the trace is validated by TLC."""
import json
import vlib
from checks import gsp_util


def replay(c):
    _, reset = gsp_util.load_replay(c)
    trace = c.path("replay_trace.ndjson")
    c.vh(["gsp-processor", "seed=%d" % reset["seed"], trace])
    r = gsp_util.validate_many(c, "gsp", "ProcessorTrace", trace, parallel=1)
    return gsp_util.finish_replay(c, r, "Processor (same seeded inputs, new schedule)")


def run(c):
    if c.replay:
        return replay(c)
    W = 6
    res = c.tlc_must_pass("gsp", "MC_Processor", cfg="MC_Processor", workers=4, timeout=900)
    c.log("MC_Processor: %d distinct states, invariants hold" % res.distinct)
    trace = c.path("proc_trace.ndjson")
    runs = c.pick(400, 4000)
    stats = json.loads(c.vh(["gsp-processor", runs, trace], timeout=3000).stdout)
    c.log("executed on the real Processor:", stats)
    for g in ("enqueue_ok", "enqueue_ok_ordered", "process_ok", "process_fail", "released:bad event", "released:bad parents",
              "dropped_far_future", "released:event is spilled", "released:event is duplicated",
              "released:event is connected already", "idle_samples", "idle_with_parked_events", "early_stop", "gated_stop"):
        c.guard(g, stats.get(g, 0))
    wd = stats.get("scenarios_with_watchdog", 0)
    if wd:
        c.notes.append("%d of %d scenarios needed the watchdog: an Enqueue call was still blocked 1.4 s after its 100 ms semaphore "
                       "timeout (the behaviour of datasemaphore.Acquire before the repair of finding F10, property C30); not a C15 matter, the call was unblocked by "
                       "stopping the processor and the recorded trace was validated like the others" % (wd, runs))
    c.guard("scenarios_without_watchdog", runs - wd)
    if stats.get("stalled_scenarios", 0):
        c.notes.append("%d scenario(s) had an accepted batch that did not finish within 2 s although every check had been answered; "
                       "C15 has no liveness clause, the processor was stopped and the trace validated as usual" % stats["stalled_scenarios"])
    r = gsp_util.validate_many(c, "gsp", "ProcessorTrace", trace, parallel=W, lines_per_piece=c.pick(6000, 12000))
    c.log("processor: %d scenarios, %d lines validated, %d rejections" % (r["scenarios"], r["validated_lines"], len(r["rejections"])))
    for rej in r["rejections"]:
        recd, scn = rej["record"], rej["scenario"]
        op = recd.get("op") if isinstance(recd, dict) else "?"
        sig = "processor:%s-not-allowed" % op
        if op == "released":
            sig += ":" + str(recd.get("err"))
        tail = scn[max(1, rej["line"] - 25):rej["line"]]
        c.violation("processor-trace", sig, "Processor trace rejected by Processor.tla at line %d %s; scenario %s; preceding lines: %s" % (
            rej["line"], json.dumps(recd), json.dumps(scn[0]), gsp_util.scenario_text(tail, 30)), replay=rej)
    if r.get("unvalidated_lines"):
        c.notes.append("%d trace lines left unvalidated after repeated rejections" % r["unvalidated_lines"])
    return c.finish("model_checking", dict(
        states=c.tlc_states, transitions=c.tlc_transitions,
        traces_validated_against_impl=r["scenarios"], trace_lines_validated=r["validated_lines"],
        rule="%d seeded scenarios (seed*1000003+k), each a fresh Processor + DataSemaphore: 6-35 events plus far-future candidates, "
             "batches of 1-8 events, 1-8 enqueuers, ordered/unordered, check/parents/process failures, buffer limits 2..40, "
             "semaphore capacities from below one batch to ample, early Stop in 1/6, callback jitter in 1/3, gated Stop (inserter held "
             "in HighestLamport before pushing a last event with a missing parent until Stop() was called) in 1/4; every recorded line validated against "
             "Processor.tla" % runs,
        harness_stats=stats, watchdog_scenarios=wd, samples=[gsp_util.head_lines(trace, 14)],
    ), assumptions=[
        "all trace lines of a scenario are written under one mutex that also guards the environment (connected set, highest Lamport); "
        "event callbacks run on the processor's single inserter goroutine or inside Stop",
        "'accepted and finished handling', judged when Stop returns = the done callback ran and every event of the batch was handled "
        "(released, or its first Exists was seen; Stop may interrupt a batch and still runs its done callback, leaving unhandled events)",
        "the order clause is asserted for events that occur in one enqueued copy only (a duplicate in another batch may arrive first)",
        "a watchdog expiry (Enqueue blocked beyond its timeout) is attributed to C30/F10, reported as a note, never as a C15 violation",
        "scenarios are sampled (seeded), not enumerated: the concurrent schedule is whatever the Go scheduler produces",
    ])
