"""C25 Multi-database flushes are crash consistent.
Specs: specs/kvp/Durable.tla (durable state, restart verdicts, the clause CrashConsistent), SyncedPool.tla and
Flagged.tla (the two flush protocols as sequences of durable micro-steps with Crash enabled in every state),
FlushScen.tla (environment model: application-level histories), SyncedPoolTrace.tla / FlaggedTrace.tla.

1. TLC model-checks CrashConsistent on both protocols (and shows that the invariant is not vacuous: with the
   pre-repair order DropsFirst / MarkOthers=FALSE it finds the F11 schedule).
2. TLC explores the complete graph of abstract application states of FlushScen.tla (per database: open/queued/closed,
   on disk, durable contents, overlay incl. large values that split a flush into several write batches, dirty flag,
   contents at the last flush) and emits every transition with the path to its pre-state: history = path + call.
   Every class of pre-state (cls) is run in every tier; a tier that cannot run all transitions takes a seeded
   sample *inside* each class, never across classes.
3. The harness runs every history on the real flushable.SyncedPool / flaggedproducer over a disk-image
   backend, once without a crash and once per durable operation k of its last call with the process stopped at operation k,
   restarts a fresh pool/producer from the surviving image and calls Initialize over the surviving names.
4. Every run is one trace; the trace specifications apply the recorded durable operations, require the
   recorded surviving state to be the specification's durable state, and decide whether the recorded verdict is
   allowed and crash consistent (INCONSISTENT lines) and whether the operations followed the protocol (NONCONF)."""
import json
import random
import re
from concurrent.futures import ThreadPoolExecutor

import vlib

CHUNK_LINES = 60000


def model_check(c):
    """Protocol model checking; returns dict of results."""
    jobs = {
        "pool": ("MC_SyncedPool", c.pick("MC_SyncedPool_quick", "MC_SyncedPool_thorough"), True),
        "flagged": ("MC_Flagged", c.pick("MC_Flagged_quick", "MC_Flagged_thorough"), True),
        "pool_prerepair": ("MC_SyncedPool", "MC_SyncedPool_dropsfirst", False),
        "flagged_prerepair": ("MC_Flagged", "MC_Flagged_asis", False),
    }
    out = {}

    def one(name):
        mod, cfg, must_pass = jobs[name]
        if must_pass:
            return c.tlc_must_pass("kvp", mod, cfg=cfg, workers=c.pick(1, 3), timeout=c.pick(900, 3000))
        return c.tlc("kvp", mod, cfg=cfg, workers=1, timeout=900, count=False)

    with ThreadPoolExecutor(max_workers=2) as ex:
        futs = {n: ex.submit(one, n) for n in jobs}
        for n, f in futs.items():
            out[n] = f.result()
    for n in ("pool_prerepair", "flagged_prerepair"):
        r = out[n]
        if "CrashConsistent" not in r.invariant_violated:
            raise vlib.Infra("the pre-repair order of %s does not violate CrashConsistent in the model (vacuous invariant?):\n%s" % (
                n, vlib.tail(r.out, 30)))
    return out


def enumerate_histories(c):
    files = {}

    def one(comp):
        path = c.path("scen_%s.ndjson" % comp)
        cfg = "MC_FlushScen_%s_%s" % (comp, c.pick("quick", "thorough"))
        res = c.tlc_must_pass("kvp", "MC_FlushScen", cfg=cfg, edges_out=path, workers=2, timeout=1500)
        return path, res.edges, cfg

    with ThreadPoolExecutor(max_workers=2) as ex:
        futs = {comp: ex.submit(one, comp) for comp in ("pool", "flagged")}
        for comp, f in futs.items():
            files[comp] = f.result()
    return files


def flagged_class(cls, op):
    """Class of a flagged-producer transition: the call with its arguments, the full kind of the database it acts on, and the
    kinds of the other databases without the flags that only matter for calls on themselves (long-lived batch used, contents
    at the last flush); a flush acts on every database, but the long-lived-batch flag plays no role in it."""
    kinds = cls.rsplit("f", 1)[0].strip(".").split(".")
    dbs = ["A", "B"]
    out = []
    for name, k in zip(dbs, kinds):
        if op.get("db") == name:
            out.append(k)
        elif op["op"] == "flush":
            out.append(k.replace("L", ""))
        else:
            out.append(k.replace("L", "").replace("l", ""))
    return (tuple(out), op["op"], op.get("db"), op.get("v"), op.get("via"))


def split_runs(path, chunk_lines):
    """Cut a trace file into pieces of about chunk_lines lines at run boundaries; returns [(first_line_no, [lines])]."""
    pieces = []
    cur = []
    start = 1
    n = 0
    with open(path) as f:
        for line in f:
            n += 1
            # cut only in front of the run without a crash of a history: its crash runs need its reference contents
            if line.startswith('{"comp"') and '"crash":0,"op":"reset"' in line and len(cur) >= chunk_lines:
                pieces.append((start, cur))
                cur = []
                start = n
            cur.append(line)
    if cur:
        pieces.append((start, cur))
    return pieces


def validate(c, module, path, workers):
    """Pattern T over all runs of one component; returns (lines, inconsistent[], nonconf_count)."""
    with open(path) as f:
        nlines = sum(1 for _ in f)
    # one wave of `workers` TLC runs when the trace is small, pieces of CHUNK_LINES lines otherwise
    pieces = split_runs(path, min(CHUNK_LINES, nlines // workers + 1))
    bad, nonconf, total = [], [0], [0]

    def work(idx, piece):
        start, lines = piece
        tp = c.path("%s-piece-%d.ndjson" % (module, idx))
        with open(tp, "w") as f:
            f.writelines(lines)
        res = c.tlc("kvp", module, workers=1, env={"TRACE": tp}, timeout=1800, dfs=True, heap="4g", stack="512m", count=False)
        acc = [l for l in res.out.splitlines() if l.startswith('<<"ACCEPTED"')]
        rej = [l for l in res.out.splitlines() if l.startswith('<<"REJECTED"')]
        if rej or not acc or res.rc != 0:
            raise vlib.Infra("trace of the harness not consumed by %s (harness or specification defect, not a finding): %s\n%s" % (
                module, rej[:1], vlib.tail(res.out, 25)))
        seen = set()
        for o in res.printed("INCONSISTENT"):
            key = (o["scen"], o["crash"])
            if key not in seen:
                seen.add(key)
                bad.append(o)
        nonconf[0] += len({(o["scen"], o["crash"]) for o in res.printed("NONCONF")})
        total[0] += len(lines)

    with ThreadPoolExecutor(max_workers=workers) as ex:
        futs = [ex.submit(work, i, p) for i, p in enumerate(pieces)]
        for f in futs:
            f.result()
    return total[0], bad, nonconf[0], len(pieces)


def run_lines(path, scen, crash):
    """The trace lines of one run."""
    out = []
    on = False
    head = '"crash":%d,"op":"reset","scen":%d}' % (crash, scen)
    with open(path) as f:
        for line in f:
            if '"op":"reset"' in line:
                if on:
                    break
                on = line.rstrip().endswith(head)
            if on:
                out.append(json.loads(line))
    return out


def run(c):
    # the protocol model checking does not gate anything: it runs beside the enumeration / crash runs / validation
    bg = ThreadPoolExecutor(max_workers=1)
    fmc = bg.submit(model_check, c)
    with ThreadPoolExecutor(max_workers=1) as ex:
        fen = ex.submit(enumerate_histories, c)
        c.harness()
        files = fen.result()

    rnd = random.Random(c.seed)
    scen_path = c.path("scenarios.ndjson")
    scenarios = []
    enumerated = {}
    per_class = c.pick(dict(pool=2, flagged=1), dict(pool=20, flagged=10))
    for comp in ("pool", "flagged"):
        path, n, cfg = files[comp]
        groups = {}
        total = 0
        with open(path) as f:
            for l in f:
                if not l.strip():
                    continue
                total += 1
                e = json.loads(l)
                op = e["ops"][-1]
                # flagged producer: every call is durable, so the class is (pre-state without the flush counter, call)
                key = (e["cls"],) if comp == "pool" else flagged_class(e["cls"], op)
                groups.setdefault(key, []).append(l)
        picked = []
        for key in sorted(groups, key=lambda k: tuple(str(x) for x in k)):
            g = groups[key]
            picked += g if len(g) <= per_class[comp] else rnd.sample(g, per_class[comp])
        enumerated[comp] = dict(cfg=cfg, transitions=total, classes=len(groups), run=len(picked), per_class=per_class[comp])
        scenarios += picked
    with open(scen_path, "w") as f:
        f.writelines(scenarios)
    c.log("histories enumerated by TLC:", enumerated)
    c.guard("pool_classes", enumerated["pool"]["classes"])
    c.guard("flagged_classes", enumerated["flagged"]["classes"])

    traces = {"pool": c.path("pool_trace.ndjson"), "flagged": c.path("flagged_trace.ndjson")}
    stats = json.loads(c.vh(["crashrun", scen_path, traces["pool"], traces["flagged"]], timeout=3000).stdout)
    c.log("crash enumeration on the real code:", {k: v for k, v in stats.items() if k.endswith(("_runs", "_crash_points", "_lines", "_histories"))})
    for comp in ("pool", "flagged"):
        for g in ("crash_points", "ok_with_flush_id", "verdict_dirty", "verdict_noninit", "crash_after_drop", "crash_after_data",
                  "crash_after_dirty", "crash_after_clean", "crash_after_create"):
            c.guard(comp + "_" + g, stats.get(comp + "_" + g, 0))
    c.guard("flagged_verdict_unsynced", stats.get("flagged_verdict_unsynced", 0))
    c.guard("pool_histories_with_large_values", stats.get("pool_histories_with_large_values", 0))
    c.guard("flagged_last_call_through_long_lived_batch", stats.get("flagged_last_call_through_long_lived_batch", 0))
    # flushes of one database that were split into several non-empty write batches (large values)
    split = 0
    with open(traces["pool"]) as f:
        seen_data = {}
        for line in f:
            if '"op":"flush"' in line or '"op":"reset"' in line:
                seen_data = {}
            elif '"op":"data"' in line and '"w":{}' not in line:
                o = json.loads(line)
                seen_data[o["db"]] = seen_data.get(o["db"], 0) + 1
                if seen_data[o["db"]] == 2:
                    split += 1
    c.guard("pool_flushes_split_into_several_batches", split)

    # distinct non-trivial runs: different recorded operation sequence / surviving state, at least one durable operation survived
    distinct = set()
    for comp in ("pool", "flagged"):
        cur = []
        with open(traces[comp]) as f:
            for line in f:
                if '"op":"reset"' in line:
                    cur = []
                    continue
                cur.append(line)
                if '"op":"restart"' in line:
                    if '"last":"none"' not in line:
                        distinct.add(hash((comp, re.sub(r'"k":\d+,', "", "".join(cur)))))
    results = {}
    with ThreadPoolExecutor(max_workers=2) as ex:
        vfut = {comp: ex.submit(validate, c, module, traces[comp], c.pick(2, 3))
                for comp, module in (("pool", "SyncedPoolTrace"), ("flagged", "FlaggedTrace"))}
        vres = {comp: f.result() for comp, f in vfut.items()}
    for comp in ("pool", "flagged"):
        lines, bad, nonconf, pieces = vres[comp]
        results[comp] = dict(trace_lines=lines, tlc_runs=pieces, inconsistent_runs=len(bad), runs_outside_protocol=nonconf)
        c.log("%s: %d trace lines validated in %d TLC runs, %d inconsistent restarts, %d runs outside the protocol order" % (
            comp, lines, pieces, len(bad), nonconf))
        by_sig = {}
        for o in bad:
            sig = "%s:%s:after-%s" % (comp, o["kind"], o["last"])
            by_sig.setdefault(sig, []).append(o)
        for sig, lst in sorted(by_sig.items()):
            o = min(lst, key=lambda x: (x["scen"], x["crash"]))
            hist = json.loads(scenarios[o["scen"] - 1])
            rl = run_lines(traces[comp], o["scen"], o["crash"])
            c.violation("crash-consistent", sig,
                        "%s: history %s stopped at durable operation %s (last operation performed: %s): restart over the survivors reported %s, "
                        "which is %s; %d runs with this signature" % (
                            comp, json.dumps([[x.get("op"), x.get("db", x.get("id")), x.get("k"), x.get("v")] for x in hist["ops"]]),
                            o["crash"] or "none (restart after the last call)", o["last"], json.dumps(o["verdict"]),
                            "not the contents of that flush" if o["kind"] == "contents" else
                            "not a verdict the surviving marks allow (%s)" % json.dumps(o["allowed"]), len(lst)),
                        replay=dict(history=hist, crash_at=o["crash"], run=rl, tlc=o, runs_with_signature=len(lst)))
        if nonconf and not bad:
            c.notes.append("%s: %d runs performed durable operations outside the order of the specification's protocol, yet every "
                           "restart was crash consistent" % (comp, nonconf))
    mc = fmc.result()
    bg.shutdown()
    c.log("protocol model checking: pool %d states, flagged %d states; pre-repair orders violate CrashConsistent in the model" % (
        mc["pool"].distinct, mc["flagged"].distinct))
    c.guard("model_prerepair_pool_violates", 1)
    c.guard("model_prerepair_flagged_violates", 1)
    with open(traces["pool"]) as f:
        sample = [json.loads(l) for _, l in zip(range(45), f)]
    runs = stats.get("pool_runs", 0) + stats.get("flagged_runs", 0)
    return c.finish("fault_enumeration", dict(
        evaluations=runs, distinct_nontrivial=len(distinct),
        crash_points=stats.get("pool_crash_points", 0) + stats.get("flagged_crash_points", 0),
        histories=stats.get("pool_histories", 0) + stats.get("flagged_histories", 0),
        states=c.tlc_states, transitions=c.tlc_transitions,
        traces_validated_against_impl=runs,
        trace_lines_validated=results["pool"]["trace_lines"] + results["flagged"]["trace_lines"],
        rule="histories = transitions of the complete abstract state graph of FlushScen.tla with the path to their pre-state (%s); every "
             "class of pre-state is run, sampled (seeded) only inside a class; for each history every prefix of the durable operation "
             "sequence of its last call (database creation, mark put, write batch / put / delete, drop) is a crash point: the run is "
             "repeated with the process stopped at that operation; non-trivial and distinct = at least one durable operation survived "
             "and the recorded operation sequence + surviving state differ from every other run" % json.dumps(enumerated),
        enumerated=enumerated, harness_stats=stats, validation=results,
        protocol_model_checking={k: dict(states=v.distinct, transitions=v.generated, invariant_violated=v.invariant_violated)
                                 for k, v in mc.items()},
        samples=[sample],
    ), assumptions=[
        "a write batch is atomic (as LevelDB/Pebble batches are); a crash stops the process before a durable operation, never inside one",
        "restart = fresh store objects built from the persisted image, fresh pool/producer, Initialize(surviving names, nil)",
        "databases absent at a flush count as empty; the contents of flush n are the contents when Flush(n) returned in the run of the same history without a crash",
        "the crash points of the calls before the last call of a history are covered by the histories ending in those calls (same abstract state)",
        "which of several applicable error verdicts (dirty / unsynced / noninit) Initialize reports is left open",
        "TLC/SANY/Json module trusted; Go projection = raw surviving image + Initialize result"])
