"""Registry entries of the consensus family (C01-C10)."""

_TB = ("Trusted: TLC/SANY/Json+IOUtils modules; the harness's event generator and its logging of event ids, creators, parents and "
       "claimed frames. The reference is the TLA+ specification (LachesisTrace.tla / LachesisDef.tla), written from the rules in "
       "the property statements; exhaustive coverage is limited to the bounded model (2-3 validators, <= 8 events in the quick "
       "tier), larger scope is seeded sampling guarded against vacuity.")


def _e(text, technique="TLA+ reference spec; TLC exhaustive small-scope model replayed into the code + TLC trace validation of recorded runs", ref="C01"):
    return dict(category="model_checking", text=text, note=_TB, technique=technique,
                design_ref="DESIGN.md section 4.1, section 5 (%s), section 3 patterns R and T" % ref)


_T = "TLA+ reference spec (LachesisTrace.tla); TLC trace validation of recorded runs of the real consensus"
_TV = ("TLA+ algorithm model VecIndex.tla model-checked against the graph definitions (exhaustive for two validators, TLC simulation for "
       "three and four) with every complete DAG replayed into the real vecfc.Index; plus TLC trace validation (LachesisTrace.tla) of "
       "recorded runs of the real consensus")
_TC = ("TLA+ reference spec (LachesisTrace.tla); TLC exhaustive small-scope fork model and TLC-/search-found DAG corpora replayed into "
       "the code (kept running and restarted) + TLC trace validation of recorded runs")

CHECKS = {
    "C01": _e("TLC explores every DAG of the bounded model Lachesis.tla in every parents-first creation order and checks that the "
              "blocks are a function of the event set and only grow; every distinct DAG is replayed into real IndexedLachesis "
              "instances in several orders and the blocks compared with the model's. Seeded random multi-epoch DAGs (forks < 1/3, "
              "lagging/partitioned validators, validator-set changes) are fed to four instances in different parents-first orders "
              "and every call of every instance is validated by TLC against the reference trace specification.", ref="C01"),
    "C02": _e("Per block the trace specification requires delivered events = anc[Atropos] minus earlier deliveries with multiplicity "
              "one, consecutive frame numbers from 1 per epoch and the Atropos to be a root of its frame; the bounded model checks "
              "NoDoubleConfirm, AncestryClosed and AtroposIsRoot on every state and every state is replayed into the real code.", ref="C02"),
    "C03": _e("The cheater list of every block is compared (as a sequence) with the canonical-order list of validators whose fork is "
              "visible from the Atropos; the canonical order is computed in the spec from (weight desc, id asc). Bounded model with a "
              "forking validator replayed exhaustively; random runs include forkers at and beyond one third (content checked given "
              "the logged Atropos). Corpus DAGs (late fork marks; a cheater listed by one block and not by the next, scripted for "
              "eight and nine validators) are replayed with the trace specification as only oracle.", ref="C03"),
    "C04": _e("Every Process verdict must equal Allowed(claimed frame) and every Build result BuildFrame (highest allowed, capped at "
              "+100) of the specification: wrong-frame clones, speculative builds with arbitrary parents, lazily chosen allowed "
              "frames, histories of up to 767 speculative builds in front of the build of a root, a validator sleeping > 100 frames; "
              "bounded model with arbitrary allowed frames replayed exhaustively; a Reset to the same epoch number with other weights, after "
              "which every Build frame and verdict is judged under the new weights.", ref="C04"),
    "C05": _e("Every answer of vecfc.Index.ForklessCause (random and all-pairs queries, warm and cold caches, after failing adds, three "
              "indexing orders, forkers also beyond one third) is recorded and compared by TLC with the graph definition evaluated "
              "on the specification's own ancestry sets. VecIndex.tla (the transcribed vector-clock algorithm) is model-checked against "
              "the same definition and every complete DAG it reaches (exhaustive N=2, simulated N=3/4, corpus of late fork marks) is "
              "indexed by a real index - every other one by a long-lived index after Reset - and all pairs compared.", technique=_TV, ref="C05"),
    "C06": _e("The merged highest-before vector of every processed event, read from vecfc.Index and through the dagidx adapter, is "
              "compared per validator with: fork iff two same-seq events of the validator are ancestors, else the highest sequence. "
              "The same comparison runs on every complete DAG of VecIndex.tla (exhaustive N=2, simulated N=3/4, corpus of DAGs in which "
              "a fork mark arrives after a parent holding two plain branches).", technique=_TV, ref="C06"),
    "C07": _e("Build and rejected Process are stuttering steps of the specification; they are injected before ~80% of the events and "
              "every later verdict, frame and block must still be what the specification derives from the accepted events only; a "
              "clean twin run must emit the same blocks. Includes speculative builds on all heads, rebuilds of one mutable object, clones "
              "claiming the frame of a built-only candidate, and a validator that sleeps through 1000+ events whose event on all heads "
              "is only built.", technique=_T, ref="C07"),
    "C08": _e("The instance is torn down and rebuilt from copies of its main and epoch databases with a fresh vector index after every "
              "accepted event (including right after decisions and seals); Restart is a stuttering step of the specification and all "
              "later calls must be accepted by it. The three-validator fork model and the DAG corpora (multi-frame roots, two fork roots "
              "in one slot) are replayed kept-running, restarted after every event and after every third event.", technique=_TC, ref="C08"),
    "C09": _e("Seals are scripted at frames 1..5 with mutated and unchanged validator sets; after every call the spec checks epoch, "
              "validator set (through canonical order of cheaters/Atropos choice), last decided frame, block frame numbers and that "
              "nothing follows the sealing block; instances Reset() directly to later epochs are validated on the same events.",
              technique=_T, ref="C09"),
    "C10": _e("The TLA+ specification is the independent naive reference (graph forkless cause, frame rule, weighted voting with ties = "
              "yes, Atropos by canonical order). Bounded model replayed exhaustively; random DAGs with equal-weight even validator "
              "sets and lagging validators validated call by call (also 13-16 validators with many equal weights: the canonical order "
              "decides the Atropos); coverage counters for no-quorum decisions and non-first Atropos.",
              ref="C10"),
}

CHECKS["C28"] = dict(
    category="model_checking",
    text="Linearizability: seeded concurrent histories (2-4 goroutines, <= 16 operations, call/ret lines appended under one mutex) of the "
         "flushable store, the flush-buffering pool, the thread-safe LRU and the events semaphore are recorded from the real code and TLC "
         "searches for linearization points against the sequential specifications specs/conc/{FlushLin,PoolLin,PoolDropLin,LRULin,SemLin}.tla "
         "(plus long two-goroutine duels of a compound reader against a mutator); "
         "concurrent runs of the ordering buffer are validated against EventsBuffer.tla. Race freedom: a -race build of the harness runs "
         "workloads of 2-8 goroutines mixing all public operations (including size/statistics accessors); any DATA RACE report is a "
         "violation identified by the pair of racing functions.",
    note="Race freedom is decided by the Go race detector on the executed workloads, not by a specification; linearizability is sampled "
         "(hundreds of short histories per run). Known finding F12 (SyncedPool.Flush not atomic w.r.t. concurrent writers across databases) "
         "is reproduced by a dedicated scenario and classified by the relaxed spec PoolLinNA.tla.",
    technique="TLA+ sequential specs + TLC linearization search over recorded call/ret histories; Go race detector for races",
    design_ref="DESIGN.md section 5 (C28), section 3 pattern L",
)
