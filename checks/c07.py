"""C07 Rejected and merely built events leave no trace: Build and rejected Process are stuttering steps of the
specification; they are injected densely and the rest of the trace must still be accepted; a clean twin run must emit the
same blocks."""
from checks import lach_common as lc


def run(c):
    res = lc.run_profile(c, "c07", c.pick(10, 120), "no-trace")
    st = res["stats"]
    c.guard("builds", st.get("builds", 0))
    c.guard("clone_rejected", st.get("clone_rejected", 0))
    c.guard("blocks", st.get("blocks", 0))
    c.guard("rich_builds", st.get("rich_builds", 0))
    c.guard("rebuilds", st.get("rebuilds", 0))
    # more runs of the scenario in which a validator sleeps through 1000+ events (see harness/lach/cmd.go, sleepGen)
    sl = lc.run_profile(c, "xsleep", c.pick(3, 12), "no-trace")
    c.guard("rich_builds_after_1000_events", st.get("rich_builds_after_1000_events", 0) + sl["stats"].get("rich_builds_after_1000_events", 0))
    res["validation"]["scenarios"] += sl["validation"]["scenarios"]
    res["validation"]["validated_lines"] += sl["validation"]["validated_lines"]
    return lc.finish(c, res, "speculative builds (random parents) and wrong-frame Process calls injected before 80% of the events; all later verdicts, frames and blocks validated; clean twin compared", extra=dict(sleeper_runs=sl["stats"]))
