"""C07 Rejected and merely built events leave no trace: Build and rejected Process are stuttering steps of the
specification; they are injected densely and the rest of the trace must still be accepted; a clean twin run must emit the
same blocks."""
from checks import lach_common as lc


def run(c):
    res = lc.run_profile(c, "c07", c.pick(10, 120), "no-trace")
    st = res["stats"]
    c.guard("builds", st.get("builds", 0))
    c.guard("clone_rejected", st.get("clone_rejected", 0))
    c.guard("blocks", st.get("blocks", 0))
    c.guard("rich_builds", st.get("rich_builds", 0))
    c.guard("rebuilds", st.get("rebuilds", 0))
    c.guard("rich_builds_after_1000_events", st.get("rich_builds_after_1000_events", 0))
    return lc.finish(c, res, "speculative builds (random parents) and wrong-frame Process calls injected before 80% of the events; all later verdicts, frames and blocks validated; clean twin compared", extra=None)
