"""C14 Ordering buffer delivers parents first, once, and releases every push.
Spec: specs/gossip/EventsBuffer.tla (abstract machine whose guards are the clauses of C14),
BufScenarios.tla (environment model: TLC enumerates every DAG shape, push order, duplicate,
failing callback and limit), EventsBufferTrace.tla (trace specification).  Every enumerated
scenario is executed on the real EventsBuffer, the recorded callback trace is validated by TLC."""
import json
import vlib


def run(c):
    scen = c.path("buf_scen.ndjson")
    cfgs = c.pick(["MC_BufScen_quick", "MC_BufScen_quick4", "MC_BufScen_sizes", "MC_BufScen_sizes4q", "MC_BufScen_ext"], ["MC_BufScen_quick", "MC_BufScen_thorough", "MC_BufScen_sizes", "MC_BufScen_sizes4", "MC_BufScen_ext"])
    nscen = 0
    with open(scen, "w") as out:
        for cfg in cfgs:
            part = c.path(cfg + ".ndjson")
            res = c.tlc_must_pass("gossip", "MC_BufScen", cfg=cfg, edges_out=part, workers=8, timeout=3000)
            nscen += res.edges
            out.write(open(part).read())
    c.log("TLC enumerated %d scenarios" % nscen)
    trace = c.path("buf_trace.ndjson")
    stats = json.loads(c.vh(["bufrun", scen, trace]).stdout)
    c.log("executed on the real buffer:", stats)
    for g in ("fail_check", "fail_process", "fail_none", "with_duplicate", "tight_num", "with_external_connect"):
        c.guard(g, stats.get(g, 0))
    r1 = vlib.validate_scenarios(c, "gossip", "EventsBufferTrace", trace)
    # concurrent pushers
    ctrace = c.path("buf_conc.ndjson")
    cstats = json.loads(c.vh(["bufconc", c.pick(600, 8000), ctrace]).stdout)
    c.log("concurrent runs:", cstats)
    r2 = vlib.validate_scenarios(c, "gossip", "EventsBufferTrace", ctrace)
    samples = []
    for r, mode in ((r1, "sequential"), (r2, "concurrent")):
        for rej in r["rejections"]:
            rec = rej["record"]
            op = rec.get("op") if isinstance(rec, dict) else "?"
            reset = rej["scenario"][0]
            sig = "%s:%s-not-allowed" % (mode, op)
            c.violation("buffer-trace", sig,
                        "EventsBuffer trace rejected by EventsBuffer.tla at %s (scenario parents=%s limit=%s, line %d)" % (
                            json.dumps(rec), reset.get("parents"), reset.get("limit"), rej["line"]),
                        replay=rej)
        if r.get("unvalidated_lines"):
            c.notes.append("%s: %d trace lines left unvalidated after repeated rejections" % (mode, r["unvalidated_lines"]))
    with open(trace) as f:
        head = [json.loads(next(f)) for _ in range(12)]
    samples.append(head)
    return c.finish("model_checking", dict(
        states=c.tlc_states, transitions=c.tlc_transitions,
        traces_validated_against_impl=r1["scenarios"] + r2["scenarios"],
        trace_lines_validated=r1["validated_lines"] + r2["validated_lines"],
        scenarios_enumerated_by_tlc=nscen, concurrent_runs=cstats["scenarios"],
        exhaustive=True,
        rule="all scenarios of BufScenarios.tla for cfgs %s (DAG shapes x push orders x duplicate x failing check/process x limits), "
             "each run on the real buffer; plus seeded concurrent pushers; every trace line validated against EventsBuffer.tla" % cfgs,
        harness_stats=stats, samples=samples,
    ), assumptions=["callbacks run under the buffer mutex, so the recorded callback order is the linearization order",
                    "Total() <= limits asserted after PushEvent in sequential scenarios only"])
