"""Per-property registration data; lib/mkmanifest.py turns it into MANIFEST.json."""

CHECKS = {
    "C29": dict(
        category="model_checking",
        text="TLC explores the complete reachable state graph of specs/util/LRU.tla (bounded keys/weights/bounds), checks the "
             "bounds and eviction-order invariants on the specification, and every explored transition is replayed on "
             "utils/simplewlru and utils/wlru comparing result, eviction-callback log and the observable state; random walks "
             "through the same graph run on one long-lived object.",
        note="Exhaustive within the bounded alphabet (3-4 keys, 3-4 weights, 4-6 bound pairs); TLC, SANY and the Json module are "
             "trusted; per-entry weights are observable only through Weight() and eviction behaviour.",
        technique="TLA+ spec + TLC exhaustive state graph, edge replay into the Go caches",
        design_ref="DESIGN.md section 5 (C29), section 3 pattern R",
    ),
    "C14": dict(
        category="model_checking",
        text="TLC enumerates every small scenario of the environment model BufScenarios.tla (all DAG shapes up to 4 events, all push "
             "orders, duplicate pushes, one failing Check/Process at any event, four limit settings); each scenario is executed on the "
             "real EventsBuffer and the recorded callback trace is validated line by line by TLC against the abstract machine "
             "EventsBuffer.tla whose guards are the clauses of C14; seeded concurrent-pusher runs are validated the same way.",
        note="Exhaustive over the bounded scenario space only; larger DAGs are sampled by the concurrent runs. The callback order is "
             "the linearization order because callbacks run under the buffer mutex. Limits are asserted after PushEvent in sequential "
             "scenarios only.",
        technique="TLA+ abstract spec + TLC scenario enumeration + TLC trace validation of real-code traces",
        design_ref="DESIGN.md section 5 (C14), section 3 patterns S and T",
    ),
}
