"""Per-property registration data; lib/mkmanifest.py turns it into MANIFEST.json."""

CHECKS = {
    "C29": dict(
        category="model_checking",
        text="TLC explores the complete reachable state graph of specs/util/LRU.tla (bounded keys/weights/bounds), checks the "
             "bounds and eviction-order invariants on the specification, and every explored transition is replayed on "
             "utils/simplewlru and utils/wlru comparing result, eviction-callback log and the observable state; random walks "
             "through the same graph run on one long-lived object.",
        note="Exhaustive within the bounded alphabet (3-4 keys, 3-4 weights, 4-6 bound pairs); TLC, SANY and the Json module are "
             "trusted; per-entry weights are observable only through Weight() and eviction behaviour.",
        technique="TLA+ spec + TLC exhaustive state graph, edge replay into the Go caches",
        design_ref="DESIGN.md section 5 (C29), section 3 pattern R",
    ),
}
