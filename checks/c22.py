"""C22 Flushable store is the underlying store overlaid with unflushed writes.
Spec: specs/kv/Flushable.tla (underlying map + overlay with tombstones; Flush, DropNotFlushed,
NotFlushedPairs = |DOMAIN overlay|, snapshots as frozen views, batches; ghost variables restate the property
without an overlay and the invariants tie both together).  TLC explores the bounded model exhaustively and
by random simulation; every transition is replayed (pattern R) on flushable.Wrap over memorydb, LevelDB and
Pebble, on flushable over flushable, and on LazyFlushable; after each step the harness compares Get/Has for
all probe keys, every (prefix, start) iteration, NotFlushedPairs, the content of the underlying store and all
live snapshots with what the specification says; random walks run on long-lived stores.
Iterators held open across writes, flushes and drops are recorded from the real store (pattern T) and
validated by TLC against specs/kv/FlushableIter.tla, which demands only what holds for any interleaving."""
import json

import vlib
from checks import c23 as kvlib


def spec_reuse_edges(path):
    """Transitions of Flushable.tla whose pre-state has bprev (the batch object was written and Reset, nothing flushed
    since), by operation.  The raw state is the VIEW tuple, bprev its last component."""
    n = {}
    with open(path) as f:
        for line in f:
            if not line.startswith('{"pre"'):
                continue
            e = json.loads(line)
            if e["pre"][-1] is True:
                op = e["act"]["op"]
                n[op] = n.get(op, 0) + 1
    return n


def run(c):
    built = kvlib.prebuild(c)
    ex = c.path("fl_ex.ndjson")
    sim = c.path("fl_sim.ndjson")
    jobs = [dict(module="MC_Flushable", cfg=c.pick("MC_Flushable_quick", "MC_Flushable_thorough"), out=ex,
                 workers=c.pick(4, 5), timeout=c.pick(600, 3000)),
            dict(module="MC_Flushable", cfg="MC_Flushable_sim", out=sim, workers=1, timeout=c.pick(600, 3000),
                 simulate="num=%d" % c.pick(20, 250), depth=c.pick(30, 60))]
    (res, conf, ne, ns), (sres, sconf, sne, sns) = kvlib.gen_parallel(c, jobs)
    if conf != sconf:
        raise vlib.Infra("exhaustive and simulation models disagree on the observation plan")
    c.log("TLC exhaustive: %d distinct states, %d transitions (%d printed, %d state lines, %.0fs); simulation: %d transitions (%.0fs)" % (
        res.distinct, res.generated, ne, ns, res.wall, sne, sres.wall))
    c.guard("tlc_transitions", ne)
    c.guard("tlc_sim_transitions", sne)
    edges = kvlib.concat(c, "fl_all.ndjson", [ex, sim])
    built()
    adapters = ["fl:mem", "fl:ldb", "fl:peb", "lazy:mem", "fl2:mem"] + c.pick([], ["lazy:ldb", "fl2:peb"])
    out = kvlib.kv_replay(c, "fl", adapters, edges, conf, walks=c.pick(40, 400), wlen=c.pick(60, 150), par=6,
                          clause="flushable-overlay")
    c.log("replayed %d transitions on %d flushable stacks; walls %s" % (
        out["edges"], len(adapters), {k: round(v, 1) for k, v in out["wall_s"].items()}))
    kvlib.guard_ops(c, out, ("put", "del", "bput", "bdel", "bwrite", "breset", "breplay", "flush", "drop", "snap",
                             "release", "clear", "goto"))
    # ---- batch-object reuse: Put.. Write Reset Put.. on ONE batch object while what it wrote is still unflushed
    sre = spec_reuse_edges(edges)
    c.guard("spec_reuse_bput_bdel_edges", sre.get("bput", 0) + sre.get("bdel", 0))
    c.guard("spec_reuse_bwrite_edges", sre.get("bwrite", 0))
    c.guard("spec_reuse_flush_edges", sre.get("flush", 0))
    c.guard("spec_reuse_snap_edges", sre.get("snap", 0))
    st = kvlib.sum_stats(out)
    for g in ("batch_reuse_ops", "batch_reuse_ops_unflushed", "batch_reuse_writes", "reads_after_reuse_unflushed",
              "pre_states_via_spec_batch"):
        c.guard(g, st.get(g, 0))
    c.log("batch-object reuse: spec edges from bprev states %s; real batch objects %s" % (sre, st))
    reports = kvlib.summarize(out)
    # ---- iterators held open while the store changes (pattern T)
    tr = c.path("iter_trace.ndjson")
    ist = json.loads(c.vh(["kviter", c.pick(300, 4000), tr]).stdout)
    c.log("held-open iterators recorded:", ist)
    for g in ("yields", "writes_under_iterator", "flush_under_iterator", "drop_under_iterator"):
        c.guard("iter_" + g, ist.get(g, 0))
    tv = vlib.validate_scenarios(c, "kv", "FlushableIter", tr)
    for rej in tv["rejections"]:
        rec = rej["record"]
        op = rec.get("op") if isinstance(rec, dict) else "?"
        backend = rej["scenario"][0].get("backend")
        c.violation("held-open-iterator", "%s:%s" % (backend, op),
                    "flushable over %s: line %d of the scenario, %s, is not allowed by FlushableIter.tla (keys ascending inside "
                    "the range; every yielded pair was in the view between creation and yield; no panic)" % (
                        backend, rej["line"], json.dumps(rec)[:300]), replay=rej)
    c.log("held-open iterator traces: %d scenarios, %d lines validated, %d rejections" % (
        tv["scenarios"], tv["validated_lines"], len(tv["rejections"])))
    return c.finish("model_checking", dict(
        states=res.distinct + sns, transitions=res.generated + sne,
        traces_validated_against_impl=sum(r["walks"] for r in reports.values()) + tv["scenarios"],
        held_open_iterator_scenarios=tv["scenarios"], held_open_trace_lines_validated=tv["validated_lines"],
        held_open_stats=ist,
        edges_replayed_on_impl=sum(r["applied"] for r in reports.values()),
        batch_object_reuse=dict(spec_edges_from_reused_batch_states=sre,
                                real={k: v for k, v in st.items() if k.startswith(("batch_", "reads_after", "pre_states"))}),
        stacks=adapters,
        exhaustive=True,
        rule="complete graph of Flushable.tla for cfg %s (depth-bounded from designed (underlying, overlay, batch, snapshot) "
             "states, closed by clear/goto) plus TLC -simulate traces of MC_Flushable_sim; every transition executed on each "
             "stack from a rebuilt pre-state comparing the whole observable view (%d probe keys, %d (prefix,start) iterations, "
             "NotFlushedPairs, underlying content, live snapshots); plus random walks on long-lived stores" % (
                 jobs[0]["cfg"], len(conf["probe"]), len(conf["iters"])),
        replay=reports, samples=kvlib.first_sample(out),
    ), assumptions=[
        "pre-states are built by writing the underlying store directly and the overlay through Put/Delete, or through the "
        "store's one long-lived batch object (queue, Write, Reset): always when the specification state says the batch "
        "object has been written and reset (bprev), and on every second instance otherwise",
        "iterators held open across writes are only required to yield ascending in-range keys with pairs that were in the "
        "view at some moment between creation and yield (the property does not say which concurrent writes they see)",
        "after Batch.Write the model only resets the batch",
        "TLC/SANY/Json module trusted; Go projection = Get/Has/NewIterator/NotFlushedPairs + direct read of the underlying store"])
