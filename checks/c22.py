"""C22 Flushable store is the underlying store overlaid with unflushed writes.
Spec: specs/kv/Flushable.tla (underlying map + overlay with tombstones; Flush, DropNotFlushed,
NotFlushedPairs = |DOMAIN overlay|, snapshots as frozen views, batches; ghost variables restate the property
without an overlay and the invariants tie both together).  TLC explores the bounded model exhaustively and
by random simulation; every transition is replayed (pattern R) on flushable.Wrap over memorydb, LevelDB and
Pebble, on flushable over flushable, and on LazyFlushable; after each step the harness compares Get/Has for
all probe keys, every (prefix, start) iteration, NotFlushedPairs, the content of the underlying store and all
live snapshots with what the specification says; random walks run on long-lived stores."""
import vlib
from checks import c23 as kvlib


def run(c):
    ex = c.path("fl_ex.ndjson")
    sim = c.path("fl_sim.ndjson")
    jobs = [dict(module="MC_Flushable", cfg=c.pick("MC_Flushable_quick", "MC_Flushable_thorough"), out=ex,
                 workers=c.pick(4, 5), timeout=c.pick(600, 3000)),
            dict(module="MC_Flushable", cfg="MC_Flushable_sim", out=sim, workers=1, timeout=c.pick(600, 3000),
                 simulate="num=%d" % c.pick(20, 250), depth=c.pick(30, 60))]
    (res, conf, ne, ns), (sres, sconf, sne, sns) = kvlib.gen_parallel(c, jobs)
    if conf != sconf:
        raise vlib.Infra("exhaustive and simulation models disagree on the observation plan")
    c.log("TLC exhaustive: %d distinct states, %d transitions (%d printed, %d state lines, %.0fs); simulation: %d transitions (%.0fs)" % (
        res.distinct, res.generated, ne, ns, res.wall, sne, sres.wall))
    c.guard("tlc_transitions", ne)
    c.guard("tlc_sim_transitions", sne)
    edges = kvlib.concat(c, "fl_all.ndjson", [ex, sim])
    adapters = ["fl:mem", "fl:ldb", "fl:peb", "lazy:mem", "fl2:mem"] + c.pick([], ["lazy:ldb", "fl2:peb"])
    out = kvlib.kv_replay(c, "fl", adapters, edges, conf, walks=c.pick(40, 400), wlen=c.pick(60, 150), par=6,
                          clause="flushable-overlay")
    c.log("replayed %d transitions on %d flushable stacks; walls %s" % (
        out["edges"], len(adapters), {k: round(v, 1) for k, v in out["wall_s"].items()}))
    kvlib.guard_ops(c, out, ("put", "del", "bput", "bdel", "bwrite", "breset", "breplay", "flush", "drop", "snap",
                             "release", "clear", "goto"))
    reports = kvlib.summarize(out)
    return c.finish("model_checking", dict(
        states=res.distinct + sns, transitions=res.generated + sne,
        traces_validated_against_impl=sum(r["walks"] for r in reports.values()),
        edges_replayed_on_impl=sum(r["applied"] for r in reports.values()),
        stacks=adapters,
        exhaustive=True,
        rule="complete graph of Flushable.tla for cfg %s (depth-bounded from designed (underlying, overlay, batch, snapshot) "
             "states, closed by clear/goto) plus TLC -simulate traces of MC_Flushable_sim; every transition executed on each "
             "stack from a rebuilt pre-state comparing the whole observable view (%d probe keys, %d (prefix,start) iterations, "
             "NotFlushedPairs, underlying content, live snapshots); plus random walks on long-lived stores" % (
                 jobs[0]["cfg"], len(conf["probe"]), len(conf["iters"])),
        replay=reports, samples=kvlib.first_sample(out),
    ), assumptions=[
        "pre-states are built by writing the underlying store directly and the overlay through Put/Delete",
        "iterators are created, drained and released within one observation; iterators held open across writes are not modelled",
        "after Batch.Write the model only resets the batch",
        "TLC/SANY/Json module trusted; Go projection = Get/Has/NewIterator/NotFlushedPairs + direct read of the underlying store"])
