"""C29 Weighted LRU caches follow the LRU model.
Spec: specs/util/LRU.tla. TLC explores the complete reachable state graph of the bounded model
(no depth bound is needed: the abstract state space is finite) and checks the bounds, key
uniqueness and oldest-first eviction on the specification; every explored transition is then
replayed on utils/simplewlru and utils/wlru (pattern R) and random walks through the same graph
are executed on one long-lived cache object."""
import vlib


def run(c):
    cfg = c.pick("MC_LRU_quick", "MC_LRU_thorough")
    edges = c.path("lru_edges.ndjson")
    res = c.tlc_must_pass("util", "MC_LRU", cfg=cfg, edges_out=edges, workers=c.pick(8, 16), timeout=c.pick(600, 3000))
    c.log("TLC: %d distinct states, %d transitions, %d edges emitted" % (res.distinct, res.generated, res.edges))
    c.guard("tlc_edges", res.edges)
    total_applied = 0
    reports = {}
    # the -nocb adapters build the caches without an eviction callback (evictions visible through counts and state only)
    for ad in ("simplewlru", "wlru", "simplewlru-nocb", "wlru-nocb"):
        rep = vlib.replay_edges(c, ad, edges, walks=c.pick(300, 3000), wlen=c.pick(60, 200), clause="lru-model")
        reports[ad] = {k: rep[k] for k in ("edges", "applied", "skipped", "distinct_pre", "distinct_edges", "walks", "walk_steps", "ops", "mismatch_count")}
        total_applied += rep["applied"]
        sample = rep.get("sample")
    ops = reports["wlru"]["ops"]
    for op in ("add", "get", "peek", "contains", "remove", "removeoldest", "getoldest", "resize", "purge", "containsoradd", "peekoradd"):
        c.guard("op_" + op, ops.get(op, 0))
    return c.finish("model_checking", dict(
        states=res.distinct, transitions=res.generated,
        traces_validated_against_impl=reports["simplewlru"]["walks"] + reports["wlru"]["walks"],
        edges_replayed_on_impl=total_applied,
        exhaustive=True,
        rule="complete reachable graph of LRU.tla for cfg %s; every transition executed on both caches from a rebuilt pre-state, "
             "comparing result, eviction-callback log, Keys() order, values, Weight/Len/Total; plus random walks on a long-lived object" % cfg,
        replay=reports,
        samples=sample or [],
    ), assumptions=["per-entry weights are not readable through the API: compared through Weight() and eviction behaviour",
                    "TLC/SANY/Json module trusted; Go projection = Keys()+Peek()+Weight()+Len()+Total()"])
