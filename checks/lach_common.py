"""Shared driver of the consensus checks C01-C10: record traces of the real IndexedLachesis with a
profile of the harness (`vh lachrecord`), validate every line against specs/lachesis/LachesisTrace.tla."""
import json
import os
import vlib


def run_profile(c, profile, n, clause, strict=True):
    if os.environ.get("VERIF_LACH_N"):        # experiments only
        n = int(os.environ["VERIF_LACH_N"])
    trace = c.path("lach_%s.ndjson" % profile)
    p = c.vh(["lachrecord", "-profile", profile, "-n", n, "-out", trace], timeout=3000)
    out = json.loads(p.stdout)
    stats = out["stats"]
    c.log("recorded profile %s: %s" % (profile, stats))
    for d in out.get("disagreements") or []:
        c.violation(clause, "instances-disagree", "instances fed different orders emitted different blocks: " + d)
    r = vlib.validate_scenarios(c, "lachesis", "LachesisTrace", trace, env={"STRICT": "1" if strict else "0"},
                                lines_per_chunk=400, max_rej=3, timeout=3000)
    late = 0
    for rej in r["rejections"]:
        rec = rej["record"]
        scen = rej["scenario"]
        # strict rejection: re-validate this scenario alone in tolerant mode (late decisions are not violations)
        tolerant_ok = False
        if strict and isinstance(rec, dict) and rec.get("op") == "p" and rec.get("ok"):
            tp = c.path("retry.ndjson")
            vlib.ndjson_write(tp, scen)
            ok, rej2, _ = c.validate_trace("lachesis", "LachesisTrace", tp, env={"STRICT": "0"})
            os.unlink(tp)
            tolerant_ok = ok
            if not ok:
                import re
                m = re.match(r'<<"REJECTED", (\d+), (.*)>>$', rej2)
                rej = dict(line=int(m.group(1)), record=json.loads(json.loads(m.group(2))), scenario=scen)
                rec = rej["record"]
        if tolerant_ok:
            late += 1
            continue
        op = rec.get("op") if isinstance(rec, dict) else "?"
        kind = op
        if op == "p":
            kind = "p-ok" if rec.get("ok") else "p-rejected"
            if rec.get("blocks"):
                kind += "-blocks"
        c.violation(clause, "trace-rejected:" + kind,
                    "LachesisTrace.tla rejects the recorded call %s (line %d of a scenario with validators %s)" % (
                        json.dumps(rec)[:400], rej["line"], scen[0].get("vals")),
                    replay=dict(line=rej["line"], record=rec, scenario=scen[:rej["line"] + 1]))
    if r.get("unvalidated_lines"):
        c.notes.append("%d trace lines left unvalidated after repeated rejections" % r["unvalidated_lines"])
    if late:
        c.notes.append("%d scenario(s) decided a block later than the reference's earliest point (not a violation)" % late)
    sp = r.get("stats") or [0, 0, 0, 0]
    stats["spec_ties"], stats["spec_no_quorum_decisions"], stats["spec_atropos_not_first"], stats["spec_round3_decisions"] = sp[:4]
    with open(trace) as f:
        sample = [json.loads(next(f)) for _ in range(6)]
    return dict(stats=stats, validation=dict(lines=r["lines"], validated_lines=r["validated_lines"], scenarios=r["scenarios"],
                                             tlc_runs=r["runs"], late=late), sample=sample)


def finish(c, res, rule, assumptions=None, extra=None):
    cov = dict(
        states=max(1, c.tlc_states), transitions=max(1, c.tlc_transitions),
        traces_validated_against_impl=res["validation"]["scenarios"],
        trace_lines_validated=res["validation"]["validated_lines"],
        harness_stats=res["stats"], rule=rule, samples=[res["sample"]],
    )
    if extra:
        cov.update(extra)
    return c.finish("model_checking", cov, assumptions=(assumptions or []) + [
        "the specification (LachesisTrace.tla) is the reference; TLC, SANY and the Json/IOUtils modules are trusted",
        "event ids, creators, parents and claimed frames are logged by the harness from the events it generated itself",
    ])


def run_exhaustive(c, cfgs, clause, orders=3, trace_every=10, lazy=False, parts=6, restarts=False):
    """Exhaustive small-scope part: TLC explores every DAG of the bounded model Lachesis.tla (checking the
    declarative invariants) and emits every distinct state; each state's DAG is fed to the real consensus in
    several parents-first orders and the emitted blocks are compared with the model's (pattern R); a sample of
    those runs is also validated against the trace specification."""
    from concurrent.futures import ThreadPoolExecutor
    total = dict(states=0, plays=0, dags_with_blocks=0, dags_with_forks=0, blocks_expected=0, trace_lines=0)
    c.harness()
    if os.environ.get("VERIF_SKIP_EXH"):      # experiments only
        cfgs = [x for x in cfgs if x.startswith("corpus:")]
        total["dags_with_blocks"] = total["dags_with_forks"] = total["states"] = 1
    samples = []
    for cfg in cfgs:
        if cfg.startswith("corpus:"):
            # behaviours found by TLC simulation of the same model (kept under specs/lachesis/corpus): DAGs with tied
            # tallies and decisions later than round 2, which random generation and the tiny exhaustive bounds do not reach
            states = os.path.join(vlib.VERIF, "specs", "lachesis", "corpus", cfg[7:] + ".ndjson")
            trace_every_cfg = 1
        else:
            trace_every_cfg = trace_every
            states = c.path("states_%s.ndjson" % cfg)
            res = c.tlc_must_pass("lachesis", "MC_Lachesis", cfg="MC_Lachesis_" + cfg, edges_out=states, workers=8, timeout=3400)
            c.log("TLC %s: %d distinct states, %d emitted" % (cfg, res.distinct, res.edges))
        with open(states) as f:
            lines = f.readlines()
        n = max(1, min(parts, len(lines) // 200))
        outs = []

        def work(i):
            part = c.path("states_%s_%d.ndjson" % (cfg, i))
            with open(part, "w") as f:
                f.writelines(lines[i::n])
            tr = c.path("trace_%s_%d.ndjson" % (cfg, i))
            args = ["lachreplay", "-orders", orders, "-trace-every", trace_every_cfg]
            if lazy or "lazy" in cfg:
                args.append("-lazy")
            if restarts:
                args.append("-restarts")
            p = c.vh(args + [part, tr], timeout=3400, env={"VERIF_SEED": str(c.seed + i)})
            return json.loads(p.stdout), tr

        with ThreadPoolExecutor(max_workers=n) as ex:
            outs = list(ex.map(work, range(n)))
        alltr = c.path("trace_%s.ndjson" % cfg)
        with open(alltr, "w") as f:
            for rep, tr in outs:
                f.write(open(tr).read())
                for k, v in rep["stats"].items():
                    total[k] = total.get(k, 0) + v
                for m in rep.get("mismatches") or []:
                    c.violation(clause, "model-replay:" + m["kind"],
                                "real consensus disagrees with Lachesis.tla (%s) on a DAG of cfg %s in order %s: want %s got %s" % (
                                    m["kind"], cfg, m.get("order"), json.dumps(m.get("want"))[:200], json.dumps(m.get("got"))[:200]),
                                replay=m)
                for sig, k in (rep.get("sigs") or {}).items():
                    if not any(m["kind"] == sig for m in rep.get("mismatches") or []):
                        c.violation(clause, "model-replay:" + sig, "%d DAGs of cfg %s mismatch (%s)" % (k, cfg, sig))
                if rep.get("sample") and len(samples) < 2:
                    samples.append(rep["sample"][0])
        if os.path.getsize(alltr) > 0:
            r = vlib.validate_scenarios(c, "lachesis", "LachesisTrace", alltr, env={"STRICT": "1"}, lines_per_chunk=3000,
                                        max_rej=2, timeout=3000)
            for rej in r["rejections"]:
                rec = rej["record"]
                c.violation(clause, "trace-rejected:model-dag", "LachesisTrace.tla rejects a run of a model-generated DAG at %s" % json.dumps(rec)[:300],
                            replay=dict(line=rej["line"], record=rec, scenario=rej["scenario"][:rej["line"] + 1]))
            total["trace_lines"] += r["validated_lines"]
            total["traces"] = total.get("traces", 0) + r["scenarios"]
            sp = r.get("stats") or [0, 0, 0, 0]
            for i, k in enumerate(("spec_ties", "spec_no_quorum_decisions", "spec_atropos_not_first", "spec_round3_decisions")):
                total[k] = total.get(k, 0) + sp[i]
    return dict(total=total, samples=samples)


def run_vecindex(c, cfgs, clause, kinds):
    """Algorithm-level model: TLC checks VecIndex.tla (transcribed vector-clock algorithm) against the graph definitions on
    every DAG/indexing order in scope and emits every complete DAG; each is indexed by a real vecfc.Index and all
    forkless-cause / merged-clock answers are compared with the specification's. Internal vectors are compared too but a
    difference there is only reported as a note (the properties constrain the answers, not the representation)."""
    total = {}
    sample = None
    for cfg in cfgs:
        states = c.path("vec_%s.ndjson" % cfg.replace(":", "_"))
        if cfg.startswith("corpus:"):
            # complete DAGs emitted earlier by TLC simulation of this model (with the answers TLC computed) and selected by a
            # structural statistic: kept under specs/lachesis/corpus
            states = os.path.join(vlib.VERIF, "specs", "lachesis", "corpus", cfg[7:] + ".ndjson")
        elif cfg.startswith("sim:"):
            # random behaviours of a scope too large to enumerate (three/four validators, 7-9 events), for a fixed time:
            # TLC checks the algorithm model against the definitions on each and emits every complete DAG reached
            name, secs = cfg[4:].split("@")
            res = c.tlc("lachesis", "MC_VecIndex", cfg="MC_VecIndex_" + name, edges_out=states, workers=4, timeout=int(secs),
                        simulate="num=100000000", depth=12, ok_timeout=True)
            if res.invariant_violated or res.errors:
                raise vlib.Infra("VecIndex.tla: simulation found a disagreement between algorithm model and definition (spec bug): " + vlib.tail(res.out, 20))
            c.log("TLC VecIndex simulation %s (%ss): %d complete DAGs emitted" % (name, secs, res.edges))
            total["simulated_dags"] = total.get("simulated_dags", 0) + res.edges
        else:
            res = c.tlc_must_pass("lachesis", "MC_VecIndex", cfg="MC_VecIndex_" + cfg, edges_out=states, workers=8, timeout=3400)
            c.log("TLC VecIndex %s: %d distinct states, %d complete DAGs emitted" % (cfg, res.distinct, res.edges))
        rep = json.loads(c.vh(["vecreplay", states], timeout=3400).stdout)
        for k, v in rep["stats"].items():
            total[k] = total.get(k, 0) + v
        sample = sample or rep.get("sample")
        for sig, n in (rep.get("sigs") or {}).items():
            ms = [m for m in rep.get("mismatches") or [] if m["kind"] == sig]
            if sig in kinds:
                m = ms[0] if ms else {}
                c.violation(clause, "vecindex-replay:" + sig,
                            "real vecfc.Index disagrees with VecIndex.tla on %d complete DAGs of cfg %s (%s at %s: want %s got %s)" % (
                                n, cfg, sig, m.get("at"), json.dumps(m.get("want")), json.dumps(m.get("got"))), replay=m)
            elif sig.startswith("internal") or sig == "add-failed":
                c.notes.append("%s: %d DAGs of cfg %s differ from the algorithm model in %s (representation only, not a verdict)" % (c.pid, n, cfg, sig))
    return dict(total=total, sample=sample)


def binding_selftest(c, res_trace_path=None, profile="c02", n=3):
    """Demonstrates that the trace specification really constrains the recorded runs: a freshly recorded, accepted
    scenario is corrupted in one field at a time (Atropos, a delivered event dropped, claimed frame, verdict flipped,
    block reported one call late) and every corrupted copy must be rejected. Returns dict(corruptions, rejected)."""
    import copy
    trace = c.path("selftest_%s.ndjson" % profile)
    c.vh(["lachrecord", "-profile", profile, "-n", n, "-out", trace], timeout=600, env={"VERIF_SEED": str(c.seed + 977)})
    recs = vlib.ndjson_read(trace)
    # scenarios
    scens, cur = [], None
    for r in recs:
        if r["op"] == "reset":
            cur = [r]
            scens.append(cur)
        else:
            cur.append(r)
    target = None
    for s in scens:
        if s[0].get("byz"):
            continue
        idx = [i for i, r in enumerate(s) if r["op"] == "p" and r["blocks"] and len(r["blocks"][0]["evs"]) > 1]
        if idx and len(s) < 400:
            target = (s, idx[0])
            break
    if not target:
        return dict(corruptions=0, rejected=0, note="no suitable scenario")
    s, i = target
    variants = []

    def variant(name, fn):
        t = copy.deepcopy(s)
        fn(t)
        variants.append((name, t))

    variant("atropos", lambda t: t[i]["blocks"][0].__setitem__("atr", t[i]["blocks"][0]["evs"][-1] if t[i]["blocks"][0]["evs"][-1] != t[i]["blocks"][0]["atr"] else t[i]["blocks"][0]["evs"][0]))
    variant("delivered-event-dropped", lambda t: t[i]["blocks"][0]["evs"].pop())
    variant("cheater-added", lambda t: t[i]["blocks"][0]["ch"].append(t[0]["vals"][0][0]) if t[0]["vals"][0][0] not in t[i]["blocks"][0]["ch"] else t[i]["blocks"][0]["ch"].clear())
    variant("claimed-frame", lambda t: t[i].__setitem__("fr", t[i]["fr"] + 1))
    variant("verdict-flipped", lambda t: next(r for r in t if r["op"] == "p" and r["ok"] and not r["blocks"]).__setitem__("ok", False))

    def late(t):
        b = t[i]["blocks"]
        t[i]["blocks"] = []
        t[i]["ldf"] -= len(b)
        j = next(k for k in range(i + 1, len(t)) if t[k]["op"] == "p" and t[k]["ok"])
        t[j]["blocks"] = b + t[j]["blocks"]
    try:
        variant("block-one-call-late", late)
    except StopIteration:
        pass
    # the uncorrupted scenario must be accepted
    tp = c.path("selftest_ok.ndjson")
    vlib.ndjson_write(tp, s)
    ok, _, _ = c.validate_trace("lachesis", "LachesisTrace", tp, env={"STRICT": "1"})
    if not ok:
        raise vlib.Infra("selftest: the uncorrupted scenario is rejected")
    rejected = []
    for name, t in variants:
        tp = c.path("selftest_%s.ndjson" % name)
        vlib.ndjson_write(tp, t)
        ok, _, _ = c.validate_trace("lachesis", "LachesisTrace", tp, env={"STRICT": "1"})
        if not ok:
            rejected.append(name)
    return dict(corruptions=[v[0] for v in variants], rejected=rejected)
