"""C21 Double-sign guard never permits emission too early.
Spec: specs/msc/DoubleSign.tla -- exact integer arithmetic: permitted iff a peer exists, P2P sync finished and
every one of the five timestamps lies at least the threshold in the past; otherwise (timestamp cause)
wait = min(MaxDur, max_i(threshold - (now - t_i))); parallel iff created >= startup and now - created < threshold.
Apalache (pattern P) proves the operator's internal consistency over the whole int64 range and the three
scale obligations that let TLC evaluate it at 16 ticks per unit instead of 2^60 ns per unit.
TLC (MC_DoubleSign.tla) evaluates the operators on boundary vectors (timestamps at 0, +-1, +-7, +-8, +-9, +-20 units
from now with +-1 ns offsets, i.e. also beyond the duration range; thresholds from MinDur to MaxDur); each
vector is converted to time.Time / time.Duration and run through the real SyncedToEmit /
DetectParallelInstance in nine representations of the same instants (location, monotonic reading, construction, origin moved to before the zero instant;
unset timestamps as the zero instant in five representations), and the set of distinct verdicts/waits must be the
singleton TLC gives (pattern R, stateless)."""
import json
import subprocess
import shutil
import time
from concurrent.futures import ThreadPoolExecutor
import vlib

OBLIGATIONS_QUICK = ["PermittedIff", "UnknownWaitOnlyWithoutCause", "ScaleBlocking", "ScaleCap"]
OBLIGATIONS_ALL = ["PermittedIff", "WaitIsLongestRemaining", "UnknownWaitOnlyWithoutCause", "ScaleBlocking", "ScaleOrder", "ScaleCap"]


def apalache_inv(c, d, inv, timeout):
    """one Apalache run (own out-dir, so that several can run side by side)"""
    outdir = c.path("apa-" + inv)
    cmd = ["timeout", str(timeout), "apalache-mc", "check", "--out-dir=" + outdir, "--init=Init", "--next=Next",
           "--inv=" + inv, "--length=0", "DoubleSignProofs.tla"]
    t = time.time()
    p = subprocess.run(cmd, cwd=d, stdout=subprocess.PIPE, stderr=subprocess.STDOUT, text=True)
    shutil.rmtree(outdir, ignore_errors=True)
    if p.returncode == 124:
        raise vlib.Infra("apalache timed out on " + inv)
    if "The outcome is: NoError" in p.stdout:
        return inv, True, round(time.time() - t, 1)
    if "The outcome is: Error" in p.stdout:
        return inv, False, round(time.time() - t, 1)
    raise vlib.Infra("apalache failed on %s:\n%s" % (inv, vlib.tail(p.stdout, 30)))


def run(c):
    with c._lock:
        d = c._specdir("msc")
    obligations = c.pick(OBLIGATIONS_QUICK, OBLIGATIONS_ALL)
    bg = ThreadPoolExecutor(max_workers=3)
    futs = [bg.submit(apalache_inv, c, d, inv, c.pick(600, 1800)) for inv in obligations]
    fbuild = bg.submit(c.harness)

    cfg = c.pick("MC_DoubleSign_quick", "MC_DoubleSign_thorough")
    edges = c.path("ds_vectors.ndjson")
    res = c.tlc_must_pass("msc", "MC_DoubleSign", cfg=cfg, edges_out=edges, workers=4, timeout=3000)
    c.log("TLC %s evaluated %d vectors" % (cfg, res.edges))
    c.guard("vectors", res.edges)
    fbuild.result()
    rep = vlib.replay_edges(c, "doublesign", edges, walks=0, wlen=0, clause="guard-verdict")
    c.log("real code: %d vectors applied, %d disagreements %s" % (rep["applied"], rep["mismatch_count"], json.dumps(rep.get("sigs"))))
    # what the vectors exercise (read from TLC's output)
    st = dict(permitted=0, refused_with_wait=0, refused_wait_capped=0, refused_unconstrained=0, parallel_yes=0, parallel_no=0,
              with_unset_timestamp=0)
    classes = {}
    samples = []
    with open(edges) as f:
        for i, line in enumerate(f):
            a = json.loads(line)["act"]
            classes[a["op"]] = classes.get(a["op"], 0) + 1
            r = a["res"][0]
            if a["in"].get("zero"):
                st["with_unset_timestamp"] += 1
            if "parallel" in r:
                st["parallel_yes" if r["parallel"] else "parallel_no"] += 1
            elif r["permitted"]:
                st["permitted"] += 1
            elif "wait" in r:
                st["refused_with_wait"] += 1
                if r["wait"] == 127:
                    st["refused_wait_capped"] += 1
            else:
                st["refused_unconstrained"] += 1
            if i % (res.edges // 4 + 1) == 0:
                samples.append(a)
    for k, v in st.items():
        c.guard(k, v)
    for cl in ("remaining-time-exceeds-duration-range", "negative-threshold-with-timestamp-beyond-duration-range",
               "timestamp-beyond-duration-range-in-past", "negative-threshold", "threshold-is-min-duration", "in-range"):
        c.guard("synced/" + cl, classes.get("synced/" + cl, 0))
    proved = {}
    for f in futs:
        inv, ok, wall = f.result()
        proved[inv] = dict(holds=ok, wall_s=wall)
        if not ok:
            raise vlib.Infra("Apalache refuted %s on DoubleSign.tla (specification bug)" % inv)
    c.log("Apalache obligations:", proved)
    return c.finish("exploration", dict(
        evaluations=rep["applied"], distinct_nontrivial=len(classes),
        vectors_by_class=classes, verdicts=st,
        symbolic_obligations=proved,
        exhaustive=True,
        rule="every vector of MC_DoubleSign.tla for cfg %s: each of the five timestamps alone over 33 boundary offsets, every pair "
             "of timestamps (%s), thresholds %s, no-peer / not-synced vectors; DetectParallelInstance over 33x33 startup/created "
             "offsets; verdict and wait compared with TLC's evaluation of DoubleSign.tla" % (
                 cfg, c.pick("11x11 coarse offsets", "33x33 offsets, plus triples"), c.pick("9 values MinDur..MaxDur", "19 values MinDur..MaxDur")),
        replay={k: rep[k] for k in ("edges", "applied", "ops", "mismatch_count")},
        samples=samples,
    ), assumptions=["values are vectors units*2^60 ns + offset in {-1,0,1} ns; TLC computes at 16 ticks per unit, justified by the Apalache "
                    "obligations ScaleBlocking/ScaleOrder/ScaleCap; other timestamps of the 2^64 domain are not sampled",
                    "no peer / P2P sync unfinished: an error is required, the wait is not constrained (DESIGN.md section 7); the wait returned "
                    "together with a permission is not constrained either",
                    "which error is returned is not compared",
                    "every vector is run in nine representations of the same instants (local / UTC / fixed-zone location, rebuilt from "
                    "Unix seconds, derived from time.Now() with monotonic readings, mixed, and the whole vector moved so that now lies 1 h before the zero instant, in the year -100, at Unix -2^40 s); the set of distinct outcomes must be the "
                    "singleton TLC gives; an unset timestamp is the zero instant in five representations and, for the specification, "
                    "a timestamp more than 50 units in the past"])
