"""Registration data of the kvp family (C25, C26, C27); lib/mkmanifest.py turns it into MANIFEST.json."""

CHECKS = {
    "C25": dict(
        category="fault_enumeration",
        text="TLC explores the complete graph of abstract application states of FlushScen.tla (2 databases: open/queued/closed, on disk, "
             "durable contents, overlay incl. large values that split one flush into several write batches, dirty flag, contents at "
             "the last flush) and emits every transition with the path to its pre-state; every class of pre-state is run (seeded "
             "sampling only inside a class). Each history is run on the real flushable.SyncedPool and flaggedproducer over a "
             "disk-image backend once without a crash and once per durable operation of its last call with the process stopped at that "
             "operation (database creation, mark put, write batch/put/delete, drop); a fresh pool/producer over fresh stores built from the surviving image calls Initialize "
             "over the surviving names; every run is a trace that TLC validates against SyncedPoolTrace.tla / FlaggedTrace.tla, which "
             "require the recorded surviving state to be the specification's durable state and decide whether the verdict is allowed "
             "and crash consistent. The two flush protocols (SyncedPool.tla, Flagged.tla: durable micro-steps with Crash enabled in "
             "every state) are model-checked for CrashConsistent, and the pre-repair orders are shown to violate it in the model.",
        note="All classes of abstract pre-state are run in every tier; inside a class the transitions are sampled (numbers in the evidence). "
             "Crash points are the durable operations of the last call of a history; those of earlier calls belong to the histories "
             "ending there (same abstract state). A write batch "
             "is taken as atomic, a crash never tears a single operation; the backend is a memory image, not LevelDB/Pebble. Histories "
             "start from empty disks and contain one crash.",
        technique="TLA+ protocol specs + TLC model checking, TLC scenario enumeration, crash injection at every durable operation of the "
                  "real code, TLC trace validation of every run",
        design_ref="DESIGN.md section 5 (C25), section 4.2, Appendix C, section 3 patterns S and T",
    ),
    "C26": dict(
        category="model_checking",
        text="TLC enumerates all 216 routing tables of a small grammar (default, exact, nested exact and overlapping pattern routes) in "
             "MultiDB.tla and (1) for every table and request path the candidate routes of RouteOf, replayed on multidb.Producer.RouteOf "
             "through 50 producer instances per query (one answer, and a candidate), (2) for the unambiguous tables every sequence of "
             "OpenDB calls with a restart from persisted databases and Verify() under a configuration changed in one route, replayed on "
             "a multidb.Producer over a flaggedproducer and a SyncedPool backend comparing accepted/refused, route, the full contents "
             "every live store shows (isolation) and Verify's verdict. Isolation, disjoint records, stable re-open and Verify-under-"
             "the-same-table are invariants model-checked on the specification.",
        note="Bounded grammar (6 route keys with 2-3 destinations each, paths of up to 3 segments, up to 2 (quick) / 3 (thorough) opens and "
             "one restart). Pattern matching is modelled after fmt.Sscanf for %d and %s only; which of several matching patterns wins is "
             "left open, only one answer per table is required. Map-order dependence is detected statistically (50 instances per query, "
             "hundreds of ambiguous queries).",
        technique="TLA+ spec + TLC exhaustive enumeration of routing tables and call sequences, edge replay into multidb.Producer",
        design_ref="DESIGN.md section 5 (C26), section 3 pattern R",
    ),
    "C27": dict(
        category="model_checking",
        text="TLC explores the complete tree of open/close/drop call sequences over the names {a,b} up to 5 (quick) / 7 (thorough) calls "
             "of CachedProducer.tla, checks the clauses of C27 on the specification (same store while open, underlying close exactly once "
             "at the last close, extra close is an error, underlying drop at most once per open) and every transition is replayed on "
             "cachedproducer.Wrap and cachedproducer.WrapAll over an underlying producer that counts the OpenDB/Close/Drop calls "
             "reaching it and fails opens on demand (OpenFail); random walks run on one long-lived producer. Concurrent mode: for every call "
             "history up to 2 (quick) / 3 (thorough) calls and every ordered pair of possible calls the second is issued while the first is "
             "held inside its underlying OpenDB/Close/Drop; the recorded public and underlying calls are validated by TLC against "
             "CachedConcTrace.tla (underlying drops <= opens, underlying closes <= underlying opens <= OpenDB calls).",
        note="Exhaustive within the bound. Close/Drop are issued on the store most recently returned for the name; the concurrent mode checks "
             "only the order-independent counting clauses with one held underlying call (full linearizability is C28's business). The reference count is private and observed through the underlying Close counter and the error result.",
        technique="TLA+ spec + TLC exhaustive call-sequence tree, edge replay into both caching producers",
        design_ref="DESIGN.md section 5 (C27), section 3 pattern R",
    ),
}
