"""C31 Piecewise-linear functions interpolate within rounding.
Specs (specs/fn): PieceFunc.tla transcribes NewFunc's validation and Func.Get with the real unit 10^6 and states the clauses;
PieceFuncApa.tla (pattern P): Apalache proves no-overflow, the bounds and the accuracy clause for one pair of neighbouring dots over the
whole supported range and refutes the tightened bounds; PieceVec.tla: TLC checks the clauses on every small dot list and evaluates Get
for seeded lists; the real piecefunc.NewFunc(dots)(x) is compared exactly with every TLC value.  At the range extremes (numbers TLC
cannot hold) the real code's results are recorded and Apalache checks that PieceFunc.tla yields the same values."""
import json
import os
import random

import vlib
from checks import fnlib

MAXVAL = (2 ** 64 - 1) // 10 ** 6 - 1


def small_lists(c):
    """dot lists with coordinates <= 2000 (all intermediates of Get stay below 2^31), valid and invalid, with arguments"""
    rnd = random.Random(c.seed)
    out = []
    for _ in range(c.pick(400, 5000)):
        n = rnd.choice([2, 2, 3, 3, 4, 5, 6, 8, 9, 10, 12, 17])     # long tables too (a lookup may be organised differently for them)
        kind = rnd.random()
        xs = sorted(rnd.sample(range(0, 2001), n))
        if rnd.random() < 0.3:                                    # tightly packed dots: pieces of width 1 and 2
            b = rnd.randrange(0, 1990)
            xs = sorted(rnd.sample(range(b, b + max(10, n + 3)), n))
        ys = [rnd.choice([rnd.randrange(0, 2001), rnd.randrange(0, 8), 2000, 0, 1999]) for _ in range(n)]
        if kind < 0.04:
            xs[rnd.randrange(1, n)] = xs[0]                       # repeated / decreasing X
        elif kind < 0.08:
            xs.reverse()
        elif kind < 0.10:
            xs, ys = xs[:1], ys[:1]                               # too few dots
        elif kind < 0.11:
            xs, ys = [], []
        args = set()
        for x in xs:
            args.update([max(0, x - 1), x, x + 1])
        lo, hi = (min(xs), max(xs)) if xs else (0, 0)
        for _ in range(c.pick(12, 16)):
            args.add(rnd.randrange(lo, hi + 1))
        args.update([0, max(0, lo - 1), hi + 1, hi + 100])
        out.append(dict(dots=[[x, y] for x, y in zip(xs, ys)], xs=sorted(a for a in args if a - lo <= 2100)))
    return out


def extreme_cases(c):
    rnd = random.Random(c.seed + 7)
    big = [0, 1, 2, 10 ** 6 - 1, 10 ** 6, 10 ** 6 + 1, 2 ** 31, 2 ** 32, 2 ** 32 + 1, 10 ** 12, 2 ** 43, 2 ** 44 - 1, MAXVAL - 10 ** 6, MAXVAL - 2, MAXVAL - 1, MAXVAL]
    cases = []
    fixed = [
        ([(0, MAXVAL), (MAXVAL, 0)], None), ([(0, 0), (MAXVAL, MAXVAL)], None), ([(MAXVAL - 1, MAXVAL), (MAXVAL, 0)], None),
        ([(0, 1), (1, MAXVAL)], None), ([(0, MAXVAL), (1, MAXVAL - 1), (MAXVAL, MAXVAL)], None),
        ([(0, 3), (MAXVAL + 1, 5)], "bad"), ([(0, MAXVAL + 1), (5, 5)], "bad"), ([(0, 2 ** 64 - 1), (1, 1)], "bad"), ([(2 ** 64 - 2, 1), (2 ** 64 - 1, 1)], "bad"),
        ([(MAXVAL, 1), (MAXVAL, 2)], "bad"), ([(0, 1), (MAXVAL, 2), (MAXVAL, 3)], "bad"), ([(5, 1), (4, 2)], "bad"),
    ]
    for dots, _ in fixed:
        cases.append(dots)
    for _ in range(c.pick(20, 120)):
        n = rnd.choice([2, 2, 3])
        xs = sorted(set(rnd.choice([rnd.choice(big), rnd.randrange(0, MAXVAL + 1), rnd.randrange(0, 2 ** 40)]) for _ in range(n)))
        xs = xs[:3]
        if len(xs) < 2:
            xs = [xs[0], min(MAXVAL, xs[0] + 1 + rnd.randrange(0, 10 ** 9))] if xs[0] < MAXVAL else [0, xs[0]]
        ys = [rnd.choice([rnd.choice(big), rnd.randrange(0, MAXVAL + 1)]) for _ in xs]
        cases.append(list(zip(xs, ys)))
    out = []
    for dots in cases:
        xs_ = [d[0] for d in dots]
        lo, hi = min(xs_), max(xs_)
        args = {0, lo, hi, min(2 ** 64 - 1, hi + 1), 2 ** 64 - 1, max(0, lo - 1), (lo + hi) // 2, min(hi, lo + 1), max(lo, hi - 1)}
        for _ in range(3):
            args.add(rnd.randrange(lo, hi + 1))
        for x in xs_[1:-1]:
            args.update([x - 1, x, x + 1])
        out.append(dict(dots=[[str(x), str(y)] for x, y in dots], xs=[str(a) for a in sorted(args)]))
    return out


def run(c):
    quick = [("no overflow, lo-1 <= f <= hi, |f-exact| <= |dy|/10^6+2, exactness at the dots, split form of c <= maxVal; one piece over the whole range 0..maxVal",
              "Init", "AllClauses", True)]
    full = [("no intermediate of the uint64 computation exceeds 2^64-1 (whole range 0..maxVal)", "Init", "NoOverflow", True),
            ("lo-1 <= f <= hi", "Init", "Bounds", True),
            ("|f-exact| <= |dy|/10^6 + 2", "Init", "Accurate", True),
            ("f equals the dot's Y at both ends of the piece", "Init", "AtDots", True)]
    neg = [("non-vacuity: |f-exact| <= |dy|/10^6 + 1 is refuted", "Init", "TightPlusOne", False),
           ("non-vacuity: f >= lo is refuted", "Init", "NeverBelowLo", False),
           ("non-vacuity: with coordinates up to maxVal+2 the computation overflows", "InitOver", "NoOverflow", False)]
    obl = fnlib.Obligations(c, "fn", "PieceFuncApa", c.pick(quick + neg[:1], full + [
        ("the split comparison used by PieceFunc!ValidDots is c <= maxVal", "InitOver", "LimitForm", True)] + neg), par=c.pick(2, 3))
    # ---- range extremes: record the real code, let Apalache compare with PieceFunc.tla
    ein, eout = c.path("piece_ext_in.ndjson"), c.path("piece_ext_out.ndjson")
    vlib.ndjson_write(ein, extreme_cases(c))
    c.vh(["fnpiece", ein, eout])
    ext = vlib.ndjson_read(eout)
    specdir = obl.dir
    with open(os.path.join(specdir, "PieceExt.tla"), "w") as f:
        f.write(fnlib.piece_ext_module("PieceExt", ext))
    ext_obl = fnlib.Obligations(c, "fn", "PieceExt", [("verdicts of the real NewFunc on %d dot lists at the range extremes equal PieceFunc!ValidDots" % len(ext),
                                                       "Init", "AllValid", True)], par=1)
    # started together with the verdicts; its outcome is only looked at when the verdicts agree
    # (PieceFunc!Get on a list that ValidDots refuses may divide by zero)
    val_obl = fnlib.Obligations(c, "fn", "PieceExt", [("values of the real function on the accepted lists equal PieceFunc!Get", "Init", "AllValues", True)], par=1)
    # ---- TLC: clauses on every small list, values for seeded lists
    inp = c.path("piece_lists.ndjson")
    vlib.ndjson_write(inp, small_lists(c))
    out = c.path("piece_vec.ndjson")
    cfg = c.pick("MC_PieceVec_quick", "MC_PieceVec_thorough")
    res = c.tlc_must_pass("fn", "PieceVec", cfg=cfg, env={"IN": inp}, edges_out=out, workers=c.pick(4, 6), timeout=c.pick(900, 3000))
    c.log("TLC %s: %d dot lists (states), clauses hold on every small list" % (cfg, res.distinct))
    rep = fnlib.vec(c, "piecefunc", out, "interpolation")
    cnt = rep["counts"]
    c.log("piecefunc on %d lists: %d values compared, %s" % (rep["vectors"], rep["compared"], cnt))
    between = set()
    rounded = 0
    with open(out) as f:
        for l in f:
            v = json.loads(l)
            dx = [d[0] for d in v["dots"]]
            dy = [d[1] for d in v["dots"]]
            for x, y in zip(v["xs"], v["ys"]):
                if v["valid"] and dx[0] < x < dx[-1] and x not in dx:
                    between.add((l.split('"valid"')[0], x))
                    # the specified value differs from the exact rational interpolation (rounding shows)
                    p = max(i for i in range(len(dx)) if dx[i] <= x)
                    if (y - dy[p]) * (dx[p + 1] - dx[p]) != (dy[p + 1] - dy[p]) * (x - dx[p]):
                        rounded += 1
    # ---- the returned function as a sequential object: a lookup must not depend on earlier lookups (PieceSeq.tla)
    sedges = c.path("pieceseq_edges.ndjson")
    sres = c.tlc_must_pass("fn", "MC_PieceSeq", cfg="MC_PieceSeq", edges_out=sedges, workers=4, timeout=900)
    srep = vlib.replay_edges(c, "piecefunc-seq", sedges, walks=c.pick(300, 3000), wlen=c.pick(30, 60), clause="history-independence")
    back = 0          # lookups that follow a lookup in a LATER piece of the same function (previous x beyond the next inner dot)
    with open(sedges) as f:
        for l in f:
            e = json.loads(l)
            xs_ = [d[0] for d in e["pre"]["dots"]]
            pv, x = e["pre"]["prev"], e["act"]["x"]
            if pv > x and any(x < m <= pv for m in xs_[1:-1]):
                back += 1
    c.log("PieceSeq: %d states, %d ordered lookup pairs replayed on one instance each (%d going back to an earlier piece), %d walks" % (
        sres.distinct, srep["applied"], back, srep["walks"]))
    c.guard("lookups_back_to_an_earlier_piece", back)
    long_tables = 0
    with open(out) as f:
        for l in f:
            v = json.loads(l)
            if v["valid"] and len(v["dots"]) >= 9 and v["dots"][-1][0] in v["xs"]:
                long_tables += 1
    c.guard("tables_of_9_or_more_dots_queried_at_the_last_dot", long_tables)
    for g in ("valid_lists", "invalid_lists", "x_before-first", "x_after-last", "x_at-dot", "x_between"):
        c.guard(g, cnt.get(g, 0))
    c.guard("values_where_rounding_shows", rounded)
    # ---- Apalache results on the recorded extreme cases: first the verdicts on the lists, then (if they agree) the values
    def failing(sel):
        # up to three disagreeing cases, named by Apalache's counterexamples
        return fnlib.find_failing(c, "fn", "PieceExt", lambda ex: fnlib.piece_ext_module("PieceExt", ext, ex), sel, len(ext))

    def settled(o):
        try:
            o.wait()
            return True
        except vlib.Infra as e:
            if "unexpected outcome" not in str(e):
                raise
            return False

    ext_failed = []
    if not settled(ext_obl):
        ext_failed = failing("SelValid")
        for k in ext_failed:
            cs = ext[k]
            c.violation("interpolation-extremes", "piecefunc:extreme:" + ("rejected-valid-list" if cs["panicked"] else "accepted-invalid-list"),
                        "real NewFunc %s the dot list %s; PieceFunc!ValidDots (Apalache) says the opposite" % (
                            "refused" if cs["panicked"] else "accepted", json.dumps(cs["dots"])), replay=cs)
        if not ext_failed:
            raise vlib.Infra("PieceExt AllValid failed but no single case does")
        try:
            val_obl.wait()
        except vlib.Infra:
            pass
    else:
        if not settled(val_obl):
            ks = failing("SelValues")
            for k in ks:
                cs = ext[k]
                c.violation("interpolation-extremes", "piecefunc:extreme:value",
                            "real piecefunc code on %s gave %s; PieceFunc!Get (Apalache) disagrees" % (
                                json.dumps(cs["dots"]), json.dumps(dict(zip(cs["xs"], cs["ys"])))), replay=cs)
            ext_failed += ks
            if not ks:
                raise vlib.Infra("PieceExt AllValues failed but no single case does")
    ext_values = sum(len(cs["ys"]) for cs in ext)
    c.guard("extreme_cases_valid", len([cs for cs in ext if not cs["panicked"]]))
    c.guard("extreme_cases_refused", len([cs for cs in ext if cs["panicked"]]))
    obl.wait()
    cov = dict(
        evaluations=rep["compared"] + ext_values + srep["applied"] + srep["walk_steps"],
        lookup_pairs_replayed_on_one_instance=srep["applied"], lookup_pairs_back_to_earlier_piece=back,
        traces_validated_against_impl=srep["walks"], walk_steps=srep["walk_steps"],
        distinct_nontrivial=len(between),
        rule="(a) TLC: every dot list of cfg %s (all lists up to length MaxAny in any X order, strictly increasing ones up to 4 dots, every x in 0..XMax+1), "
             "clauses of the statement checked on each; (b) seeded dot lists with coordinates <= 2000 (2-6 dots, packed and spread, ~10%% invalid) with "
             "arguments at, next to and between the dots, Get evaluated by TLC with the real unit; every value compared exactly with the real function, "
             "panics compared with ValidDots; (c) %d lists at the range extremes: results of the real code validated by Apalache against PieceFunc!Get. "
             "(d) PieceSeq.tla: the returned function as a sequential object, all ordered pairs of lookups on 26 lists of 3-4 dots on ONE instance + random walks. "
             "Non-trivial = distinct (list, x) with x strictly between two dots and not at a dot" % (cfg, len(ext)),
        dot_lists=rep["vectors"], values_compared=rep["compared"], classes=cnt, values_where_rounding_shows=rounded,
        extreme_cases=len(ext), extreme_values_validated_by_apalache=ext_values, extreme_cases_disagreeing=len(ext_failed),
        states=c.tlc_states, transitions=c.tlc_transitions, exhaustive=False,
        samples=rep["samples"][:2] + ext[:2],
    )
    cov.update(obl.summary())
    cov["apalache_runs"] = cov["apalache_runs"] + ext_obl.results + val_obl.results
    return c.finish("exploration", cov, assumptions=[
        "the clauses are proved for ONE pair of neighbouring dots over the whole range (Apalache); piece selection, out-of-range behaviour and list "
        "validation are model-checked by TLC on small lists only",
        "history independence: every ordered pair of lookups (x', x) on 26 lists of 3-4 dots is executed on one function instance, longer histories by random walks",
        "the real code is bound to the specification by vectors: exact TLC values for coordinates <= 2000, Apalache-validated results for a few lists at "
        "the extremes; a defect confined to an unsampled region of the 2^64 domain is not detected",
        "TLC, SANY, Apalache/Z3 and the Json/IOUtils modules are trusted"])
