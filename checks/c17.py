"""C17 Stream seeder serves each session in order, once, within limits.
Specs: specs/gsp/Seeder.tla (abstract machine whose guards are the clauses of C17; model-checked by TLC at small
scope), SeederScen.tla (environment model: TLC enumerates every request script of L steps over peers p,q, session
ids 1..4, chunk counts 0..2, unregistrations, three payload limits), SeederTrace.tla (trace specification).  Every
script is executed on the real BaseSeeder (the driver waits until the seeder is quiet after each step) and the
recorded request / ForEachItem / SendChunk log is validated by TLC; a sample of scripts runs a second time with a
tight pending-responses limit and a slow SendChunk (pending-memory clause, hook VerifPendingResponsesSize)."""
import json
import random
import vlib
from checks import gsp_util


def classify(rej):
    """Describes a rejected SendChunk line for the violation signature (the verdict is TLC's; this only names the
    shape of the recorded history): a session that had already sent items restarts at its first item although its
    peer did not unregister in between."""
    recd, scn = rej["record"], rej["scenario"]
    if not isinstance(recd, dict) or recd.get("op") != "send" or not recd.get("items"):
        return None
    start = scn[0]["cf"]["start"][recd["sid"] - 1]
    prior = []
    for x in scn[1:rej["line"] - 1]:
        if x.get("op") == "unregister" and x.get("p") == recd["p"]:
            prior = []
        elif x.get("p") == recd["p"]:
            prior.append(x)
    had_send = any(x["op"] == "send" and x["sid"] == recd["sid"] and x["items"] for x in prior)
    if recd["items"][0] != start or not had_send:
        return None
    reqs = [x for x in prior if x["op"] == "request"]
    sids = sorted({x["sid"] for x in reqs})
    first = {}
    for x in reqs:
        first.setdefault(x["sid"], x["chunks"])
    # a session that was opened by a request for no chunks and requested again later
    zero = any(first[sid] == 0 and sum(1 for x in reqs if x["sid"] == sid) > 1 for sid in sids)
    if zero:
        return "resumable-session-restarted:after-zero-chunk-requests"
    if len(sids) >= 3:
        return "resumable-session-restarted:three-held-none-opened"
    return "resumable-session-restarted"


def replay(c):
    _, reset = gsp_util.load_replay(c)
    scen, trace = c.path("replay_scen.ndjson"), c.path("replay_trace.ndjson")
    with open(scen, "w") as f:
        f.write(json.dumps({"lim": reset["lim"], "tight": reset.get("tight", False), "slow": reset.get("slow", False), "overlap": reset.get("overlap", False), "script": reset["script"]}) + "\n")
    c.vh(["gsp-seeder", scen, trace, -1])
    r = gsp_util.validate_many(c, "gsp", "SeederTrace", trace, parallel=1)
    return gsp_util.finish_replay(c, r, "BaseSeeder")


def run(c):
    if c.replay:
        return replay(c)
    W = 6
    r1 = c.tlc_must_pass("gsp", "MC_Seeder", cfg="MC_Seeder4", workers=3, timeout=900)
    n2 = 0
    if not c.quick:
        n2 = c.tlc_must_pass("gsp", "MC_Seeder", cfg="MC_Seeder", workers=3, timeout=900).distinct
    c.log("abstract spec Seeder.tla: %d + %d distinct states, invariants hold" % (r1.distinct, n2))

    scen = c.path("seeder_scen.ndjson")
    n_exh = n_rand = n_ponly = 0
    exh = c.pick(4, 5)
    with open(scen, "w") as out:
        part = c.path("seeder_scen_exh.ndjson")
        res = c.tlc_must_pass("gsp", "SeederScen", cfg="MC_SeederScen_%d" % exh, edges_out=part, workers=W, timeout=3000)
        n_exh = res.edges
        out.write(open(part).read())
        # one step more for peer p alone (chunks 0..1, limit n2): the shortest scripts that open a session without
        # chunks, resume it and then open a third one need five steps
        part = c.path("seeder_scen_p.ndjson")
        res = c.tlc_must_pass("gsp", "SeederScen", cfg="MC_SeederScen_%dp" % (exh + 1), edges_out=part, workers=W, timeout=3000)
        n_ponly = res.edges
        out.write(open(part).read())
        # longer scripts: TLC random simulation of the same environment model
        rl = c.pick(7, 8)
        part = c.path("seeder_scen_rand.ndjson")
        res = c.tlc("gsp", "SeederScen", cfg="MC_SeederScen_%d" % rl, edges_out=part, workers=W, timeout=3000,
                    simulate="num=%d" % c.pick(4000, 12000), depth=rl + 1)
        if res.rc != 0 or res.errors:
            raise vlib.Infra("TLC simulation of SeederScen failed:\n" + vlib.tail(res.out, 30))
        seen = set()
        cap = c.pick(4000, 20000)
        for line in open(part):
            if line not in seen and len(seen) < cap:
                seen.add(line)
                out.write(line)
        n_rand = len(seen)
    c.log("TLC enumerated %d scripts of %d steps, %d single-peer scripts of %d steps, and simulated %d distinct scripts of %d steps" % (
        n_exh, exh, n_ponly, exh + 1, n_rand, rl))
    c.guard("scripts_exhaustive", n_exh)
    c.guard("scripts_random", n_rand)
    c.guard("scripts_single_peer", n_ponly)

    trace = c.path("seeder_trace.ndjson")
    stats = json.loads(c.vh(["gsp-seeder", scen, trace, c.pick(10, 20)]).stdout)
    c.log("executed on the real BaseSeeder:", stats)
    for g in ("send", "send_done", "send_empty", "resume", "open_while_three", "unregister", "tight", "slow", "overlapping_resume"):
        c.guard(g, stats.get(g, 0))
    r = gsp_util.validate_many(c, "gsp", "SeederTrace", trace, parallel=W, lines_per_piece=100000)
    c.log("seeder: %d scenarios, %d lines validated, %d rejections" % (r["scenarios"], r["validated_lines"], len(r["rejections"])))
    for rej in r["rejections"]:
        recd, scn = rej["record"], rej["scenario"]
        sig = "seeder:%s-not-allowed" % (recd.get("op") if isinstance(recd, dict) else "?")
        kind = classify(rej)
        if kind:
            sig = "seeder:" + kind
        c.violation("seeder-trace", sig, "BaseSeeder trace rejected by Seeder.tla at line %d %s; history: %s" % (
            rej["line"], json.dumps(recd), gsp_util.scenario_text(scn[:rej["line"]], 60)), replay=rej)
    if r.get("unvalidated_lines"):
        c.notes.append("%d trace lines left unvalidated after repeated rejections" % r["unvalidated_lines"])

    return c.finish("model_checking", dict(
        states=c.tlc_states, transitions=c.tlc_transitions,
        traces_validated_against_impl=r["scenarios"], trace_lines_validated=r["validated_lines"],
        scenarios_enumerated_by_tlc=n_exh + n_ponly, scenarios_simulated_by_tlc=n_rand,
        exhaustive=True,
        rule="every script of SeederScen.tla with L=%d (peer p: session ids 1..4, fresh id = smallest unused; peer q: session id 1; "
             "chunks 0..2; unregister; limits n1/n2/s15), every single-peer script of one step more (chunks 0..1, limit n2), plus "
             "TLC-simulated scripts of %d steps, each executed on the real seeder "
             "with quiescence after every step; every 10th/20th script also with MaxPendingResponsesSize=5 and a slow SendChunk, another "
             "10th/20th with MaxSenderTasks=1, doubled chunk counts and a 500us SendChunk (send lines are written on entry of SendChunk), and a further 10th/20th like that but without waiting for "
             "quiescence before a request that resumes the session of the step just before it; "
             "every recorded line validated against Seeder.tla" % (exh, rl),
        harness_stats=stats, samples=[gsp_util.head_lines(trace, 14)],
    ), assumptions=[
        "the driver determines quiescence with the verif hooks VerifQueuedNotifications()==0, a barrier request of a third peer "
        "(FIFO request channel, single reader loop) and VerifPendingResponsesSize()==0; script order is therefore processing order",
        "which sessions end when a new session is opened while three are held is not constrained (any subset of the held ones)",
        "item-count limit read as in the statement: at most one item more than requested",
        "the exhaustive part covers scripts of the stated length only; longer scripts are sampled by TLC's simulator",
    ])
