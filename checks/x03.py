"""X03 (extra, beyond the 33 listed properties): common/prque and utils/wmedian follow their specifications.
Specs: specs/ext/Prque.tla (priority queue with index callbacks: abstract state = which items are queued with which
priority; Push / Pop / PopItem / Remove by the index last reported through the setIndex callback / Remove(-1) / Empty /
Size / Reset; Pop returns AN element of the greatest priority, so the specification is nondeterministic on ties) and
specs/ext/WMedian.tla (wmedian.Of = first value at which the running weight total reaches `stop`, panic when the total
stays below).  TLC explores the complete bounded graph of Prque.tla and checks its properties, and evaluates the
definition of Of over all small inputs; every transition / vector is executed on the real code (pattern R; for the
queue a call conforms when one of the transitions the specification allows for it has the observed result and
projection), plus random walks on long-lived queues.  The queue is replayed three ways: plain, with priorities shifted
across the int64 wrap-around point, and on top of 4094 filler elements so that the explored sizes straddle the block
boundary of its container."""
import json
from concurrent.futures import ThreadPoolExecutor
import vlib

KEYS = ("edges", "applied", "skipped", "distinct_pre", "distinct_edges", "walks", "walk_steps", "ops", "mismatch_count")


def nd_replay(c, adapter, edges_path, walks, wlen, clause, timeout=3000):
    """pattern R through `vh extreplay` (accepts any of the outcomes the specification allows for a call)"""
    p = c.vh(["extreplay", "-walks", walks, "-len", wlen, adapter, edges_path], timeout=timeout)
    try:
        rep = json.loads(p.stdout)
    except ValueError:
        raise vlib.Infra("replay report unreadable: " + p.stdout[-500:] + p.stderr[-2000:])
    for m in rep.get("mismatches") or []:
        c.violation(clause, m["sig"], "%s %s: spec allows %s, code gave %s (mode %s) on %s from state %s" % (
            adapter, m["kind"], json.dumps(m.get("want"))[:300], json.dumps(m.get("got"))[:300], m.get("mode"),
            json.dumps(m["edge"]["act"])[:120], json.dumps(m["edge"]["pre"])[:120]), replay=m)
    for sig, n in (rep.get("sigs") or {}).items():
        if not any(m["sig"] == sig for m in rep.get("mismatches") or []):
            c.violation(clause, sig, "%s: %d mismatching transitions" % (adapter, n))
    if rep.get("applied", 0) == 0:
        raise vlib.Infra("replay applied no transition for " + adapter)
    return rep


def run(c):
    bg = ThreadPoolExecutor(max_workers=3)
    fbuild = bg.submit(c.harness)
    pe = c.path("prque_edges.ndjson")
    we = c.path("wmedian_vectors.ndjson")
    fp = bg.submit(c.tlc_must_pass, "ext", "Prque", cfg=c.pick("MC_Prque_quick", "MC_Prque_thorough"), edges_out=pe,
                   workers=c.pick(3, 6), timeout=c.pick(600, 2400))
    fw = bg.submit(c.tlc_must_pass, "ext", "WMedian", cfg=c.pick("WMedian_quick", "WMedian_thorough"), edges_out=we,
                   workers=c.pick(2, 4), timeout=c.pick(600, 2400))
    pres, wres = fp.result(), fw.result()
    c.log("TLC Prque: %d distinct states, %d transitions (%.0fs); WMedian: %d vectors (%.0fs)" % (
        pres.distinct, pres.edges, pres.wall, wres.edges, wres.wall))
    c.guard("prque_transitions", pres.edges)
    c.guard("wmedian_vectors", wres.edges)
    fbuild.result()
    reports = {}
    for ad in ("prque", "prque-wrap", "prque-big"):
        rep = nd_replay(c, ad, pe, walks=c.pick(150, 1500), wlen=c.pick(80, 300), clause="prque-model")
        reports[ad] = {k: rep[k] for k in KEYS}
        sample = rep.get("sample")
    for op in ("push", "pop", "popitem", "remove", "removegone", "empty", "size", "reset"):
        c.guard("op_" + op, reports["prque"]["ops"].get(op, 0))
    c.guard("prque_walk_steps", sum(r["walk_steps"] for r in reports.values()))
    # how many calls had more than one allowed outcome (ties): the nondeterministic part of the specification
    ties = 0
    seen = {}
    with open(pe) as f:
        for line in f:
            e = json.loads(line)
            if e["act"]["op"] in ("pop", "popitem"):
                k = (json.dumps(e["pre"]), e["act"]["op"])
                seen[k] = seen.get(k, 0) + 1
    ties = sum(1 for n in seen.values() if n > 1)
    c.guard("pop_with_ties", ties)
    wrep = vlib.replay_edges(c, "wmedian", we, walks=0, wlen=0, clause="wmedian-definition")
    reports["wmedian"] = {k: wrep[k] for k in KEYS}
    npanic = nfirst = nlater = 0
    with open(we) as f:
        for line in f:
            r = json.loads(line)["act"]["res"]
            npanic += r["panic"]
            nfirst += (not r["panic"]) and r["i"] == 1
            nlater += (not r["panic"]) and r["i"] > 1
    c.guard("wmedian_panics", npanic)
    c.guard("wmedian_first", nfirst)
    c.guard("wmedian_later", nlater)
    return c.finish("model_checking", dict(
        states=pres.distinct + wres.distinct, transitions=pres.generated + wres.generated,
        traces_validated_against_impl=sum(r["walks"] for r in reports.values()),
        edges_replayed_on_impl=sum(r["applied"] for r in reports.values()),
        exhaustive=True,
        rule="complete reachable graph of Prque.tla (%s): every (state, call) executed on prque from a rebuilt pre-state (elements "
             "pushed in a seeded random order), result and projection (Size, Empty, callback indices, complete drain) must equal one "
             "of the transitions the specification allows; random walks on long-lived queues; three embeddings (plain, int64 "
             "wrap-around, 4094 fillers); all vectors of WMedian.tla (%s) executed on wmedian.Of" % (
                 c.pick("MC_Prque_quick", "MC_Prque_thorough"), c.pick("WMedian_quick", "WMedian_thorough")),
        replay=reports, pop_calls_with_ties=ties, samples=sample or [],
    ), assumptions=[
        "values handed to Push are distinct while queued (the index callback is keyed by value)",
        "Reset does not call the index callback for the dropped elements; the application forgets its indices on Reset",
        "Remove's return value is an unexported type: only nil / non-nil is observed",
        "Pop / Remove on an empty queue or with an index >= Size panic inside container/heap: treated as misuse, not explored",
        "wmedian weights are small (no uint32 overflow of the running total: validators' total weight is bounded by 2^31)",
        "TLC/SANY/Json module trusted"])
