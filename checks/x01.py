"""X01 (extra, beyond the 33 listed properties): the thin kvdb wrappers follow their rules, alone and stacked.
Spec: specs/ext/KVWrappers.tla over the byte-string map of specs/kv (KVDefs.tla, Bytes.tla are copied into the scratch spec
directory): readonlystore, skipkeys, skiperrors, nokeyiserr, fallible (write budget), devnulldb and batched (auto-flushing
pending batch) over kvdb/memorydb, each wrapper one rule per public call, stacks evaluated by recursion over their layers.
TLC explores the complete bounded graph of every configured stack (MC_KVWrappers.tla), checks the wrapper properties on
the specification, and prints one line per distinct state (abstract state + everything the public API must show there:
Get/Has/NewIterator through the top of the stack, the parent memorydb read directly, the snapshot, GetWriteCount, the
pending and the user batch as Replay re-issues them) and one line per transition.  Every transition is executed on the
real wrapper stack from a rebuilt pre-state (pattern R) and random walks run on long-lived stacks."""
import json
import os
import shutil
import vlib

KEYS = ("edges", "applied", "skipped", "distinct_pre", "distinct_edges", "walks", "walk_steps", "ops", "mismatch_count", "per_config")


def join(c, res_out, raw_path, out_path):
    """state lines {"key","state","obs"} + transition lines {"pre","act","post"} (raw keys) -> full edges; returns statistics"""
    states, raws = {}, []
    with open(raw_path) as f:
        for line in f:
            d = json.loads(line)
            if "key" in d:
                states[json.dumps(d["key"], sort_keys=True)] = d
            elif "pre" in d:
                raws.append(d)
    st = dict(states=len(states), transitions=len(raws), per_config={}, errs={}, flushed_by_mayflush=0, flushed_by_write=0,
              get_not_found=0, snapshots_live=0, hidden_by_skipkeys=0, closed_states=0, panics=0, obs_errors=0)
    for s in states.values():
        o = s["obs"]
        st["snapshots_live"] += bool(o["snap"]["live"])
        st["closed_states"] += o["parent"]["kind"] == "closed"
        st["get_not_found"] += sum(1 for g in o["top"]["get"] if g == "ERROR not found")
        st["obs_errors"] += sum(1 for g in o["top"]["get"] if g.startswith("ERROR database closed"))
        if o["parent"]["kind"] == "open" and any(l["t"] == "skipkeys" for l in s["state"]["cfg"]["layers"]):
            shown = {p[0] for p in o["top"]["iters"][0]["pairs"]}
            st["hidden_by_skipkeys"] += sum(1 for p in o["parent"]["pairs"] if p[0] not in shown)
    sample = []
    with open(out_path, "w") as out:
        for i, e in enumerate(raws):
            p = states.get(json.dumps(e["pre"], sort_keys=True))
            q = states.get(json.dumps(e["post"], sort_keys=True))
            if p is None or q is None:
                raise vlib.Infra("a transition refers to a state TLC did not print")
            a = e["act"]
            name = p["state"]["cfg"]["name"]
            st["per_config"][name] = st["per_config"].get(name, 0) + 1
            if a.get("err"):
                st["errs"][a["err"]] = st["errs"].get(a["err"], 0) + 1
            st["flushed_by_mayflush"] += a["op"] == "bmayflush" and a["flushed"] and a["err"] == ""
            st["flushed_by_write"] += (a["op"] in ("put", "del") and p["state"]["pending"] != [] and a["err"] == ""
                                       and q["state"]["parent"] != p["state"]["parent"])
            full = dict(pre=p["state"], act=a, post=q["state"], obs=q["obs"])
            if len(sample) < 2 and i % (len(raws) // 2 + 1) == 7:
                sample.append(dict(pre=full["pre"], act=a, post=full["post"]))
            out.write(json.dumps(full, separators=(",", ":")) + "\n")
    return st, sample


def replay_per_config(c, edges, confp, walks, wlen):
    """pattern R, one `vh replay` per configured stack so that a mismatch is attributed to its stack; returns the summed report"""
    files = {}
    with open(edges) as f:
        for line in f:
            name = json.loads(line)["pre"]["cfg"]["name"]
            if name not in files:
                files[name] = open(c.path("kvw_%d.ndjson" % len(files)), "w")
            files[name].write(line)
    total = dict(edges=0, applied=0, skipped=0, distinct_pre=0, distinct_edges=0, walks=0, walk_steps=0, ops={}, mismatch_count=0, per_config={})
    for name, fh in files.items():
        fh.close()
        p = c.vh(["replay", "-walks", max(10, walks // len(files)), "-len", wlen, "kvwrap", fh.name], env={"EXT_KVCONF": confp}, timeout=3000)
        try:
            rep = json.loads(p.stdout)
        except ValueError:
            raise vlib.Infra("replay report unreadable: " + p.stdout[-500:] + p.stderr[-2000:])
        if rep.get("applied", 0) == 0:
            raise vlib.Infra("replay applied no transition for stack " + name)
        for m in rep.get("mismatches") or []:
            c.violation("kv-wrappers", "%s:%s:%s" % (name, m["op"], m["kind"]),
                        "stack %s, %s after %s from state %s: spec wants %s, code gave %s (mode %s)" % (
                            name, m["kind"], json.dumps(m["edge"]["act"]), json.dumps({k: v for k, v in m["edge"]["pre"].items() if k != "cfg"})[:300],
                            json.dumps(m.get("want"))[:300], json.dumps(m.get("got"))[:300], m.get("mode")), replay=m)
        for sig, n in (rep.get("sigs") or {}).items():
            op, kind = sig.split(":", 2)[1:]
            if not any(m["op"] == op and m["kind"] == kind for m in rep.get("mismatches") or []):
                c.violation("kv-wrappers", "%s:%s:%s" % (name, op, kind), "stack %s: %d mismatching transitions" % (name, n))
        for k in ("edges", "applied", "skipped", "distinct_pre", "distinct_edges", "walks", "walk_steps", "mismatch_count"):
            total[k] += rep[k]
        for op, n in rep["ops"].items():
            total["ops"][op] = total["ops"].get(op, 0) + n
        total["per_config"][name] = dict(applied=rep["applied"], walk_steps=rep["walk_steps"], mismatch_count=rep["mismatch_count"])
        total.setdefault("sample", rep.get("sample"))
    return total


def run(c):
    d = c._specdir("ext")
    for m in ("KVDefs.tla", "Bytes.tla"):
        shutil.copy(os.path.join(os.path.dirname(d), "kv", m), d)
    cfg = c.pick("MC_KVWrappers_quick", "MC_KVWrappers_thorough")
    raw = c.path("kvw_raw.ndjson")
    res = c.tlc_must_pass("ext", "MC_KVWrappers", cfg=cfg, edges_out=raw, workers=c.pick(4, 8), timeout=c.pick(600, 3000))
    confs = res.printed("XCONF")
    if not confs:
        raise vlib.Infra("the model printed no XCONF line:\n" + vlib.tail(res.out, 30))
    confp = c.path("kvw_conf.json")
    with open(confp, "w") as f:
        json.dump(confs[0], f)
    edges = c.path("kvw_edges.ndjson")
    st, sample = join(c, res.out, raw, edges)
    c.log("TLC: %d distinct states, %d transitions (%.0fs); per configuration %s" % (st["states"], st["transitions"], res.wall, st["per_config"]))
    for name, n in st["per_config"].items():
        c.guard("cfg_" + name, n)
    c.guard("configurations", len(st["per_config"]))
    for g in ("flushed_by_mayflush", "flushed_by_write", "get_not_found", "snapshots_live", "hidden_by_skipkeys", "closed_states", "obs_errors"):
        c.guard(g, st[g])
    for e in ("operation is unsupported", "database closed", "PANIC write limit is over"):
        c.guard("err_" + e.replace(" ", "_"), st["errs"].get(e, 0))
    rep = replay_per_config(c, edges, confp, walks=c.pick(300, 3000), wlen=c.pick(40, 120))
    bad = {n: r["mismatch_count"] for n, r in rep["per_config"].items() if r["mismatch_count"]}
    if bad:
        c.log("mismatching transitions / walk steps per stack:", bad)
    for op in ("put", "del", "pput", "pdel", "pclose", "close", "drop", "setwc", "ubput", "ubdel", "ubwrite", "ubreset", "snap", "release",
               "bwrite", "breset", "bflush", "bmayflush"):
        c.guard("op_" + op, rep["ops"].get(op, 0))
    c.guard("walk_steps", rep["walk_steps"])
    return c.finish("model_checking", dict(
        states=res.distinct, transitions=res.generated,
        traces_validated_against_impl=rep["walks"], edges_replayed_on_impl=rep["applied"],
        exhaustive=True,
        rule="complete reachable graph of KVWrappers.tla for the %d stacks of %s (bounds: pending batch <= %d operations, user batch <= 2, "
             "write counter >= -2); every transition executed on the real wrapper stack over memorydb/devnulldb from a rebuilt pre-state, "
             "comparing the returned error / panic / flushed flag and the projection (Get/Has for %d keys and %d (prefix,start) iterations "
             "through the top, parent content, snapshot reads, GetWriteCount, Replay of pending and user batch); plus random walks" % (
                 len(st["per_config"]), cfg, c.pick(3, 4), len(confs[0]["probe"]), len(confs[0]["iters"])),
        model_statistics={k: v for k, v in st.items()}, replay={k: rep[k] for k in KEYS}, samples=sample or rep.get("sample") or [],
    ), assumptions=[
        "the bottom store is kvdb/memorydb (a batch keeps its operations after Write; a second Write applies them again)",
        "writing to a closed memorydb and dropping an open one end in a nil dereference / 'close db first' panic: misuse, not explored",
        "fallible counts Put, Close and Drop only (Delete and batches are not counted): specified as the code evidently behaves",
        "snapshots taken through skipkeys are not explored (the wrapper hands out the parent's snapshot unfiltered; no contract says either way)",
        "long values (51199 / 51200 bytes) are single repeated characters; value names travel in the edges",
        "TLC/SANY/Json module trusted; Go projection uses the public API only"])
