"""Helpers shared by the checks of family fn (C11, C12, C13, C31, C32): vector comparison through
`vh fnvec`, parallel Apalache obligations, seeded input files for the evaluator specs."""
import json
import os
import shutil
import subprocess
import threading
import time
from concurrent.futures import ThreadPoolExecutor

import vlib


def vec(c, kind, path, clause, timeout=1800):
    """Run the real code on the TLC-evaluated vectors in `path`; disagreements become violations."""
    p = c.vh(["fnvec", kind, path], timeout=timeout)
    try:
        rep = json.loads(p.stdout)
    except ValueError:
        raise vlib.Infra("fnvec report unreadable: " + p.stdout[-500:] + p.stderr[-2000:])
    kept = set()
    for m in rep.get("mismatches") or []:
        if m["sig"] in kept:
            continue
        kept.add(m["sig"])
        c.violation(clause, m["sig"], "%s: specification (TLC) wants %s, real code gave %s for %s" % (
            m["what"], json.dumps(m.get("want")), json.dumps(m.get("got")), json.dumps(m.get("vec"))[:400]), replay=m)
    for sig, n in (rep.get("sigs") or {}).items():
        if sig not in kept:
            c.violation(clause, sig, "%s: %d mismatching vectors" % (kind, n))
    if rep.get("vectors", 0) == 0:
        raise vlib.Infra("no vectors for " + kind)
    return rep


class Obligations:
    """Apalache obligations on one module, run in the background (a few at a time)."""
    _lock = threading.Lock()
    _n = 0

    def __init__(self, c, family, module, obligations, par=3, timeout=900):
        # obligations: list of (name, init, inv, expect_holds)
        self.c, self.family, self.module = c, family, module
        self.obl = obligations
        self.results = []
        self.timeout = timeout
        with c._lock:
            self.dir = c._specdir(family)
        self.ex = ThreadPoolExecutor(max_workers=par)
        self.futs = [self.ex.submit(self._one, i, o) for i, o in enumerate(obligations)]

    def _one(self, i, o):
        name, init, inv, expect = o[:4]
        extra = list(o[4]) if len(o) > 4 else []
        mod = o[5] if len(o) > 5 else self.module
        with Obligations._lock:
            Obligations._n += 1
            outdir = self.c.path("apa-%s-%d" % (mod, Obligations._n))
        cmd = ["timeout", str(self.timeout), "apalache-mc", "check", "--out-dir=" + outdir, "--init=" + init, "--next=Next",
               "--inv=" + inv, "--length=0"] + extra + [mod + ".tla"]
        t = time.time()
        p = subprocess.run(cmd, cwd=self.dir, stdout=subprocess.PIPE, stderr=subprocess.STDOUT, text=True)
        wall = time.time() - t
        shutil.rmtree(outdir, ignore_errors=True)
        ok = "The outcome is: NoError" in p.stdout
        cex = "The outcome is: Error" in p.stdout
        if p.returncode == 124 or (not ok and not cex):
            raise vlib.Infra("apalache failed on %s %s/%s:\n%s" % (mod, init, inv, vlib.tail(p.stdout, 30)))
        return dict(obligation=name, module=mod, init=init, inv=inv, holds=ok, expected_to_hold=expect, wall_s=round(wall, 2))

    def wait(self):
        """Returns the list of results; an obligation with an unexpected outcome is a specification problem (exit 2)."""
        res = [f.result() for f in self.futs]
        self.ex.shutdown()
        bad = [r for r in res if r["holds"] != r["expected_to_hold"]]
        if bad:
            raise vlib.Infra("Apalache obligation(s) with unexpected outcome (specification problem): %s" % bad)
        self.results = res
        return res

    def summary(self):
        res = self.results
        return dict(apalache_obligations=len([r for r in res if r["expected_to_hold"]]),
                    apalache_discharged=len([r for r in res if r["expected_to_hold"] and r["holds"]]),
                    apalache_refuted_as_expected=len([r for r in res if not r["expected_to_hold"] and not r["holds"]]),
                    apalache_runs=res)


def split_lines(path, outs):
    """Split an ndjson file by the first key that appears: outs = {substring: outpath}. Returns counts."""
    fh = {k: open(p, "w") for k, p in outs.items()}
    n = {k: 0 for k in outs}
    with open(path) as f:
        for l in f:
            for k in outs:
                if k in l:
                    fh[k].write(l)
                    n[k] += 1
                    break
    for f in fh.values():
        f.close()
    return n


def one_formula(name, names, chunk=30):
    """TLA+ lines defining `name` as the conjunction of the operators `names`, written as one formula (not a top-level
    conjunction: Apalache would check every conjunct in a separate solver query) and in chunks (a flat disjunction of a few
    hundred operands overflows Apalache's stack)."""
    if not names:
        return ["%s == TRUE" % name]
    out, parts = [], []
    for i in range(0, len(names), chunk):
        part = "%sPart%d" % (name, i // chunk)
        out.append("%s == ~(%s)" % (part, " \\/ ".join("~" + n for n in names[i:i + chunk])))
        parts.append(part)
    out.append("%s == ~(%s)" % (name, " \\/ ".join("~" + q for q in parts)))
    return out


def selector(name, names, chunk=30):
    """TLA+ lines defining `name`: the case numbered by the variable i holds.  With Init choosing any i outside Excluded,
    a counterexample to `name` names one disagreeing case (used only on the failure path, see find_failing)."""
    if not names:
        return ["%s == TRUE" % name]
    out, parts = [], []
    for j in range(0, len(names), chunk):
        part = "%sPart%d" % (name, j // chunk)
        out.append("%s == ~(%s)" % (part, " \\/ ".join("(i = %d /\\ ~%s)" % (k, n) for k, n in list(enumerate(names))[j:j + chunk])))
        parts.append(part)
    out.append("%s == ~(%s)" % (name, " \\/ ".join("~" + q for q in parts)))
    return out


HEADER = ["VARIABLE", "  \\* @type: Int;", "  i",
          "\\* i selects a case; Excluded is empty except while the driver looks for the disagreeing cases one after the other",
          "\\* @type: Set(Int);"]


def header(n, excluded):
    return HEADER + ["Excluded == {%s}" % ", ".join(str(k) for k in sorted(excluded)) if excluded else "Excluded == {-1}",
                     "Init == i \\in 0..%d /\\ i \\notin Excluded" % max(n - 1, 0), "Next == UNCHANGED i"]


def find_failing(c, family, module, make_text, sel_inv, n, max_found=3, timeout=900):
    """Failure path: name up to max_found disagreeing cases. Apalache checks the selector invariant; its counterexample
    gives the case number, which is then excluded and the search repeated (one solver run per case found)."""
    import glob
    with c._lock:
        d = c._specdir(family)
    found = []
    while len(found) < max_found:
        with open(os.path.join(d, module + ".tla"), "w") as f:
            f.write(make_text(set(found)))
        with Obligations._lock:
            Obligations._n += 1
            outdir = c.path("apa-find-%d" % Obligations._n)
        cmd = ["timeout", str(timeout), "apalache-mc", "check", "--out-dir=" + outdir, "--init=Init", "--next=Next", "--inv=" + sel_inv,
               "--length=0", module + ".tla"]
        p = subprocess.run(cmd, cwd=d, stdout=subprocess.PIPE, stderr=subprocess.STDOUT, text=True)
        try:
            if "The outcome is: NoError" in p.stdout:
                break
            if "The outcome is: Error" not in p.stdout:
                raise vlib.Infra("apalache failed while looking for the disagreeing case of %s:\n%s" % (module, vlib.tail(p.stdout, 30)))
            k = None
            for fn in glob.glob(os.path.join(outdir, "**", "violation*.itf.json"), recursive=True):
                st = json.load(open(fn))["states"][0]["i"]
                k = int(st["#bigint"]) if isinstance(st, dict) else int(st)
                break
            if k is None or k in found or not (0 <= k < n):
                raise vlib.Infra("no usable counterexample from apalache for %s (%s)" % (module, k))
            found.append(k)
        finally:
            shutil.rmtree(outdir, ignore_errors=True)
    # leave the module without exclusions
    with open(os.path.join(d, module + ".tla"), "w") as f:
        f.write(make_text(set()))
    return found


def piece_ext_module(name, cases, excluded=()):
    """TLA+ module stating, for every recorded case of the real piecefunc code, that PieceFunc.tla agrees with it.
    cases: list of dict(dots=[[x, y] decimal strings], xs=[...], panicked=bool, ys=[...])."""
    out = ["---- MODULE %s ----" % name,
           "(* generated by checks/c31.py: what the real piecefunc code returned for inputs at the range extremes; *)",
           "(* Apalache checks that PieceFunc!ValidDots and PieceFunc!Get agree with every recorded case.       *)",
           "EXTENDS PieceFunc"] + header(len(cases), excluded)
    names = []
    vnames, gnames = [], []
    for k, cs in enumerate(cases):
        flat = ", ".join("%s, %s" % (x, y) for x, y in cs["dots"])
        n = len(cs["dots"])
        assert n in (2, 3)
        # the verdict on the list ...
        out.append("Valid%dCase == %sValid%d(%s)" % (k, "~" if cs["panicked"] else "", n, flat))
        vnames.append("Valid%dCase" % k)
        # ... and, for accepted lists, the values (only meaningful when the verdicts agree: Get of an invalid list may divide by zero)
        if not cs["panicked"]:
            out.append("Value%dCase == %s" % (k, " /\\ ".join([("Get%d(%s, %s) = %s" % (n, flat, x, y)) if y != "panic" else "FALSE"
                                                                 for x, y in zip(cs["xs"], cs["ys"])])))
            gnames.append("Value%dCase" % k)
    out += one_formula("AllValid", vnames)
    out += one_formula("AllValues", gnames)
    # failure path: cases are numbered by their position in `cases`
    out += selector("SelValid", vnames)
    out += ["SelValues == ~(%s)" % " \\/ ".join(["FALSE"] + ["(i = %d /\\ ~%s)" % (int(g[5:-4]), g) for g in gnames])]
    out.append("====")
    return "\n".join(out) + "\n"


def event_wide_module(name, cases, excluded=()):
    """TLA+ module stating, for every recorded verdict of the real eventcheck code on a vector with values up to 2^32-1,
    that EventCheck!WellFormed gives the same verdict.  cases: dicts e, ps, cur, vals, accepted."""
    out = ["---- MODULE %s ----" % name,
           "(* generated by checks/c13.py: verdicts of eventcheck.Checkers.Validate on vectors with field values up to 2^32-1 *)",
           "(* (beyond TLC's integers); Apalache checks that EventCheck!WellFormed gives the same verdict for each.            *)",
           "EXTENDS EventCheck"] + header(len(cases), excluded)
    names = []
    for k, cs in enumerate(cases):
        e = cs["e"]
        ev = "[creator |-> %d, epoch |-> %d, seq |-> %d, frame |-> %d, lamport |-> %d]" % (e["creator"], e["epoch"], e["seq"], e["frame"], e["lamport"])
        ps = "<<" + ", ".join("[creator |-> %d, seq |-> %d, lamport |-> %d, k |-> %d]" % (p["creator"], p["seq"], p["lamport"], p["k"]) for p in cs["ps"]) + ">>"
        if not cs["ps"]:
            ps = "NoParents"
        vals = "{" + ", ".join(str(x) for x in cs["vals"]) + "}"
        out.append("Case%d == WellFormed(%s, %s, %d, %s) = %s" % (k, ev, ps, cs["cur"], vals, "TRUE" if cs["accepted"] else "FALSE"))
        names.append("Case%d" % k)
    out += one_formula("All", names)
    out += selector("Sel", names)
    out.append("====")
    return "\n".join(out) + "\n"
