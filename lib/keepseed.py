#!/usr/bin/env python3
"""keepseed.py <seedout dir> <result json> [<suite json>]  -> /verif/seeded/<ID>-<n>/ (patch.diff, demonstration, meta.json)"""
import json
import os
import shutil
import sys

VERIF = os.path.dirname(os.path.dirname(os.path.abspath(__file__)))
src, res = sys.argv[1], json.load(open(sys.argv[2]))
suite = json.load(open(sys.argv[3])) if len(sys.argv) > 3 and os.path.exists(sys.argv[3]) else {}
meta = json.load(open(os.path.join(src, "meta.json")))
pid = meta["property"]
rnd = os.environ.get("SEED_ROUND", "")
name = "%s-%s%s" % (pid, (rnd + "-") if rnd else "", os.path.basename(os.path.abspath(src)))
dst = os.path.join(VERIF, "seeded", name)
os.makedirs(dst, exist_ok=True)
for f in os.listdir(src):
    p = os.path.join(src, f)
    if os.path.isdir(p):
        shutil.copytree(p, os.path.join(dst, f), dirs_exist_ok=True)
    elif f != "meta.json" and os.path.getsize(p) < 200000:
        shutil.copy(p, dst)
caught = {c: dict(exit=v["rc"], verdict=v["verdict"][:2], detail=v["detail"][:1]) for c, v in res.get("checks", {}).items()}
out = dict(
    property=pid, breaks=pid, summary=meta.get("summary"), needs_to_manifest=meta.get("needs_to_manifest"),
    files_changed=meta.get("files_changed"), demo_place=meta.get("demo_place"), demo_cmd=meta.get("demo_cmd"),
    confirmed=dict(
        how="lib/seedcheck.py in a scratch worktree of /repo HEAD: demonstration on the clean tree, patch applied with git apply, "
            "go build ./..., demonstration again, then go test -count=1 -vet=off on the touched packages (--suite), then the checks "
            "with VERIF_REPO=<worktree>",
        demo_on_clean_tree_exit=res.get("demo_clean_rc"), build_exit=res.get("build_rc"), demo_with_change_exit=res.get("demo_patched_rc"),
        existing_tests_of_touched_packages_exit=suite.get("suite_rc"),
        seeding_agent_reported_full_suite=meta.get("suite_result"),
    ),
    checks_run=caught,
    caught_by=[c for c, v in caught.items() if v["exit"] == 1],
)
json.dump(out, open(os.path.join(dst, "meta.json"), "w"), indent=1)
print(name, "caught_by", out["caught_by"])
