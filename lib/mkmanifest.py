#!/usr/bin/env python3
"""Regenerates /verif/MANIFEST.json from checks/registry.py."""
import json
import os
import sys

HERE = os.path.dirname(os.path.dirname(os.path.abspath(__file__)))
sys.path.insert(0, HERE)
from checks.registry import CHECKS  # noqa: E402
try:
    from checks.registry import NOT_APPLICABLE
except ImportError:
    NOT_APPLICABLE = {}
import glob
import importlib
for fn in sorted(glob.glob(os.path.join(HERE, "checks", "registry_*.py"))):
    m = importlib.import_module("checks." + os.path.basename(fn)[:-3])
    CHECKS.update(getattr(m, "CHECKS", {}))
    NOT_APPLICABLE.update(getattr(m, "NOT_APPLICABLE", {}))

ready_file = os.path.join(HERE, "checks", "ready.txt")
READY = set(open(ready_file).read().split()) if os.path.exists(ready_file) else set(CHECKS)
props = [json.loads(l) for l in open(os.path.join(HERE, "properties.jsonl"))]
checks = []
na = []
for p in props:
    pid = p["id"]
    if pid in CHECKS and pid in READY:
        r = CHECKS[pid]
        checks.append(dict(
            property_id=pid,
            quick_cmd="./check %s --tier quick" % pid,
            thorough_cmd="./check %s --tier thorough" % pid,
            evidence_file="/verif/evidence/%s.json" % pid,
            replay_cmd_template="./check %s --replay {path}" % pid,
            engine="tlc-go-harness",
            level_claimed=dict(category=r["category"], text=r["text"], design_ref=r.get("design_ref", "DESIGN.md section 5")),
            level_note=r["note"],
            technique=r["technique"],
        ))
    else:
        na.append(dict(property_id=pid, reason=NOT_APPLICABLE.get(pid, "check not built yet in this round (planned: see DESIGN.md section 5)")))

hooks_commits = []
for hc in [os.path.join(HERE, "hooks_commits.txt")] + sorted(glob.glob(os.path.join(HERE, "hooks_commits.d", "*.txt"))):
    if os.path.exists(hc):
        hooks_commits += [l.split()[0] for l in open(hc) if l.strip() and not l.startswith("#")]

m = dict(
    version=1,
    setup_cmd="cd /verif && ./setup.sh",
    hooks=dict(
        guard="verif",
        enable="go build -tags verif (the harness module under /verif/harness replaces lachesis-base with /repo and is built with -tags verif by every check)",
        baseline_off_cmd="cd /repo && GOFLAGS=-mod=mod go test -vet=off -count=1 -timeout 25m ./...",
        source_commits=hooks_commits,
        add_only=True,
    ),
    engines=[dict(name="tlc-go-harness", path="/verif/check",
                  serves_properties=[c["property_id"] for c in checks],
                  kind_free_text="TLA+ specifications under /verif/specs checked with TLC (and Apalache for arithmetic), bound to the Go code "
                                 "by edge replay (spec -> code) and trace validation (code -> spec) through the harness /verif/harness (vh)")],
    checks=checks,
    not_applicable=na,
    notes="Every check rebuilds the Go harness against /repo's working tree. Exit 0 = conformed, 1 = VIOLATION line, 2 = inconclusive "
          "(tool failure, timeout, vacuous run). known_findings.json lists recorded findings.",
)
with open(os.path.join(HERE, "MANIFEST.json"), "w") as f:
    json.dump(m, f, indent=1)
print("MANIFEST.json: %d checks, %d not_applicable" % (len(checks), len(na)))
