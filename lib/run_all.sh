#!/bin/bash
# Runs every registered check once (tier from $1, default quick) sequentially and prints one verdict line per check.
tier=${1:-quick}
cd "$(dirname "$0")/.."
for id in $(python3 -c "import json;print(' '.join(c['property_id'] for c in json.load(open('MANIFEST.json'))['checks']))"); do
  start=$(date +%s)
  ./check $id --tier $tier > /tmp/runall_$id.log 2>&1
  rc=$?
  echo "$id rc=$rc wall=$(( $(date +%s) - start ))s $(grep -E 'VIOLATION|INCONCLUSIVE|KNOWN-FINDING' /tmp/runall_$id.log | head -2 | cut -c1-160 | tr '\n' ' ')"
done
