#!/usr/bin/env python3
"""Writes seeded/README.md: one row per kept seeded change (from seeded/*/meta.json)."""
import glob
import json
import os

VERIF = os.path.dirname(os.path.dirname(os.path.abspath(__file__)))
rows = []
for f in sorted(glob.glob(os.path.join(VERIF, "seeded", "*", "meta.json"))):
    m = json.load(open(f))
    name = os.path.basename(os.path.dirname(f))
    caught = m.get("caught_by") or []
    sig = ""
    for c, v in (m.get("checks_run") or {}).items():
        if v.get("detail"):
            d = v["detail"][0]
            if "signature=" in d:
                sig = d.split("signature=")[1].split(" ::")[0]
    if not caught and m.get("note"):
        sig = m["note"]
    summ = (m.get("summary") or "").replace("\n", " ").replace("|", "/")
    needs = (m.get("needs_to_manifest") or "").replace("\n", " ").replace("|", "/")
    rows.append((name, m.get("property"), ", ".join(m.get("files_changed") or []), summ[:220], needs[:200],
                 ", ".join(caught) if caught else "**not caught**", sig[:300 if not caught else 80]))
with open(os.path.join(VERIF, "seeded", "README.md"), "w") as out:
    out.write("# Seeded changes (written by independent agents that saw only the property text; confirmed with lib/seedcheck.py)\n\n")
    out.write("Each directory holds patch.diff, the demonstration and meta.json (what was run, which checks were run against it and their exit codes).\n")
    out.write("`caught by` = checks that exit 1 with a VIOLATION line at the quick tier, seed 1, with the patch applied in a scratch worktree.\n\n")
    out.write("| seed | property | files | change | needs | caught by | signature |\n|---|---|---|---|---|---|---|\n")
    for r in rows:
        out.write("| " + " | ".join(str(x) for x in r) + " |\n")
    n = len(rows)
    k = sum(1 for r in rows if "not caught" not in r[5])
    out.write("\n%d seeded changes kept, %d caught at the quick tier.\n" % (n, k))
print(len(rows), "rows")
