"""Shared machinery of /verif/check: scratch dirs, harness build, TLC / Apalache runners,
known-findings handling, vacuity guards, evidence writer and the verdict contract.

Verdict contract (DESIGN.md section 2):
  exit 0  everything explored conformed (KNOWN-FINDING lines allowed)
  exit 1  + line "VIOLATION property=<id> replay=<path>"  the real code contradicted the specification
  exit 2  anything else (tool crash, timeout, build error, vacuous run, noisy host)
"""
import hashlib
import itertools
import threading
from concurrent.futures import ThreadPoolExecutor
import json
import os
import re
import shutil
import subprocess
import sys
import tempfile
import time

VERIF = os.path.dirname(os.path.dirname(os.path.abspath(__file__)))
REPO = os.environ.get("VERIF_REPO", "/repo")
TLA_JAR = "/opt/veriftools/tla/tla2tools.jar"
TLA_CP = TLA_JAR + ":/opt/veriftools/tla/CommunityModules-deps.jar"
NCPU = os.cpu_count() or 4
JOBS = int(os.environ.get("VERIF_JOBS") or min(8, NCPU))     # parallel TLC processes per check

GOENV = dict(GOFLAGS="-mod=mod", GOPROXY="off", GOSUMDB="off", GOTOOLCHAIN="local")


class Infra(Exception):
    """Infrastructure problem: exit 2, never a violation."""


class TLCResult:
    def __init__(self, out, rc, wall):
        self.out = out
        self.rc = rc
        self.wall = wall
        self.generated = 0
        self.distinct = 0
        m = None
        for m in re.finditer(r"(\d+) states generated, (\d+) distinct states found", out):
            pass
        if m:
            self.generated = int(m.group(1))
            self.distinct = int(m.group(2))
        self.invariant_violated = re.findall(r"Invariant (\S+) is violated", out)
        self.action_prop_violated = re.findall(r"Action property (\S+) is violated", out)
        self.post_violated = "Postcondition" in out or "POSTCONDITION" in out and "violated" in out
        self.finished = "Model checking completed" in out or "Finished in" in out or "Finished computing" in out
        self.errors = [l for l in out.splitlines() if l.startswith("Error:")]

    @property
    def clean(self):
        return self.rc == 0 and not self.errors and not self.invariant_violated

    def printed(self, tag):
        """Lines emitted by PrintT(<<tag, jsonstring>>): returns decoded json objects."""
        res = []
        pre = '<<"%s", "' % tag
        for l in self.out.splitlines():
            if l.startswith(pre) and l.endswith('">>'):
                s = l[len(pre):-3]
                res.append(json.loads(tla_unescape(s)))
        return res

    def printed_raw(self, tag):
        pre = '<<"%s", ' % tag
        return [l[len(pre):-2] for l in self.out.splitlines() if l.startswith(pre) and l.endswith(">>")]


def tla_unescape(s):
    # TLC prints strings with \" and \\ escapes
    out = []
    i = 0
    while i < len(s):
        c = s[i]
        if c == "\\" and i + 1 < len(s):
            n = s[i + 1]
            if n == "n":
                out.append("\n")
            elif n == "t":
                out.append("\t")
            else:
                out.append(n)
            i += 2
        else:
            out.append(c)
            i += 1
    return "".join(out)


class Check:
    def __init__(self, pid, tier, seed, replay=None):
        self.pid = pid
        self.tier = tier
        self.seed = seed
        self.replay = replay
        self.t0 = time.time()
        base = os.environ.get("VERIF_TMP") or os.environ.get("TMPDIR") or "/tmp"
        self.scratch = tempfile.mkdtemp(prefix="verif-%s-" % pid, dir=base)
        self.violations = []      # (clause, signature, description, replay_path)
        self.known_hits = []
        self.guards = {}
        self.notes = []
        self._vh = {}
        self._meta = 0
        self._lock = threading.Lock()
        self.tlc_states = 0
        self.tlc_transitions = 0
        self.tlc_runs = []
        self.known = [k for k in load_known() if k.get("property") == pid]

    # ------------------------------------------------------------------ utilities
    @property
    def quick(self):
        return self.tier == "quick"

    def pick(self, quick, thorough):
        return quick if self.tier == "quick" else thorough

    def log(self, *a):
        print("[%s %6.1fs]" % (self.pid, time.time() - self.t0), *a, flush=True)

    def cleanup(self):
        if os.environ.get("VERIF_KEEP"):
            self.log("scratch kept:", self.scratch)
            return
        shutil.rmtree(self.scratch, ignore_errors=True)

    def path(self, *p):
        return os.path.join(self.scratch, *p)

    # ------------------------------------------------------------------ Go harness
    def harness(self, race=False):
        key = "race" if race else "plain"
        if key in self._vh:
            return self._vh[key]
        hdir = os.path.join(VERIF, "harness")
        if REPO != "/repo":
            # checking another tree (e.g. a scratch worktree with a seeded change): build from a private copy
            # of the harness so that the shared harness/go.mod keeps pointing at /repo
            priv = self.path("harness")
            if not os.path.isdir(priv):
                shutil.copytree(hdir, priv)
            hdir = priv
        write_gomod(hdir)
        out = self.path("vh-" + key)
        env = dict(os.environ)
        env.update(GOENV)
        cmd = ["go", "build", "-tags", "verif", "-o", out]
        if race:
            cmd.append("-race")
        cmd.append("./cmd/vh")
        t = time.time()
        p = subprocess.run(cmd, cwd=hdir, env=env, stdout=subprocess.PIPE, stderr=subprocess.STDOUT, text=True)
        if p.returncode != 0:
            raise Infra("harness build failed:\n" + p.stdout[-4000:])
        self.log("harness built (%s) in %.1fs" % (key, time.time() - t))
        self._vh[key] = out
        return out

    def vh(self, args, stdin=None, timeout=1800, race=False, env=None, check=True):
        """Run the harness binary; returns CompletedProcess (stdout text)."""
        exe = self.harness(race)
        e = dict(os.environ)
        e["VERIF_SEED"] = str(self.seed)
        e["VERIF_TIER"] = self.tier
        if env:
            e.update(env)
        try:
            p = subprocess.run([exe] + [str(a) for a in args], input=stdin, stdout=subprocess.PIPE,
                               stderr=subprocess.PIPE, text=True, timeout=timeout, env=e, cwd=self.scratch)
        except subprocess.TimeoutExpired:
            raise Infra("harness timed out: vh " + " ".join(map(str, args)))
        if check and p.returncode != 0:
            raise Infra("harness failed rc=%d: vh %s\n%s\n%s" % (p.returncode, " ".join(map(str, args)),
                                                                  p.stdout[-2000:], p.stderr[-4000:]))
        return p

    # ------------------------------------------------------------------ TLC
    def _specdir(self, family):
        dst = self.path("specs")
        if not os.path.isdir(dst):
            shutil.copytree(os.path.join(VERIF, "specs"), dst)
        return os.path.join(dst, family)

    def tlc(self, family, module, cfg=None, workers=None, env=None, timeout=1800, simulate=None, depth=None,
            dfs=False, extra=None, heap="12g", count=True, coverage=False, stack=None, edges_out=None, ok_timeout=False):
        """Run TLC on specs/<family>/<module>.tla with <cfg> (default <module>.cfg) in a scratch copy."""
        with self._lock:
            d = self._specdir(family)
            self._meta += 1
            mid = self._meta
        meta = self.path("meta%d" % mid)
        jopts = ["-XX:+UseParallelGC", "-XX:ParallelGCThreads=%d" % (2 if str(workers) == "1" else 4), "-Xmx" + heap]
        if stack:
            jopts.append("-Xss" + stack)
        if dfs:
            jopts.append("-Dtlc2.tool.queue.IStateQueue=StateDeque")
        cmd = ["timeout", str(timeout), "java"] + jopts + ["-cp", TLA_CP, "tlc2.TLC", "-metadir", meta,
               "-config", (cfg or module) + (".cfg" if not (cfg or module).endswith(".cfg") else ""),
               "-workers", str(workers or "auto")]
        if simulate:
            cmd += ["-simulate", simulate]
        if depth:
            cmd += ["-depth", str(depth)]
        if coverage:
            cmd += ["-coverage", "1"]
        cmd += ["-seed", str(self.seed)]
        if extra:
            cmd += extra
        cmd.append(module)
        e = dict(os.environ)
        e.pop("JAVA_TOOL_OPTIONS", None)
        if env:
            e.update({k: str(v) for k, v in env.items()})
        t = time.time()
        rawp = self.path("tlcout%d.txt" % mid)
        with open(rawp, "w") as rawf:
            pr = subprocess.run(cmd, cwd=d, env=e, stdout=rawf, stderr=subprocess.STDOUT, text=True)
        wall = time.time() - t
        shutil.rmtree(meta, ignore_errors=True)
        # split the output: PrintT(<<"EDGE", json>>) lines go to an ndjson file, the rest is kept
        keep = []
        nedges = 0
        ef = open(edges_out, "w") if edges_out else None
        pre = '<<"EDGE", "'
        with open(rawp, errors="replace") as rawf:
            for line in rawf:
                if line.startswith(pre):
                    nedges += 1
                    if ef:
                        body = line.rstrip("\n")[len(pre) - 1:-2]
                        try:
                            ef.write(json.loads(body) + "\n")
                        except ValueError:
                            ef.write(tla_unescape(body[1:-1]) + "\n")
                else:
                    keep.append(line)
        if ef:
            ef.close()
        os.unlink(rawp)

        class _P:
            pass
        p = _P()
        p.stdout = "".join(keep)
        p.returncode = pr.returncode
        res = TLCResult(p.stdout, p.returncode, wall)
        res.edges = nedges
        if p.returncode == 124 and not ok_timeout:
            raise Infra("TLC timed out after %ss on %s/%s" % (timeout, family, module))
        if "java.lang.OutOfMemoryError" in p.stdout or "StackOverflowError" in p.stdout:
            raise Infra("TLC resource failure on %s/%s:\n%s" % (family, module, p.stdout[-2000:]))
        if count:
            self.tlc_states += res.distinct
            self.tlc_transitions += res.generated
        self.tlc_runs.append(dict(module=family + "/" + module, cfg=cfg or module, generated=res.generated,
                                  distinct=res.distinct, wall_s=round(wall, 2), rc=p.returncode))
        return res

    def tlc_must_pass(self, *a, **kw):
        """Model-check the specification itself; a failure here is a spec bug (exit 2), not a violation."""
        res = self.tlc(*a, **kw)
        if not res.clean:
            raise Infra("TLC did not pass on the specification (spec bug or tool failure):\n" + tail(res.out, 60))
        return res

    def apalache(self, family, module, args, timeout=600):
        d = self._specdir(family)
        self._meta += 1
        outdir = self.path("apa%d" % self._meta)
        cmd = ["timeout", str(timeout), "apalache-mc", "check", "--out-dir=" + outdir] + args + [module + ".tla"]
        t = time.time()
        p = subprocess.run(cmd, cwd=d, stdout=subprocess.PIPE, stderr=subprocess.STDOUT, text=True)
        wall = time.time() - t
        shutil.rmtree(outdir, ignore_errors=True)
        if p.returncode == 124:
            raise Infra("apalache timed out on %s %s" % (module, args))
        ok = "The outcome is: NoError" in p.stdout
        cex = "The outcome is: Error" in p.stdout
        if not ok and not cex:
            raise Infra("apalache failed on %s %s:\n%s" % (module, args, tail(p.stdout, 40)))
        return ok, p.stdout, wall

    # ------------------------------------------------------------------ trace validation helper
    def validate_trace(self, family, module, trace_path, cfg=None, timeout=1800, env=None, heap="8g", stack="512m"):
        """Run a trace spec (high-water-mark postcondition). Returns (accepted, reject_info, TLCResult).
        The trace spec prints <<"REJECTED", line, record>> when the trace is not fully consumed and
        <<"ACCEPTED", n>> when it is."""
        e = {"TRACE": trace_path}
        if env:
            e.update(env)
        res = self.tlc(family, module, cfg=cfg, workers=1, env=e, timeout=timeout, dfs=True, heap=heap, stack=stack)
        acc = [l for l in res.out.splitlines() if l.startswith('<<"ACCEPTED"')]
        rej = [l for l in res.out.splitlines() if l.startswith('<<"REJECTED"')]
        if acc and not rej and res.rc == 0:
            return True, None, res
        if rej:
            return False, rej[0], res
        raise Infra("trace validation run inconclusive for %s/%s:\n%s" % (family, module, tail(res.out, 60)))

    # ------------------------------------------------------------------ verdicts
    def guard(self, name, count):
        self.guards[name] = self.guards.get(name, 0) + int(count)

    def violation(self, clause, signature, description, replay=None):
        """Record an observed contradiction between real code and specification.
        clause: short clause name; signature: stable identifier of the failing input/call site/history."""
        for k in self.known:
            if k.get("status") == "known" and k.get("clause") == clause and sig_match(k.get("signature"), signature):
                if (clause, k.get("signature")) not in [(a, b) for a, b, _ in self.known_hits]:
                    self.known_hits.append((clause, k.get("signature"), k.get("description", description)))
                return False
        rp = None
        if len(self.violations) < 20:
            os.makedirs(os.path.join(VERIF, "replays"), exist_ok=True)
            h = hashlib.sha1((clause + "|" + str(signature)).encode()).hexdigest()[:10]
            rp = os.path.join(VERIF, "replays", "%s-%s.json" % (self.pid, h))
            with open(rp, "w") as f:
                json.dump(dict(property=self.pid, clause=clause, signature=signature, description=description,
                               seed=self.seed, tier=self.tier, replay=replay), f, indent=1, default=str)
        self.violations.append((clause, signature, description, rp))
        return True

    def finish(self, level, coverage, assumptions=None):
        """Write evidence, print verdict lines, return exit code."""
        zero = [g for g, n in self.guards.items() if n == 0]
        cov = dict(coverage)
        cov.setdefault("guards", dict(self.guards))
        if self.tlc_runs:
            cov.setdefault("tlc_runs", self.tlc_runs)
        if self.notes:
            cov.setdefault("notes", self.notes)
        if self.known_hits:
            cov["known_findings_reproduced"] = [dict(clause=a, signature=b) for a, b, _ in self.known_hits]
        ev = dict(property_id=self.pid, tier=self.tier, seed=self.seed, level=level, coverage=cov,
                  assumptions=assumptions or [], wall_s=round(time.time() - self.t0, 2),
                  violations=len(self.violations))
        # X-numbered checks cover behaviour beyond the listed properties (DESIGN.md 10.8); their evidence is kept apart
        evdir = os.path.join(VERIF, "evidence-extra" if self.pid.startswith("X") else "evidence")
        os.makedirs(evdir, exist_ok=True)
        with open(os.path.join(evdir, self.pid + ".json"), "w") as f:
            json.dump(ev, f, indent=1, default=str)
        for clause, sig, desc in self.known_hits:
            print("KNOWN-FINDING: property=%s %s [%s] %s" % (self.pid, clause, sig, desc))
        if self.violations:
            seen = set()
            for clause, sig, desc, rp in self.violations:
                if rp is None or rp in seen:
                    continue
                seen.add(rp)
                print("VIOLATION property=%s replay=%s" % (self.pid, rp))
                print("  clause=%s signature=%s :: %s" % (clause, sig, desc))
            print("%s: %d violation(s)" % (self.pid, len(self.violations)))
            return 1
        if zero:
            print("%s: INCONCLUSIVE - vacuity guard(s) zero: %s" % (self.pid, ", ".join(zero)))
            return 2
        print("%s: OK tier=%s seed=%d wall=%.1fs guards=%s" % (self.pid, self.tier, self.seed,
                                                               time.time() - self.t0, json.dumps(self.guards)))
        return 0


def sig_match(pattern, signature):
    if pattern is None:
        return False
    return str(pattern) == str(signature)


def tail(s, n):
    return "\n".join(s.splitlines()[-n:])


def load_known():
    res = []
    p = os.path.join(VERIF, "known_findings.json")
    if os.path.exists(p):
        with open(p) as f:
            res += json.load(f).get("findings", [])
    d = os.path.join(VERIF, "known_findings.d")
    if os.path.isdir(d):
        for fn in sorted(os.listdir(d)):
            if fn.endswith(".json"):
                with open(os.path.join(d, fn)) as f:
                    res += json.load(f).get("findings", [])
    return res


def write_gomod(hdir):
    """harness/go.mod = verbatim copy of /repo's require blocks + replace => /repo (see DESIGN.md section 2)."""
    src = open(os.path.join(REPO, "go.mod")).read()
    reqs = re.findall(r"require \((.*?)\)", src, re.S)
    out = "module verifharness\n\ngo 1.17\n\nrequire github.com/Fantom-foundation/lachesis-base v0.0.0\n\n"
    for r in reqs:
        out += "require (" + r + ")\n\n"
    out += "replace github.com/Fantom-foundation/lachesis-base => %s\n" % REPO
    p = os.path.join(hdir, "go.mod")
    if not os.path.exists(p) or open(p).read() != out:
        open(p, "w").write(out)
    s = os.path.join(hdir, "go.sum")
    rs = open(os.path.join(REPO, "go.sum")).read()
    if not os.path.exists(s) or open(s).read() != rs:
        open(s, "w").write(rs)


def ndjson_write(path, records):
    with open(path, "w") as f:
        for r in records:
            f.write(json.dumps(r, separators=(",", ":")) + "\n")


def ndjson_read(path):
    with open(path) as f:
        return [json.loads(l) for l in f if l.strip()]


def replay_edges(c, adapter, edges_path, walks=200, wlen=50, clause="replay", timeout=3600, extra_env=None):
    """Pattern R: run `vh replay <adapter> <edges>`; turn mismatches into violations. Returns the report."""
    p = c.vh(["replay", "-walks", walks, "-len", wlen, adapter, edges_path], timeout=timeout, env=extra_env)
    try:
        rep = json.loads(p.stdout)
    except ValueError:
        raise Infra("replay report unreadable: " + p.stdout[-500:] + p.stderr[-2000:])
    for m in rep.get("mismatches") or []:
        c.violation(clause, m["sig"], "%s %s: spec wants %s, code gave %s (mode %s)" % (
            adapter, m["kind"], json.dumps(m.get("want"))[:300], json.dumps(m.get("got"))[:300], m.get("mode")),
            replay=m)
    # signatures beyond the kept mismatches
    for sig, n in (rep.get("sigs") or {}).items():
        if not any(m["sig"] == sig for m in rep.get("mismatches") or []):
            c.violation(clause, sig, "%s: %d mismatching transitions" % (adapter, n))
    if rep.get("applied", 0) == 0:
        raise Infra("replay applied no edge for " + adapter)
    return rep


def validate_scenarios(c, family, module, trace_path, cfg=None, reset_op="reset", chunks=None, max_rej=4,
                       timeout=1800, heap="4g", env=None, lines_per_chunk=20000):
    """Pattern T over many concatenated scenarios. The trace is cut into chunks at scenario boundaries
    (lines with op == reset_op), chunks are validated in parallel; when a chunk is rejected the
    offending scenario is recorded and removed and the rest of the chunk is validated again, so one
    rejection does not hide the remainder of the trace.
    Returns dict(lines=.., scenarios=.., runs=.., rejections=[dict(line=.., record=.., scenario=[lines])])."""
    with open(trace_path) as f:
        lines = f.readlines()
    starts = [i for i, l in enumerate(lines) if ('"op":"%s"' % reset_op) in l]
    if not starts or starts[0] != 0:
        raise Infra("trace does not start with a %s line" % reset_op)
    nsc = len(starts)
    chunks = chunks or min(JOBS, max(1, len(lines) // lines_per_chunk))
    per = (nsc + chunks - 1) // chunks
    bounds = starts + [len(lines)]
    pieces = []
    for k in range(0, nsc, per):
        pieces.append((bounds[k], bounds[min(k + per, nsc)]))
    result = dict(lines=len(lines), scenarios=nsc, runs=0, rejections=[], validated_lines=0)
    lock = threading.Lock()

    def work(idx, a, b):
        seg = lines[a:b]
        rej_here = 0
        while seg:
            tp = c.path("chunk-%s-%d-%d.ndjson" % (module, idx, rej_here))
            with open(tp, "w") as f:
                f.writelines(seg)
            ok, rej, res = c.validate_trace(family, module, tp, cfg=cfg, timeout=timeout, heap=heap, env=env)
            os.unlink(tp)
            with lock:
                result["runs"] += 1
                for sl in res.out.splitlines():
                    if sl.startswith('<<"STATS"'):
                        nums = [int(x) for x in re.findall(r"-?\d+", sl)]
                        acc = result.setdefault("stats", [0] * len(nums))
                        for i, x in enumerate(nums):
                            if i < len(acc):
                                acc[i] += x
            if ok:
                with lock:
                    result["validated_lines"] += len(seg)
                return
            m = re.match(r'<<"REJECTED", (\d+), (.*)>>$', rej)
            ln = int(m.group(1))
            try:
                recj = json.loads(json.loads(m.group(2)))
            except ValueError:
                recj = m.group(2)
            # scenario containing line ln (1-based) of seg
            st = [i for i, l in enumerate(seg) if ('"op":"%s"' % reset_op) in l]
            s0 = max(i for i in st if i <= ln - 1)
            later = [i for i in st if i > s0]
            s1 = later[0] if later else len(seg)
            with lock:
                result["rejections"].append(dict(line=ln - s0, record=recj, scenario=[json.loads(x) for x in seg[s0:s1]]))
                result["validated_lines"] += s0
            rej_here += 1
            if rej_here >= max_rej:
                with lock:
                    result.setdefault("unvalidated_lines", 0)
                    result["unvalidated_lines"] += len(seg) - s1
                return
            seg = seg[s1:]

    with ThreadPoolExecutor(max_workers=min(len(pieces), JOBS)) as ex:
        futs = [ex.submit(work, i, a, b) for i, (a, b) in enumerate(pieces)]
        for f in futs:
            f.result()
    return result
