#!/usr/bin/env python3
"""Confirm a seeded change and run checks against it, in a scratch worktree (never in /repo).

usage: seedcheck.py <dir with patch.diff, meta.json, demo> [--checks C01,C10] [--tier quick] [--suite] [--no-demo]

1. worktree of /repo HEAD under /tmp; demo placed; demo must PASS on the clean tree
2. patch applied; `go build ./...` must succeed; demo must FAIL; with --suite the touched packages' tests must pass
3. demo removed; every listed check is run with VERIF_REPO=<worktree>; exit codes and verdict lines are reported
The worktree is removed afterwards. Prints one JSON object."""
import argparse
import json
import os
import shutil
import subprocess
import sys

ENV = dict(os.environ, GOFLAGS="-mod=mod", GOPROXY="off", GOSUMDB="off", GOTOOLCHAIN="local")
VERIF = os.path.dirname(os.path.dirname(os.path.abspath(__file__)))


def sh(cmd, cwd, timeout=3000, env=None):
    p = subprocess.run(cmd, shell=True, cwd=cwd, env=env or ENV, stdout=subprocess.PIPE, stderr=subprocess.STDOUT, text=True,
                       timeout=timeout)
    return p.returncode, p.stdout


def main():
    ap = argparse.ArgumentParser()
    ap.add_argument("dir")
    ap.add_argument("--checks", default=None)
    ap.add_argument("--tier", default="quick")
    ap.add_argument("--suite", action="store_true")
    ap.add_argument("--no-demo", action="store_true")
    ap.add_argument("--no-checks", action="store_true")
    ap.add_argument("--seed", default="1")
    a = ap.parse_args()
    d = os.path.abspath(a.dir)
    meta = json.load(open(os.path.join(d, "meta.json")))
    pid = meta["property"] if isinstance(meta.get("property"), str) else meta.get("breaks")
    checks = (a.checks or pid).split(",")
    tag = "%s-%s" % (pid, os.path.basename(d))
    wt = "/tmp/wt-seedcheck-" + tag
    sh("git -C /repo worktree remove --force %s" % wt, "/")
    rc, out = sh("git -C /repo worktree add -q %s HEAD" % wt, "/")
    if rc != 0:
        print(json.dumps(dict(error="worktree: " + out)))
        return 2
    res = dict(seed=d, property=pid)
    try:
        demo_files = []
        if not a.no_demo:
            place = meta.get("demo_place")
            cmd = meta.get("demo_cmd")
            src = None
            for cand in ("demo_test.go", "demo"):
                if os.path.exists(os.path.join(d, cand)):
                    src = os.path.join(d, cand)
                    break
            if src and place and cmd:
                dst = os.path.join(wt, place)
                if os.path.isdir(src):
                    shutil.copytree(src, dst)
                    demo_files.append(dst)
                else:
                    if os.path.isdir(dst) or not dst.endswith(".go"):
                        os.makedirs(dst, exist_ok=True)
                        dst = os.path.join(dst, "zz_seed_demo_test.go")
                    os.makedirs(os.path.dirname(dst), exist_ok=True)
                    shutil.copy(src, dst)
                    demo_files.append(dst)
                cmd = cmd.replace("/tmp/seed-" + pid, wt)
                rc, out = sh(cmd, wt, timeout=1500)
                res["demo_clean_rc"] = rc
                res["demo_clean_tail"] = out[-400:]
            else:
                res["demo"] = "no runnable demo described in meta.json"
        rc, out = sh("git apply %s" % os.path.join(d, "patch.diff"), wt)
        if rc != 0:
            res["error"] = "patch does not apply: " + out[-500:]
            print(json.dumps(res, indent=1))
            return 2
        rc, out = sh("go build ./...", wt, timeout=1500)
        res["build_rc"] = rc
        if rc != 0:
            res["build_tail"] = out[-800:]
        if demo_files:
            rc, out = sh(cmd, wt, timeout=1500)
            res["demo_patched_rc"] = rc
            res["demo_patched_tail"] = out[-600:]
        for f in demo_files:
            if os.path.isdir(f):
                shutil.rmtree(f)
            else:
                os.unlink(f)
        if a.suite:
            rc, out = sh("git diff --name-only", wt)
            pkgs = sorted({"./" + os.path.dirname(f) + "/..." for f in out.split() if f.endswith(".go")})
            rc, out = sh("go test -count=1 -vet=off -timeout 25m " + " ".join(pkgs), wt, timeout=3000)
            res["suite_rc"] = rc
            res["suite_tail"] = out[-600:]
        res["checks"] = {}
        for c in ([] if a.no_checks else checks):
            env = dict(ENV, VERIF_REPO=wt, VERIF_SEED=a.seed)
            env.update({k: v for k, v in os.environ.items() if k.startswith("VERIF_")and k not in ("VERIF_REPO", "VERIF_SEED")})
            rc, out = sh("./check %s --tier %s" % (c, a.tier), VERIF, timeout=6000, env=env)
            lines = [l for l in out.splitlines() if l.startswith("VIOLATION") or "INCONCLUSIVE" in l or ": OK tier" in l or l.startswith("KNOWN")]
            res["checks"][c] = dict(rc=rc, verdict=lines[:4], detail=[l for l in out.splitlines() if l.startswith("  clause=")][:3])
    finally:
        sh("git -C /repo worktree remove --force %s" % wt, "/")
    print(json.dumps(res, indent=1))
    return 0


if __name__ == "__main__":
    sys.exit(main())
