---- MODULE VecIndex ----
\* The branch-based vector-clock algorithm of vecengine/vecfc (global branch ids, HighestBefore with (seq, minSeq | FORK),
\* LowestAfter maintained by a pruned DFS, fork detection by overlapping ranges, merge per creator), transcribed from
\* fillGlobalBranchID / CollectFrom / fillEventVectors / forklessCause / GatherFrom and model-checked against the graph
\* definitions of C05 and C06 for every DAG and indexing order in scope.
EXTENDS Integers, Sequences, FiniteSets, TLC, Json
CONSTANTS N, W, MaxEv, MaxSeq, MaxForks

V == 1..N
RECURSIVE SumW(_)
SumW(S) == IF S = {} THEN 0 ELSE LET v == CHOOSE x \in S : TRUE IN W[v] + SumW(S \ {v})
Quorum == (2 * SumW(V)) \div 3 + 1
None == 0
FORK == [seq |-> 0, min |-> 999]        \* forkDetectedSeq marker
ZERO == [seq |-> 0, min |-> 0]

VARIABLES ev,      \* id (1..n, arrival order) -> [cr, sq, sp, ps]
          anc,     \* id -> ancestors-or-self (ghost, for the definitions)
          lastSeq, \* branch -> highest seq     (BranchIDLastSeq)
          brCr,    \* branch -> creator         (BranchIDCreatorIdxs)
          br,      \* id -> branch              (EventBranch)
          hb,      \* id -> sequence over branches of [seq, min]   (HighestBefore, may be shorter than #branches)
          la,      \* id -> sequence over branches of seq          (LowestAfter)
          forks
vars == <<ev, anc, lastSeq, brCr, br, hb, la, forks>>

Ids == DOMAIN ev
NB == Len(brCr)
BranchesOf(c, bc) == {b \in 1..Len(bc) : bc[b] = c}
AtLeastOneFork(bc) == Len(bc) > N
GetHB(vec, b) == IF b <= Len(vec) THEN vec[b] ELSE ZERO
GetLA(vec, b) == IF b <= Len(vec) THEN vec[b] ELSE 0
IsFork(x) == x = FORK
IsEmpty(x) == ~IsFork(x) /\ x.seq = 0

\* ---------------- graph definitions (the oracle)
ForkSeenIn(A, evf, v) == \E x \in A, y \in A : x < y /\ evf[x].cr = v /\ evf[y].cr = v /\ evf[x].sq = evf[y].sq
HighestSeq(A, evf, v) == LET S == {evf[x].sq : x \in {x \in A : evf[x].cr = v}} IN
                         IF S = {} THEN 0 ELSE CHOOSE m \in S : \A s \in S : s <= m
FCdef(a, b) == /\ ~ForkSeenIn(anc[a], ev, ev[b].cr)
               /\ SumW({v \in V : ~ForkSeenIn(anc[a], ev, v) /\ \E x \in anc[a] : ev[x].cr = v /\ b \in anc[x]}) >= Quorum

\* ---------------- the algorithm's queries
VecFC(a, b) ==
  /\ ~(AtLeastOneFork(brCr) /\ IsFork(GetHB(hb[a], br[b])))
  /\ SumW({brCr[k] : k \in {k \in 1..NB :
              LET l == GetLA(la[b], k) h == GetHB(hb[a], k) IN l # 0 /\ l <= h.seq /\ ~IsFork(h)}}) >= Quorum
Merged(e, v) ==
  IF AtLeastOneFork(brCr)
  THEN LET bs == BranchesOf(v, brCr) IN
       IF \E k \in bs : IsFork(GetHB(hb[e], k)) THEN FORK
       ELSE LET S == {GetHB(hb[e], k).seq : k \in bs} IN [seq |-> CHOOSE m \in S : \A s \in S : s <= m, min |-> 0]
  ELSE GetHB(hb[e], v)

\* ---------------- CollectFrom (vector_ops.go)
Collect1(mine, his) ==
  IF his.seq = 0 /\ ~IsFork(his) THEN mine
  ELSE IF IsFork(mine) THEN mine
  ELSE IF IsFork(his) THEN FORK
  ELSE LET m1 == IF mine.seq = 0 \/ mine.min > his.min THEN [mine EXCEPT !.min = his.min] ELSE mine
           m2 == IF m1.seq < his.seq THEN [m1 EXCEPT !.seq = his.seq] ELSE m1
       IN m2
RECURSIVE CollectAll(_,_,_)
CollectAll(vec, pvecs, nb) ==   \* vec: function over 1..nb ; pvecs: sequence of parent vectors
  IF pvecs = <<>> THEN vec
  ELSE CollectAll([k \in 1..nb |-> Collect1(vec[k], GetHB(Head(pvecs), k))], Tail(pvecs), nb)

\* fork detection (vecengine/index.go fillEventVectors)
DetectForks(vec, bc) ==
  IF ~AtLeastOneFork(bc) THEN vec
  ELSE LET nb == Len(bc)
           \* (a) one branch marked => all branches of that creator marked
           marked1 == {c \in V : Cardinality(BranchesOf(c, bc)) > 1 /\ \E k \in BranchesOf(c, bc) : IsFork(vec[k])}
           v1 == [k \in 1..nb |-> IF bc[k] \in marked1 THEN FORK ELSE vec[k]]
           \* (b) overlapping ranges of two branches of the same creator (creator n checked via its first branch id n)
           marked2 == {c \in V : ~IsFork(v1[c]) /\
                         \E a \in BranchesOf(c, bc), b \in BranchesOf(c, bc) :
                            a # b /\ ~IsEmpty(v1[a]) /\ ~IsEmpty(v1[b]) /\ v1[a].min <= v1[b].seq /\ v1[b].min <= v1[a].seq}
       IN [k \in 1..nb |-> IF bc[k] \in marked2 THEN FORK ELSE v1[k]]

\* LowestAfter update by DFS with pruning: visit w if la[w][me] = 0, go deeper only then
RECURSIVE Dfs(_,_,_,_)
Dfs(stack, laf, me, sq) ==
  IF stack = <<>> THEN laf
  ELSE LET w == Head(stack) rest == Tail(stack) IN
       IF GetLA(laf[w], me) # 0 THEN Dfs(rest, laf, me, sq)
       ELSE LET old == laf[w]
                ext == [k \in 1..(IF me > Len(old) THEN me ELSE Len(old)) |-> IF k = me THEN sq ELSE GetLA(old, k)]
                laf2 == [laf EXCEPT ![w] = ext]
                RECURSIVE Push(_,_)
                Push(S, st) == IF S = {} THEN st ELSE LET p == CHOOSE x \in S : TRUE IN Push(S \ {p}, <<p>> \o st)
            IN Dfs(Push(ev[w].ps, rest), laf2, me, sq)

Add(c, sq, sp, ps, isFork) ==
  LET id == Cardinality(Ids) + 1
      evN == [x \in Ids \cup {id} |-> IF x = id THEN [cr |-> c, sq |-> sq, sp |-> sp, ps |-> ps] ELSE ev[x]]
      A == {id} \cup UNION {anc[p] : p \in ps}
      \* fillGlobalBranchID
      cont == IF sp = None THEN lastSeq[c] = 0 ELSE lastSeq[br[sp]] + 1 = sq
      me == IF cont THEN (IF sp = None THEN c ELSE br[sp]) ELSE NB + 1
      lastSeqN == IF cont THEN [lastSeq EXCEPT ![me] = sq] ELSE Append(lastSeq, sq)
      brCrN == IF cont THEN brCr ELSE Append(brCr, c)
      nb == Len(brCrN)
      init == [k \in 1..nb |-> IF k = me THEN [seq |-> sq, min |-> sq] ELSE ZERO]
      RECURSIVE PV(_)
      PV(S) == IF S = {} THEN <<>> ELSE LET p == CHOOSE x \in S : TRUE IN <<hb[p]>> \o PV(S \ {p})
      collected == CollectAll(init, PV(ps), nb)
      before == DetectForks(collected, brCrN)
      RECURSIVE Push0(_,_)
      Push0(S, st) == IF S = {} THEN st ELSE LET p == CHOOSE x \in S : TRUE IN Push0(S \ {p}, <<p>> \o st)
      laUpd == Dfs(Push0(ps, <<>>), la, me, sq)
      after == [k \in 1..nb |-> IF k = me THEN sq ELSE 0]
  IN /\ ev' = evN
     /\ anc' = [x \in Ids \cup {id} |-> IF x = id THEN A ELSE anc[x]]
     /\ lastSeq' = lastSeqN /\ brCr' = brCrN
     /\ br' = [x \in Ids \cup {id} |-> IF x = id THEN me ELSE br[x]]
     /\ hb' = [x \in Ids \cup {id} |-> IF x = id THEN before ELSE hb[x]]
     /\ la' = [x \in Ids \cup {id} |-> IF x = id THEN after ELSE laUpd[x]]
     /\ forks' = forks + (IF isFork THEN 1 ELSE 0)

Init == /\ ev = <<>> /\ anc = <<>> /\ br = <<>> /\ hb = <<>> /\ la = <<>> /\ forks = 0
        /\ lastSeq = [k \in 1..N |-> 0] /\ brCr = [k \in 1..N |-> k]

EventsOf(c) == {e \in Ids : ev[e].cr = c}
Tips(c) == {e \in EventsOf(c) : ~\E x \in EventsOf(c) : ev[x].sp = e}   \* events without self-child
OtherChoices(c) == {S \in SUBSET {e \in Ids : ev[e].cr # c} : \A x \in S, y \in S : x # y => ev[x].cr # ev[y].cr}

Next ==
  /\ Cardinality(Ids) < MaxEv
  /\ \E c \in V : \E others \in OtherChoices(c) :
       \/ \* extend one of the creator's tips (honest if there is one tip)
          \E sp \in Tips(c) : ev[sp].sq < MaxSeq /\ Add(c, ev[sp].sq + 1, sp, {sp} \cup others, FALSE)
       \/ EventsOf(c) = {} /\ Add(c, 1, None, others, FALSE)
       \/ \* fork: second child of a non-tip event, or a second first event
          /\ forks < MaxForks /\ EventsOf(c) # {}
          /\ \/ \E sp \in EventsOf(c) \ Tips(c) : Add(c, ev[sp].sq + 1, sp, {sp} \cup others, TRUE)
             \/ Add(c, 1, None, others, TRUE)
Spec == Init /\ [][Next]_vars

FCMatches == \A a \in Ids, b \in Ids : VecFC(a, b) = FCdef(a, b)
MergedMatches ==
  \A e \in Ids, v \in V :
     LET m == Merged(e, v) IN
     IF ForkSeenIn(anc[e], ev, v) THEN IsFork(m) ELSE ~IsFork(m) /\ m.seq = HighestSeq(anc[e], ev, v)

\* ---------------- emission of complete DAGs for replay into the real index (one line per distinct terminal state)
SeqOfSet(S) == LET RECURSIVE F(_) F(X) == IF X = {} THEN <<>> ELSE LET m == CHOOSE x \in X : \A y \in X : x <= y IN <<m>> \o F(X \ {m}) IN F(S)
HBJson(vec) == [k \in 1..Len(vec) |-> IF IsFork(vec[k]) THEN [fork |-> TRUE, seq |-> 0, min |-> 0] ELSE [fork |-> FALSE, seq |-> vec[k].seq, min |-> vec[k].min]]
StateJson == [w |-> W,
              events |-> [i \in 1..Cardinality(Ids) |-> [cr |-> ev[i].cr, sq |-> ev[i].sq, sp |-> ev[i].sp, ps |-> SeqOfSet(ev[i].ps \ {ev[i].sp})]],
              fc |-> [a \in 1..Cardinality(Ids) |-> [b \in 1..Cardinality(Ids) |-> VecFC(a, b)]],
              merged |-> [e \in 1..Cardinality(Ids) |-> [v \in 1..N |-> IF IsFork(Merged(e, v)) THEN -1 ELSE Merged(e, v).seq]],
              br |-> [i \in 1..Cardinality(Ids) |-> br[i]],
              hb |-> [i \in 1..Cardinality(Ids) |-> HBJson(hb[i])],
              la |-> [i \in 1..Cardinality(Ids) |-> la[i]],
              lastSeq |-> lastSeq, brCr |-> brCr]
EmitTerminal == Cardinality(Ids) = MaxEv => PrintT(<<"EDGE", ToJson(StateJson)>>)
====
