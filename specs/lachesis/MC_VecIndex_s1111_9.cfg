CONSTANTS N = 4 W <- W1111 MaxEv = 9 MaxSeq = 4 MaxForks = 2
SPECIFICATION Spec
INVARIANTS FCMatches MergedMatches EmitTerminal
CHECK_DEADLOCK FALSE
