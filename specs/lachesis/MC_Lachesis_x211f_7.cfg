CONSTANTS N = 3 W <- W211 None <- NoneV Rule <- StdRule MaxSeq = 3 MaxEv = 7 Forkers <- F3 HeadsOnly = TRUE LazyFrames = FALSE MaxOthers = 2
SPECIFICATION Spec
INVARIANTS AtroposIsRoot NoDoubleConfirm CheatersExact EmitState
PROPERTY BlocksAppendOnly
CHECK_DEADLOCK FALSE
