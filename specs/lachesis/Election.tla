------------------------------- MODULE Election -------------------------------
(* Code-shaped model of abft/election (Election.ProcessRoot, chooseAtropos, Reset) and of the way     *)
(* abft.Orderer drives it (handleElection: one ProcessRoot per frame the new root enters; after a       *)
(* decision onFrameDecided + bootstrapElection/processKnownRoots re-vote all known roots from the new   *)
(* frame to decide upwards).  The election state is a record                                           *)
(*     es = [ftd |-> frame to decide, votes |-> <<root, frame, subject>> -> [yes, obs],                 *)
(*           dec |-> subject -> [yes, obs]]                                                             *)
(* and the operators below are the procedures of the Go code written as functions on that record.       *)
(* The module extends the bounded DAG model Lachesis.tla with one more variable `el` that is updated    *)
(* incrementally, event by event, exactly as the code does; the invariant ElectionMatchesDefinition     *)
(* states that the incremental, vote-caching election decides the same Atropos sequence as the          *)
(* declarative definition (LachesisDef.tla) recomputed from scratch on the whole DAG.                    *)
EXTENDS Lachesis

VARIABLE el      \* [es |-> election state, atr |-> sequence of decided Atropoi]
evars == <<vars, el>>

EmptyES(f) == [ftd |-> f, votes |-> <<>>, dec |-> <<>>]

\* chooseAtropos: validators in canonical order (1..N); undecided -> None; first decided yes -> its observed root
RECURSIVE ChooseFrom(_, _)
ChooseFrom(es, i) ==
  IF i > N THEN None        \* all decided "no": impossible below one third of forkers
  ELSE IF i \notin DOMAIN es.dec THEN None
  ELSE IF es.dec[i].yes THEN es.dec[i].obs
  ELSE ChooseFrom(es, i + 1)
Choose(es) == ChooseFrom(es, 1)

VoteKey(r, f, v) == <<r, f, v>>

\* ProcessRoot(newRoot = r as a root of frame f): returns [es, res]
ProcessRoot(evf, ancf, es, r, f) ==
  LET pre == Choose(es) IN
  IF pre # None THEN [es |-> es, res |-> pre]
  ELSE IF f <= es.ftd THEN [es |-> es, res |-> None]
  ELSE
    LET round == f - es.ftd
        subjects == V \ DOMAIN es.dec
        observed == {x \in RootsAt(evf, f - 1) : FC(evf, ancf, r, x)}
        VoteFor(v) ==
          IF round = 1
          THEN LET mine == {x \in observed : evf[x].cr = v} IN
               [yes |-> mine # {}, decided |-> FALSE, obs |-> IF mine = {} THEN None ELSE CHOOSE x \in mine : TRUE]
          ELSE LET yesRoots == {x \in observed : es.votes[VoteKey(x, f - 1, v)].yes}
                   noRoots  == observed \ yesRoots
                   yesW == SumW({evf[x].cr : x \in yesRoots})
                   noW  == SumW({evf[x].cr : x \in noRoots})
                   obsS == {es.votes[VoteKey(x, f - 1, v)].obs : x \in yesRoots}
               IN [yes |-> yesW >= noW, decided |-> yesW >= Quorum \/ noW >= Quorum,
                   obs |-> IF yesW >= noW /\ obsS # {} THEN CHOOSE o \in obsS : TRUE ELSE None]
        newVotes == [k \in DOMAIN es.votes \cup {VoteKey(r, f, v) : v \in subjects} |->
                       IF k \in DOMAIN es.votes THEN es.votes[k] ELSE [yes |-> VoteFor(k[3]).yes, obs |-> VoteFor(k[3]).obs]]
        newDec == [v \in DOMAIN es.dec \cup {v \in subjects : VoteFor(v).decided} |->
                       IF v \in DOMAIN es.dec THEN es.dec[v] ELSE [yes |-> VoteFor(v).yes, obs |-> VoteFor(v).obs]]
        es2 == [ftd |-> es.ftd, votes |-> newVotes, dec |-> newDec]
    IN [es |-> es2, res |-> Choose(es2)]

\* the root slots known to the store from frame f upwards, frame by frame (processKnownRoots order)
RECURSIVE SlotsFrom(_, _, _)
SlotsFrom(evf, f, maxf) ==
  IF f > maxf \/ RootsAt(evf, f) = {} THEN <<>>
  ELSE LET RECURSIVE S(_) S(X) == IF X = {} THEN <<>> ELSE LET m == CHOOSE x \in X : TRUE IN <<<<m, f>>>> \o S(X \ {m})
       IN S(RootsAt(evf, f)) \o SlotsFrom(evf, f + 1, maxf)

\* processKnownRoots: feed the slots until one ProcessRoot reports a decision
RECURSIVE FeedUntilDecided(_, _, _, _)
FeedUntilDecided(evf, ancf, es, slots) ==
  IF slots = <<>> THEN [es |-> es, res |-> None]
  ELSE LET p == ProcessRoot(evf, ancf, es, Head(slots)[1], Head(slots)[2]) IN
       IF p.res # None THEN p ELSE FeedUntilDecided(evf, ancf, p.es, Tail(slots))

\* onFrameDecided + bootstrapElection: record the Atropos, reset the election for the next frame, re-vote known roots; repeat
RECURSIVE Bootstrap(_, _, _, _)
Bootstrap(evf, ancf, st, fuel) ==
  LET p == FeedUntilDecided(evf, ancf, st.es, SlotsFrom(evf, st.es.ftd, MaxFrame(evf))) IN
  IF p.res = None \/ fuel = 0 THEN [es |-> p.es, atr |-> st.atr]
  ELSE Bootstrap(evf, ancf, [es |-> EmptyES(st.es.ftd + 1), atr |-> Append(st.atr, p.res)], fuel - 1)

\* handleElection for the new root e (frames sf+1 .. fr)
RECURSIVE Handle(_, _, _, _, _, _)
Handle(evf, ancf, st, e, f, fr) ==
  IF f > fr THEN st
  ELSE LET p == ProcessRoot(evf, ancf, st.es, e, f) IN
       IF p.res = None THEN Handle(evf, ancf, [es |-> p.es, atr |-> st.atr], e, f + 1, fr)
       ELSE Handle(evf, ancf, Bootstrap(evf, ancf, [es |-> EmptyES(st.es.ftd + 1), atr |-> Append(st.atr, p.res)], 20), e, f + 1, fr)

EInit == Init /\ el = [es |-> EmptyES(1), atr |-> <<>>]
ENext == /\ Next
         /\ LET new == CHOOSE x \in DOMAIN ev' : x \notin DOMAIN ev
                sf == IF ev'[new].sp = None THEN 0 ELSE ev'[ev'[new].sp].fr
            IN el' = Handle(ev', anc', el, new, sf + 1, ev'[new].fr)


\* ---- search target (simulation): the new event is a root of several frames, a decision falls while it is processed as a
\* root of one of its LOWER frames, and the re-vote of the known roots then decides at least one more frame (a cascade).
\* If the application seals on that later block, handleElection must stop feeding the event's remaining frames.
RECURSIVE LowCascadeAt(_, _, _, _, _, _)
LowCascadeAt(evf, ancf, st, e, f, fr) ==      \* 0 = no; otherwise the frame number of the second block decided by this call
  IF f > fr THEN 0
  ELSE LET p == ProcessRoot(evf, ancf, st.es, e, f) IN
       IF p.res = None THEN LowCascadeAt(evf, ancf, [es |-> p.es, atr |-> st.atr], e, f + 1, fr)
       ELSE LET b == Bootstrap(evf, ancf, [es |-> EmptyES(st.es.ftd + 1), atr |-> Append(st.atr, p.res)], 20) IN
            IF f < fr /\ f >= 2 /\ Len(b.atr) >= Len(st.atr) + 2 THEN Len(st.atr) + 2 ELSE 0
VARIABLE lowc
ENextS == /\ ENext
          /\ LET new == CHOOSE x \in DOMAIN ev' : x \notin DOMAIN ev
                 sf == IF ev'[new].sp = None THEN 0 ELSE ev'[ev'[new].sp].fr
             IN lowc' = LowCascadeAt(ev', anc', el, new, sf + 1, ev'[new].fr)
ESpecS == EInit /\ lowc = 0 /\ [][ENextS]_<<evars, lowc>>
ESpec == EInit /\ lowc = 0 /\ [][ENext /\ lowc' = 0]_<<evars, lowc>>
SealJson == [w |-> W, seal_frame |-> lowc,
             events |-> StateJson.events, blocks |-> SubSeq(StateJson.blocks, 1, lowc)]
NoLowCascade == lowc = 0 \/ (PrintT(<<"EDGE", ToJson(SealJson)>>) /\ FALSE)

\* the incremental election (cached votes, reset and re-vote after each decision) decides what the definition decides
ElectionMatchesDefinition == el.atr = [i \in 1..Len(blocks) |-> blocks[i].atr]
=============================================================================
