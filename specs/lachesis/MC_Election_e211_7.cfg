CONSTANTS N = 3 W <- W211 None <- NoneV Rule <- StdRule MaxSeq = 3 MaxEv = 7 Forkers <- NoForkers HeadsOnly = TRUE LazyFrames = FALSE MaxOthers = 2
SPECIFICATION ESpec
INVARIANTS ElectionMatchesDefinition
CHECK_DEADLOCK FALSE
