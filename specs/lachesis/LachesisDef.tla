----------------------------- MODULE LachesisDef -----------------------------
(* Declarative, order-free definition of the Lachesis rules, written from the statements of      *)
(* C04 / C05 / C10 and not from the structure of the code.                                         *)
(* A DAG is given by two functions over event ids:                                                 *)
(*    evf[e]  = [cr |-> creator, sq |-> sequence, sp |-> self-parent id or None, fr |-> frame]       *)
(*    ancf[e] = set of ancestors-or-self of e                                                      *)
(* Validators are 1..N with weights W[v], listed in canonical order (weight desc, id asc), so the *)
(* canonical order is simply 1, 2, ..., N.                                                         *)
EXTENDS Integers, Sequences, FiniteSets

CONSTANTS N, W, None,
          Rule      \* which statement of each rule is in force; StdRule is the definition, every other value is a
                    \* deliberate mis-statement used only by LachesisAlt.tla to search for separating DAGs
StdRule == [roots |-> "span", tie |-> "yes", quorum |-> "ge", fcfork |-> "check", fccount |-> "nofork", first |-> "one", cap |-> "none", shortcut |-> "none"]
V == 1..N
RECURSIVE SumW(_)
SumW(S) == IF S = {} THEN 0 ELSE LET v == CHOOSE x \in S : TRUE IN W[v] + SumW(S \ {v})
Total == SumW(V)
Quorum == (2 * Total) \div 3 + 1

\* two different events of v with the same sequence number among A
ForkSeenIn(evf, A, v) == \E x \in A, y \in A : x # y /\ evf[x].cr = v /\ evf[y].cr = v /\ evf[x].sq = evf[y].sq
Cheaters(evf, A) == {v \in V : ForkSeenIn(evf, A, v)}

\* "an event with ancestry A is forkless-caused by b"
FCset(evf, ancf, A, b) ==
  /\ (Rule.fcfork = "ignore" \/ ~ForkSeenIn(evf, A, evf[b].cr))
  /\ SumW({v \in V : (Rule.fccount = "all" \/ ~ForkSeenIn(evf, A, v)) /\ \E x \in A : evf[x].cr = v /\ b \in ancf[x]}) >= Quorum
FC(evf, ancf, a, b) == FCset(evf, ancf, ancf[a], b)

SpFrame(evf, e) == IF evf[e].sp = None THEN 0 ELSE evf[evf[e].sp].fr
\* e is a root of every frame above its self-parent's up to its own
RootsAt(evf, f) == IF Rule.roots = "span" THEN {e \in DOMAIN evf : SpFrame(evf, e) < f /\ f <= evf[e].fr}
                   ELSE {e \in DOMAIN evf : SpFrame(evf, e) < evf[e].fr /\ f = evf[e].fr}

\* frame rule for a new event with ancestry A (including itself) whose self-parent has frame sf
\* highest frame among the (other) ancestors of the new event: evf holds frame 0 for the new event itself while its frame is computed
MaxAncFrame(evf, A) == LET S == {evf[x].fr : x \in A} IN CHOOSE m \in S : \A s \in S : s <= m
FCQ(evf, ancf, A, f) ==
  \* (mis-statement "anc-above": forkless cause treated as transitive - an ancestor already above frame f is taken as proof)
  \/ (Rule.shortcut = "anc-above" /\ RootsAt(evf, f) # {} /\ MaxAncFrame(evf, A) > f)
  \/ SumW({evf[r].cr : r \in {r \in RootsAt(evf, f) : FCset(evf, ancf, A, r)}}) >= Quorum
RECURSIVE Climb(_,_,_,_,_)
Climb(evf, ancf, A, f, cap) ==
  \* (mis-statement "anc+1": an event may get ahead of the highest frame it observes by one frame at most)
  IF f < cap /\ (Rule.cap = "none" \/ f < MaxAncFrame(evf, A) + 1) /\ FCQ(evf, ancf, A, f) THEN Climb(evf, ancf, A, f + 1, cap) ELSE f
\* the highest allowed frame (what Build assigns), at most 100 above the self-parent's
MaxAllowed(evf, ancf, A, sf) == LET f == Climb(evf, ancf, A, sf, sf + 100) IN IF f = 0 THEN 1 ELSE f
\* (mis-statement "climb": an event without self-parent climbs from frame 1 like any other event)
MaxAllowedNoSp(evf, ancf, A) == IF Rule.first = "one" THEN 1 ELSE Climb(evf, ancf, A, 1, 101)
\* claimed frame c is allowed
Allowed(evf, ancf, A, sf, hasSp, c) ==
  IF ~hasSp THEN (IF Rule.first = "one" THEN c = 1 ELSE c >= 1 /\ Climb(evf, ancf, A, 1, c) = c)
  ELSE c >= sf /\ Climb(evf, ancf, A, sf, c) = c

\* ------------------------------------------------------------------ virtual voting for frame d
RECURSIVE VoteYes(_,_,_,_,_,_)
Obs(evf, ancf, r, f) == {x \in RootsAt(evf, f - 1) : FC(evf, ancf, r, x)}
YesW(evf, ancf, r, f, v, d) == SumW({evf[x].cr : x \in {x \in Obs(evf, ancf, r, f) :  VoteYes(evf, ancf, x, f - 1, v, d)}})
NoW(evf, ancf, r, f, v, d)  == SumW({evf[x].cr : x \in {x \in Obs(evf, ancf, r, f) : ~VoteYes(evf, ancf, x, f - 1, v, d)}})
\* vote of root r of frame f (> d) on validator v
VoteYes(evf, ancf, r, f, v, d) ==
  IF f = d + 1 THEN \E x \in RootsAt(evf, d) : evf[x].cr = v /\ FC(evf, ancf, r, x)
  ELSE IF Rule.tie = "yes" THEN YesW(evf, ancf, r, f, v, d) >= NoW(evf, ancf, r, f, v, d)          \* a tie counts as yes
       ELSE YesW(evf, ancf, r, f, v, d) > NoW(evf, ancf, r, f, v, d)
DecideAt == IF Rule.quorum = "ge" THEN Quorum ELSE Quorum + 1
Tally(evf, ancf, r, f, v, d) ==                                             \* f >= d + 2
  IF YesW(evf, ancf, r, f, v, d) >= DecideAt THEN "Y"
  ELSE IF NoW(evf, ancf, r, f, v, d) >= DecideAt THEN "N" ELSE "-"

MaxFrame(evf) == IF DOMAIN evf = {} THEN 0 ELSE CHOOSE m \in {evf[e].fr : e \in DOMAIN evf} : \A e \in DOMAIN evf : evf[e].fr <= m
Cands(evf, d) == {c \in (DOMAIN evf) \X ((d + 2)..MaxFrame(evf)) : c[1] \in RootsAt(evf, c[2])}
SubjDecision(evf, ancf, v, d) ==
  IF \E c \in Cands(evf, d) : Tally(evf, ancf, c[1], c[2], v, d) = "Y" THEN "Y"
  ELSE IF \E c \in Cands(evf, d) : Tally(evf, ancf, c[1], c[2], v, d) = "N" THEN "N" ELSE "-"
RECURSIVE FirstYes(_,_,_,_)
FirstYes(evf, ancf, d, i) ==
  IF i > N THEN 0
  ELSE LET dec == SubjDecision(evf, ancf, i, d) IN
       IF dec = "-" THEN 0 ELSE IF dec = "Y" THEN i ELSE FirstYes(evf, ancf, d, i + 1)
\* the Atropos of frame d, or None while undecided
AtroposOf(evf, ancf, d) ==
  LET v == FirstYes(evf, ancf, d, 1) IN
  IF v = 0 THEN None
  ELSE CHOOSE x \in RootsAt(evf, d) : evf[x].cr = v /\ \E r \in RootsAt(evf, d + 1) : FC(evf, ancf, r, x)

RECURSIVE AtroposSeq(_,_,_)
AtroposSeq(evf, ancf, d) == LET a == AtroposOf(evf, ancf, d) IN IF a = None THEN <<>> ELSE <<a>> \o AtroposSeq(evf, ancf, d + 1)

RECURSIVE DeclBlocks(_,_,_,_)
DeclBlocks(evf, ancf, d, confirmed) ==
  LET a == AtroposOf(evf, ancf, d) IN
  IF a = None THEN <<>>
  ELSE <<[atr |-> a, ch |-> Cheaters(evf, ancf[a]), evs |-> ancf[a] \ confirmed]>> \o
       DeclBlocks(evf, ancf, d + 1, confirmed \cup ancf[a])

\* coverage predicates (used to steer simulation towards interesting DAGs)
HasTie(evf, ancf) ==
  \E d \in 1..MaxFrame(evf), v \in V : \E c \in Cands(evf, d) :
      YesW(evf, ancf, c[1], c[2], v, d) = NoW(evf, ancf, c[1], c[2], v, d) /\ YesW(evf, ancf, c[1], c[2], v, d) > 0
HasLateDecision(evf, ancf) ==
  \E d \in 1..MaxFrame(evf), v \in V :
      /\ SubjDecision(evf, ancf, v, d) # "-"
      /\ \A c \in Cands(evf, d) : c[2] = d + 2 => Tally(evf, ancf, c[1], c[2], v, d) = "-"
=============================================================================
