CONSTANTS N = 4 W <- W3221 None <- NoneV Rule <- StdRule MaxSeq = 7 MaxEv = 24 Forkers <- NoForkers HeadsOnly = TRUE LazyFrames = FALSE MaxOthers = 3 VariantRule <- VCapAnc
SPECIFICATION Spec
INVARIANTS VariantAgrees
CHECK_DEADLOCK FALSE
