CONSTANTS N = 3 W <- W211 None <- NoneV Rule <- StdRule MaxSeq = 8 MaxEv = 24 Forkers <- NoForkers HeadsOnly = TRUE LazyFrames = FALSE MaxOthers = 2
SPECIFICATION Spec
INVARIANTS NoRepeatedAtropos
CHECK_DEADLOCK FALSE
