CONSTANTS N = 4 W <- W3221 None <- NoneV Rule <- StdRule MaxSeq = 7 MaxEv = 26 Forkers <- F4 HeadsOnly = FALSE LazyFrames = FALSE MaxOthers = 3
SPECIFICATION ESpec
INVARIANTS ElectionMatchesDefinition
CHECK_DEADLOCK FALSE
