------------------------------- MODULE Lachesis -------------------------------
(* State machine that creates every DAG of N validators in every parents-first order and, after  *)
(* every event, recomputes the blocks from the declarative definition ("naive reference:          *)
(* recompute everything after every accepted event").  Events are identified by                   *)
(* <<creator, seq, branch>>; frames are assigned by the frame rule (highest allowed frame) or,     *)
(* when LazyFrames is set, by any allowed frame.                                                    *)
EXTENDS LachesisDef, TLC, Json

CONSTANTS MaxSeq, MaxEv, Forkers, HeadsOnly, LazyFrames, MaxOthers

VARIABLES ev, anc, blocks, forked
vars == <<ev, anc, blocks, forked>>
Ids == DOMAIN ev

Init == ev = <<>> /\ anc = <<>> /\ blocks = <<>> /\ forked = {}

MainHead(c) == {e \in Ids : e[1] = c /\ e[3] = 0 /\ ~\E x \in Ids : x[1] = c /\ x[3] = 0 /\ x[2] > e[2]}

Create(c, sp, others, k) ==
  LET s == IF sp = None THEN 1 ELSE sp[2] + 1
      id == <<c, s, k>>
      ps == (IF sp = None THEN {} ELSE {sp}) \cup others
      A == {id} \cup UNION {anc[p] : p \in ps}
      sf == IF sp = None THEN 0 ELSE ev[sp].fr
      ancN == [x \in Ids \cup {id} |-> IF x = id THEN A ELSE anc[x]]
      evT == [x \in Ids \cup {id} |-> IF x = id THEN [cr |-> c, sq |-> s, sp |-> sp, ps |-> ps, fr |-> 0] ELSE ev[x]]
      fmax == IF sp = None THEN MaxAllowedNoSp(evT, ancN, A) ELSE MaxAllowed(evT, ancN, A, sf)
  IN /\ id \notin Ids
     /\ \E f \in (IF LazyFrames /\ sp # None THEN sf..fmax ELSE {fmax}) :
          LET evN == [evT EXCEPT ![id].fr = f] IN
          /\ ev' = evN
          /\ anc' = ancN
          /\ blocks' = DeclBlocks(evN, ancN, 1, {})

OtherChoices(c) ==
  IF HeadsOnly
  THEN {S \in SUBSET (UNION {MainHead(o) : o \in V \ {c}}) : Cardinality(S) <= MaxOthers}
  ELSE {S \in SUBSET {e \in Ids : e[1] # c} : Cardinality(S) <= MaxOthers /\ \A x \in S, y \in S : x # y => x[1] # y[1]}

Next ==
  /\ Cardinality(Ids) < MaxEv
  /\ \E c \in V :
       \/ /\ \E others \in OtherChoices(c) :
               LET h == MainHead(c) IN
               IF h = {} THEN Create(c, None, others, 0)
               ELSE LET hh == CHOOSE x \in h : TRUE IN hh[2] < MaxSeq /\ Create(c, hh, others, 0)
          /\ UNCHANGED forked
       \/ \* a fork: a second event for an already used sequence number (new branch from an older event or from nothing)
          /\ c \in Forkers /\ c \notin forked
          /\ MainHead(c) # {}
          /\ \E sp \in ({e \in Ids : e[1] = c /\ e \notin MainHead(c)} \cup {None}) :
               \E others \in OtherChoices(c) : Create(c, sp, others, 1)
          /\ forked' = forked \cup {c}

Spec == Init /\ [][Next]_vars

\* ------------------------------------------------------------------ properties of the definition
\* C01 at the level of the specification: blocks are a function of the event set (the state holds
\* no order), and they only grow as the DAG grows
BlocksAppendOnly == [][Len(blocks') >= Len(blocks) /\ SubSeq(blocks', 1, Len(blocks)) = blocks]_vars
\* C02
AtroposIsRoot == \A i \in 1..Len(blocks) : blocks[i].atr \in RootsAt(ev, i)
NoDoubleConfirm == \A i, j \in 1..Len(blocks) : i # j => blocks[i].evs \cap blocks[j].evs = {}
AncestryClosed == \A i \in 1..Len(blocks) : \A e \in blocks[i].evs : anc[e] \subseteq UNION {blocks[j].evs : j \in 1..i}
\* C03
CheatersExact == \A i \in 1..Len(blocks) : blocks[i].ch = {v \in V : ForkSeenIn(ev, anc[blocks[i].atr], v)}
\* lemma used by the election: with forkers below one third no root forkless-causes two fork roots of one validator
NoTwoForkRoots == \A r \in Ids, x \in Ids, y \in Ids :
    (x # y /\ x[1] = y[1] /\ \E f \in 1..MaxFrame(ev) : {x, y} \subseteq RootsAt(ev, f)) => ~(FC(ev, anc, r, x) /\ FC(ev, anc, r, y))
\* C04: a frame is allowed iff every step is justified; Build's frame is allowed
FramesAllowed == \A e \in Ids :
    Allowed([x \in anc[e] |-> ev[x]], [x \in anc[e] |-> anc[x]], anc[e], SpFrame(ev, e), ev[e].sp # None, ev[e].fr)

\* ------------------------------------------------------------------ emission for replay (one line per distinct state)
Key(e) == ToString(e[1]) \o "-" \o ToString(e[2]) \o "-" \o ToString(e[3])
KeySeq(S) == LET RECURSIVE F(_) F(X) == IF X = {} THEN <<>> ELSE LET m == CHOOSE x \in X : TRUE IN <<Key(m)>> \o F(X \ {m}) IN F(S)
NumSeq(S) == LET RECURSIVE F(_) F(X) == IF X = {} THEN <<>> ELSE LET m == CHOOSE x \in X : \A y \in X : x <= y IN <<m>> \o F(X \ {m}) IN F(S)
EvJson(e) == [id |-> Key(e), cr |-> e[1], sq |-> e[2], sp |-> IF ev[e].sp = None THEN "" ELSE Key(ev[e].sp),
              ps |-> KeySeq(ev[e].ps \ (IF ev[e].sp = None THEN {} ELSE {ev[e].sp})), fr |-> ev[e].fr]
StateJson == [w |-> W,
              events |-> LET RECURSIVE F(_) F(X) == IF X = {} THEN <<>> ELSE LET m == CHOOSE x \in X : TRUE IN <<EvJson(m)>> \o F(X \ {m}) IN F(Ids),
              blocks |-> [i \in 1..Len(blocks) |-> [atr |-> Key(blocks[i].atr), ch |-> NumSeq(blocks[i].ch), evs |-> KeySeq(blocks[i].evs)]]]
EmitState == PrintT(<<"EDGE", ToJson(StateJson)>>)
EmitFull == Cardinality(Ids) = MaxEv => EmitState
\* simulation targets: behaviours are cut (and the DAG emitted) where the interesting situation first appears
\* one event elected Atropos of two consecutive frames (a root that passed several frames at once)
NoRepeatedAtropos == (\A i \in 1..(Len(blocks) - 1) : blocks[i].atr # blocks[i + 1].atr) \/ (EmitState /\ FALSE)
\* a validator listed as cheater by one block and not by the next (the next Atropos does not descend from the fork observation)
NoCheaterDrop == (\A i \in 1..(Len(blocks) - 1) : blocks[i].ch \subseteq blocks[i + 1].ch) \/ (EmitState /\ FALSE)
NoTie == ~HasTie(ev, anc) \/ (EmitState /\ FALSE)
NoLateDecision == ~HasLateDecision(ev, anc) \/ (EmitState /\ FALSE)
=============================================================================
