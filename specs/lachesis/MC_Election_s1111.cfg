CONSTANTS N = 4 W <- W1111 None <- NoneV Rule <- StdRule MaxSeq = 7 MaxEv = 26 Forkers <- NoForkers HeadsOnly = TRUE LazyFrames = FALSE MaxOthers = 3
SPECIFICATION ESpec
INVARIANTS ElectionMatchesDefinition
CHECK_DEADLOCK FALSE
