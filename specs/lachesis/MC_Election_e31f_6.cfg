CONSTANTS N = 2 W <- W31 None <- NoneV Rule <- StdRule MaxSeq = 4 MaxEv = 6 Forkers <- F2 HeadsOnly = FALSE LazyFrames = FALSE MaxOthers = 1
SPECIFICATION ESpec
INVARIANTS ElectionMatchesDefinition
CHECK_DEADLOCK FALSE
