CONSTANTS N = 4 W <- W3221 None <- NoneV Rule <- StdRule MaxSeq = 6 MaxEv = 20 Forkers <- F4 HeadsOnly = FALSE LazyFrames = FALSE MaxOthers = 3 VariantRule <- VFcIgnore
SPECIFICATION Spec
INVARIANTS VariantAgrees
CHECK_DEADLOCK FALSE
