CONSTANTS N = 5 W <- W33221 None <- NoneV Rule <- StdRule MaxSeq = 8 MaxEv = 30 Forkers <- F3 HeadsOnly = FALSE LazyFrames = FALSE MaxOthers = 4 VariantRule <- VRootsFinal
SPECIFICATION Spec
INVARIANTS VariantAgrees
CHECK_DEADLOCK FALSE
