CONSTANTS N = 5 W <- W11111 None <- NoneV Rule <- StdRule MaxSeq = 5 MaxEv = 22 Forkers <- NoForkers HeadsOnly = TRUE LazyFrames = FALSE MaxOthers = 4
SPECIFICATION Spec
INVARIANTS NoTie
CHECK_DEADLOCK FALSE
