CONSTANTS N = 3 W <- W211 None <- NoneV Rule <- StdRule MaxSeq = 7 MaxEv = 20 Forkers <- NoForkers HeadsOnly = TRUE LazyFrames = FALSE MaxOthers = 2
SPECIFICATION Spec
INVARIANTS NoTie
CHECK_DEADLOCK FALSE
