---- MODULE MC_VecIndex ----
EXTENDS VecIndex
W11 == <<1, 1>>
W21 == <<2, 1>>
W31 == <<3, 1>>
W111 == <<1, 1, 1>>
W211 == <<2, 1, 1>>
====
