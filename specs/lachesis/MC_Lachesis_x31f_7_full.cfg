CONSTANTS N = 2 W <- W31 None <- NoneV Rule <- StdRule MaxSeq = 4 MaxEv = 7 Forkers <- F2 HeadsOnly = FALSE LazyFrames = FALSE MaxOthers = 1
SPECIFICATION Spec
INVARIANTS AtroposIsRoot NoDoubleConfirm CheatersExact AncestryClosed FramesAllowed NoTwoForkRoots EmitState
PROPERTY BlocksAppendOnly
CHECK_DEADLOCK FALSE
