CONSTANTS N = 4 W <- W2211 None <- NoneV MaxSeq = 6 MaxEv = 24 Forkers <- NoForkers HeadsOnly = TRUE LazyFrames = FALSE MaxOthers = 3 Variant = "tie-no"
SPECIFICATION Spec
INVARIANTS VariantAgrees
CHECK_DEADLOCK FALSE
