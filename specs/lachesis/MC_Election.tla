---- MODULE MC_Election ----
EXTENDS Election
NoneV == <<0, 0, 0>>
W11 == <<1, 1>>
W31 == <<3, 1>>
W211 == <<2, 1, 1>>
W1111 == <<1, 1, 1, 1>>
W3221 == <<3, 2, 2, 1>>
NoForkers == {}
F2 == {2}
F4 == {4}
====
