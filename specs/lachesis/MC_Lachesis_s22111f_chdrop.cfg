CONSTANTS N = 5 W <- W22111 None <- NoneV Rule <- StdRule MaxSeq = 5 MaxEv = 24 Forkers <- F5 HeadsOnly = FALSE LazyFrames = FALSE MaxOthers = 3
SPECIFICATION Spec
INVARIANTS NoCheaterDrop
CHECK_DEADLOCK FALSE
