------------------------------ MODULE LachesisAlt ------------------------------
(* Search targets for TLC simulation: DAGs on which a *variant* of a rule changes the blocks.      *)
(* The variants are deliberate mis-statements of the rules (tie counts as no; a decision needs      *)
(* strictly more than a quorum); a DAG that separates a variant from the definition is exactly a    *)
(* DAG on which an implementation following the variant would emit other blocks.  Such DAGs are     *)
(* kept in corpus/ and replayed into the real code by the checks.                                   *)
EXTENDS Lachesis

CONSTANT Variant     \* "tie-no" | "strict-quorum"

RECURSIVE VoteYesA(_,_,_,_,_,_)
YesWA(evf, ancf, r, f, v, d) == SumW({evf[x].cr : x \in {x \in Obs(evf, ancf, r, f) :  VoteYesA(evf, ancf, x, f - 1, v, d)}})
NoWA(evf, ancf, r, f, v, d)  == SumW({evf[x].cr : x \in {x \in Obs(evf, ancf, r, f) : ~VoteYesA(evf, ancf, x, f - 1, v, d)}})
VoteYesA(evf, ancf, r, f, v, d) ==
  IF f = d + 1 THEN \E x \in RootsAt(evf, d) : evf[x].cr = v /\ FC(evf, ancf, r, x)
  ELSE IF Variant = "tie-no" THEN YesWA(evf, ancf, r, f, v, d) > NoWA(evf, ancf, r, f, v, d)
       ELSE YesWA(evf, ancf, r, f, v, d) >= NoWA(evf, ancf, r, f, v, d)
QA == IF Variant = "strict-quorum" THEN Quorum + 1 ELSE Quorum
TallyA(evf, ancf, r, f, v, d) ==
  IF YesWA(evf, ancf, r, f, v, d) >= QA THEN "Y"
  ELSE IF NoWA(evf, ancf, r, f, v, d) >= QA THEN "N" ELSE "-"
SubjDecisionA(evf, ancf, v, d) ==
  IF \E c \in Cands(evf, d) : TallyA(evf, ancf, c[1], c[2], v, d) = "Y" THEN "Y"
  ELSE IF \E c \in Cands(evf, d) : TallyA(evf, ancf, c[1], c[2], v, d) = "N" THEN "N" ELSE "-"
RECURSIVE FirstYesA(_,_,_,_)
FirstYesA(evf, ancf, d, i) ==
  IF i > N THEN 0
  ELSE LET dec == SubjDecisionA(evf, ancf, i, d) IN
       IF dec = "-" THEN 0 ELSE IF dec = "Y" THEN i ELSE FirstYesA(evf, ancf, d, i + 1)
AtroposOfA(evf, ancf, d) ==
  LET v == FirstYesA(evf, ancf, d, 1) IN
  IF v = 0 THEN None
  ELSE CHOOSE x \in RootsAt(evf, d) : evf[x].cr = v /\ \E r \in RootsAt(evf, d + 1) : FC(evf, ancf, r, x)
RECURSIVE AtroposSeqA(_,_,_)
AtroposSeqA(evf, ancf, d) == LET a == AtroposOfA(evf, ancf, d) IN IF a = None THEN <<>> ELSE <<a>> \o AtroposSeqA(evf, ancf, d + 1)

\* the variant yields the same Atropos sequence on the current DAG (violated => emit the separating DAG)
VariantAgrees == AtroposSeqA(ev, anc, 1) = [i \in 1..Len(blocks) |-> blocks[i].atr] \/ (EmitState /\ FALSE)
=============================================================================
