------------------------------ MODULE LachesisAlt ------------------------------
(* Search targets for TLC simulation: DAGs on which a *mis-stated* rule changes the outcome.        *)
(* LachesisDef.tla is parameterised by the record Rule; StdRule is the definition.  Here a second    *)
(* instance of the definitions is made with VariantRule (tie counts as no, a decision needs more     *)
(* than a quorum, a root is registered only under its final frame, forkless cause ignores the fork   *)
(* of B's creator / counts cheaters, a first event may climb).  The DAG is built with the standard   *)
(* frames (what the specification accepts); a DAG on which the variant would reject an event or      *)
(* choose other Atropoi is exactly a DAG on which an implementation following the variant deviates.  *)
(* Such DAGs are kept in corpus/ and replayed into the real code by the checks.                      *)
EXTENDS Lachesis

CONSTANT VariantRule
Var == INSTANCE LachesisDef WITH Rule <- VariantRule

\* the variant accepts every event (with its standard frame) ...
Sub(e) == [x \in anc[e] |-> IF x = e THEN [ev[x] EXCEPT !.fr = 0] ELSE ev[x]]      \* e's ancestry with e's own frame still to be determined
VarAccepts == \A e \in Ids :
    Var!Allowed(Sub(e), [x \in anc[e] |-> anc[x]], anc[e], Var!SpFrame(ev, e), ev[e].sp # None, ev[e].fr)
\* ... and would build the same frame for it ...
VarBuildsSame == \A e \in Ids :
    LET evs == Sub(e)  ans == [x \in anc[e] |-> anc[x]] IN
    (IF ev[e].sp = None THEN Var!MaxAllowedNoSp(evs, ans, anc[e]) ELSE Var!MaxAllowed(evs, ans, anc[e], Var!SpFrame(ev, e)))
      = (IF ev[e].sp = None THEN MaxAllowedNoSp(evs, ans, anc[e]) ELSE MaxAllowed(evs, ans, anc[e], SpFrame(ev, e)))
\* ... and elects the same Atropoi
VarSameAtropoi == Var!AtroposSeq(ev, anc, 1) = [i \in 1..Len(blocks) |-> blocks[i].atr]

VariantAgrees == (VarAccepts /\ VarBuildsSame /\ VarSameAtropoi) \/ (EmitState /\ FALSE)
=============================================================================
