CONSTANTS N = 3 W <- W211 None <- NoneV MaxSeq = 7 MaxEv = 22 Forkers <- NoForkers HeadsOnly = TRUE LazyFrames = FALSE MaxOthers = 2 Variant = "strict-quorum"
SPECIFICATION Spec
INVARIANTS VariantAgrees
CHECK_DEADLOCK FALSE
