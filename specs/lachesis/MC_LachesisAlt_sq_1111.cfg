CONSTANTS N = 4 W <- W1111 None <- NoneV Rule <- StdRule MaxSeq = 6 MaxEv = 24 Forkers <- NoForkers HeadsOnly = TRUE LazyFrames = FALSE MaxOthers = 3 VariantRule <- VStrictQ
SPECIFICATION Spec
INVARIANTS VariantAgrees
CHECK_DEADLOCK FALSE
