CONSTANTS N = 2 W <- W11 None <- NoneV Rule <- StdRule MaxSeq = 6 MaxEv = 10 Forkers <- NoForkers HeadsOnly = FALSE LazyFrames = FALSE MaxOthers = 1
SPECIFICATION Spec
INVARIANTS AtroposIsRoot NoDoubleConfirm CheatersExact AncestryClosed FramesAllowed EmitState
PROPERTY BlocksAppendOnly
CHECK_DEADLOCK FALSE
