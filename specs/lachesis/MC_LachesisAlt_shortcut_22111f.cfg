CONSTANTS N = 5 W <- W22111 None <- NoneV Rule <- StdRule MaxSeq = 5 MaxEv = 22 Forkers <- F5 HeadsOnly = FALSE LazyFrames = FALSE MaxOthers = 4 VariantRule <- VShortcut
SPECIFICATION Spec
INVARIANTS VariantAgrees
CHECK_DEADLOCK FALSE
