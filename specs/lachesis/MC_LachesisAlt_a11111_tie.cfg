CONSTANTS N = 5 W <- W11111 None <- NoneV MaxSeq = 6 MaxEv = 28 Forkers <- NoForkers HeadsOnly = TRUE LazyFrames = FALSE MaxOthers = 4 Variant = "tie-no"
SPECIFICATION Spec
INVARIANTS VariantAgrees
CHECK_DEADLOCK FALSE
