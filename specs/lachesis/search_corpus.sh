#!/bin/bash
# Offline corpus search (not part of any check): TLC simulation looks for DAGs on which a mis-stated rule
# (LachesisAlt.tla, cfg MC_LachesisAlt_<name>) changes the outcome, or on which a structural situation
# occurs (Lachesis.tla, cfg MC_Lachesis_<name> with a "No..." invariant). Emitted DAGs are filtered into corpus/*.ndjson.
# usage: search_corpus.sh <outdir> <seconds> <seed> name...      (name = alt:<cfg> or base:<cfg>)
out=$1; secs=$2; seed=$3; shift 3
mkdir -p $out; cp "$(dirname "$0")"/*.tla "$(dirname "$0")"/*.cfg $out; cd $out
for spec in "$@"; do
  kind=${spec%%:*}; c=${spec##*:}
  if [ $kind = alt ]; then mod=MC_LachesisAlt; cfg=MC_LachesisAlt_$c.cfg; elif [ $kind = el ]; then mod=MC_Election; cfg=MC_Election_$c.cfg; else mod=MC_Lachesis; cfg=MC_Lachesis_$c.cfg; fi
  (timeout $secs java -XX:+UseParallelGC -XX:ParallelGCThreads=2 -Xmx3g -cp /opt/veriftools/tla/tla2tools.jar:/opt/veriftools/tla/CommunityModules-deps.jar tlc2.TLC \
     -metadir $out/m_$c -config $cfg -workers 1 -simulate num=100000000 -depth 31 -continue -seed $seed $mod > out_${c}_$seed.txt 2>&1 &)
done
sleep $secs; sleep 5
grep -c '^<<"EDGE' out_*_$seed.txt
