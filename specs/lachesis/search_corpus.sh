#!/bin/bash
# Offline corpus search (not part of any check): TLC simulation of LachesisAlt.tla looks for DAGs on which a
# mis-stated rule (Variant) changes the Atropos sequence; the emitted DAGs are filtered into corpus/*.ndjson by hand.
# usage: search_corpus.sh <outdir> <seconds> <seed> cfg...
out=$1; secs=$2; seed=$3; shift 3
mkdir -p $out; cp "$(dirname "$0")"/*.tla "$(dirname "$0")"/*.cfg $out; cd $out
for c in "$@"; do
  (timeout $secs java -XX:+UseParallelGC -Xmx3g -cp /opt/veriftools/tla/tla2tools.jar:/opt/veriftools/tla/CommunityModules-deps.jar tlc2.TLC \
     -metadir $out/m_$c -config MC_LachesisAlt_$c.cfg -workers 2 -simulate num=100000000 -depth 29 -continue -seed $seed MC_LachesisAlt > out_${c}_$seed.txt 2>&1 &)
done
sleep $secs; sleep 5
grep -c '^<<"EDGE' out_*_$seed.txt
