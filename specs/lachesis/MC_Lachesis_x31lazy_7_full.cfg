CONSTANTS N = 2 W <- W31 None <- NoneV Rule <- StdRule MaxSeq = 5 MaxEv = 7 Forkers <- NoForkers HeadsOnly = TRUE LazyFrames = TRUE MaxOthers = 1
SPECIFICATION Spec
INVARIANTS AtroposIsRoot NoDoubleConfirm CheatersExact AncestryClosed FramesAllowed EmitState
PROPERTY BlocksAppendOnly
CHECK_DEADLOCK FALSE
