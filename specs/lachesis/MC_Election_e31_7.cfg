CONSTANTS N = 2 W <- W31 None <- NoneV Rule <- StdRule MaxSeq = 5 MaxEv = 7 Forkers <- NoForkers HeadsOnly = TRUE LazyFrames = FALSE MaxOthers = 1
SPECIFICATION ESpec
INVARIANTS ElectionMatchesDefinition
CHECK_DEADLOCK FALSE
