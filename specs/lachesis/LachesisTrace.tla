--------------------------- MODULE LachesisTrace ---------------------------
(* Trace specification of the Lachesis consensus (abft.IndexedLachesis + vecfc index).           *)
(*                                                                                                 *)
(* The rules are written from the statements of C04/C05/C10 ("independent naive reference"):       *)
(* graph-based forkless cause, the frame rule, weighted virtual voting, Atropos choice in          *)
(* canonical validator order, blocks = new ancestry of the Atropos.  The canonical order is        *)
(* computed here from (weight desc, id asc); it is not taken from the code.                        *)
(*                                                                                                 *)
(* One recorded line per public call of the instance:                                              *)
(*   reset    new instance (genesis or Reset(epoch, validators)):  vals = <<[id, w], ...>>          *)
(*   p        Process(e) -> ok | ErrWrongFrame, with the blocks emitted during the call            *)
(*   b        Build(e)   -> frame                                                                  *)
(*   restart  instance torn down and rebuilt from its databases (stuttering step)                  *)
(*   fc       ForklessCause(a, b) -> r                                                             *)
(*   mhb      merged highest-before vector of an event (seq per validator, -1 = fork)              *)
(*   end      end of an epoch's / scenario's event stream: nothing decidable may be left           *)
(*   crit     the instance reported a critical error (allowed only in byz runs)                   *)
(*   panic    the library panicked: no step of the specification matches, the trace is rejected   *)
(* Process is split into two spec actions (add the event; run the reference election) because      *)
(* TLC evaluates the election on the state that already contains the new event.                    *)
EXTENDS Integers, Sequences, FiniteSets, TLC, Json, IOUtils

Trace == ndJsonDeserialize(IOEnv.TRACE)
Strict == IOEnv.STRICT = "1"       \* strict: a block must be emitted by the call that makes it decidable

ToSet(s) == {s[i] : i \in 1..Len(s)}

VARIABLES l,          \* next trace line
          phase,      \* "add" | "decide"
          epoch,
          W,          \* validator id -> weight (current epoch)
          canon,      \* validator ids in canonical order
          byz,        \* TRUE: forkers may hold >= 1/3; only block contents given the logged Atropos are checked
          ev,         \* event id -> [cr, sq, sp, fr]
          anc,        \* event id -> ancestors-or-self
          fs,         \* event id -> validators whose fork is visible in anc
          roots,      \* frame -> set of root ids
          lastDec,    \* last decided frame
          confirmed   \* events delivered in earlier blocks of the epoch
vars == <<l, phase, epoch, W, canon, byz, ev, anc, fs, roots, lastDec, confirmed>>
cons == <<epoch, W, canon, byz, ev, anc, fs, roots, lastDec, confirmed>>

T == Trace[l]
Ids == DOMAIN ev
V == DOMAIN W

RECURSIVE SumW(_)
SumW(S) == IF S = {} THEN 0 ELSE LET v == CHOOSE x \in S : TRUE IN W[v] + SumW(S \ {v})
Quorum == (2 * SumW(V)) \div 3 + 1

\* canonical order: weight descending, ties by ascending id
Before(Wf, a, b) == Wf[a] > Wf[b] \/ (Wf[a] = Wf[b] /\ a < b)
RECURSIVE SortVals(_, _)
SortVals(Wf, S) == IF S = {} THEN <<>>
                   ELSE LET m == CHOOSE x \in S : \A y \in S \ {x} : Before(Wf, x, y)
                        IN <<m>> \o SortVals(Wf, S \ {m})
ValsFn(vs) == [id \in {vs[i][1] : i \in 1..Len(vs)} |-> (CHOOSE i \in 1..Len(vs) : vs[i][1] = id) ]
WeightsOf(vs) == LET ix == ValsFn(vs) IN [id \in DOMAIN ix |-> vs[ix[id]][2]]

\* ---------------------------------------------------------------- graph definitions
\* two different events of v with the same sequence number among A  (evaluated as: fewer distinct sequence numbers than events)
ForkSeenIn(A, evf, v) == LET Av == {x \in A : evf[x].cr = v} IN Cardinality({evf[x].sq : x \in Av}) < Cardinality(Av)

\* an event with ancestry A and visible forkers F is forkless-caused by b
FCs(A, F, b, evf, ancf) ==
  /\ evf[b].cr \notin F
  /\ SumW({evf[x].cr : x \in {x \in A : b \in ancf[x]}} \ F) >= Quorum
FC(a, b) == FCs(anc[a], fs[a], b, ev, anc)

HighestSeq(A, v) == LET S == {ev[x].sq : x \in {x \in A : ev[x].cr = v}} IN
                    IF S = {} THEN 0 ELSE CHOOSE m \in S : \A s \in S : s <= m

RootsAt(f) == IF f >= 1 /\ f <= Len(roots) THEN roots[f] ELSE {}
\* frame rule: roots of a quorum at frame f forkless-cause the event
FCQ(A, F, f, evf, ancf) == SumW({ev[r].cr : r \in {r \in RootsAt(f) : FCs(A, F, r, evf, ancf)}}) >= Quorum
RECURSIVE Climb(_,_,_,_,_,_)
Climb(A, F, f, cap, evf, ancf) == IF f < cap /\ FCQ(A, F, f, evf, ancf) THEN Climb(A, F, f+1, cap, evf, ancf) ELSE f

\* coverage counters (TLC registers; they do not influence the verdict)
\*   2 = tied tallies seen   3 = decisions by a no-quorum   4 = Atropos not of the first validator   5 = decisions in round >= 3
Bump(i) == TLCSet(i, TLCGet(i) + 1)
\* ---------------------------------------------------------------- election for frame d on the current state
RECURSIVE VoteYes(_,_,_,_)
VoteYes(r, f, v, d) ==
  IF f = d + 1 THEN \E x \in RootsAt(d) : ev[x].cr = v /\ FC(r, x)
  ELSE LET obs == {x \in RootsAt(f-1) : FC(r, x)}
           yes == SumW({ev[x].cr : x \in {x \in obs : VoteYes(x, f-1, v, d)}})
           no  == SumW({ev[x].cr : x \in {x \in obs : ~VoteYes(x, f-1, v, d)}})
       IN (IF yes = no /\ yes > 0 THEN Bump(2) ELSE TRUE) /\ yes >= no
Tally(r, f, v, d) ==
  LET obs == {x \in RootsAt(f-1) : FC(r, x)}
      yes == SumW({ev[x].cr : x \in {x \in obs : VoteYes(x, f-1, v, d)}})
      no  == SumW({ev[x].cr : x \in {x \in obs : ~VoteYes(x, f-1, v, d)}})
  IN IF yes >= Quorum THEN "Y" ELSE IF no >= Quorum THEN "N" ELSE "-"
SubjDecision(v, d) ==
  LET cands == {c \in Ids \X ((d+2)..Len(roots)) : c[1] \in RootsAt(c[2])}
  IN IF \E c \in cands : Tally(c[1], c[2], v, d) = "Y" /\ (c[2] >= d + 3 => Bump(5)) THEN "Y"
     ELSE IF \E c \in cands : Tally(c[1], c[2], v, d) = "N" /\ Bump(3) THEN "N" ELSE "-"
RECURSIVE FirstYes(_,_)
FirstYes(d, i) == IF i > Len(canon) THEN 0
                  ELSE LET dec == SubjDecision(canon[i], d) IN
                       IF dec = "-" THEN 0
                       ELSE IF dec = "Y" THEN (IF i > 1 /\ Bump(4) THEN canon[i] ELSE canon[i])
                       ELSE FirstYes(d, i+1)
\* 0 = frame d is not decidable yet
AtroposOf(d) ==
  LET v == FirstYes(d, 1) IN
  IF v = 0 THEN 0
  ELSE CHOOSE x \in RootsAt(d) : ev[x].cr = v /\ \E r \in RootsAt(d+1) : FC(r, x)

CheaterSeq(F) == SelectSeq(canon, LAMBDA v : v \in F)

\* ---------------------------------------------------------------- trace actions
Is(op) == l <= Len(Trace) /\ T.op = op

TInit == /\ TLCSet(1, 1) /\ TLCSet(2, 0) /\ TLCSet(3, 0) /\ TLCSet(4, 0) /\ TLCSet(5, 0) /\ l = 1 /\ phase = "add" /\ epoch = 0 /\ W = <<>> /\ canon = <<>> /\ byz = FALSE
         /\ ev = <<>> /\ anc = <<>> /\ fs = <<>> /\ roots = <<>> /\ lastDec = 0 /\ confirmed = {}

Reset ==
  /\ Is("reset") /\ phase = "add"
  /\ l' = l + 1 /\ phase' = "add"
  /\ epoch' = T.epoch /\ W' = WeightsOf(T.vals) /\ canon' = SortVals(WeightsOf(T.vals), DOMAIN WeightsOf(T.vals))
  /\ byz' = T.byz
  /\ ev' = <<>> /\ anc' = <<>> /\ fs' = <<>> /\ roots' = <<>> /\ lastDec' = 0 /\ confirmed' = {}

\* values derived from a submitted event t (a "p" or "b" line) against the current state
NewA(t)   == {t.id} \cup UNION {anc[p] : p \in ToSet(t.ps)}
NewEv(t)  == [x \in Ids \cup {t.id} |-> IF x = t.id THEN [cr |-> t.cr, sq |-> t.sq, sp |-> t.sp, fr |-> t.fr] ELSE ev[x]]
NewAnc(t) == [x \in Ids \cup {t.id} |-> IF x = t.id THEN NewA(t) ELSE anc[x]]
NewF(t)   == UNION {fs[p] : p \in ToSet(t.ps)} \cup {v \in V : ForkSeenIn(NewA(t), NewEv(t), v)}
SpFrame(t) == IF t.sp = 0 THEN 0 ELSE ev[t.sp].fr
\* the claimed frame is allowed: 1 without self-parent, else >= self-parent's frame with every frame in between justified
FrameAllowed(t) ==
  IF t.sp = 0 THEN t.fr = 1
  ELSE t.fr >= SpFrame(t) /\ Climb(NewA(t), NewF(t), SpFrame(t), t.fr, NewEv(t), NewAnc(t)) = t.fr
\* the frame Build must assign: the highest allowed one, at most 100 above the self-parent's
BuildFrame(t) ==
  LET f == Climb(NewA(t), NewF(t), SpFrame(t), SpFrame(t) + 100, NewEv(t), NewAnc(t)) IN IF f = 0 THEN 1 ELSE f

WellFormed(t) == /\ t.id \notin Ids /\ ToSet(t.ps) \subseteq Ids /\ t.cr \in V
                 /\ (t.sp # 0 => t.sp \in ToSet(t.ps))

Process ==
  /\ Is("p") /\ T.ok /\ phase = "add"
  /\ WellFormed(T)
  /\ FrameAllowed(T)                                  \* accepted => the claimed frame is allowed
  /\ LET id == T.id
         sf == SpFrame(T)
         maxF == IF Len(roots) > T.fr THEN Len(roots) ELSE T.fr
     IN /\ ev' = NewEv(T) /\ anc' = NewAnc(T)
        /\ fs' = [x \in Ids \cup {id} |-> IF x = id THEN NewF(T) ELSE fs[x]]
        /\ roots' = [f \in 1..maxF |-> RootsAt(f) \cup (IF f > sf /\ f <= T.fr THEN {id} ELSE {})]
  /\ phase' = "decide" /\ l' = l
  /\ UNCHANGED <<epoch, W, canon, byz, lastDec, confirmed>>

\* checks the logged blocks bs against the reference, deciding from frame d; returns [ok, d, conf, seal]
RECURSIVE ExpectBlocks(_,_,_)
ExpectBlocks(bs, d, conf) ==
  IF bs = <<>>
  THEN [ok |-> (~Strict \/ byz \/ AtroposOf(d) = 0), d |-> d, conf |-> conf, seal |-> <<>>]
  ELSE LET b == Head(bs)
           a == IF byz THEN b.atr ELSE AtroposOf(d)
           good == /\ a # 0 /\ b.atr = a /\ b.fr = d
                   /\ a \in RootsAt(d)
                   /\ b.ch = CheaterSeq(fs[a])
                   /\ ToSet(b.evs) = anc[a] \ conf /\ Len(b.evs) = Cardinality(anc[a] \ conf)
       IN IF ~good THEN [ok |-> FALSE, d |-> d, conf |-> conf, seal |-> <<>>]
          ELSE IF b.seal # <<>>
               THEN [ok |-> Len(bs) = 1, d |-> d + 1, conf |-> conf \cup anc[a], seal |-> b.seal]   \* nothing after the sealing block
               ELSE ExpectBlocks(Tail(bs), d + 1, conf \cup anc[a])

Decide ==
  /\ phase = "decide" /\ phase' = "add" /\ l' = l + 1
  /\ LET res == ExpectBlocks(T.blocks, lastDec + 1, confirmed) IN
       /\ res.ok
       /\ IF res.seal # <<>>
          THEN /\ epoch' = epoch + 1 /\ W' = WeightsOf(res.seal)
               /\ canon' = SortVals(WeightsOf(res.seal), DOMAIN WeightsOf(res.seal))
               /\ ev' = <<>> /\ anc' = <<>> /\ fs' = <<>> /\ roots' = <<>> /\ lastDec' = 0 /\ confirmed' = {}
               /\ UNCHANGED byz
          ELSE /\ lastDec' = res.d - 1 /\ confirmed' = res.conf
               /\ UNCHANGED <<epoch, W, canon, byz, ev, anc, fs, roots>>
       \* the instance's own view of its state after the call
       /\ T.ep = epoch' /\ T.ldf = lastDec'

\* rejected Process: exactly when the claimed frame is not allowed; no trace is left
ProcessRejected ==
  /\ Is("p") /\ ~T.ok /\ phase = "add"
  /\ WellFormed(T) /\ ~FrameAllowed(T)
  /\ T.blocks = <<>> /\ T.ep = epoch /\ T.ldf = lastDec
  /\ l' = l + 1 /\ UNCHANGED <<phase, cons>>

Build ==
  /\ Is("b") /\ phase = "add"
  /\ WellFormed(T)
  /\ T.fr = BuildFrame(T)
  /\ l' = l + 1 /\ UNCHANGED <<phase, cons>>

Restart == Is("restart") /\ phase = "add" /\ T.ep = epoch /\ T.ldf = lastDec /\ l' = l + 1 /\ UNCHANGED <<phase, cons>>

QueryFC == /\ Is("fc") /\ phase = "add" /\ T.a \in Ids /\ T.b \in Ids
           /\ T.r = FC(T.a, T.b)
           /\ l' = l + 1 /\ UNCHANGED <<phase, cons>>

QueryMHB == /\ Is("mhb") /\ phase = "add" /\ T.e \in Ids
            /\ T.v = [i \in 1..Len(canon) |-> IF canon[i] \in fs[T.e] THEN -1 ELSE HighestSeq(anc[T.e], canon[i])]
            /\ l' = l + 1 /\ UNCHANGED <<phase, cons>>

\* end of the event stream of the epoch: every decidable frame has been decided
End == /\ Is("end") /\ phase = "add"
       /\ (byz \/ AtroposOf(lastDec + 1) = 0)
       /\ l' = l + 1 /\ UNCHANGED <<phase, cons>>

\* a critical error of the instance ("more than 1/3W are Byzantine", storage inconsistency): only legitimate when
\* forkers hold at least one third of the weight
Crit == /\ Is("crit") /\ phase = "add" /\ byz
        /\ l' = l + 1 /\ UNCHANGED <<phase, cons>>

TNext == Crit \/ Reset \/ Process \/ Decide \/ ProcessRejected \/ Build \/ Restart \/ QueryFC \/ QueryMHB \/ End
TSpec == TInit /\ [][TNext]_vars

Mark == TLCSet(1, IF l > TLCGet(1) THEN l ELSE TLCGet(1))
AcceptedMsg == IF TLCGet(1) = Len(Trace) + 1 THEN PrintT(<<"ACCEPTED", Len(Trace)>>)
               ELSE PrintT(<<"REJECTED", TLCGet(1), ToJson(Trace[TLCGet(1)])>>)
Accepted == PrintT(<<"STATS", TLCGet(2), TLCGet(3), TLCGet(4), TLCGet(5)>>) /\ AcceptedMsg
=============================================================================
