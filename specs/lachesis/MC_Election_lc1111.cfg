CONSTANTS N = 4 W <- W1111 None <- NoneV Rule <- StdRule MaxSeq = 8 MaxEv = 28 Forkers <- NoForkers HeadsOnly = TRUE LazyFrames = FALSE MaxOthers = 3
SPECIFICATION ESpecS
INVARIANTS NoLowCascade
CHECK_DEADLOCK FALSE
