CONSTANTS N = 3 W <- W211 MaxEv = 7 MaxSeq = 4 MaxForks = 1
SPECIFICATION Spec
INVARIANTS FCMatches MergedMatches EmitTerminal
CHECK_DEADLOCK FALSE
