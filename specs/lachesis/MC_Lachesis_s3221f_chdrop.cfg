CONSTANTS N = 4 W <- W3221 None <- NoneV Rule <- StdRule MaxSeq = 6 MaxEv = 22 Forkers <- F4 HeadsOnly = FALSE LazyFrames = FALSE MaxOthers = 3
SPECIFICATION Spec
INVARIANTS NoCheaterDrop
CHECK_DEADLOCK FALSE
