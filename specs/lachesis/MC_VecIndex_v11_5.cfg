CONSTANTS N = 2 W <- W11 MaxEv = 5 MaxSeq = 4 MaxForks = 2
SPECIFICATION Spec
INVARIANTS FCMatches MergedMatches EmitTerminal
CHECK_DEADLOCK FALSE
