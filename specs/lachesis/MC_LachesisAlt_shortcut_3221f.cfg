CONSTANTS N = 4 W <- W3221 None <- NoneV Rule <- StdRule MaxSeq = 6 MaxEv = 22 Forkers <- F4 HeadsOnly = FALSE LazyFrames = FALSE MaxOthers = 3 VariantRule <- VShortcut
SPECIFICATION Spec
INVARIANTS VariantAgrees
CHECK_DEADLOCK FALSE
