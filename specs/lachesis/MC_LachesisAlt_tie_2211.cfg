CONSTANTS N = 4 W <- W2211 None <- NoneV Rule <- StdRule MaxSeq = 6 MaxEv = 24 Forkers <- NoForkers HeadsOnly = TRUE LazyFrames = FALSE MaxOthers = 3 VariantRule <- VTieNo
SPECIFICATION Spec
INVARIANTS VariantAgrees
CHECK_DEADLOCK FALSE
