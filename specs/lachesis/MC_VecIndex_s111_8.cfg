CONSTANTS N = 3 W <- W111 MaxEv = 8 MaxSeq = 4 MaxForks = 1
SPECIFICATION Spec
INVARIANTS FCMatches MergedMatches EmitTerminal
CHECK_DEADLOCK FALSE
