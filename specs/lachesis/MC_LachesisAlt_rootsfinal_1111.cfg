CONSTANTS N = 4 W <- W1111 None <- NoneV Rule <- StdRule MaxSeq = 8 MaxEv = 26 Forkers <- NoForkers HeadsOnly = TRUE LazyFrames = FALSE MaxOthers = 3 VariantRule <- VRootsFinal
SPECIFICATION Spec
INVARIANTS VariantAgrees
CHECK_DEADLOCK FALSE
