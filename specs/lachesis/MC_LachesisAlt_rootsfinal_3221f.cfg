CONSTANTS N = 4 W <- W3221 None <- NoneV Rule <- StdRule MaxSeq = 8 MaxEv = 26 Forkers <- F4 HeadsOnly = FALSE LazyFrames = FALSE MaxOthers = 3 VariantRule <- VRootsFinal
SPECIFICATION Spec
INVARIANTS VariantAgrees
CHECK_DEADLOCK FALSE
