CONSTANTS N = 3 W <- W211 None <- NoneV Rule <- StdRule MaxSeq = 7 MaxEv = 22 Forkers <- NoForkers HeadsOnly = TRUE LazyFrames = FALSE MaxOthers = 2 VariantRule <- VStrictQ
SPECIFICATION Spec
INVARIANTS VariantAgrees
CHECK_DEADLOCK FALSE
