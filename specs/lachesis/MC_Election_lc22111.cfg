CONSTANTS N = 5 W <- W22111 None <- NoneV Rule <- StdRule MaxSeq = 7 MaxEv = 32 Forkers <- NoForkers HeadsOnly = TRUE LazyFrames = FALSE MaxOthers = 4
SPECIFICATION ESpecS
INVARIANTS NoLowCascade
CHECK_DEADLOCK FALSE
