---- MODULE MC_LachesisAlt ----
EXTENDS LachesisAlt
NoneV == <<0, 0, 0>>
W211 == <<2, 1, 1>>
W1111 == <<1, 1, 1, 1>>
W2211 == <<2, 2, 1, 1>>
W11111 == <<1, 1, 1, 1, 1>>
NoForkers == {}
====
