---- MODULE MC_LachesisAlt ----
EXTENDS LachesisAlt
NoneV == <<0, 0, 0>>
W211 == <<2, 1, 1>>
W1111 == <<1, 1, 1, 1>>
W2211 == <<2, 2, 1, 1>>
W3221 == <<3, 2, 2, 1>>
W11111 == <<1, 1, 1, 1, 1>>
W33221 == <<3, 3, 2, 2, 1>>
W22111 == <<2, 2, 1, 1, 1>>
NoForkers == {}
F3 == {3}
F4 == {4}
F5 == {5}
VTieNo == [StdRule EXCEPT !.tie = "no"]
VStrictQ == [StdRule EXCEPT !.quorum = "gt"]
VRootsFinal == [StdRule EXCEPT !.roots = "final"]
VFcIgnore == [StdRule EXCEPT !.fcfork = "ignore"]
VFcCountAll == [StdRule EXCEPT !.fccount = "all"]
VFirstClimb == [StdRule EXCEPT !.first = "climb"]
VCapAnc == [StdRule EXCEPT !.cap = "anc+1"]
VShortcut == [StdRule EXCEPT !.shortcut = "anc-above"]
====
