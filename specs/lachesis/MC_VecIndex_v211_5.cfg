CONSTANTS N = 3 W <- W211 MaxEv = 5 MaxSeq = 3 MaxForks = 1
SPECIFICATION Spec
INVARIANTS FCMatches MergedMatches EmitTerminal
CHECK_DEADLOCK FALSE
