CONSTANTS N = 4 W <- W2211 None <- NoneV Rule <- StdRule MaxSeq = 6 MaxEv = 20 Forkers <- NoForkers HeadsOnly = TRUE LazyFrames = FALSE MaxOthers = 3
SPECIFICATION Spec
INVARIANTS NoTie
CHECK_DEADLOCK FALSE
