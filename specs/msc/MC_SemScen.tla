---- MODULE MC_SemScen ----
EXTENDS SemScenarios
\* capacity of the harness's semaphore is (2, 4): two events, total size four
AcqQ == {<<1, 1>>, <<1, 3>>}
TryQ == {<<1, 3>>, <<1, 5>>}          \* <<1,5>> exceeds the size capacity
RelQ == {<<1, 1>>, <<1, 3>>}
AcqT == {<<1, 1>>, <<1, 2>>, <<1, 3>>, <<2, 2>>, <<3, 1>>}    \* <<3,1>> exceeds the number capacity
TryT == {<<1, 2>>, <<1, 3>>, <<1, 5>>}
RelT == {<<1, 1>>, <<1, 3>>, <<2, 2>>}
TimeoutsMC == {30, 5000}
====
