----------------------------- MODULE RootStore -----------------------------
(* Root registry of the consensus store (abft.Store.AddRoot / GetFrameRoots), property C33.    *)
(* Abstract state: for every frame the set of (creator, event id) registered as its roots in    *)
(* the current epoch.  There is no cache in the specification: the statement says the answers   *)
(* do not depend on cache size, evictions or earlier queries.  One action per public call;      *)
(* `act` is output-only (pattern R: every explored transition is replayed on a real Store).     *)
EXTENDS Integers, FiniteSets, TLC, Json

CONSTANTS MaxFrame,      \* frames 1..MaxFrame can hold roots; MaxFrame+1 is queried too
          Validators, Ids,
          MaxSteps       \* exploration bound (number of calls)
VARIABLES roots, steps, act
vars == <<roots, steps, act>>
View == roots

Frames == 1..MaxFrame
Root == [v : Validators, id : Ids]
Empty == [f \in Frames |-> {}]

Init == roots = Empty /\ steps = 0 /\ act = [op |-> "init"]

\* the event `id` of `creator`, whose self-parent is in frame spf and which is itself in frame f,
\* is a root of every frame spf+1..f
AddRoot(spf, f, creator, id) ==
  /\ roots' = [g \in Frames |-> IF g > spf /\ g <= f THEN roots[g] \cup {[v |-> creator, id |-> id]} ELSE roots[g]]
  /\ act' = [op |-> "add", spf |-> spf, f |-> f, v |-> creator, id |-> id]

\* an answer is a set of triples <<frame, creator, id>>
FrameRoots(r, f) == IF f \in Frames THEN {<<f, x.v, x.id>> : x \in r[f]} ELSE {}

GetFrameRoots(f) ==
  /\ UNCHANGED roots
  /\ act' = [op |-> "get", f |-> f, res |-> FrameRoots(roots, f)]

SwitchEpoch ==
  /\ roots' = Empty
  /\ act' = [op |-> "switch"]

Next == /\ steps < MaxSteps /\ steps' = steps + 1
        /\ \/ \E f \in Frames, creator \in Validators, id \in Ids : \E spf \in 0..f : AddRoot(spf, f, creator, id)
           \/ \E f \in 1..(MaxFrame + 1) : GetFrameRoots(f)
           \/ SwitchEpoch
Spec == Init /\ [][Next]_vars

(* ---- the property (C33) on the specification ---- *)
TypeOK == roots \in [Frames -> SUBSET Root]
\* a query changes nothing; a registration only adds, exactly in the frames spf+1..f; a new epoch is empty
QueryIsPure == [][act'.op = "get" => roots' = roots]_vars
AddExact == [][act'.op = "add" =>
                 \A g \in Frames : roots'[g] = IF g > act'.spf /\ g <= act'.f
                                               THEN roots[g] \cup {[v |-> act'.v, id |-> act'.id]} ELSE roots[g]]_vars
NewEpochEmpty == [][act'.op = "switch" => \A g \in Frames : roots'[g] = {}]_vars
\* every reported root carries the frame it was asked for
AnswerFrame == act.op = "get" => \A x \in act.res : x[1] = act.f

\* what GetFrameRoots must return for every frame in the post-state (used by the replayer's probes)
Answers(r) == [f \in 1..(MaxFrame + 1) |-> FrameRoots(r, f)]
Emit == PrintT(<<"EDGE", ToJson([pre |-> Answers(roots), act |-> act', post |-> Answers(roots')])>>)
=============================================================================
