CONSTANTS NSteps = 5 MinSteps = 5 AcqW <- AcqT TryW <- TryT RelW <- RelT Timeouts <- TimeoutsMC MaxAcq = 3 MaxTry = 1 MaxRel = 2
SPECIFICATION Spec
INVARIANT EmitScen
CHECK_DEADLOCK FALSE
