CONSTANTS NSteps = 3 MinSteps = 3 AcqW <- AcqQ TryW <- TryQ RelW <- RelQ Timeouts <- TimeoutsMC MaxAcq = 3 MaxTry = 1 MaxRel = 2
SPECIFICATION Spec
INVARIANT EmitScen
CHECK_DEADLOCK FALSE
