------------------------------ MODULE Semaphore ------------------------------
(* Events semaphore (utils/datasemaphore), property C30.                                           *)
(* A two-dimensional counting semaphore (number of events, total size).  Calls of concurrent        *)
(* callers are modelled by call / internal linearization step / return (pattern L): `pend` holds    *)
(* the calls in flight, each takes effect atomically at one internal step between its call and      *)
(* its return.  Real time is not part of this module; SemaphoreTrace.tla adds the time bounds.      *)
EXTENDS Integers, FiniteSets, TLC

CONSTANTS Cap0          \* configured capacity [num |-> .., size |-> ..]
VARIABLES cap,          \* current capacity: Cap0, or zero after Terminate
          held,         \* amount currently held
          pend          \* calls in flight: caller id -> record

svars == <<cap, held, pend>>

Zero == [num |-> 0, size |-> 0]
Leq(a, b) == a.num <= b.num /\ a.size <= b.size
Plus(a, b) == [num |-> a.num + b.num, size |-> a.size + b.size]
Minus(a, b) == [num |-> a.num - b.num, size |-> a.size - b.size]
NonEmpty(w) == w # Zero

Fits(w) == Leq(Plus(held, w), cap)       \* the request can be granted now
Exceeds(w) == ~Leq(w, cap)               \* the request can never be granted (also: any non-empty request after Terminate)

SInit == cap = Cap0 /\ held = Zero /\ pend = <<>>

Active == DOMAIN pend
Waiting(g) == g \in Active /\ ~pend[g].done

\* c is a record with at least fn \in {"acq","try","rel","term"} and w (a weight); further fields are carried along
Call(g, c) ==
  /\ g \notin Active
  /\ pend' = [h \in Active \cup {g} |-> IF h = g THEN c @@ [done |-> FALSE, ok |-> FALSE, why |-> "", over |-> FALSE,
                                                             warned |-> FALSE, before |-> Zero] ELSE pend[h]]
  /\ UNCHANGED <<cap, held>>

Finish(g, ok, why) == pend' = [pend EXCEPT ![g].done = TRUE, ![g].ok = ok, ![g].why = why]

\* Acquire / TryAcquire: granted only if it fits, and then the amount is held
Grant(g) ==
  /\ Waiting(g) /\ pend[g].fn \in {"acq", "try"} /\ Fits(pend[g].w)
  /\ held' = Plus(held, pend[g].w) /\ Finish(g, TRUE, "fits") /\ UNCHANGED cap
\* TryAcquire refuses exactly when the request does not fit
RefuseTry(g) ==
  /\ Waiting(g) /\ pend[g].fn = "try" /\ ~Fits(pend[g].w)
  /\ Finish(g, FALSE, "nofit") /\ UNCHANGED <<cap, held>>
\* Acquire refuses a request that exceeds the capacity (after Terminate: every non-empty request) ...
RefuseExceeds(g) ==
  /\ Waiting(g) /\ pend[g].fn = "acq" /\ Exceeds(pend[g].w)
  /\ Finish(g, FALSE, "exceeds") /\ UNCHANGED <<cap, held>>
\* ... or one that is still unsatisfied when its timeout expires (the time bound is in the trace specification)
RefuseTimeout(g) ==
  /\ Waiting(g) /\ pend[g].fn = "acq" /\ ~Fits(pend[g].w) /\ ~Exceeds(pend[g].w)
  /\ Finish(g, FALSE, "timeout") /\ UNCHANGED <<cap, held>>
\* Release: gives the amount back; an over-release resets the held amount to zero and must be reported
DoRelease(g) ==
  /\ Waiting(g) /\ pend[g].fn = "rel" /\ UNCHANGED cap
  /\ IF Leq(pend[g].w, held)
     THEN held' = Minus(held, pend[g].w) /\ Finish(g, TRUE, "released")
     ELSE held' = Zero /\ pend' = [pend EXCEPT ![g].done = TRUE, ![g].ok = TRUE, ![g].why = "over-release",
                                               ![g].over = TRUE, ![g].before = held]
\* the warning callback of an over-release, called before Release returns
Warn(g) ==
  /\ g \in Active /\ pend[g].done /\ pend[g].over /\ ~pend[g].warned
  /\ pend' = [pend EXCEPT ![g].warned = TRUE] /\ UNCHANGED <<cap, held>>
DoTerminate(g) ==
  /\ Waiting(g) /\ pend[g].fn = "term"
  /\ cap' = Zero /\ Finish(g, TRUE, "terminated") /\ UNCHANGED held
Lin(g) == Grant(g) \/ RefuseTry(g) \/ RefuseExceeds(g) \/ RefuseTimeout(g) \/ DoRelease(g) \/ DoTerminate(g)

Ret(g) ==
  /\ g \in Active /\ pend[g].done /\ (pend[g].over => pend[g].warned)
  /\ pend' = [h \in Active \ {g} |-> pend[h]] /\ UNCHANGED <<cap, held>>

\* quiescence: no caller in flight could make progress without a further call or the passing of time
Quiescent ==
  \A g \in Active : /\ ~pend[g].done
                    /\ pend[g].fn = "acq" /\ ~Fits(pend[g].w) /\ ~Exceeds(pend[g].w)

(* ---- the property (C30), time-free part ---- *)
HeldWithinCapacity == Leq(held, Cap0) /\ Leq(Zero, held)
Terminated == cap = Zero
\* after termination nothing non-empty is ever granted
NoGrantAfterTerminate ==
  [][\A g \in Active : (Terminated /\ g \in DOMAIN pend' /\ ~pend[g].done /\ pend'[g].done /\ pend'[g].ok
                         /\ pend[g].fn \in {"acq", "try"}) => pend[g].w = Zero]_svars
\* a grant never happens when the request does not fit, and adds exactly the request
GrantExact ==
  [][\A g \in Active : (g \in DOMAIN pend' /\ ~pend[g].done /\ pend'[g].done /\ pend'[g].ok /\ pend[g].fn \in {"acq", "try"})
        => (Fits(pend[g].w) /\ held' = Plus(held, pend[g].w))]_svars
\* an over-release is always reported before Release returns
OverReleaseReported ==
  [][\A g \in Active : (pend[g].fn = "rel" /\ pend[g].over /\ g \notin DOMAIN pend') => pend[g].warned]_svars
=============================================================================
