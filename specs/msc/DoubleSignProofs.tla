-------------------------- MODULE DoubleSignProofs --------------------------
(* Apalache obligations for DoubleSign.tla (pattern P), checked with                               *)
(*   apalache-mc check --init=Init --inv=<Inv> --length=0 DoubleSignProofs.tla                     *)
(* over the whole int64 range of `now`, the threshold and the timestamps (timestamps even beyond). *)
EXTENDS Integers, FiniteSets, DoubleSign

U60 == 1152921504606846976      \* 2^60
U16 == 16

VARIABLES
  \* @type: Int;
  peers,
  \* @type: Bool;
  synced,
  \* @type: Int;
  now,
  \* @type: Str -> Int;
  ts,
  \* @type: Int;
  thr,
  \* @type: Int;
  startup,
  \* units and small offsets of the scale lemma
  \* @type: Str -> Int;
  tu,
  \* @type: Str -> Int;
  te,
  \* @type: Int;
  nu,
  \* @type: Int;
  ne,
  \* @type: Int;
  hu,
  \* @type: Int;
  he

Big == 40 * U60                  \* timestamps range over [-40*2^60, 40*2^60] ns: far beyond the duration range

Init ==
  /\ peers \in 0..3 /\ synced \in BOOLEAN
  /\ now \in Int /\ now >= -Big /\ now <= Big
  /\ thr \in Int /\ thr >= MinDur(U60) /\ thr <= MaxDur(U60)
  /\ startup \in Int /\ startup >= -Big /\ startup <= Big
  /\ ts \in [Fields -> Int] /\ \A f \in Fields : ts[f] >= -Big /\ ts[f] <= Big
  /\ tu \in [Fields -> (-40)..40] /\ te \in [Fields -> (-1)..1]
  /\ nu \in (-40)..40 /\ ne \in (-1)..1
  /\ hu \in (-8)..8 /\ he \in (-2)..1
  /\ hu * U16 + he >= MinDur(U16) /\ hu * U16 + he <= MaxDur(U16)
Next == UNCHANGED <<peers, synced, now, ts, thr, startup, tu, te, nu, ne, hu, he>>

V == Verdict(U60, peers, synced, now, ts, thr)

\* permitted exactly when there is a peer, sync finished, and every timestamp lies at least thr in the past
PermittedIff ==
  V.permitted <=> (peers > 0 /\ synced /\ \A f \in Fields : ts[f] <= now - thr)

\* a refusal caused by a timestamp carries a positive wait within the duration range, equal to the longest
\* remaining time or to the cap when that exceeds the range; every timestamp is old enough after an uncapped wait
WaitIsLongestRemaining ==
  (~V.permitted /\ V.waitKnown) =>
    /\ V.wait > 0 /\ V.wait <= MaxDur(U60)
    /\ \E f \in Fields : V.wait = Cap(U60, Remaining(now, ts[f], thr))
    /\ \A f \in Fields : Cap(U60, Remaining(now, ts[f], thr)) <= V.wait
    /\ V.wait < MaxDur(U60) => \A f \in Fields : (now + V.wait) - ts[f] >= thr
    /\ \E f \in Fields : (now + V.wait - 1) - ts[f] < thr

\* a refusal without a timestamp cause happens only without a peer or with sync unfinished
UnknownWaitOnlyWithoutCause ==
  (~V.permitted /\ ~V.waitKnown) <=> (peers = 0 \/ ~synced)

(* The scale lemma.  TLC evaluates Verdict / Parallel at U = 16 on vectors written as units*16 + small offset  *)
(* (offsets -1..1, the threshold also 8*16-1 = MaxDur and -8*16 = MinDur); the harness runs the code on the     *)
(* vector units*2^60 + the same offsets.  The verdicts carry over because every operation of the specification    *)
(* is a difference, a comparison or the cap, and these commute with the change of unit:                            *)
At(U, u, e) == u * U + e
n16 == At(U16, nu, ne)
n60 == At(U60, nu, ne)
h16 == At(U16, hu, he)
h60 == At(U60, hu, he)
t16(f) == At(U16, tu[f], te[f])
t60(f) == At(U60, tu[f], te[f])
\* (1) a timestamp blocks at one scale iff it blocks at the other (also covers Parallel's two comparisons)
ScaleBlocking ==
  \A f \in Fields : ((n16 - t16(f) < h16) <=> (n60 - t60(f) < h60))
                    /\ \A g \in Fields : (t16(f) >= t16(g)) <=> (t60(f) >= t60(g))
\* (2) the order of the remaining times is the same, so the same timestamp is the longest remaining one
ScaleOrder ==
  \A f, g \in Fields : (Remaining(n16, t16(f), h16) <= Remaining(n16, t16(g), h16))
                          <=> (Remaining(n60, t60(f), h60) <= Remaining(n60, t60(g), h60))
\* (3) the capped remaining time at U = 16, decomposed as a*16 + b with -8 <= b < 8, is a*2^60 + b at U = 2^60
ScaleCap ==
  \A f \in Fields :
    LET w16 == Cap(U16, Remaining(n16, t16(f), h16))
        a == (w16 + 8) \div 16
        b == w16 - 16 * a IN
    w16 > 0 => Cap(U60, Remaining(n60, t60(f), h60)) = At(U60, a, b)
=============================================================================
