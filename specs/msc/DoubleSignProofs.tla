-------------------------- MODULE DoubleSignProofs --------------------------
(* Apalache obligations for DoubleSign.tla (pattern P), checked with                               *)
(*   apalache-mc check --init=Init --inv=<Inv> --length=0 DoubleSignProofs.tla                     *)
(* over the whole int64 range of `now`, the threshold and the timestamps (timestamps even beyond). *)
EXTENDS Integers, FiniteSets, DoubleSign

U60 == 1152921504606846976      \* 2^60
U16 == 16

VARIABLES
  \* @type: Int;
  peers,
  \* @type: Bool;
  synced,
  \* @type: Int;
  now,
  \* @type: Str -> Int;
  ts,
  \* @type: Int;
  thr,
  \* @type: Int;
  startup,
  \* units and small offsets of the scale lemma
  \* @type: Str -> Int;
  tu,
  \* @type: Str -> Int;
  te,
  \* @type: Int;
  nu,
  \* @type: Int;
  ne,
  \* @type: Int;
  hu,
  \* @type: Int;
  he

Big == 40 * U60                  \* timestamps range over [-40*2^60, 40*2^60] ns: far beyond the duration range

Init ==
  /\ peers \in 0..3 /\ synced \in BOOLEAN
  /\ now \in Int /\ now >= -Big /\ now <= Big
  /\ thr \in Int /\ thr >= MinDur(U60) /\ thr <= MaxDur(U60)
  /\ startup \in Int /\ startup >= -Big /\ startup <= Big
  /\ ts \in [Fields -> Int] /\ \A f \in Fields : ts[f] >= -Big /\ ts[f] <= Big
  /\ tu \in [Fields -> (-40)..40] /\ te \in [Fields -> (-1)..1]
  /\ nu \in (-40)..40 /\ ne \in (-1)..1
  /\ hu \in (-8)..8 /\ he \in (-2)..1
  /\ hu * U16 + he >= MinDur(U16) /\ hu * U16 + he <= MaxDur(U16)
Next == UNCHANGED <<peers, synced, now, ts, thr, startup, tu, te, nu, ne, hu, he>>

V == Verdict(U60, peers, synced, now, ts, thr)

\* permitted exactly when there is a peer, sync finished, and every timestamp lies at least thr in the past
PermittedIff ==
  V.permitted <=> (peers > 0 /\ synced /\ \A f \in Fields : ts[f] <= now - thr)

\* a refusal caused by a timestamp carries a positive wait within the duration range, equal to the longest
\* remaining time or to the cap when that exceeds the range; every timestamp is old enough after an uncapped wait
WaitIsLongestRemaining ==
  (~V.permitted /\ V.waitKnown) =>
    /\ V.wait > 0 /\ V.wait <= MaxDur(U60)
    /\ \E f \in Fields : V.wait = Cap(U60, Remaining(now, ts[f], thr))
    /\ \A f \in Fields : Cap(U60, Remaining(now, ts[f], thr)) <= V.wait
    /\ V.wait < MaxDur(U60) => \A f \in Fields : (now + V.wait) - ts[f] >= thr
    /\ \E f \in Fields : (now + V.wait - 1) - ts[f] < thr

\* a refusal without a timestamp cause happens only without a peer or with sync unfinished
UnknownWaitOnlyWithoutCause ==
  (~V.permitted /\ ~V.waitKnown) <=> (peers = 0 \/ ~synced)

\* the scale lemma: a vector written as units*U + small offset has the same verdict at U = 16 and U = 2^60,
\* and the waits correspond under the same decomposition
At(U, u, e) == u * U + e
V16 == Verdict(U16, peers, synced, At(U16, nu, ne), [f \in Fields |-> At(U16, tu[f], te[f])], At(U16, hu, he))
V60 == Verdict(U60, peers, synced, At(U60, nu, ne), [f \in Fields |-> At(U60, tu[f], te[f])], At(U60, hu, he))
ScaleLemma ==
  /\ V16.permitted = V60.permitted /\ V16.waitKnown = V60.waitKnown
  /\ V16.waitKnown =>
       LET a == (V16.wait + 8) \div 16
           b == V16.wait - 16 * a IN
       V60.wait = At(U60, a, b)
ScaleLemmaParallel ==
  Parallel(At(U16, nu, ne), At(U16, tu["synced"], te["synced"]), At(U16, tu["created"], te["created"]), At(U16, hu, he))
    <=> Parallel(At(U60, nu, ne), At(U60, tu["synced"], te["synced"]), At(U60, tu["created"], te["created"]), At(U60, hu, he))
=============================================================================
