CONSTANTS NSteps = 4 MinSteps = 4 AcqW <- AcqT TryW <- TryT RelW <- RelT Timeouts <- TimeoutsMC MaxAcq = 3 MaxTry = 2 MaxRel = 2
SPECIFICATION Spec
INVARIANT EmitScen
CHECK_DEADLOCK FALSE
