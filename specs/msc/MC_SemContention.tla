---- MODULE MC_SemContention ----
EXTENDS SemContention
FillsMC == {<< <<1, 10>> >>, << <<1, 7>>, <<1, 3>> >>}
====
