CONSTANTS Cap0 <- CapMC Procs = {1, 2, 3} WeightsMC <- WeightsT
SPECIFICATION Spec
INVARIANTS HeldWithinCapacity QuiescentMeansBlocked
PROPERTIES NoGrantAfterTerminate GrantExact OverReleaseReported
CHECK_DEADLOCK FALSE
