---- MODULE MC_Semaphore ----
(* Model checking of the abstract semaphore at small scope: 3 callers, any interleaving of calls,   *)
(* linearization steps and returns.                                                                 *)
EXTENDS Semaphore, TLC
CONSTANTS Procs, WeightsMC
W(n, s) == [num |-> n, size |-> s]
CapMC == W(2, 4)
WeightsT == {W(1, 1), W(1, 3), W(2, 2), W(1, 5), W(3, 1)}
WeightsQ == {W(1, 1), W(1, 3), W(3, 1)}
Calls == [fn : {"acq", "try", "rel"}, w : WeightsMC] \cup {[fn |-> "term", w |-> Zero], [fn |-> "try", w |-> Zero]}
Next == \E g \in Procs : (\E c \in Calls : Call(g, c)) \/ Lin(g) \/ Warn(g) \/ Ret(g)
Spec == SInit /\ [][Next]_svars
\* whenever the system is quiescent with somebody waiting, the waiting requests indeed do not fit
QuiescentMeansBlocked == (Quiescent /\ Active # {}) => \A g \in Active : ~Leq(Plus(held, pend[g].w), cap)
====
