CONSTANTS Ids = {1,2,3} MaxExisting = 1 MaxOptions = 3 MaxStrategies = 2 MetricVals = {0,1,2} ExistingSel = {}
SPECIFICATION Spec
INVARIANTS Satisfiable CountFixed
CHECK_DEADLOCK FALSE
