---- MODULE MC_ParentSelect ----
(* Pattern S: TLC enumerates the inputs of ChooseParents (one initial state per case) and prints  *)
(* them; it also checks, for every case and every sequence over the ids, that Valid determines     *)
(* the number of new parents (a sanity property of the relation itself).                            *)
EXTENDS ParentSelect, TLC, Json
CONSTANTS Ids, MaxExisting, MaxOptions, MaxStrategies, MetricVals, ExistingSel
VARIABLE case

SeqsUpTo(S, n) == UNION {[1..k -> S] : k \in 0..n}
Kinds == SeqsUpTo({"any", "metric"}, MaxStrategies)
HasMetric(k) == \E i \in 1..Len(k) : k[i] = "metric"
ZeroMetric == [i \in Ids |-> 0]
Existings == IF ExistingSel = {} THEN SeqsUpTo(Ids, MaxExisting) ELSE ExistingSel

\* the metric matters only for options that can be added and only if a metric strategy is present:
\* elsewhere it is fixed to 0 (prunes cases that differ in irrelevant inputs only)
Init == \E e \in Existings, o \in SeqsUpTo(Ids, MaxOptions), k \in Kinds :
          \E m \in [Ids -> MetricVals] :
            /\ (HasMetric(k) \/ m = ZeroMetric)
            /\ \A i \in Ids \ Avail(e, o) : m[i] = 0
            /\ case = [existing |-> e, options |-> o, kinds |-> k, metric |-> m]
Next == UNCHANGED case
Spec == Init /\ [][Next]_case

MetricSeq(m) == [i \in 1..Cardinality(Ids) |-> m[i]]
EmitCase == PrintT(<<"EDGE", ToJson([op |-> "reset", existing |-> case.existing, options |-> case.options,
                                      kinds |-> case.kinds, metric |-> MetricSeq(case.metric)])>>)

\* sanity of the relation: it is satisfiable for every case and fixes the number of new parents
Results(c) == {r \in SeqsUpTo(Ids, Len(c.existing) + MaxStrategies) : Valid(c.existing, c.options, c.kinds, c.metric, r)}
Satisfiable == Results(case) # {}
CountFixed == \A r \in Results(case) : NumberOfNew(case.existing, case.options, case.kinds, r)
\* existing-parent lists of the quick tier (two per run, selected by the seed) and of the thorough tier
ExQ0 == {<<>>, <<1>>, <<1, 1>>}
ExQ1 == {<<>>, <<4>>, <<2, 1>>}
ExQ2 == {<<>>, <<3>>, <<3, 3>>}
ExQ3 == {<<>>, <<2>>, <<1, 4>>}
ExT == {<<>>, <<1>>, <<4>>, <<1, 1>>, <<2, 1>>, <<3, 4>>}
====
