---------------------------- MODULE SemContention ----------------------------
(* Environment model (pattern S), second family of driver scripts for the events semaphore:         *)
(* several callers blocked at the same time with requests of different sizes.                        *)
(*   fill     TryAcquire steps that fill the semaphore completely (capacity (4, 10))                 *)
(*   waiters  two or three blocking Acquire calls with pairwise different sizes, in every order       *)
(*   releases one or two Release steps: depending on the amounts the room that becomes free fits      *)
(*            the oldest waiter, only a later one, several of them, or nobody                          *)
(* Clause exercised: "grants a fitting request immediately or as soon as enough is released" for       *)
(* every blocked caller, not only the one that has waited longest.  One initial state per script.      *)
EXTENDS Integers, Sequences, FiniteSets, TLC, Json

CONSTANTS Fills,        \* set of sequences of weights <<num, size>> that fill the capacity
          WaitSizes,    \* sizes of the waiters' requests (each request is <<1, size>>)
          RelSizes,     \* sizes released (each release is <<1, size>>)
          MaxWaiters, MaxReleases,
          LongTimeout, ShortTimeout
VARIABLE script

SeqsOf(S, lo, hi) == UNION {[1..k -> S] : k \in lo..hi}
Injective(s) == \A i, j \in 1..Len(s) : i # j => s[i] # s[j]
Try(w) == [fn |-> "try", w |-> w, timeout |-> 0]
Acq(sz, t) == [fn |-> "acq", w |-> <<1, sz>>, timeout |-> t]
Rel(sz) == [fn |-> "rel", w |-> <<1, sz>>, timeout |-> 0]

Init == \E f \in Fills, ws \in SeqsOf(WaitSizes, 2, MaxWaiters), rs \in SeqsOf(RelSizes, 1, MaxReleases), firstShort \in BOOLEAN :
          /\ Injective(ws)
          /\ script = [i \in 1..Len(f) |-> Try(f[i])]
                      \o [i \in 1..Len(ws) |-> Acq(ws[i], IF i = 1 /\ firstShort THEN ShortTimeout ELSE LongTimeout)]
                      \o [i \in 1..Len(rs) |-> Rel(rs[i])]
Next == UNCHANGED script
Spec == Init /\ [][Next]_script

EmitScen == PrintT(<<"EDGE", ToJson([cap |-> <<4, 10>>, script |-> script])>>)
=============================================================================
