---------------------------- MODULE SemScenarios ----------------------------
(* Environment model for the events semaphore (pattern S): TLC enumerates the driver scripts.      *)
(* A script is a sequence of steps executed one after the other by the harness driver:              *)
(*   acq   start a blocking Acquire(w, timeout) in a new goroutine                                  *)
(*   try   TryAcquire(w)          rel   Release(w)          term   Terminate()                      *)
(*   sleep let time pass (longer than the short timeout plus the slack) without touching anything   *)
(* Nothing about outcomes is decided here; the recorded behaviour is judged by SemaphoreTrace.tla.  *)
EXTENDS Integers, Sequences, FiniteSets, TLC, Json

CONSTANTS NSteps, MinSteps,         \* scripts of MinSteps..NSteps steps are emitted
          AcqW, TryW, RelW,        \* weights <<num, size>> used by the three kinds of calls
          Timeouts,                \* in ms; the smallest one is "short"
          MaxAcq, MaxTry, MaxRel   \* at most so many steps of a kind per script
VARIABLE script

Short == CHOOSE t \in Timeouts : \A u \in Timeouts : t <= u
Steps == [fn : {"acq"}, w : AcqW, timeout : Timeouts] \cup [fn : {"try"}, w : TryW, timeout : {0}]
         \cup [fn : {"rel"}, w : RelW, timeout : {0}] \cup {[fn |-> "term", w |-> <<0, 0>>, timeout |-> 0],
                                                             [fn |-> "sleep", w |-> <<0, 0>>, timeout |-> 0]}
Count(s, fn) == Cardinality({i \in 1..Len(s) : s[i].fn = fn})

Allowed(s, st) ==
  /\ st.fn = "acq" => Count(s, "acq") < MaxAcq
  /\ st.fn = "try" => Count(s, "try") < MaxTry
  /\ st.fn = "rel" => Count(s, "rel") < MaxRel
  /\ st.fn = "term" => Count(s, "term") = 0
  \* time is let pass at most once, and only while a short-timeout Acquire may be waiting
  /\ st.fn = "sleep" => Count(s, "sleep") = 0 /\ \E i \in 1..Len(s) : s[i].fn = "acq" /\ s[i].timeout = Short

Init == script = <<>>
Next == Len(script) < NSteps /\ \E st \in Steps : Allowed(script, st) /\ script' = Append(script, st)
Spec == Init /\ [][Next]_script

EmitScen == Len(script) >= MinSteps => PrintT(<<"EDGE", ToJson([script |-> script])>>)
=============================================================================
