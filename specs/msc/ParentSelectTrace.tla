------------------------ MODULE ParentSelectTrace ------------------------
(* Pattern T: every result of the real ChooseParents, logged by the harness, is validated against  *)
(* Valid.  A "reset" line carries the inputs of a case, the following "result" lines the distinct   *)
(* results observed over the repeated runs of that case.                                             *)
EXTENDS ParentSelect, TLC, Json, IOUtils

Trace == ndJsonDeserialize(IOEnv.TRACE)
VARIABLES l, cur
tvars == <<l, cur>>
T == Trace[l]
Is(op) == l <= Len(Trace) /\ T.op = op /\ l' = l + 1

TInit == TLCSet(1, 1) /\ l = 1 /\ cur = [existing |-> <<>>, options |-> <<>>, kinds |-> <<>>, metric |-> <<>>]
TReset == Is("reset") /\ cur' = [existing |-> T.existing, options |-> T.options, kinds |-> T.kinds, metric |-> T.metric]
TResult == /\ Is("result") /\ UNCHANGED cur
           /\ T.ok                                       \* the call returned (did not panic)
           /\ Valid(cur.existing, cur.options, cur.kinds, cur.metric, T.res)
TNext == TReset \/ TResult
TSpec == TInit /\ [][TNext]_tvars

Mark == TLCSet(1, IF l > TLCGet(1) THEN l ELSE TLCGet(1))
Accepted == IF TLCGet(1) = Len(Trace) + 1 THEN PrintT(<<"ACCEPTED", Len(Trace)>>)
            ELSE PrintT(<<"REJECTED", TLCGet(1), ToJson(Trace[TLCGet(1)])>>)
=============================================================================
