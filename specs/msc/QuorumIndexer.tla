--------------------------- MODULE QuorumIndexer ---------------------------
(* Quorum indexer of the emitter (emitter/ancestor/quorum_indexer.go), property C20.            *)
(* State: for every validator u the observations ("merged highest-before" clock) of u's latest  *)
(* processed event, and the observations of the node's own latest event.  An observation of      *)
(* validator v is a sequence number, or FORK (a detected fork counts as the maximal observation).*)
(* Median(v) and Metric(c) are written directly from the statement; the diff function is a       *)
(* parameter of the property (a constant operator of the specification).                         *)
EXTENDS Integers, FiniteSets, FiniteSetsExt, TLC, Json

CONSTANTS V,             \* validator ids
          WeightVecs,    \* set of weight assignments [V -> positive integers]
          Clocks,        \* set of observation vectors [V -> Seqs] that events may carry
          MaxSeq, FORK,  \* sequence numbers 0..MaxSeq; FORK is larger than every sequence number
          Diff(_, _, _, _)   \* Diff(median, current, update, v)

VARIABLES w, latest, self, act
vars == <<w, latest, self, act>>
View == <<w, latest, self>>

Seqs == (0..MaxSeq) \cup {FORK}
Zero == [v \in V |-> 0]

SumOver(S, f) == FoldSet(LAMBDA x, acc : acc + f[x], 0, S)

Total(wv) == SumOver(V, wv)
Quorum(wv) == (2 * Total(wv)) \div 3 + 1

\* validators whose latest processed event has observed v at s or above
Holders(lt, v, s) == {u \in V : lt[u][v] >= s}
\* the largest s such that validators holding at least a quorum of weight observed v at s or above
Median(wv, lt, v) ==
  LET ok == {s \in Seqs : SumOver(Holders(lt, v, s), wv) >= Quorum(wv)}
  IN CHOOSE s \in ok : \A t \in ok : t <= s

Medians(wv, lt) == [v \in V |-> Median(wv, lt, v)]

\* metric of a candidate parent whose observations are c: the sum over validators of the diff function applied to
\* the median, the node's own latest observation and the candidate's observation
MetricM(med, sf, c) == SumOver(V, [v \in V |-> Diff(med[v], sf[v], c[v], v)])
Metric(wv, lt, sf, c) == MetricM(Medians(wv, lt), sf, c)

Init == /\ w \in WeightVecs
        /\ latest = [u \in V |-> Zero]
        /\ self = Zero
        /\ act = [op |-> "init"]

ProcessEvent(creator, clock, isSelf) ==
  /\ latest' = [latest EXCEPT ![creator] = clock]
  /\ self' = IF isSelf THEN clock ELSE self
  /\ UNCHANGED w
  /\ act' = [op |-> "process", creator |-> creator, clock |-> clock, self |-> isSelf]

Next == \E creator \in V, clock \in Clocks, isSelf \in BOOLEAN : ProcessEvent(creator, clock, isSelf)
Spec == Init /\ [][Next]_vars

(* ---- the property (C20) on the specification ---- *)
TypeOK == /\ latest \in [V -> [V -> Seqs]] /\ self \in [V -> Seqs]
\* the median is attained: a quorum observed v at the median or above, and no quorum observed anything larger
MedianIsLargest ==
  \A v \in V : LET m == Median(w, latest, v) IN
     /\ SumOver(Holders(latest, v, m), w) >= Quorum(w)
     /\ \A s \in Seqs : s > m => SumOver(Holders(latest, v, s), w) < Quorum(w)
\* the median is one of the observations (or 0 when nothing was observed), never above the best one
MedianIsObserved ==
  \A v \in V : Median(w, latest, v) \in {latest[u][v] : u \in V}
\* more than one third of the weight lies at or above the median and at or below it (it is a weighted quantile)
MedianMonotone ==
  [][\A v \in V : (\A u \in V : latest'[u][v] >= latest[u][v]) => Median(w, latest', v) >= Median(w, latest, v)]_vars

Abs == [w |-> w, latest |-> latest, self |-> self]
=============================================================================
