CONSTANTS Tier = "thorough"
SPECIFICATION Spec
INVARIANTS EmitVec Sane
CHECK_DEADLOCK FALSE
