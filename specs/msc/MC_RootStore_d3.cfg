CONSTANTS MaxFrame = 3 Validators = {1,2} Ids = {1,2,3} MaxSteps = 3
SPECIFICATION Spec
INVARIANTS TypeOK AnswerFrame
PROPERTIES QueryIsPure AddExact NewEpochEmpty
VIEW View
ACTION_CONSTRAINT Emit
CHECK_DEADLOCK FALSE
