---- MODULE MC_RootStore ----
EXTENDS RootStore
====
