----------------------------- MODULE DoubleSign -----------------------------
(* Double-sign guard of the emitter (emitter/doublesign), property C21.                          *)
(* Exact integer arithmetic: timestamps, `now` and the threshold are integers (nanoseconds);     *)
(* only the result `wait` is capped at the largest representable duration.  The duration range   *)
(* is [-8*U, 8*U-1]: with U = 2^60 this is the int64 range of time.Duration; TLC evaluates the   *)
(* same operators with U = 16 on boundary vectors (see ScaleLemma in DoubleSignProofs.tla for   *)
(* why the verdicts carry over).                                                                  *)
EXTENDS Integers, FiniteSets

\* the five timestamps that must lie at least the threshold in the past
Fields == {"detected", "created", "validator", "connected", "synced"}

MaxDur(U) == 8 * U - 1
MinDur(U) == -8 * U

\* how long timestamp t still is from lying thr in the past (exact, may be negative or huge)
Remaining(now, t, thr) == thr - (now - t)

\* @type: (Int, Str -> Int, Int) => Set(Str);
Blocking(now, ts, thr) == {f \in Fields : now - ts[f] < thr}

\* the longest remaining time over the five timestamps
\* @type: (Int, Str -> Int, Int) => Int;
MaxRemaining(now, ts, thr) ==
  LET rem(f) == Remaining(now, ts[f], thr) IN
  rem(CHOOSE f \in Fields : \A g \in Fields : rem(g) <= rem(f))

Cap(U, x) == IF x > MaxDur(U) THEN MaxDur(U) ELSE x

(* Verdict of SyncedToEmit.  `synced` = P2P synchronisation finished (the code represents         *)
(* "not finished" by a zero P2PSynced timestamp).  waitKnown = FALSE: the statement does not      *)
(* constrain the returned wait (no peer / sync unfinished: an error with any wait; permitted).     *)
\* @type: (Int, Int, Bool, Int, Str -> Int, Int) => { permitted: Bool, waitKnown: Bool, wait: Int };
Verdict(U, peers, synced, now, ts, thr) ==
  IF peers = 0 \/ ~synced THEN [permitted |-> FALSE, waitKnown |-> FALSE, wait |-> 0]
  ELSE IF Blocking(now, ts, thr) = {} THEN [permitted |-> TRUE, waitKnown |-> FALSE, wait |-> 0]
  ELSE [permitted |-> FALSE, waitKnown |-> TRUE, wait |-> Cap(U, MaxRemaining(now, ts, thr))]

(* DetectParallelInstance: an externally created self-event that is not older than startup and   *)
(* is younger than the threshold.                                                                  *)
Parallel(now, startup, created, thr) == created >= startup /\ now - created < thr
=============================================================================
