---------------------------- MODULE ParentSelect ----------------------------
(* Parent selection of the emitter (emitter/ancestor/search.go ChooseParents), property C19.    *)
(* The specification is a relation between the inputs and an acceptable result, written from    *)
(* the statement; which of the acceptable results is produced (the strategies' free choices,    *)
(* the order in which options are offered to them) is left open.                                 *)
EXTENDS Integers, Sequences, FiniteSets

Range(s) == {s[i] : i \in 1..Len(s)}

\* options that can still be added: offered, and not an existing parent
Avail(existing, options) == Range(options) \ Range(existing)

(* existing : sequence of parents already chosen (returned first, in order)                      *)
(* options  : sequence of offered parents (may overlap with existing, may contain duplicates)     *)
(* kinds    : one entry per strategy, "metric" for the metric strategy, anything else = free       *)
(* metric   : function from parents to their metric (used by the metric strategies)                *)
Valid(existing, options, kinds, metric, result) ==
  /\ Len(result) >= Len(existing)
  /\ SubSeq(result, 1, Len(existing)) = existing                        \* existing parents first and in order
  /\ LET new == SubSeq(result, Len(existing) + 1, Len(result))
         avail == Avail(existing, options) IN
     /\ Len(new) <= Len(kinds)                                          \* at most one new option per strategy
     /\ \A i \in 1..Len(new) : new[i] \in avail                         \* only offered options, never an existing parent
     /\ \A i, j \in 1..Len(new) : i # j => new[i] # new[j]              \* never repeats a parent
     /\ Len(new) < Len(kinds) => Range(new) = avail                     \* stops early only when no options remain
     /\ \A i \in 1..Len(new) :                                          \* the metric strategy picks a maximal option
          kinds[i] = "metric" =>
            \A o \in avail \ {new[j] : j \in 1..(i - 1)} : metric[o] <= metric[new[i]]

\* consequences of Valid, model-checked on the specification over all small inputs (MC_ParentSelect)
NumberOfNew(existing, options, kinds, result) ==
  Len(result) - Len(existing) = IF Cardinality(Avail(existing, options)) < Len(kinds)
                                THEN Cardinality(Avail(existing, options)) ELSE Len(kinds)
=============================================================================
