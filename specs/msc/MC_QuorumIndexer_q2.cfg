CONSTANTS WeightVecs <- WeightsQ2 Clocks <- ClocksQ
SPECIFICATION Spec
INVARIANTS TypeOK MedianIsLargest MedianIsObserved
PROPERTY MedianMonotone
VIEW View
ACTION_CONSTRAINT Emit
CHECK_DEADLOCK FALSE
