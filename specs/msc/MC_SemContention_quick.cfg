CONSTANTS Fills <- FillsMC WaitSizes = {8, 2, 5} RelSizes = {3, 5, 7} MaxWaiters = 3 MaxReleases = 1 LongTimeout = 5000 ShortTimeout = 30
SPECIFICATION Spec
INVARIANT EmitScen
CHECK_DEADLOCK FALSE
