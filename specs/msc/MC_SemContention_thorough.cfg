CONSTANTS Fills <- FillsMC WaitSizes = {8, 2, 5, 4} RelSizes = {2, 3, 5, 7} MaxWaiters = 3 MaxReleases = 2 LongTimeout = 5000 ShortTimeout = 30
SPECIFICATION Spec
INVARIANT EmitScen
CHECK_DEADLOCK FALSE
