---- MODULE MC_QuorumIndexer ----
EXTENDS Integers, Sequences, TLC, Json
CONSTANTS WeightVecs, Clocks
VARIABLES w, latest, self, act

F == 2147483646           \* math.MaxUint32/2 - 1, what the code substitutes for a detected fork
Vs == {1, 2, 3}
\* the diff function handed to the real indexer by the harness encodes its four arguments injectively,
\* so that equal sums mean equal arguments for every validator
Ix(x) == IF x = F THEN 3 ELSE x
Pow64(v) == IF v = 1 THEN 1 ELSE IF v = 2 THEN 64 ELSE 4096
DiffMC(m, cur, upd, v) == (Ix(m) * 16 + Ix(cur) * 4 + Ix(upd)) * Pow64(v)

Vec(a, b, c) == [v \in Vs |-> IF v = 1 THEN a ELSE IF v = 2 THEN b ELSE c]
\* quick tier: two weight vectors per run, the pair is selected by the seed (checks/c20.py).  Every pair contains a
\* total weight divisible by 3 (the only totals for which 2T/3+1 differs from 2T/3 rounded up) and one that is not.
WeightsQ0 == {Vec(1,1,1), Vec(2,1,1)}
WeightsQ1 == {Vec(1,1,4), Vec(2,2,1)}
WeightsQ2 == {Vec(1,3,2), Vec(5,1,1)}
WeightsQ3 == {Vec(2,2,2), Vec(1,1,3)}
WeightsT == {Vec(1,1,1), Vec(2,1,1), Vec(3,1,1), Vec(1,1,2), Vec(1,3,2), Vec(2,2,1), Vec(5,1,1), Vec(1,1,4)}
ClocksQ == {Vec(1,2,F), Vec(2,F,1), Vec(F,0,2), Vec(0,1,1)}
ClocksT == {Vec(1,2,F), Vec(2,F,1), Vec(F,0,2), Vec(0,1,1), Vec(2,2,0), Vec(F,F,1)}

INSTANCE QuorumIndexer WITH V <- Vs, MaxSeq <- 2, FORK <- F, Diff <- DiffMC

\* clocks are printed as sequences <<c[1], c[2], c[3]>>; the metric table as a sequence of [clock, value]
SeqOf(c) == <<c[1], c[2], c[3]>>
RECURSIVE SetToSeq(_)
SetToSeq(S) == IF S = {} THEN <<>> ELSE LET x == CHOOSE y \in S : TRUE IN <<x>> \o SetToSeq(S \ {x})
ClockList == SetToSeq(Clocks)
J(wv, lt, sf) == [w |-> SeqOf(wv), latest |-> [u \in 1..3 |-> SeqOf(lt[u])], self |-> SeqOf(sf),
                 cands |-> [i \in 1..Len(ClockList) |-> SeqOf(ClockList[i])]]
ObsJ(wv, lt, sf) == LET med == Medians(wv, lt) IN
                    [median |-> SeqOf(med),
                     metric |-> [i \in 1..Len(ClockList) |-> [clock |-> SeqOf(ClockList[i]), value |-> MetricM(med, sf, ClockList[i])]]]
ActJ(a) == IF a.op = "process" THEN [op |-> "process", creator |-> a.creator, clock |-> SeqOf(a.clock), self |-> a.self] ELSE a
Emit == PrintT(<<"EDGE", ToJson([pre |-> J(w, latest, self), act |-> ActJ(act'), post |-> J(w', latest', self'),
                                 obs |-> ObsJ(w', latest', self')])>>)
====
