CONSTANTS Big = 8 Small = 2 RelSizes = {1, 2, 3, 4} MaxReleases = 3 Timeout = 400 LongTimeout = 5000 Early = 250 Late = 350
SPECIFICATION Spec
INVARIANT EmitScen
CHECK_DEADLOCK FALSE
