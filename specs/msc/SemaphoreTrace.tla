-------------------------- MODULE SemaphoreTrace --------------------------
(* Trace specification (patterns T + L): validates call / ret / warn / settled lines recorded from   *)
(* the real DataSemaphore against Semaphore.tla, searching for linearization points (internal Lin    *)
(* steps) and adding the real-time clauses of C30:                                                     *)
(*   - a refusal by timeout returns no earlier than the timeout and no later than timeout + slack;     *)
(*   - at every "settled" line (the driver has waited for callers to return) no caller is in flight    *)
(*     whose request fits, exceeds the capacity, or is overdue (timeout + slack passed): so a fitting  *)
(*     request is granted at once or as soon as enough is released, over-capacity requests and         *)
(*     blocked callers after Terminate return at once, and nobody waits beyond the timeout;            *)
(*   - the held amount reported by Processing() at "settled" equals the specification's.              *)
(* Scenarios are concatenated; each starts with a "reset" line carrying capacity and slack (ms).       *)
EXTENDS Semaphore, Sequences, Json, IOUtils

Trace == ndJsonDeserialize(IOEnv.TRACE)
VARIABLES l, slack
tvars == <<l, slack, cap, held, pend>>
T == Trace[l]
Is(op) == l <= Len(Trace) /\ T.op = op /\ l' = l + 1
M(p) == [num |-> p[1], size |-> p[2]]

TInit == TLCSet(1, 1) /\ l = 1 /\ slack = 0 /\ cap = Zero /\ held = Zero /\ pend = <<>>

TReset == /\ Is("reset") /\ slack' = T.slack
          /\ cap' = M(T.cap) /\ held' = Zero /\ pend' = <<>>
TCall == /\ Is("call") /\ UNCHANGED slack
         /\ Call(T.g, [fn |-> T.fn, w |-> M(T.w), timeout |-> T.timeout, at |-> T.at])
TLin == /\ \E g \in Active : Lin(g)
        /\ UNCHANGED <<l, slack>>
TWarn == /\ Is("warn") /\ UNCHANGED slack
         /\ \E g \in Active : /\ Warn(g)
                              /\ M(T.releasing) = pend[g].w          \* the report names the released amount
                              /\ M(T.processing) = pend[g].before    \* and what was held
TRet == /\ Is("ret") /\ UNCHANGED slack
        /\ T.g \in Active
        /\ LET c == pend[T.g] IN
           /\ c.done /\ c.ok = T.ok
           \* refused because still unsatisfied at the timeout: not before it, and shortly after it
           /\ c.why = "timeout" => (T.el >= c.timeout /\ T.el <= c.timeout + slack)
        /\ Ret(T.g)
TSettled == /\ Is("settled") /\ UNCHANGED <<slack, cap, held, pend>>
            /\ Quiescent
            /\ \A g \in Active : T.at - pend[g].at < pend[g].timeout + slack     \* nobody is overdue
            /\ M(T.held) = held

TNext == TReset \/ TCall \/ TLin \/ TWarn \/ TRet \/ TSettled
TSpec == TInit /\ [][TNext]_tvars

Mark == TLCSet(1, IF l > TLCGet(1) THEN l ELSE TLCGet(1))
Accepted == IF TLCGet(1) = Len(Trace) + 1 THEN PrintT(<<"ACCEPTED", Len(Trace)>>)
            ELSE PrintT(<<"REJECTED", TLCGet(1), ToJson(Trace[TLCGet(1)])>>)
\* the first clause of C30, on every state reached while validating
HeldBounded == Leq(held, IF cap = Zero THEN held ELSE cap)
=============================================================================
