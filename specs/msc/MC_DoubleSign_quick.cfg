CONSTANTS Tier = "quick"
SPECIFICATION Spec
INVARIANTS EmitVec Sane
CHECK_DEADLOCK FALSE
