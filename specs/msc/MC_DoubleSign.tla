---- MODULE MC_DoubleSign ----
(* TLC evaluates DoubleSign!Verdict and DoubleSign!Parallel at U = 16 on boundary vectors (pattern R, stateless):  *)
(* one initial state per vector, printed with the specified result.  A value x stands for                          *)
(* units*2^60 + offset nanoseconds with units = (x + 8) \div 16, offset = x - 16*units (DoubleSignProofs.tla,      *)
(* ScaleBlocking / ScaleOrder / ScaleCap).                                                                           *)
EXTENDS DoubleSign, Sequences, TLC, Json
CONSTANTS Tier          \* "quick" | "thorough"
VARIABLE vec

U == 16
At(u, e) == u * U + e
Eps == {-1, 0, 1}
\* distances from `now` in units: within the duration range, at its ends (8 units), and beyond it (9, 20)
TimeUnits == {-20, -9, -8, -7, -1, 0, 1, 7, 8, 9, 20}
Offsets == {At(u, e) : u \in TimeUnits, e \in Eps}          \* t - now
CoarseOffsets == {At(u, 0) : u \in TimeUnits}
ThresholdsT == {At(u, e) : u \in {-7, -1, 0, 1, 7}, e \in Eps} \cup {MaxDur(U), MaxDur(U) - 1, MinDur(U), MinDur(U) + 1}
ThresholdsQ == {MinDur(U), At(-1, 0), At(0, -1), At(0, 0), At(0, 1), At(1, 0), At(1, 1), At(7, 0), MaxDur(U)}
Thresholds == IF Tier = "quick" THEN ThresholdsQ ELSE ThresholdsT
Nows == IF Tier = "quick" THEN {At(47, 5)} ELSE {0, At(47, 5)}
FarPast == At(-20, 0)                                       \* default of the timestamps that are not varied

FieldSeq == <<"detected", "created", "validator", "connected", "synced">>
Pairs == {p \in (1..5) \X (1..5) : p[1] < p[2]}
Triples == {p \in (1..5) \X (1..5) \X (1..5) : p[1] < p[2] /\ p[2] < p[3]}

\* offsets of the five timestamps from now
Single == {[f \in Fields |-> IF f = FieldSeq[i] THEN d ELSE FarPast] : i \in 1..5, d \in Offsets}
PairsOf(S1, S2) == {[f \in Fields |-> IF f = FieldSeq[p[1]] THEN d1 ELSE IF f = FieldSeq[p[2]] THEN d2 ELSE FarPast] :
                      p \in Pairs, d1 \in S1, d2 \in S2}
TriplesOf(S) == {[f \in Fields |-> IF f = FieldSeq[p[1]] THEN d1 ELSE IF f = FieldSeq[p[2]] THEN d2
                                   ELSE IF f = FieldSeq[p[3]] THEN d3 ELSE FarPast] :
                      p \in Triples, d1 \in S, d2 \in S, d3 \in S}
OffsetVectors == IF Tier = "quick" THEN Single \cup PairsOf(CoarseOffsets, CoarseOffsets)
                 ELSE Single \cup PairsOf(Offsets, Offsets) \cup TriplesOf({At(u, 0) : u \in {-20, -8, -1, 0, 1, 8, 9}})

\* a few vectors without a peer / with unfinished sync (the wait is then not constrained)
FlagVectors == {[f \in Fields |-> IF f = "connected" THEN d ELSE FarPast] : d \in {At(-20, 0), At(0, 0), At(9, 0)}}

\* vectors in which some of the four other timestamps were never set (the zero instant, year 1).  The zero instant
\* lies more than 50 units before every `now` used here, so for the specification it is a timestamp in the far past;
\* the harness substitutes the zero instant (in several representations) for the fields named in `zero`.
OtherFields == Fields \ {"synced"}
ZeroVectors == {[zero |-> Z, off |-> [f \in Fields |-> IF f = g THEN d ELSE FarPast]] :
                  Z \in (SUBSET OtherFields) \ {{}}, g \in Fields, d \in {At(-20, 0), At(0, 0), At(9, 0)}}

SyncedInit ==
  \E now \in Nows, thr \in Thresholds :
     \/ \E off \in OffsetVectors :
          vec = [op |-> "synced", peers |-> 1, synced |-> TRUE, now |-> now, thr |-> thr, zero |-> {},
                 ts |-> [f \in Fields |-> now + off[f]]]
     \/ \E off \in FlagVectors, pr \in {0, 1, 3}, sy \in BOOLEAN :
          /\ (pr = 0 \/ ~sy)
          /\ vec = [op |-> "synced", peers |-> pr, synced |-> sy, now |-> now, thr |-> thr, zero |-> {},
                    ts |-> [f \in Fields |-> now + off[f]]]
     \/ \E zv \in ZeroVectors, sy \in BOOLEAN :
          vec = [op |-> "synced", peers |-> 1, synced |-> sy, now |-> now, thr |-> thr, zero |-> zv.zero,
                 ts |-> [f \in Fields |-> IF f \in zv.zero THEN now + FarPast ELSE now + zv.off[f]]]
ZeroPast == At(-60, 0)      \* stands for the zero instant in DetectParallelInstance vectors (earlier than every other offset)
ParallelInit ==
  \E now \in Nows, thr \in Thresholds :
     \/ \E ds \in Offsets, dc \in Offsets :
          vec = [op |-> "parallel", now |-> now, thr |-> thr, zero |-> {}, startup |-> now + ds, created |-> now + dc]
     \/ \E d \in Offsets :
          \/ vec = [op |-> "parallel", now |-> now, thr |-> thr, zero |-> {"created"}, startup |-> now + d, created |-> now + ZeroPast]
          \/ vec = [op |-> "parallel", now |-> now, thr |-> thr, zero |-> {"startup"}, startup |-> now + ZeroPast, created |-> now + d]
Init == SyncedInit \/ ParallelInit
Next == UNCHANGED vec
Spec == Init /\ [][Next]_vec

\* classification of the input, used only to name what a disagreement is about
Class(now, tset, thr) ==
  IF thr = MinDur(U) THEN "threshold-is-min-duration"
  ELSE IF thr < 0 /\ \E t \in tset : t - now > MaxDur(U) THEN "negative-threshold-with-timestamp-beyond-duration-range"
  ELSE IF \E t \in tset : Remaining(now, t, thr) > MaxDur(U) THEN "remaining-time-exceeds-duration-range"
  ELSE IF \E t \in tset : now - t > MaxDur(U) /\ t # now + FarPast THEN "timestamp-beyond-duration-range-in-past"
  ELSE IF thr < 0 THEN "negative-threshold"
  ELSE "in-range"

Result ==
  IF vec.op = "synced"
  THEN LET v == Verdict(U, vec.peers, vec.synced, vec.now, vec.ts, vec.thr) IN
       IF v.waitKnown THEN [permitted |-> v.permitted, wait |-> v.wait] ELSE [permitted |-> v.permitted]
  ELSE [parallel |-> Parallel(vec.now, vec.startup, vec.created, vec.thr)]
Cls == IF vec.op = "synced" THEN Class(vec.now, {vec.ts[f] : f \in Fields}, vec.thr)
       ELSE Class(vec.now, {vec.created}, vec.thr)
\* the harness runs every vector in several representations of the same instants (locations, monotonic readings,
\* reconstruction from Unix seconds) and reports the set of distinct outcomes: it must be exactly {Result}
EmitVec == PrintT(<<"EDGE", ToJson([pre |-> 0, post |-> 0,
                                    act |-> [op |-> vec.op \o "/" \o Cls, in |-> vec, res |-> {Result}]])>>)

\* TLC-side sanity of the operators at U = 16 (the Apalache obligations cover U = 2^60 symbolically)
Sane ==
  vec.op = "synced" =>
    LET v == Verdict(U, vec.peers, vec.synced, vec.now, vec.ts, vec.thr) IN
    /\ v.permitted <=> (vec.peers > 0 /\ vec.synced /\ \A f \in Fields : vec.ts[f] <= vec.now - vec.thr)
    /\ (~v.permitted /\ v.waitKnown) => (v.wait > 0 /\ v.wait <= MaxDur(U))
====
