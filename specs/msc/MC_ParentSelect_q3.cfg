CONSTANTS Ids = {1,2,3,4} MaxExisting = 2 MaxOptions = 3 MaxStrategies = 3 MetricVals = {0,1,2} ExistingSel <- ExQ3
SPECIFICATION Spec
INVARIANT EmitCase
CHECK_DEADLOCK FALSE
