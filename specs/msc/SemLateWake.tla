----------------------------- MODULE SemLateWake -----------------------------
(* Environment model (pattern S), third family of driver scripts for the events semaphore:          *)
(* a caller blocked with a finite timeout is woken, late in its waiting time, by releases that free   *)
(* too little for it (they may satisfy another blocked caller), and nothing else happens afterwards   *)
(* until well after its deadline.  Clause exercised: a request still unsatisfied when its timeout     *)
(* expires is refused shortly after the timeout -- also when the caller was woken in between.          *)
(*   fill     one TryAcquire that takes the whole size capacity (capacity (6, 10), weight <<3, 10>>)  *)
(*   waiters  Acquire(<<1, Big>>, Timeout), optionally with a second caller Acquire(<<1, Small>>, long) *)
(*            started before or after it                                                               *)
(*   sleep    Early ms (most of the timeout passes)                                                    *)
(*   releases one or two Release(<<1, s>>) whose sum is smaller than Big                               *)
(*   sleep    Late ms (beyond timeout + slack of the first waiter)                                     *)
(* One initial state per script.                                                                        *)
EXTENDS Integers, Sequences, FiniteSets, TLC, Json

CONSTANTS Big, Small, RelSizes, MaxReleases, Timeout, LongTimeout, Early, Late
VARIABLE script

SeqsOf(S, lo, hi) == UNION {[1..k -> S] : k \in lo..hi}
RECURSIVE Sum(_)
Sum(s) == IF s = <<>> THEN 0 ELSE Head(s) + Sum(Tail(s))
Try(w) == [fn |-> "try", w |-> w, timeout |-> 0]
Acq(sz, t) == [fn |-> "acq", w |-> <<1, sz>>, timeout |-> t]
Rel(sz) == [fn |-> "rel", w |-> <<1, sz>>, timeout |-> 0]
Sleep(ms) == [fn |-> "sleep", w |-> <<0, 0>>, timeout |-> ms]      \* for a sleep step `timeout` is its length

Waiters == { << Acq(Big, Timeout) >>,
             << Acq(Small, LongTimeout), Acq(Big, Timeout) >>,
             << Acq(Big, Timeout), Acq(Small, LongTimeout) >> }

Init == \E ws \in Waiters, rs \in SeqsOf(RelSizes, 1, MaxReleases) :
          /\ Sum(rs) < Big
          /\ script = << Try(<<3, 10>>) >> \o ws \o << Sleep(Early) >> \o [i \in 1..Len(rs) |-> Rel(rs[i])] \o << Sleep(Late) >>
Next == UNCHANGED script
Spec == Init /\ [][Next]_script

EmitScen == PrintT(<<"EDGE", ToJson([cap |-> <<6, 10>>, script |-> script])>>)
=============================================================================
