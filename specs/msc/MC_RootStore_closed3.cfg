CONSTANTS MaxFrame = 3 Validators = {1,2} Ids = {1,2} MaxSteps = 1000
SPECIFICATION Spec
INVARIANTS TypeOK AnswerFrame
PROPERTIES QueryIsPure AddExact NewEpochEmpty
VIEW View
ACTION_CONSTRAINT Emit
CHECK_DEADLOCK FALSE
