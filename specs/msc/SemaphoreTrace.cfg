CONSTANT Cap0 = 0
SPECIFICATION TSpec
CONSTRAINT Mark
INVARIANT HeldBounded
POSTCONDITION Accepted
CHECK_DEADLOCK FALSE
