CONSTANTS Ids = {1} Peers = {"A"} Horizon = 5 Arr = 1
SPECIFICATION MSpec
INVARIANT EndAlwaysPossible
CONSTRAINT Small
CHECK_DEADLOCK FALSE
