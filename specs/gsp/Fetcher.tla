------------------------------ MODULE Fetcher ------------------------------
(* Abstract specification of gossip/itemsfetcher.Fetcher with an integer-millisecond clock.     *)
(* The guards are the clauses of property C16.                                                   *)
(* Safety, at every request (peer p, items ids, time t):                                         *)
(*   (a) p announced every requested item before;                                                *)
(*   (b) every requested item was returned by an earlier OnlyInterested call;                    *)
(*   (c) if the item was reported received at t0, or reported not interesting at t0 and not      *)
(*       reported interesting again since, and t > t0 + 2*arrive, the item was announced anew    *)
(*       (at or after t0).                                                                       *)
(* Bounded liveness, evaluated at the end of a run that was idle for >= 6*arrive: every          *)
(* announcement (item, time ta) whose item stayed interesting and unreceived, with the fetcher   *)
(* not suspended at the end and all announcements of the item younger than forget, has a request *)
(* of the item at a time in [ta, max(ta, last un-suspension) + 4*arrive].                        *)
(* Which announcing peer is asked, how items are grouped and how often they are re-requested is  *)
(* left open.                                                                                    *)
(*   ann[id]    = set of [peer, t]: announcements of id        reqs[id] = request times of id    *)
(*   reported   = items returned by some OnlyInterested call                                     *)
(*   stops[id]  = times at which id was reported received, or reported not interesting           *)
(*   rcv[id]    = times at which id was reported received                                        *)
(*   nint[id]   = time of the latest "not interesting" report of id that no later OnlyInterested *)
(*                call has superseded by returning id (absent = none)                            *)
(*   interested[id], unint[id] = the environment's answer, and the intervals [f, t] in which it  *)
(*                was "no" (t = Inf while it still is)                                           *)
(*   susp, unsusp = the environment's Suspend() answer, and the time it last turned to "no"      *)
EXTENDS Integers, Sequences, FiniteSets

VARIABLES arrive, forget, ann, reqs, reported, stops, rcv, nint, interested, unint, susp, unsusp
fvars == <<arrive, forget, ann, reqs, reported, stops, rcv, nint, interested, unint, susp, unsusp>>
Inf == 1000000000

ToSet(s) == {s[i] : i \in 1..Len(s)}
Max(a, b) == IF a > b THEN a ELSE b
Get(f, id, dflt) == IF id \in DOMAIN f THEN f[id] ELSE dflt
Put(f, id, v) == [x \in DOMAIN f \cup {id} |-> IF x = id THEN v ELSE f[x]]
PutAll(f, S, Op(_)) == [x \in DOMAIN f \cup S |-> IF x \in S THEN Op(x) ELSE f[x]]

FInit == /\ arrive = 0 /\ forget = 0 /\ ann = <<>> /\ reqs = <<>> /\ reported = {} /\ stops = <<>> /\ rcv = <<>> /\ nint = <<>>
         /\ interested = <<>> /\ unint = <<>> /\ susp = FALSE /\ unsusp = 0
FReset(a, f) == /\ arrive' = a /\ forget' = f /\ ann' = <<>> /\ reqs' = <<>> /\ reported' = {} /\ stops' = <<>> /\ rcv' = <<>> /\ nint' = <<>>
                /\ interested' = <<>> /\ unint' = <<>> /\ susp' = FALSE /\ unsusp' = 0

(* ---- environment ---- *)
\* NotifyAnnounces(p, ids) is called at time t
Announce(p, ids, t) ==
  /\ ann' = PutAll(ann, ToSet(ids), LAMBDA id : Get(ann, id, {}) \cup {[peer |-> p, t |-> t]})
  /\ UNCHANGED <<arrive, forget, reqs, reported, stops, rcv, nint, interested, unint, susp, unsusp>>
\* NotifyReceived(ids) is called at time t
Received(ids, t) ==
  /\ stops' = PutAll(stops, ToSet(ids), LAMBDA id : Get(stops, id, {}) \cup {t})
  /\ rcv' = PutAll(rcv, ToSet(ids), LAMBDA id : Get(rcv, id, {}) \cup {t})
  /\ UNCHANGED <<arrive, forget, ann, reqs, reported, nint, interested, unint, susp, unsusp>>
\* the environment starts answering "interesting = b" for id (the default is yes)
SetInterest(id, b, t) ==
  /\ interested' = Put(interested, id, b)
  /\ unint' = IF b THEN Put(unint, id, {IF iv.t = Inf THEN [f |-> iv.f, t |-> t] ELSE iv : iv \in Get(unint, id, {})})
               ELSE Put(unint, id, Get(unint, id, {}) \cup {[f |-> t, t |-> Inf]})
  /\ UNCHANGED <<arrive, forget, ann, reqs, reported, stops, rcv, nint, susp, unsusp>>
SetSuspended(b, t) ==
  /\ susp' = b /\ unsusp' = IF b THEN unsusp ELSE t
  /\ UNCHANGED <<arrive, forget, ann, reqs, reported, stops, rcv, nint, interested, unint>>

(* ---- fetcher ---- *)
\* OnlyInterested(ids) returned sub at time t
Only(ids, sub, t) ==
  /\ reported' = reported \cup ToSet(sub)
  /\ stops' = PutAll(stops, ToSet(ids) \ ToSet(sub), LAMBDA id : Get(stops, id, {}) \cup {t})
  /\ nint' = [id \in (DOMAIN nint \cup (ToSet(ids) \ ToSet(sub))) \ ToSet(sub) |->
                IF id \in ToSet(ids) THEN t ELSE nint[id]]       \* a later "interesting" report supersedes
  /\ UNCHANGED <<arrive, forget, ann, reqs, rcv, interested, unint, susp, unsusp>>

AnnouncedBy(p, id) == \E a \in Get(ann, id, {}) : a.peer = p
\* a stop of id at t0 is old at t, and the item was not announced anew since
OldStop(id, t0, t) == t > t0 + 2 * arrive /\ ~ \E a \in Get(ann, id, {}) : a.t >= t0
StaleAt(id, t) ==
  \/ LET S == Get(rcv, id, {}) IN
       S # {} /\ OldStop(id, CHOOSE s \in S : \A s2 \in S : s2 <= s, t)
  \/ id \in DOMAIN nint /\ OldStop(id, nint[id], t)
\* the requester callback of peer p is invoked with ids at time t
Request(p, ids, t) ==
  /\ \A id \in ToSet(ids) :
       /\ AnnouncedBy(p, id)                                   \* (a)
       /\ id \in reported                                      \* (b)
       /\ ~StaleAt(id, t)                                      \* (c)
  /\ reqs' = PutAll(reqs, ToSet(ids), LAMBDA id : Get(reqs, id, {}) \cup {t})
  /\ UNCHANGED <<arrive, forget, ann, reported, stops, rcv, nint, interested, unint, susp, unsusp>>

Deadline(a) == Max(a.t, unsusp) + 4 * arrive
Obliged(id, a, tend) ==
  /\ ~susp
  /\ Deadline(a) <= tend
  /\ \A iv \in Get(unint, id, {}) : iv.t < a.t - arrive \div 2 \/ iv.f > Deadline(a)
  /\ \A s \in Get(stops, id, {}) : s < a.t - arrive \div 2 \/ s > Deadline(a)
  /\ \A a2 \in Get(ann, id, {}) : Deadline(a) - a2.t < forget - arrive
\* end of the observation at time tend
End(tend) ==
  /\ \A id \in DOMAIN ann : \A a \in ann[id] :
        Obliged(id, a, tend) => \E r \in Get(reqs, id, {}) : r >= a.t /\ r <= Deadline(a)
  /\ UNCHANGED fvars
=============================================================================
