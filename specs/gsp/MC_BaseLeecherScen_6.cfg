CONSTANTS L = 6 Picks = {"first", "last"}
SPECIFICATION Spec
INVARIANT EmitScen
CHECK_DEADLOCK FALSE
