CONSTANTS L = 7 Picks = {"first", "last"}
SPECIFICATION Spec
INVARIANT EmitScen
CHECK_DEADLOCK FALSE
