----------------------------- MODULE SeederScen -----------------------------
(* Environment model for the stream seeder (pattern S): every request script of exactly L steps *)
(*   request(peer, sid, chunks)   chunks in Chunks                                               *)
(*   unregister(peer)             only when the peer has opened a session since its last one     *)
(* Peer "p" uses session ids 1..MaxSid (a fresh id is always the smallest one not used since    *)
(* p's last unregistration, so four live sessions need L >= 4); peer "q" uses session id 1 only *)
(* (isolation of peers; UseQ = FALSE leaves q out).  lim = the payload limit of all requests     *)
(* ("n1": one item, "n2": two items, "s15": size 15 = two items of size 10).                     *)
EXTENDS Integers, Sequences, TLC, Json

CONSTANTS L, MaxSid, Chunks, Lims, UseQ
VARIABLES script, lim, usedp, usedq
svars == <<script, lim, usedp, usedq>>

Init == script = <<>> /\ lim \in Lims /\ usedp = 0 /\ usedq = 0
Step(a) == Len(script) < L /\ script' = Append(script, a) /\ UNCHANGED lim
Min(a, b) == IF a < b THEN a ELSE b
Next == \/ \E sid \in 1..Min(MaxSid, usedp + 1), ch \in Chunks :
             /\ Step([op |-> "request", p |-> "p", sid |-> sid, chunks |-> ch])
             /\ usedp' = (IF sid > usedp THEN sid ELSE usedp) /\ UNCHANGED usedq
        \/ \E ch \in Chunks :
             /\ UseQ
             /\ Step([op |-> "request", p |-> "q", sid |-> 1, chunks |-> ch])
             /\ usedq' = 1 /\ UNCHANGED usedp
        \/ usedp > 0 /\ Step([op |-> "unregister", p |-> "p", sid |-> 0, chunks |-> 0]) /\ usedp' = 0 /\ UNCHANGED usedq
        \/ usedq > 0 /\ Step([op |-> "unregister", p |-> "q", sid |-> 0, chunks |-> 0]) /\ usedq' = 0 /\ UNCHANGED usedp
Spec == Init /\ [][Next]_svars
EmitScen == Len(script) = L => PrintT(<<"EDGE", ToJson([lim |-> lim, script |-> script])>>)
=============================================================================
