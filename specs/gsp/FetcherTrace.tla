---------------------------- MODULE FetcherTrace ----------------------------
(* Trace specification for the items fetcher.  All lines of a scenario are written under one    *)
(* mutex together with the environment's answers; t = milliseconds since the scenario start.    *)
EXTENDS Fetcher, TLC, Json, IOUtils

Trace == ndJsonDeserialize(IOEnv.TRACE)
VARIABLES l
tvars == <<l, arrive, forget, ann, reqs, reported, stops, rcv, nint, interested, unint, susp, unsusp>>
T == Trace[l]
Is(op) == l <= Len(Trace) /\ T.op = op /\ l' = l + 1

TInit == TLCSet(1, 1) /\ l = 1 /\ FInit
TReset == Is("reset") /\ FReset(T.arrive, T.forget)
TAnnounce == Is("announce") /\ Announce(T.p, T.ids, T.t)
TReceived == Is("received") /\ Received(T.ids, T.t)
TInterest == Is("interest") /\ SetInterest(T.id, T.b, T.t)
TSuspend == Is("suspend") /\ SetSuspended(T.b, T.t)
TOnly == Is("only") /\ Only(T.ids, T.sub, T.t)
TRequest == Is("request") /\ Request(T.p, T.ids, T.t)
TEnd == Is("end") /\ End(T.t)
TNote == l <= Len(Trace) /\ T.op \in {"wait"} /\ l' = l + 1 /\ UNCHANGED fvars

TNext == TReset \/ TAnnounce \/ TReceived \/ TInterest \/ TSuspend \/ TOnly \/ TRequest \/ TEnd \/ TNote
TSpec == TInit /\ [][TNext]_tvars

Mark == TLCSet(1, IF l > TLCGet(1) THEN l ELSE TLCGet(1))
Accepted == IF TLCGet(1) = Len(Trace) + 1 THEN PrintT(<<"ACCEPTED", Len(Trace)>>)
            ELSE PrintT(<<"REJECTED", TLCGet(1), ToJson(Trace[TLCGet(1)])>>)
=============================================================================
