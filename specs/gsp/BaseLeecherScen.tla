-------------------------- MODULE BaseLeecherScen --------------------------
(* Environment model for the base leecher (pattern S): TLC enumerates every script of exactly   *)
(* L public calls / environment changes over two peers:                                          *)
(*   register(p), unregister(p), tick (= Routine() under Mu, what the leecher's loop does),     *)
(*   should (toggles the answer of ShouldTerminateSession), terminate (at most once).           *)
(* pick = which of the offered candidates the environment's StartSession takes.                 *)
(* By symmetry of the two peers only scripts whose first mentioned peer is "A" are emitted.     *)
EXTENDS Integers, Sequences, TLC, Json

CONSTANTS L, Picks
VARIABLES script, pick, termd
svars == <<script, pick, termd>>
Peers == {"A", "B"}

Init == script = <<>> /\ pick \in Picks /\ termd = FALSE
Step(a) == Len(script) < L /\ script' = Append(script, a) /\ UNCHANGED pick
FirstPeerIsA(p) == (\A i \in 1..Len(script) : script[i].p = "") => p = "A"
Next == \/ \E p \in Peers : FirstPeerIsA(p) /\ Step([op |-> "register", p |-> p]) /\ UNCHANGED termd
        \/ \E p \in Peers : FirstPeerIsA(p) /\ Step([op |-> "unregister", p |-> p]) /\ UNCHANGED termd
        \/ Step([op |-> "tick", p |-> ""]) /\ UNCHANGED termd
        \/ Step([op |-> "should", p |-> ""]) /\ UNCHANGED termd
        \/ ~termd /\ Step([op |-> "terminate", p |-> ""]) /\ termd' = TRUE
Spec == Init /\ [][Next]_svars
EmitScen == Len(script) = L => PrintT(<<"EDGE", ToJson([pick |-> pick, script |-> script])>>)
=============================================================================
