------------------------- MODULE BaseLeecherTrace -------------------------
(* Trace specification: validates the call/callback log of the real BaseLeecher, driven         *)
(* synchronously by the harness, against BaseLeecher.tla.  Scenarios start with a "reset" line. *)
EXTENDS BaseLeecher, TLC, Json, IOUtils

Trace == ndJsonDeserialize(IOEnv.TRACE)
VARIABLES l
tvars == <<l, registered, session, terminated>>
T == Trace[l]
Is(op) == l <= Len(Trace) /\ T.op = op /\ l' = l + 1

TInit == TLCSet(1, 1) /\ l = 1 /\ LInit
TReset == Is("reset") /\ LReset
TRegister == Is("register") /\ Register(T.p)
TUnregistered == Is("unregistered") /\ Unregistered(T.p)
TStart == Is("start") /\ StartSession(T.cands, T.p)
TTermSession == Is("termsession") /\ TerminateSession
TTerminated == Is("terminated") /\ Terminated
\* lines that carry no obligation (kept so that a replay file reads as the full history)
TNote == /\ l <= Len(Trace) /\ T.op \in {"unregister", "tick", "terminate", "should"} /\ l' = l + 1
         /\ UNCHANGED lvars

TNext == TReset \/ TRegister \/ TUnregistered \/ TStart \/ TTermSession \/ TTerminated \/ TNote
TSpec == TInit /\ [][TNext]_tvars

Mark == TLCSet(1, IF l > TLCGet(1) THEN l ELSE TLCGet(1))
Accepted == IF TLCGet(1) = Len(Trace) + 1 THEN PrintT(<<"ACCEPTED", Len(Trace)>>)
            ELSE PrintT(<<"REJECTED", TLCGet(1), ToJson(Trace[TLCGet(1)])>>)
=============================================================================
