SPECIFICATION MSpec
INVARIANTS SemWithinCapacity SemBalanced FarFutureNeverHandled IdleConsistent StoppedConsistent
CHECK_DEADLOCK FALSE
