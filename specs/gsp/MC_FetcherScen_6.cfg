CONSTANTS L = 6 NIds = 2 MaxWait = 2
SPECIFICATION Spec
INVARIANT EmitScen
CHECK_DEADLOCK FALSE
