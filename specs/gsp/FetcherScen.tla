----------------------------- MODULE FetcherScen -----------------------------
(* Environment model for the items fetcher (pattern S): every script of up to L steps            *)
(* (those whose length is in EmitLens are emitted)                                               *)
(*   announce(p, id)   peer p announces item id (peer B / item 2.. only after A / the smaller id *)
(*                     were used: the peers and the items are symmetric)                         *)
(*   suspend           toggles the answer of Suspend()                                           *)
(*   receive(id)       NotifyReceived(id), for an item announced before                          *)
(*   interest(id)      toggles the answer of OnlyInterested for an item announced before         *)
(*   wait              1.5 arrive timeouts pass (at most MaxWait of them, never first)           *)
(* The harness spaces the steps by a few milliseconds and idles 6 arrive timeouts at the end.    *)
EXTENDS Integers, Sequences, FiniteSets, TLC, Json

CONSTANTS L, NIds, MaxWait, EmitLens
VARIABLES script, ids, peers, waits
svars == <<script, ids, peers, waits>>

Init == script = <<>> /\ ids = 0 /\ peers = 0 /\ waits = 0
Step(a) == Len(script) < L /\ script' = Append(script, a)
PeerName(i) == IF i = 1 THEN "A" ELSE "B"
Min(a, b) == IF a < b THEN a ELSE b
Next == \/ \E p \in 1..Min(2, peers + 1), id \in 1..Min(NIds, ids + 1) :
             /\ Step([op |-> "announce", p |-> PeerName(p), id |-> id])
             /\ ids' = (IF id > ids THEN id ELSE ids) /\ peers' = (IF p > peers THEN p ELSE peers) /\ UNCHANGED waits
        \/ Step([op |-> "suspend", p |-> "", id |-> 0]) /\ UNCHANGED <<ids, peers, waits>>
        \/ \E id \in 1..ids : Step([op |-> "receive", p |-> "", id |-> id]) /\ UNCHANGED <<ids, peers, waits>>
        \/ \E id \in 1..ids : Step([op |-> "interest", p |-> "", id |-> id]) /\ UNCHANGED <<ids, peers, waits>>
        \/ /\ script # <<>> /\ waits < MaxWait
           /\ Step([op |-> "wait", p |-> "", id |-> 0]) /\ waits' = waits + 1 /\ UNCHANGED <<ids, peers>>
Spec == Init /\ [][Next]_svars
EmitScen == (Len(script) \in EmitLens /\ ids > 0) => PrintT(<<"EDGE", ToJson([script |-> script])>>)
=============================================================================
