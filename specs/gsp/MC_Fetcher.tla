----------------------------- MODULE MC_Fetcher -----------------------------
(* Closed system around Fetcher.tla for model checking at small scope: a clock that advances in *)
(* steps of half an arrive timeout, an arbitrary environment, and a fetcher that may issue any  *)
(* request the guards (a)-(c) allow.  TLC checks that the guards imply the safety clauses in    *)
(* their plain form, and that the liveness obligation is satisfiable and not vacuous.           *)
EXTENDS Fetcher, TLC

CONSTANTS Ids, Peers, Horizon, Arr
VARIABLES now
mvars == <<arrive, forget, ann, reqs, reported, stops, rcv, nint, interested, unint, susp, unsusp, now>>

MInit == /\ arrive = Arr /\ forget = 100 /\ ann = <<>> /\ reqs = <<>> /\ reported = {} /\ stops = <<>> /\ rcv = <<>> /\ nint = <<>>
         /\ interested = <<>> /\ unint = <<>> /\ susp = FALSE /\ unsusp = 0 /\ now = 0
Tick == now < Horizon /\ now' = now + 1 /\ UNCHANGED fvars
Quiet(A) == A /\ UNCHANGED now
MNext == \/ Tick
         \/ \E p \in Peers, id \in Ids : Quiet(Announce(p, <<id>>, now)) \/ Quiet(Request(p, <<id>>, now))
         \/ \E id \in Ids : Quiet(Received(<<id>>, now)) \/ (\E b \in BOOLEAN : Quiet(SetInterest(id, b, now)))
         \/ \E b \in BOOLEAN : b # susp /\ Quiet(SetSuspended(b, now))
         \/ \E id \in Ids : Quiet(Only(<<id>>, IF Get(interested, id, TRUE) THEN <<id>> ELSE <<>>, now))
         \/ Quiet(End(now))
MSpec == MInit /\ [][MNext]_mvars

\* every request was preceded by an announcement of the item (by some peer) and by an "interesting" report
RequestsJustified == \A id \in DOMAIN reqs : reqs[id] # {} => (Get(ann, id, {}) # {} /\ id \in reported)
\* no request later than 2*arrive after a receipt unless the item was announced anew in between
NoStaleRequests == \A id \in DOMAIN reqs : \A r \in reqs[id] : \A s \in Get(rcv, id, {}) :
                      (r > s + 2 * arrive /\ \A s2 \in Get(rcv, id, {}) : s2 <= s \/ s2 > r) =>
                         \E a \in Get(ann, id, {}) : a.t >= s /\ a.t <= r
\* the obligation is not vacuous: some reachable state refuses to end (used with -- expected violation -- in a separate cfg)
EndAlwaysPossible == ENABLED End(now)
Small == \A id \in Ids : Cardinality(Get(ann, id, {})) <= 2 /\ Cardinality(Get(reqs, id, {})) <= 1
                         /\ Cardinality(Get(stops, id, {})) <= 2 /\ Cardinality(Get(rcv, id, {})) <= 1 /\ Cardinality(Get(unint, id, {})) <= 1
\* quick tier: no interest changes in the model
SmallQ == Small /\ \A id \in Ids : Get(unint, id, {}) = {} /\ Get(interested, id, TRUE)
=============================================================================
