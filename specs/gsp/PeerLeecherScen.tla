-------------------------- MODULE PeerLeecherScen --------------------------
(* Environment model for the peer leecher (pattern S): every script of exactly L steps          *)
(*   tick          one routine of the leecher's loop runs                                        *)
(*   chunk         the next chunk (ids 1,2,3,..) is handed to NotifyChunkReceived                *)
(*   processed(i)  the environment starts answering IsProcessed(i) = true (i notified before)   *)
(*   suspend       toggles the answer of Suspend()                                               *)
(*   setdone       Done() answers true from now on (once)                                        *)
(* for every parallelism limit in Pars.                                                          *)
EXTENDS Integers, Sequences, TLC, Json

CONSTANTS L, Pars
VARIABLES script, par, nchunks, procd, isdone
svars == <<script, par, nchunks, procd, isdone>>

Init == script = <<>> /\ par \in Pars /\ nchunks = 0 /\ procd = {} /\ isdone = FALSE
Step(a) == Len(script) < L /\ script' = Append(script, a) /\ UNCHANGED par
Next == \/ Step([op |-> "tick", id |-> 0]) /\ UNCHANGED <<nchunks, procd, isdone>>
        \/ Step([op |-> "chunk", id |-> nchunks + 1]) /\ nchunks' = nchunks + 1 /\ UNCHANGED <<procd, isdone>>
        \/ \E i \in (1..nchunks) \ procd : Step([op |-> "processed", id |-> i]) /\ procd' = procd \cup {i} /\ UNCHANGED <<nchunks, isdone>>
        \/ Step([op |-> "suspend", id |-> 0]) /\ UNCHANGED <<nchunks, procd, isdone>>
        \/ ~isdone /\ Step([op |-> "setdone", id |-> 0]) /\ isdone' = TRUE /\ UNCHANGED <<nchunks, procd>>
Spec == Init /\ [][Next]_svars
EmitScen == Len(script) = L => PrintT(<<"EDGE", ToJson([parallel |-> par, script |-> script])>>)
=============================================================================
