CONSTANTS L = 5 Picks = {"first", "last"}
SPECIFICATION Spec
INVARIANT EmitScen
CHECK_DEADLOCK FALSE
