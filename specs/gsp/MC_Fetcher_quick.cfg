CONSTANTS Ids = {1} Peers = {"A", "B"} Horizon = 3 Arr = 1
SPECIFICATION MSpec
INVARIANTS RequestsJustified NoStaleRequests
CONSTRAINT SmallQ
CHECK_DEADLOCK FALSE
