CONSTANTS MCPeers = {"p", "q"} MCSids = {1, 2} MCCf <- Cf1
SPECIFICATION Spec
INVARIANTS TypeOK FinishedComplete
CONSTRAINT OwedSmall
CHECK_DEADLOCK FALSE
