CONSTANTS L = 5 NIds = 2 MaxWait = 2
SPECIFICATION Spec
INVARIANT EmitScen
CHECK_DEADLOCK FALSE
