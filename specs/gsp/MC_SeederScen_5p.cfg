CONSTANTS L = 5 MaxSid = 4 Chunks = {0, 1} Lims = {"n2"} UseQ = FALSE
SPECIFICATION Spec
INVARIANT EmitScen
CHECK_DEADLOCK FALSE
