------------------------------- MODULE Seeder -------------------------------
(* Abstract specification of gossip/basestream/basestreamseeder.BaseSeeder.  The guards are the *)
(* clauses of property C17:                                                                      *)
(*   - the responses of one session list the items start .. stop-1 in order, without gaps or     *)
(*     repeats, over all of the peer's requests (resumption continues where the session stopped),*)
(*   - exactly one response is marked done, it completes the range, nothing is sent afterwards,  *)
(*   - every response answers a requested chunk; when the seeder is quiet every requested chunk  *)
(*     of an unfinished session has been answered ("done once enough chunks were requested"),    *)
(*   - a response exceeds the requested item count / size by at most one item,                   *)
(*   - a session ends only when its peer unregisters, or (possibly) when the peer opens a NEW    *)
(*     session while already holding three,                                                      *)
(*   - pending response memory <= limit + one response.                                          *)
(* Which sessions end when a fourth one is opened is left open (any subset of the held ones).    *)
(*                                                                                               *)
(*   cf      = [start, stop : session id -> item, num, size, isize, pendlimit, oneresp]          *)
(*   live    = set of <<peer, sid>>: live session incarnations                                   *)
(*   cursor  = next item of each live session      fin = live sessions whose done was sent       *)
(*   owed    = chunks requested and not answered yet, per live session                           *)
EXTENDS Integers, Sequences, FiniteSets

VARIABLES cf, live, cursor, fin, owed
svars == <<cf, live, cursor, fin, owed>>

NoCf == [start |-> <<>>, stop |-> <<>>, num |-> 0, size |-> 0, isize |-> 0, pendlimit |-> 0, oneresp |-> 0]
SInit == cf = NoCf /\ live = {} /\ cursor = <<>> /\ fin = {} /\ owed = <<>>
SReset(c) == cf' = c /\ live' = {} /\ cursor' = <<>> /\ fin' = {} /\ owed' = <<>>

Held(p) == {k \in live : k[1] = p}
Restrict(f, S) == [k \in S |-> f[k]]

\* NotifyRequestReceived(peer p, session sid, MaxChunks = chunks) is taken by the seeder
Request(p, sid, chunks) ==
  LET k == <<p, sid>> IN
  IF k \in live
  THEN \* resumption: the session continues where it stopped
       /\ owed' = [owed EXCEPT ![k] = IF k \in fin THEN 0 ELSE @ + chunks]
       /\ UNCHANGED <<cf, live, cursor, fin>>
  ELSE \* a new session; only now, and only if three are held, sessions of this peer may end
       \E D \in SUBSET Held(p) :
         /\ (Cardinality(Held(p)) < 3 => D = {})
         /\ live' = (live \ D) \cup {k}
         /\ cursor' = [x \in live' |-> IF x = k THEN cf.start[sid] ELSE cursor[x]]
         /\ owed' = [x \in live' |-> IF x = k THEN chunks ELSE owed[x]]
         /\ fin' = fin \ D
         /\ UNCHANGED cf

\* UnregisterPeer(p) is taken by the seeder
Unregister(p) ==
  /\ live' = live \ Held(p)
  /\ cursor' = Restrict(cursor, live') /\ owed' = Restrict(owed, live') /\ fin' = fin \ Held(p)
  /\ UNCHANGED cf

\* SendChunk(response of session sid for peer p) is invoked
Send(p, sid, items, size, done) ==
  LET k == <<p, sid>> IN
  /\ k \in live /\ k \notin fin                       \* nothing after done, nothing for an ended session
  /\ owed[k] > 0                                        \* answers a requested chunk
  /\ \A i \in 1..Len(items) : items[i] = cursor[k] + i - 1          \* in order, no gap, no repeat
  /\ cursor[k] + Len(items) <= cf.stop[sid]             \* never beyond stop
  /\ Len(items) <= cf.num + 1                           \* item-count limit, at most one item over
  /\ size <= cf.size + cf.isize                         \* size limit, at most one item over
  /\ done => cursor[k] + Len(items) = cf.stop[sid]      \* done only when the range is complete
  /\ ~done => Len(items) >= 1                           \* a chunk that does not finish makes progress
  /\ cursor' = [cursor EXCEPT ![k] = @ + Len(items)]
  /\ owed' = [owed EXCEPT ![k] = IF done THEN 0 ELSE @ - 1]
  /\ fin' = IF done THEN fin \cup {k} ELSE fin
  /\ UNCHANGED <<cf, live>>

\* the seeder is quiet (every notification taken, nothing pending)
Quiet == (\A k \in live \ fin : owed[k] = 0) /\ UNCHANGED svars

\* pending response memory sampled inside a callback
PendingOK(pending) == pending <= cf.pendlimit + cf.oneresp

(* ---- closed system: the clauses hold on the specification itself (small scope) ---- *)
CONSTANTS MCPeers, MCSids, MCCf
SendAny == \E p \in MCPeers, sid \in MCSids, n \in 0..(MCCf.num + 1), done \in BOOLEAN :
             /\ <<p, sid>> \in live
             /\ Send(p, sid, [i \in 1..n |-> cursor[<<p, sid>>] + i - 1], n * MCCf.isize, done)
Next == \/ \E p \in MCPeers, sid \in MCSids, ch \in 0..2 : Request(p, sid, ch)
        \/ \E p \in MCPeers : Unregister(p)
        \/ SendAny
Spec == (cf = MCCf /\ live = {} /\ cursor = <<>> /\ fin = {} /\ owed = <<>>) /\ [][Next]_svars
TypeOK == /\ DOMAIN cursor = live /\ DOMAIN owed = live /\ fin \subseteq live
          /\ \A k \in live : cursor[k] >= cf.start[k[2]] /\ cursor[k] <= cf.stop[k[2]] /\ owed[k] >= 0
FinishedComplete == \A k \in fin : cursor[k] = cf.stop[k[2]] /\ owed[k] = 0
\* a live session's cursor never moves backwards and only a new session starts at start
CursorMonotone == [][\A k \in live \cap live' : cursor'[k] >= cursor[k] \/ (k \notin Held(k[1])')]_svars
OwedBound == \A k \in live : owed[k] <= 6
=============================================================================
