CONSTANTS L = 6 Pars = {1, 2}
SPECIFICATION Spec
INVARIANT EmitScen
CHECK_DEADLOCK FALSE
