---------------------------- MODULE MC_Processor ----------------------------
(* Closed system around Processor.tla for model checking at small scope: an explicit semaphore  *)
(* `sem` that is charged when a batch is accepted and discharged by every Released step.  TLC   *)
(* checks that the guards of Processor.tla (exactly-once release, no handling of refused        *)
(* batches) keep the semaphore balanced and within capacity, that the processor can always be   *)
(* idle / stopped consistently (Idle and Stopped are enabled whenever the model is settled),     *)
(* and that far-future events are never processed.                                               *)
EXTENDS Processor, TLC

VARIABLES sem
mvars == <<cap, limnum, highest, batches, copies, arrived, stopping, sem>>

\* three batches over three events: b1 ordered (e1, e2 far in the future for limnum 1), b2 a duplicate of e1, b3 (e3)
B == <<  <<[c |-> 1, ev |-> 1, lam |-> 1, size |-> 2], [c |-> 2, ev |-> 2, lam |-> 5, size |-> 1]>>,
         <<[c |-> 3, ev |-> 1, lam |-> 1, size |-> 2]>>,
         <<[c |-> 4, ev |-> 3, lam |-> 2, size |-> 1]>> >>
Ordered == <<TRUE, FALSE, TRUE>>
Metric(b) == [num |-> Len(B[b]), size |-> LET RECURSIVE S(_) S(i) == IF i = 0 THEN 0 ELSE B[b][i].size + S(i - 1) IN S(Len(B[b]))]
Caps == {[num |-> 2, size |-> 4], [num |-> 3, size |-> 5], [num |-> 9, size |-> 9]}

MInit == /\ cap \in Caps /\ limnum = 1 /\ highest = 0 /\ batches = <<>> /\ copies = <<>> /\ arrived = {}
         /\ sem = [num |-> 0, size |-> 0] /\ stopping = FALSE
Fits(b) == sem.num + Metric(b).num <= cap.num /\ sem.size + Metric(b).size <= cap.size
Minus(c) == [num |-> sem.num - 1, size |-> sem.size - copies[c].size]

MEnqueue(b) == ~stopping /\ Enqueue(b, Ordered[b], B[b]) /\ UNCHANGED sem
MAccept(b) == /\ ~stopping /\ Fits(b)
              /\ sem' = [num |-> sem.num + Metric(b).num, size |-> sem.size + Metric(b).size]
              /\ Enqueued(b, "ok", sem')
MRefuse(b) == Enqueued(b, "busy", sem) /\ UNCHANGED sem
Accepted(c) == c \in DOMAIN copies /\ batches[copies[c].b].status = "ok"
MArrive(c) == /\ Accepted(c) /\ copies[c].rel = 0 /\ ~batches[copies[c].b].ran
              /\ Exists(copies[c].ev) /\ UNCHANGED sem
MProcess(c, ok) == /\ Accepted(c) /\ copies[c].ev \in arrived /\ ~batches[copies[c].b].ran
                   /\ Process(c, ok) /\ UNCHANGED sem
\* released: rejected by a check, dropped as far-future, duplicate, processed, spilled, or cleared by Stop
MRelease(c) == /\ Accepted(c) /\ copies[c].rel = 0
               /\ (~stopping => ~batches[copies[c].b].ran \/ copies[c].ev \in arrived)
               /\ sem' = Minus(c) /\ Released(c, sem')
\* a batch is finished when each of its events was released or is parked in the buffer (arrived, unprocessed)
MDone(b) == /\ b \in DOMAIN batches /\ batches[b].status = "ok"      \* the inserter may still be running while Stop waits for it
            /\ \A c \in CopiesOfBatch(b) : copies[c].rel = 1 \/ (copies[c].ev \in arrived /\ copies[c].proc = 0)
            /\ Done(b, sem) /\ UNCHANGED sem
MIdle == Idle(sem) /\ UNCHANGED sem
MStop == ~stopping /\ Stop /\ UNCHANGED sem
MStopped == stopping /\ Unreleased = {} /\ Stopped(sem, FALSE) /\ UNCHANGED sem

MNext == \/ \E b \in 1..Len(B) : MEnqueue(b) \/ MAccept(b) \/ MRefuse(b) \/ MDone(b)
         \/ \E c \in 1..4 : MArrive(c) \/ MRelease(c) \/ \E ok \in BOOLEAN : MProcess(c, ok)
         \/ MIdle \/ MStop \/ MStopped
MSpec == MInit /\ [][MNext]_mvars

SemWithinCapacity == HeldOK(sem)
SemBalanced == sem.num = SumNum(Unreleased) /\ sem.size = SumSize(Unreleased)
FarFutureNeverHandled == \A c \in DOMAIN copies : copies[c].lam > 4 => (copies[c].proc = 0 /\ copies[c].ev \notin arrived)
\* whenever everything is settled the Idle guard holds; after Stop with nothing unreleased the Stopped guard holds
IdleConsistent == AllSettled => ENABLED MIdle
StoppedConsistent == (stopping /\ Unreleased = {}) => ENABLED MStopped
=============================================================================
