CONSTANTS L = 5 Pars = {1, 2}
SPECIFICATION Spec
INVARIANT EmitScen
CHECK_DEADLOCK FALSE
