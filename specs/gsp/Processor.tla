----------------------------- MODULE Processor -----------------------------
(* Abstract specification of gossip/dagprocessor.Processor together with its events semaphore.  *)
(* The guards are the clauses of property C15:                                                   *)
(*   - every event of a batch that was accepted (Enqueue returned nil) and finished (its done    *)
(*     callback ran) is reported released exactly once by the time Stop returns, whatever its    *)
(*     fate; no event is ever released twice; events of a refused batch are never handled;       *)
(*   - the amount held in the semaphore never exceeds the capacity, equals the weight of the     *)
(*     accepted-but-unreleased events whenever the processor is idle, and is zero after Stop     *)
(*     when every batch was finished;                                                            *)
(*   - the events of an ordered batch reach the ordering buffer (first Exists of the event) in   *)
(*     batch order;                                                                              *)
(*   - an event with Lamport > highest known Lamport + buffer event limit + 1 neither reaches    *)
(*     the buffer nor is processed.                                                              *)
(* Copies: every event instance handed to Enqueue is a distinct "copy" c of an event ev.         *)
(*   batches[b] = [ordered, status ("calling" | "ok" | "refused"), done, ran]                    *)
(*   copies[c]  = [b, pos, ev, lam, size, rel, proc]                                             *)
(*   arrived    = events whose first Exists was seen; highest = highest known Lamport time       *)
(*   stopping   = Stop() has been called.  Stop may interrupt a batch: its done callback still    *)
(*                runs, but events the inserter never got to are not handled.  A batch counts as  *)
(*                "accepted and finished handling" when Stop returns if its done callback ran and *)
(*                every one of its events was handled, i.e. was released or reached the ordering  *)
(*                buffer (batches[b].done = the done callback ran before Stop was called, which   *)
(*                implies that; batches[b].ran = it ran at all)                                   *)
EXTENDS Integers, Sequences, FiniteSets

VARIABLES cap, limnum, highest, batches, copies, arrived, stopping
pvars == <<cap, limnum, highest, batches, copies, arrived, stopping>>

PInit == /\ cap = [num |-> 0, size |-> 0] /\ limnum = 0 /\ highest = 0
         /\ batches = <<>> /\ copies = <<>> /\ arrived = {} /\ stopping = FALSE
PReset(c, ln, h0) == /\ cap' = c /\ limnum' = ln /\ highest' = h0
                     /\ batches' = <<>> /\ copies' = <<>> /\ arrived' = {} /\ stopping' = FALSE

HeldOK(h) == h.num <= cap.num /\ h.size <= cap.size      \* never above the capacity
FarFuture(lam) == lam > highest + limnum + 1
Live(c) == batches[copies[c].b].status # "refused"
CopiesOfBatch(b) == {c \in DOMAIN copies : copies[c].b = b}
CopiesOfEvent(ev) == {c \in DOMAIN copies : copies[c].ev = ev}

RECURSIVE SumNum(_), SumSize(_)
SumNum(S) == IF S = {} THEN 0 ELSE LET c == CHOOSE x \in S : TRUE IN 1 + SumNum(S \ {c})
SumSize(S) == IF S = {} THEN 0 ELSE LET c == CHOOSE x \in S : TRUE IN copies[c].size + SumSize(S \ {c})

\* Enqueue(batch b) is called; cs = <<[c, ev, lam, size], ...>> in batch order
Enqueue(b, ordered, cs) ==
  LET new == {cs[i].c : i \in 1..Len(cs)} IN
  /\ b \notin DOMAIN batches /\ new \cap DOMAIN copies = {}
  /\ batches' = [x \in DOMAIN batches \cup {b} |->
                   IF x = b THEN [ordered |-> ordered, status |-> "calling", done |-> FALSE, ran |-> FALSE] ELSE batches[x]]
  /\ copies' = [x \in DOMAIN copies \cup new |->
                   IF x \in new
                   THEN LET i == CHOOSE j \in 1..Len(cs) : cs[j].c = x IN
                        [b |-> b, pos |-> i, ev |-> cs[i].ev, lam |-> cs[i].lam, size |-> cs[i].size, rel |-> 0, proc |-> 0]
                   ELSE copies[x]]
  /\ UNCHANGED <<stopping, cap, limnum, highest, arrived>>

\* Enqueue(batch b) returns: res = "ok" (nil) or a refusal ("busy" = ErrBusy, "terminated")
Enqueued(b, res, held) ==
  /\ b \in DOMAIN batches /\ batches[b].status = "calling"
  /\ HeldOK(held)
  /\ res # "ok" => /\ ~batches[b].ran                       \* a refused batch is not handled at all
                   /\ \A c \in CopiesOfBatch(b) : copies[c].rel = 0 /\ copies[c].proc = 0
  /\ batches' = [batches EXCEPT ![b].status = IF res = "ok" THEN "ok" ELSE "refused"]
  /\ UNCHANGED <<stopping, cap, limnum, highest, copies, arrived>>

\* the Exists callback is asked about event ev: the first time = ev arrives at the ordering buffer
Exists(ev) ==
  LET cs == {c \in CopiesOfEvent(ev) : Live(c)} IN
  /\ cs # {}
  /\ IF ev \in arrived THEN UNCHANGED arrived
     ELSE /\ \A c \in cs : ~FarFuture(copies[c].lam)        \* far-future events never reach the buffer
          /\ \A c \in cs :                                   \* ordered batch: buffer arrival in batch order
               (batches[copies[c].b].ordered /\ Cardinality(CopiesOfEvent(ev)) = 1) =>
                 \A d \in CopiesOfBatch(copies[c].b) :
                   (copies[d].pos > copies[c].pos /\ Cardinality(CopiesOfEvent(copies[d].ev)) = 1)
                     => copies[d].ev \notin arrived
          /\ arrived' = arrived \cup {ev}
  /\ UNCHANGED <<stopping, cap, limnum, highest, batches, copies>>

\* the Process callback is invoked for copy c (ok = it returned nil)
Process(c, ok) ==
  /\ c \in DOMAIN copies /\ Live(c)
  /\ copies[c].proc = 0 /\ copies[c].rel = 0
  /\ ~FarFuture(copies[c].lam)                               \* far-future events are never processed
  /\ copies' = [copies EXCEPT ![c].proc = 1]
  /\ highest' = IF ok /\ copies[c].lam > highest THEN copies[c].lam ELSE highest
  /\ UNCHANGED <<stopping, cap, limnum, batches, arrived>>

\* the Released callback is invoked for copy c
Released(c, held) ==
  /\ c \in DOMAIN copies /\ Live(c)
  /\ copies[c].rel = 0                                       \* exactly once
  /\ HeldOK(held)
  /\ copies' = [copies EXCEPT ![c].rel = 1]
  /\ UNCHANGED <<stopping, cap, limnum, highest, batches, arrived>>

\* the done callback of batch b runs
Done(b, held) ==
  /\ b \in DOMAIN batches /\ batches[b].status # "refused" /\ ~batches[b].ran      \* at most once
  /\ HeldOK(held)
  /\ batches' = [batches EXCEPT ![b].ran = TRUE, ![b].done = ~stopping]
  /\ UNCHANGED <<stopping, cap, limnum, highest, copies, arrived>>

Unreleased == {c \in DOMAIN copies : batches[copies[c].b].status = "ok" /\ copies[c].rel = 0}
AllSettled == \A b \in DOMAIN batches : batches[b].status = "refused" \/ (batches[b].status = "ok" /\ batches[b].done)

\* the processor is idle: every Enqueue has returned, every accepted batch is finished
Idle(held) ==
  /\ AllSettled
  /\ held.num = SumNum(Unreleased) /\ held.size = SumSize(Unreleased)   \* held = what is not yet released
  /\ UNCHANGED pvars

\* Stop() is called
Stop == stopping' = TRUE /\ UNCHANGED <<cap, limnum, highest, batches, copies, arrived>>

\* an event of an accepted batch was handled: released, or it reached the ordering buffer (asserted only for
\* events that occur in one copy: Exists is asked per event, not per copy)
Handled(c) == copies[c].rel = 1 \/ (Cardinality(CopiesOfEvent(copies[c].ev)) = 1 /\ copies[c].ev \in arrived)
FinishedAtStop(b) == /\ batches[b].status = "ok" /\ batches[b].ran
                     /\ \A c \in CopiesOfBatch(b) : Handled(c)
AllFinishedAtStop == \A b \in DOMAIN batches : batches[b].status = "refused" \/ FinishedAtStop(b)

\* Stop() has returned; leaked = some Enqueue was refused with "terminated" after acquiring
Stopped(held, leaked) ==
  /\ \A b \in DOMAIN batches : (batches[b].status = "ok" /\ batches[b].done) =>
        \A c \in CopiesOfBatch(b) : copies[c].rel = 1         \* accepted + finished => released by Stop
  /\ \A b \in DOMAIN batches : FinishedAtStop(b) =>            \* ... also when it finished while Stop was running
        \A c \in CopiesOfBatch(b) : copies[c].rel = 1
  /\ HeldOK(held)
  /\ ((AllSettled \/ AllFinishedAtStop) /\ ~leaked) => (held.num = 0 /\ held.size = 0)   \* back to zero once all are released
  /\ UNCHANGED pvars
=============================================================================
