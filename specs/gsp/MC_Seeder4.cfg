CONSTANTS MCPeers = {"p"} MCSids = {1, 2, 3, 4} MCCf <- Cf2
SPECIFICATION Spec
INVARIANTS TypeOK FinishedComplete
CONSTRAINT OwedSmall
CHECK_DEADLOCK FALSE
