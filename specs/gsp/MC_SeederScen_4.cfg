CONSTANTS L = 4 MaxSid = 4 Chunks = {0, 1, 2} Lims = {"n1", "n2", "s15"} UseQ = TRUE
SPECIFICATION Spec
INVARIANT EmitScen
CHECK_DEADLOCK FALSE
