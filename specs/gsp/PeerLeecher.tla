---------------------------- MODULE PeerLeecher ----------------------------
(* Abstract specification of basestreamleecher/basepeerleecher.BasePeerLeecher.  The guards are *)
(* exactly the clauses of property C18 about the peer leecher:                                   *)
(*   - never more requested-but-unprocessed chunks than the parallelism limit,                   *)
(*   - no request while suspended,                                                               *)
(*   - it stops once the download is reported done.                                              *)
(* How many chunks are requested (within the window) and when is left open.                      *)
(*   notified  = chunk ids handed to NotifyChunkReceived                                         *)
(*   procd     = chunk ids the environment reports as processed (IsProcessed answers)            *)
(*   suspended = what the environment's Suspend() answers                                        *)
(*   doneRep   = Done() has returned true to the leecher                                         *)
(*   requested = sum of maxChunks over all RequestChunks calls                                   *)
EXTENDS Integers, Sequences, FiniteSets

VARIABLES parallel, notified, procd, suspended, doneRep, requested
pvars == <<parallel, notified, procd, suspended, doneRep, requested>>

PInit(par) == /\ parallel = par /\ notified = {} /\ procd = {} /\ suspended = FALSE /\ doneRep = FALSE /\ requested = 0
PReset(par) == /\ parallel' = par /\ notified' = {} /\ procd' = {} /\ suspended' = FALSE /\ doneRep' = FALSE /\ requested' = 0

(* environment *)
Chunk(id) == notified' = notified \cup {id} /\ UNCHANGED <<parallel, procd, suspended, doneRep, requested>>
Processed(id) == procd' = procd \cup {id} /\ UNCHANGED <<parallel, notified, suspended, doneRep, requested>>
SetSuspended(b) == suspended' = b /\ UNCHANGED <<parallel, notified, procd, doneRep, requested>>

(* leecher *)
\* Done() returned b to the leecher
DoneAnswered(b) == doneRep' = (doneRep \/ b) /\ UNCHANGED <<parallel, notified, procd, suspended, requested>>
\* RequestChunks(.., .., n) is invoked
Outstanding(n) == requested + n - Cardinality(notified \cap procd)
Request(n) ==
  /\ n >= 1
  /\ ~suspended                                   \* no request while suspended
  /\ ~doneRep                                     \* none once the download was reported done
  /\ Outstanding(n) <= parallel                   \* flow-control window
  /\ requested' = requested + n
  /\ UNCHANGED <<parallel, notified, procd, suspended, doneRep>>
\* end of the observation; stopped = Stopped() of the leecher
End(stopped) == (doneRep => stopped) /\ UNCHANGED pvars

(* ---- closed system for model checking the clauses on the specification itself ---- *)
CONSTANTS Ids, MaxPar
Next == \/ \E id \in Ids : Chunk(id) \/ (id \in notified /\ Processed(id))
        \/ \E b \in BOOLEAN : SetSuspended(b) \/ DoneAnswered(b)
        \/ \E n \in 1..MaxPar : Request(n)
Spec == (\E par \in 1..MaxPar : PInit(par)) /\ [][Next]_pvars
Window == requested - Cardinality(notified \cap procd) <= parallel
NoRequestWhenSuspendedOrDone == [][requested' # requested => (~suspended /\ ~doneRep)]_pvars
=============================================================================
