---- MODULE MC_Seeder ----
EXTENDS Seeder
\* two peers, two sessions each (resumption, done, unregistration, isolation of peers)
Cf1 == [start |-> <<0, 1>>, stop |-> <<2, 2>>, num |-> 1, size |-> 100, isize |-> 10, pendlimit |-> 1000, oneresp |-> 21]
\* one peer, four sessions of one item (opening a fourth session while holding three)
Cf2 == [start |-> <<0, 0, 1, 1>>, stop |-> <<1, 1, 2, 2>>, num |-> 1, size |-> 100, isize |-> 10, pendlimit |-> 1000, oneresp |-> 21]
OwedSmall == \A k \in live : owed[k] <= 2
====
