---------------------------- MODULE SeederTrace ----------------------------
(* Trace specification for BaseSeeder.  The driver waits until the seeder is quiet after every  *)
(* script step (reader loop idle, nothing pending), so "request"/"unregister" lines are logged  *)
(* in the order in which the reader loop takes them; "send" lines are written on entry of the    *)
(* SendChunk callback, "foreach" lines in the ForEachItem callback, "pending" lines are further  *)
(* samples of the pending response memory.                                                       *)
EXTENDS Seeder, TLC, Json, IOUtils

Trace == ndJsonDeserialize(IOEnv.TRACE)
VARIABLES l
tvars == <<l, cf, live, cursor, fin, owed>>
T == Trace[l]
Is(op) == l <= Len(Trace) /\ T.op = op /\ l' = l + 1

TInit == TLCSet(1, 1) /\ l = 1 /\ SInit
TReset == Is("reset") /\ SReset(T.cf)
TRequest == Is("request") /\ Request(T.p, T.sid, T.chunks)
TUnregister == Is("unregister") /\ Unregister(T.p)
TSend == Is("send") /\ PendingOK(T.pending) /\ Send(T.p, T.sid, T.items, T.size, T.done)
TForEach == Is("foreach") /\ PendingOK(T.pending) /\ UNCHANGED svars
TPending == Is("pending") /\ PendingOK(T.pending) /\ UNCHANGED svars
TQuiet == Is("quiet") /\ Quiet

TNext == TReset \/ TRequest \/ TUnregister \/ TSend \/ TForEach \/ TPending \/ TQuiet
TSpec == TInit /\ [][TNext]_tvars

Mark == TLCSet(1, IF l > TLCGet(1) THEN l ELSE TLCGet(1))
Accepted == IF TLCGet(1) = Len(Trace) + 1 THEN PrintT(<<"ACCEPTED", Len(Trace)>>)
            ELSE PrintT(<<"REJECTED", TLCGet(1), ToJson(Trace[TLCGet(1)])>>)
=============================================================================
