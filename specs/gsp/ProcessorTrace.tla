-------------------------- MODULE ProcessorTrace --------------------------
(* Trace specification for the event processor.  All lines of a scenario are written under one  *)
(* mutex; the event callbacks run on the processor's single inserter goroutine (or in Stop).    *)
EXTENDS Processor, TLC, Json, IOUtils

Trace == ndJsonDeserialize(IOEnv.TRACE)
VARIABLES l
tvars == <<l, cap, limnum, highest, batches, copies, arrived, stopping>>
T == Trace[l]
Is(op) == l <= Len(Trace) /\ T.op = op /\ l' = l + 1

TInit == TLCSet(1, 1) /\ l = 1 /\ PInit
TReset == Is("reset") /\ PReset(T.cap, T.limnum, T.h0)
TEnqueue == Is("enqueue") /\ Enqueue(T.b, T.ordered, T.copies)
TEnqueued == Is("enqueued") /\ Enqueued(T.b, T.res, T.held)
TExists == Is("exists") /\ Exists(T.ev)
TProcess == Is("process") /\ Process(T.c, T.ok)
TReleased == Is("released") /\ Released(T.c, T.held)
TDone == Is("done") /\ Done(T.b, T.held)
TIdle == Is("idle") /\ Idle(T.held)
TStopped == Is("stopped") /\ Stopped(T.held, T.leaked)
TStop == Is("stop") /\ Stop
\* "stalled": the harness gave up waiting for an accepted batch to finish (no clause of C15 speaks about that)
TNote == l <= Len(Trace) /\ T.op = "stalled" /\ l' = l + 1 /\ UNCHANGED pvars
\* a "warning" line (the semaphore's over-release callback) matches no action: the held amount went out of balance

TNext == TReset \/ TEnqueue \/ TEnqueued \/ TExists \/ TProcess \/ TReleased \/ TDone \/ TIdle \/ TStop \/ TStopped \/ TNote
TSpec == TInit /\ [][TNext]_tvars

Mark == TLCSet(1, IF l > TLCGet(1) THEN l ELSE TLCGet(1))
Accepted == IF TLCGet(1) = Len(Trace) + 1 THEN PrintT(<<"ACCEPTED", Len(Trace)>>)
            ELSE PrintT(<<"REJECTED", TLCGet(1), ToJson(Trace[TLCGet(1)])>>)
=============================================================================
