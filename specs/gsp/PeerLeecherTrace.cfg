CONSTANTS Ids = {1} MaxPar = 1
SPECIFICATION TSpec
CONSTRAINT Mark
POSTCONDITION Accepted
CHECK_DEADLOCK FALSE
