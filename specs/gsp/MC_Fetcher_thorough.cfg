CONSTANTS Ids = {1} Peers = {"A", "B"} Horizon = 4 Arr = 1
SPECIFICATION MSpec
INVARIANTS RequestsJustified NoStaleRequests
CONSTRAINT Small
CHECK_DEADLOCK FALSE
