CONSTANTS MCPeers = {"p"} MCSids = {1} MCCf = 0
SPECIFICATION TSpec
CONSTRAINT Mark
POSTCONDITION Accepted
CHECK_DEADLOCK FALSE
