CONSTANTS L = 6 NIds = 2 MaxWait = 2 EmitLens = {3, 4, 5, 6}
SPECIFICATION Spec
INVARIANT EmitScen
CHECK_DEADLOCK FALSE
