---------------------------- MODULE BaseLeecher ----------------------------
(* Abstract specification of gossip/basestream/basestreamleecher.BaseLeecher.  The guards are   *)
(* exactly the clauses of property C18 about the base leecher:                                   *)
(*   - at most one session at a time,                                                            *)
(*   - once UnregisterPeer(p) has returned, no session with p is running or started later,       *)
(*   - no session starts after termination.                                                      *)
(* When and whether a session is started, and with which candidate, is left open.                *)
(*   registered = peers registered and not yet unregistered (removed when UnregisterPeer returns)*)
(*   session    = peer of the running session ("" = none), as maintained by the environment's    *)
(*                StartSession / TerminateSession callbacks                                      *)
(*   terminated = Terminate() has returned                                                       *)
EXTENDS Integers, Sequences, FiniteSets

VARIABLES registered, session, terminated
lvars == <<registered, session, terminated>>
NoPeer == ""
ToSet(s) == {s[i] : i \in 1..Len(s)}

LInit == registered = {} /\ session = NoPeer /\ terminated = FALSE
LReset == registered' = {} /\ session' = NoPeer /\ terminated' = FALSE

\* RegisterPeer(p) is called
Register(p) == registered' = registered \cup {p} /\ UNCHANGED <<session, terminated>>

\* UnregisterPeer(p) has returned
Unregistered(p) ==
  /\ session # p                                  \* no session with p is running any more
  /\ registered' = registered \ {p}               \* ... and none may be started later
  /\ UNCHANGED <<session, terminated>>

\* the StartSession callback is invoked with candidates cands; the environment picks p among them
StartSession(cands, p) ==
  /\ session = NoPeer                             \* at most one session at a time
  /\ ~terminated                                  \* no session starts after termination
  /\ p \in ToSet(cands)
  /\ p \in registered                             \* never with a peer whose unregistration completed
  /\ session' = p
  /\ UNCHANGED <<registered, terminated>>

\* the TerminateSession callback is invoked (the leecher may call it at any time)
TerminateSession == session' = NoPeer /\ UNCHANGED <<registered, terminated>>

\* Terminate() has returned
Terminated == terminated' = TRUE /\ UNCHANGED <<registered, session>>

(* ---- a closed system for model checking the clauses on the specification itself ---- *)
CONSTANT Peers
Next == \/ \E p \in Peers : Register(p) \/ Unregistered(p)
        \/ \E S \in SUBSET Peers : \E p \in S : \E cands \in {<<p>>} : StartSession(cands, p)
        \/ TerminateSession \/ Terminated
Spec == LInit /\ [][Next]_lvars
TypeOK == registered \subseteq Peers /\ session \in Peers \cup {NoPeer} /\ terminated \in BOOLEAN
\* C18 on the specification: a running session is always with a registered peer, and nothing starts after termination
SessionPeerRegistered == session # NoPeer => session \in registered
NoStartAfterTerminate == [][terminated => (session' = session \/ session' = NoPeer)]_lvars
NoStartWithUnregistered == [][(session = NoPeer /\ session' # NoPeer) => session' \in registered]_lvars
=============================================================================
