CONSTANTS Peers = {"A", "B"}
SPECIFICATION Spec
INVARIANTS TypeOK SessionPeerRegistered
PROPERTIES NoStartAfterTerminate NoStartWithUnregistered
CHECK_DEADLOCK FALSE
