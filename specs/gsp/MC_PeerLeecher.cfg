CONSTANTS Ids = {1, 2, 3} MaxPar = 2
SPECIFICATION Spec
INVARIANT Window
PROPERTY NoRequestWhenSuspendedOrDone
CHECK_DEADLOCK FALSE
