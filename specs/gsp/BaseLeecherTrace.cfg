CONSTANTS Peers = {"A", "B"}
SPECIFICATION TSpec
CONSTRAINT Mark
POSTCONDITION Accepted
CHECK_DEADLOCK FALSE
