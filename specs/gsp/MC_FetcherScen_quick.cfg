CONSTANTS L = 5 NIds = 2 MaxWait = 2 EmitLens = {3, 4, 5}
SPECIFICATION Spec
INVARIANT EmitScen
CHECK_DEADLOCK FALSE
