------------------------- MODULE PeerLeecherTrace -------------------------
(* Trace specification for BasePeerLeecher.  The harness holds the leecher's loop at the        *)
(* beginning of every routine (inside the Done() callback) and changes the environment only     *)
(* there, so the environment is constant during a routine and the log is a linearization.       *)
EXTENDS PeerLeecher, TLC, Json, IOUtils

Trace == ndJsonDeserialize(IOEnv.TRACE)
VARIABLES l
tvars == <<l, parallel, notified, procd, suspended, doneRep, requested>>
T == Trace[l]
Is(op) == l <= Len(Trace) /\ T.op = op /\ l' = l + 1

TInit == TLCSet(1, 1) /\ l = 1 /\ PInit(1)
TReset == Is("reset") /\ PReset(T.parallel)
TChunk == Is("chunk") /\ Chunk(T.id)
TProcessed == Is("processed") /\ Processed(T.id)
TSuspend == Is("suspend") /\ SetSuspended(T.b)
TDone == Is("done") /\ DoneAnswered(T.b)
TRequest == Is("request") /\ Request(T.n)
TEnd == Is("end") /\ End(T.stopped)
TNote == /\ l <= Len(Trace) /\ T.op \in {"tick", "setdone", "isprocessed", "suspended"} /\ l' = l + 1 /\ UNCHANGED pvars

TNext == TReset \/ TChunk \/ TProcessed \/ TSuspend \/ TDone \/ TRequest \/ TEnd \/ TNote
TSpec == TInit /\ [][TNext]_tvars

Mark == TLCSet(1, IF l > TLCGet(1) THEN l ELSE TLCGet(1))
Accepted == IF TLCGet(1) = Len(Trace) + 1 THEN PrintT(<<"ACCEPTED", Len(Trace)>>)
            ELSE PrintT(<<"REJECTED", TLCGet(1), ToJson(Trace[TLCGet(1)])>>)
=============================================================================
