---- MODULE MC_BufScen ----
EXTENDS BufScenarios
\* limits: [num, size]; the size of an event is `size` per event plus 1 per parent (set by the harness wrapper)
LimitsQ == {[num |-> 0, size |-> 100000], [num |-> 100, size |-> 5], [num |-> 100, size |-> 100000], [num |-> 1, size |-> 100000], [num |-> 2, size |-> 100000], [num |-> 100, size |-> 25]}
SizesQ == {10}
FailAll == {"check", "process"}
FailNone == {}
LimitsE == {[num |-> 100, size |-> 100000], [num |-> 2, size |-> 100000]}
LimitsE1 == {[num |-> 100, size |-> 100000]}
LimitsS2 == {[num |-> 100, size |-> 35], [num |-> 100, size |-> 60]}
\* byte limits that two small events fit but a big one does not fit together with them
LimitsS == {[num |-> 100, size |-> 35], [num |-> 100, size |-> 45], [num |-> 100, size |-> 60], [num |-> 2, size |-> 45]}
====
