---- MODULE MC_BufScen ----
EXTENDS BufScenarios
\* limits: [num, size]; the size of an event is `size` per event plus 1 per parent (set by the harness wrapper)
LimitsQ == {[num |-> 100, size |-> 100000], [num |-> 1, size |-> 100000], [num |-> 2, size |-> 100000], [num |-> 100, size |-> 25]}
SizesQ == {10}
====
