--------------------------- MODULE EventsBuffer ---------------------------
(* Abstract specification of gossip/dagordering.EventsBuffer: the guards are exactly the       *)
(* clauses of property C14.  The order in which ready events are processed, and which          *)
(* incomplete events are spilled, is left open.                                                  *)
(*                                                                                               *)
(*   copies[c]  = [ev, proc, rel]   one record per PushEvent call ("pushed copy")                *)
(*   connected  = events whose Process callback succeeded (what Get/Exists answer)               *)
(*   parents    = event -> sequence of parent events   (fixed per scenario)                      *)
(*   sizes      = event -> size in bytes; limit = [num, size]                                    *)
EXTENDS Integers, Sequences, FiniteSets

VARIABLES parents, sizes, limit, connected, copies, failed, peak, extc
bvars == <<parents, sizes, limit, connected, copies, failed, peak, extc>>

ToSet(s) == {s[i] : i \in 1..Len(s)}
Max2(a, b) == IF a > b THEN a ELSE b
\* the largest parents-closed subset of S: what an ideal buffer has connected once exactly the events S arrived
RECURSIVE Conn(_)
Conn(S) == LET S2 == {e \in S : ToSet(parents[e]) \subseteq S} IN IF S2 = S THEN S ELSE Conn(S2)
RECURSIVE SumOver(_)
SumOver(S) == IF S = {} THEN 0 ELSE LET e == CHOOSE x \in S : TRUE IN sizes[e] + SumOver(S \ {e})

BInit(p, sz, lim) == /\ parents = p /\ sizes = sz /\ limit = lim /\ connected = {} /\ copies = <<>> /\ failed = FALSE /\ peak = [num |-> 0, size |-> 0] /\ extc = {}
\* a new buffer is created for a new scenario
BReset(p, sz, lim) == /\ parents' = p /\ sizes' = sz /\ limit' = lim /\ connected' = {} /\ copies' = <<>> /\ failed' = FALSE /\ peak' = [num |-> 0, size |-> 0] /\ extc' = {}

\* PushEvent(copy c of event e) is called
Push(c, e) ==
  /\ c \notin DOMAIN copies
  /\ e \in DOMAIN parents
  /\ copies' = [x \in DOMAIN copies \cup {c} |-> IF x = c THEN [ev |-> e, proc |-> 0, rel |-> FALSE, chk |-> 0] ELSE copies[x]]
  /\ LET P == {copies[x].ev : x \in DOMAIN copies} \cup {e} \cup extc     \* events pushed (or connected from outside) so far
         W == (P \ Conn(P)) \ extc                                          \* those that must wait in an ideal buffer
     IN peak' = [num |-> Max2(peak.num, Cardinality(W)), size |-> Max2(peak.size, SumOver(W))]
  /\ UNCHANGED <<parents, sizes, limit, connected, failed, extc>>

\* the Check callback is invoked for copy c (ok = its answer)
Check(c, e, ok) ==
  /\ c \in DOMAIN copies /\ copies[c].ev = e
  /\ ToSet(parents[e]) \subseteq connected                 \* the check sees the connected parents
  /\ copies' = [copies EXCEPT ![c].chk = @ + 1]              \* (C14 does not constrain how often a copy is checked)
  /\ failed' = (failed \/ ~ok)
  /\ UNCHANGED <<parents, sizes, limit, connected, peak, extc>>

\* the Process callback is invoked for copy c (ok = it returned nil)
Process(c, e, ok) ==
  /\ c \in DOMAIN copies /\ copies[c].ev = e
  /\ copies[c].proc = 0                                      \* at most once per pushed copy
  /\ ~copies[c].rel                                          \* never after it was reported released
  /\ ToSet(parents[e]) \subseteq connected                 \* only after all parents are connected
  /\ copies' = [copies EXCEPT ![c].proc = 1]
  /\ connected' = IF ok THEN connected \cup {e} ELSE connected
  /\ failed' = (failed \/ ~ok)
  /\ UNCHANGED <<parents, sizes, limit, peak, extc>>

\* the Released callback is invoked for copy c
Released(c, e) ==
  /\ c \in DOMAIN copies /\ copies[c].ev = e
  /\ ~copies[c].rel                                          \* exactly once
  /\ copies' = [copies EXCEPT ![c].rel = TRUE]
  /\ UNCHANGED <<parents, sizes, limit, connected, failed, peak, extc>>

\* an event gets connected by another path than this buffer (the application received it elsewhere): Get/Exists answer for it from now on
ExtConnect(e) ==
  /\ e \in DOMAIN parents /\ e \notin connected
  /\ ToSet(parents[e]) \subseteq connected
  /\ connected' = connected \cup {e} /\ extc' = extc \cup {e}
  /\ UNCHANGED <<parents, sizes, limit, copies, failed, peak>>

\* PushEvent returns; (num, size) = Total() read right after (sequential scenarios only)
PushReturn(c, complete, num, size) ==
  /\ c \in DOMAIN copies
  /\ num <= limit.num /\ size <= limit.size                  \* within limits after every push
  /\ complete => (copies[c].proc = 1 /\ copies[c].ev \in connected)
  /\ UNCHANGED bvars

\* Clear returns
Cleared ==
  /\ \A c \in DOMAIN copies : copies[c].rel                  \* every pushed copy released by the time the buffer is cleared
  /\ UNCHANGED bvars

\* completeness: with sufficient limits and no failing callback every event of the parents-closed set was processed
RECURSIVE SumSeq(_)
SumSeq(s) == IF s = <<>> THEN 0 ELSE Head(s) + SumSeq(Tail(s))
\* the limits suffice for this arrival order: an ideal buffer never has to hold more than the limits
Sufficient(exact) == IF exact THEN limit.num >= peak.num /\ limit.size >= peak.size
                     ELSE limit.num >= Len(parents) /\ limit.size >= SumSeq(sizes)   \* concurrent pushes: the arrival order is not known exactly
Complete(exact) ==
  \* (not claimed when events were connected from outside: the statement speaks about events arriving through the buffer)
  (Sufficient(exact) /\ ~failed /\ extc = {} /\ {copies[c].ev : c \in DOMAIN copies} = DOMAIN parents) => connected = DOMAIN parents
=============================================================================
