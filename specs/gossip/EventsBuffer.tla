--------------------------- MODULE EventsBuffer ---------------------------
(* Abstract specification of gossip/dagordering.EventsBuffer: the guards are exactly the       *)
(* clauses of property C14.  The order in which ready events are processed, and which          *)
(* incomplete events are spilled, is left open.                                                  *)
(*                                                                                               *)
(*   copies[c]  = [ev, proc, rel]   one record per PushEvent call ("pushed copy")                *)
(*   connected  = events whose Process callback succeeded (what Get/Exists answer)               *)
(*   parents    = event -> sequence of parent events   (fixed per scenario)                      *)
(*   sizes      = event -> size in bytes; limit = [num, size]                                    *)
EXTENDS Integers, Sequences, FiniteSets

VARIABLES parents, sizes, limit, connected, copies, failed
bvars == <<parents, sizes, limit, connected, copies, failed>>

ToSet(s) == {s[i] : i \in 1..Len(s)}

BInit(p, sz, lim) == /\ parents = p /\ sizes = sz /\ limit = lim /\ connected = {} /\ copies = <<>> /\ failed = FALSE
\* a new buffer is created for a new scenario
BReset(p, sz, lim) == /\ parents' = p /\ sizes' = sz /\ limit' = lim /\ connected' = {} /\ copies' = <<>> /\ failed' = FALSE

\* PushEvent(copy c of event e) is called
Push(c, e) ==
  /\ c \notin DOMAIN copies
  /\ e \in DOMAIN parents
  /\ copies' = [x \in DOMAIN copies \cup {c} |-> IF x = c THEN [ev |-> e, proc |-> 0, rel |-> FALSE, chk |-> 0] ELSE copies[x]]
  /\ UNCHANGED <<parents, sizes, limit, connected, failed>>

\* the Check callback is invoked for copy c (ok = its answer)
Check(c, e, ok) ==
  /\ c \in DOMAIN copies /\ copies[c].ev = e
  /\ ToSet(parents[e]) \subseteq connected                 \* the check sees the connected parents
  /\ copies' = [copies EXCEPT ![c].chk = @ + 1]              \* (C14 does not constrain how often a copy is checked)
  /\ failed' = (failed \/ ~ok)
  /\ UNCHANGED <<parents, sizes, limit, connected>>

\* the Process callback is invoked for copy c (ok = it returned nil)
Process(c, e, ok) ==
  /\ c \in DOMAIN copies /\ copies[c].ev = e
  /\ copies[c].proc = 0                                      \* at most once per pushed copy
  /\ ~copies[c].rel                                          \* never after it was reported released
  /\ ToSet(parents[e]) \subseteq connected                 \* only after all parents are connected
  /\ copies' = [copies EXCEPT ![c].proc = 1]
  /\ connected' = IF ok THEN connected \cup {e} ELSE connected
  /\ failed' = (failed \/ ~ok)
  /\ UNCHANGED <<parents, sizes, limit>>

\* the Released callback is invoked for copy c
Released(c, e) ==
  /\ c \in DOMAIN copies /\ copies[c].ev = e
  /\ ~copies[c].rel                                          \* exactly once
  /\ copies' = [copies EXCEPT ![c].rel = TRUE]
  /\ UNCHANGED <<parents, sizes, limit, connected, failed>>

\* PushEvent returns; (num, size) = Total() read right after (sequential scenarios only)
PushReturn(c, complete, num, size) ==
  /\ c \in DOMAIN copies
  /\ num <= limit.num /\ size <= limit.size                  \* within limits after every push
  /\ complete => (copies[c].proc = 1 /\ copies[c].ev \in connected)
  /\ UNCHANGED bvars

\* Clear returns
Cleared ==
  /\ \A c \in DOMAIN copies : copies[c].rel                  \* every pushed copy released by the time the buffer is cleared
  /\ UNCHANGED bvars

\* completeness: with sufficient limits and no failing callback every event of the parents-closed set was processed
RECURSIVE SumSeq(_)
SumSeq(s) == IF s = <<>> THEN 0 ELSE Head(s) + SumSeq(Tail(s))
Sufficient == limit.num >= Len(parents) /\ limit.size >= SumSeq(sizes)
Complete ==
  (Sufficient /\ ~failed /\ {copies[c].ev : c \in DOMAIN copies} = DOMAIN parents) => connected = DOMAIN parents
=============================================================================
