--------------------------- MODULE BufScenarios ---------------------------
(* Environment model for EventsBuffer (pattern S): TLC enumerates every scenario               *)
(*   DAG shape over N events (parents among lower-numbered events, at most MaxParents),         *)
(*   every push order, optional duplicate pushes (at most MaxDup extra pushes),                 *)
(*   one optional failing Check or Process callback at any event, a limit from Limits, and       *)
(*   event sizes (all equal, or one event much bigger than the others).                         *)
(* Each complete scenario (every event pushed at least once) is emitted once as a "SCEN" line;  *)
(* the harness executes it on the real buffer and the recorded trace is validated against       *)
(* EventsBuffer.tla.                                                                             *)
EXTENDS Integers, Sequences, FiniteSets, TLC, Json

CONSTANTS MaxN, MaxParents, MaxDup, Limits, Sizes, BigSize, FailKinds, MaxExt
VARIABLES n, par, order, fail, limit, size, big

svars == <<n, par, order, fail, limit, size, big>>

Shapes(k) == {p \in [1..k -> SUBSET (1..k)] : \A i \in 1..k : p[i] \subseteq 1..(i-1) /\ Cardinality(p[i]) <= MaxParents}
SetToSeq(S) == LET RECURSIVE F(_) F(X) == IF X = {} THEN <<>> ELSE LET m == CHOOSE x \in X : \A y \in X : x <= y IN <<m>> \o F(X \ {m}) IN F(S)

Fails(k) == {[kind |-> "none", ev |-> 0]} \cup {[kind |-> kd, ev |-> e] : kd \in FailKinds, e \in 1..k}

Init == /\ n \in 1..MaxN
        /\ par \in Shapes(n)
        /\ order = <<>>
        /\ fail \in Fails(n)
        /\ limit \in Limits
        /\ size \in Sizes
        /\ big \in IF BigSize = 0 THEN {0} ELSE 0..n        \* at most one event (0 = none) has the big size

Count(e) == Cardinality({i \in 1..Len(order) : order[i] = e})
Pushes == {i \in 1..Len(order) : order[i] > 0}
Push(e) == /\ e \in 1..n
           /\ \/ Count(e) = 0
              \/ Count(e) = 1 /\ Cardinality(Pushes) - Cardinality({order[i] : i \in Pushes}) < MaxDup
           /\ order' = Append(order, e)
           /\ UNCHANGED <<n, par, fail, limit, size, big>>
\* the application connects event e by another path (recorded as -e in the order); the harness does it only when e's
\* parents are connected at that moment
NExt == Cardinality({i \in 1..Len(order) : order[i] < 0})
Ext(e) == /\ e \in 1..n /\ NExt < MaxExt /\ \A i \in 1..Len(order) : order[i] # -e
          /\ order' = Append(order, -e)
          /\ UNCHANGED <<n, par, fail, limit, size, big>>
Next == \E e \in 1..n : Push(e) \/ Ext(e)
Spec == Init /\ [][Next]_svars

CompleteScen == {order[i] : i \in Pushes} = 1..n
EmitScen == CompleteScen =>
  PrintT(<<"EDGE", ToJson([n |-> n, parents |-> [i \in 1..n |-> SetToSeq(par[i])], order |-> order,
                            fail |-> fail, limit |-> limit, size |-> size,
                            sizes |-> [i \in 1..n |-> (IF i = big THEN BigSize ELSE size) + Cardinality(par[i])]])>>)
=============================================================================
