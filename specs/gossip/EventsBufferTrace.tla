------------------------ MODULE EventsBufferTrace ------------------------
(* Trace specification: validates traces recorded from the real EventsBuffer (callbacks run     *)
(* under the buffer's mutex, so the recorded order is the linearization order) against          *)
(* EventsBuffer.tla.  Many scenarios are concatenated; each starts with a "reset" line.         *)
EXTENDS EventsBuffer, TLC, Json, IOUtils

Trace == ndJsonDeserialize(IOEnv.TRACE)
VARIABLES l, seq
tvars == <<l, seq, parents, sizes, limit, connected, copies, failed, peak, extc>>
T == Trace[l]
Is(op) == l <= Len(Trace) /\ T.op = op /\ l' = l + 1

TInit == /\ TLCSet(1, 1) /\ l = 1 /\ seq = FALSE
         /\ parents = <<>> /\ sizes = <<>> /\ limit = [num |-> 0, size |-> 0] /\ connected = {} /\ copies = <<>> /\ failed = FALSE /\ peak = [num |-> 0, size |-> 0] /\ extc = {}

TReset == /\ Is("reset") /\ BReset(T.parents, T.sizes, T.limit) /\ seq' = T.sequential
TPush == Is("push") /\ Push(T.copy, T.ev) /\ UNCHANGED seq
TCheck == Is("check") /\ Check(T.copy, T.ev, T.ok) /\ UNCHANGED seq
TProcess == Is("process") /\ Process(T.copy, T.ev, T.ok) /\ UNCHANGED seq
TReleased == Is("released") /\ Released(T.copy, T.ev) /\ UNCHANGED seq
TPushed == /\ Is("pushed") /\ UNCHANGED seq
           /\ IF seq THEN PushReturn(T.copy, T.complete, T.num, T.size)
              ELSE PushReturn(T.copy, T.complete, 0, 0)      \* concurrent runs: limits are not sampled
TExt == Is("ext") /\ ExtConnect(T.ev) /\ UNCHANGED seq
TClear == Is("clear") /\ UNCHANGED bvars /\ UNCHANGED seq
TCleared == /\ Is("cleared") /\ Cleared /\ Complete(seq) /\ UNCHANGED seq

TNext == TExt \/ TReset \/ TPush \/ TCheck \/ TProcess \/ TReleased \/ TPushed \/ TClear \/ TCleared
TSpec == TInit /\ [][TNext]_tvars

Mark == TLCSet(1, IF l > TLCGet(1) THEN l ELSE TLCGet(1))
Accepted == IF TLCGet(1) = Len(Trace) + 1 THEN PrintT(<<"ACCEPTED", Len(Trace)>>)
            ELSE PrintT(<<"REJECTED", TLCGet(1), ToJson(Trace[TLCGet(1)])>>)
=============================================================================
