CONSTANTS MaxN = 4 MaxParents = 2 MaxDup = 0 Limits <- LimitsS2 Sizes <- SizesQ BigSize = 30 MaxExt = 0 FailKinds <- FailNone
SPECIFICATION Spec
INVARIANT EmitScen
CHECK_DEADLOCK FALSE
