CONSTANTS MaxN = 4 MaxParents = 3 MaxDup = 1 Limits <- LimitsQ Sizes <- SizesQ
SPECIFICATION Spec
INVARIANT EmitScen
CHECK_DEADLOCK FALSE
