CONSTANTS MaxN = 3 MaxParents = 2 MaxDup = 1 Limits <- LimitsE1 Sizes <- SizesQ BigSize = 0 MaxExt = 2 FailKinds <- FailNone
SPECIFICATION Spec
INVARIANT EmitScen
CHECK_DEADLOCK FALSE
