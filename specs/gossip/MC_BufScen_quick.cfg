CONSTANTS MaxN = 3 MaxParents = 2 MaxDup = 1 Limits <- LimitsQ Sizes <- SizesQ BigSize = 0 MaxExt = 0 FailKinds <- FailAll
SPECIFICATION Spec
INVARIANT EmitScen
CHECK_DEADLOCK FALSE
