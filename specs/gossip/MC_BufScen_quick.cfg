CONSTANTS MaxN = 3 MaxParents = 2 MaxDup = 1 Limits <- LimitsQ Sizes <- SizesQ
SPECIFICATION Spec
INVARIANT EmitScen
CHECK_DEADLOCK FALSE
