CONSTANTS MaxN = 4 MaxParents = 2 MaxDup = 0 Limits <- LimitsS Sizes <- SizesQ BigSize = 30 MaxExt = 0 FailKinds <- FailAll
SPECIFICATION Spec
INVARIANT EmitScen
CHECK_DEADLOCK FALSE
