------------------------------- MODULE CanonVec -------------------------------
(* C12: the canonical form of LARGER validator sets (13 and more members, few distinct weights, so that    *)
(* ties sit between other weights).  Input file IOEnv.IN: one {"ids": [...], "ws": [...]} per line (validator *)
(* ids[k] has weight ws[k] > 0; chosen by the driver from the seed).  TLC evaluates Canon.tla and prints the    *)
(* canonical order, the index of every member and the total; the harness builds the same set with the real    *)
(* builder and compares SortedIDs/SortedWeights/Idxs/TotalWeight, also after an RLP round trip and Copy().     *)
EXTENDS Canon, TLC, Json, IOUtils
VARIABLE i
In == ndJsonDeserialize(IOEnv.IN)
Init == i = 0
Next == i = 0 /\ i' \in 1..Len(In)

SetOfLine(l) == [id \in {l.ids[k] : k \in 1..Len(l.ids)} |-> l.ws[CHOOSE k \in 1..Len(l.ids) : l.ids[k] = id]]
Out == LET v == SetOfLine(In[i]) s == SortedIds(v) IN
       [ids |-> In[i].ids, ws |-> In[i].ws, sorted_ids |-> s, sorted_ws |-> SortedWeights(v),
        idx |-> [k \in 1..Len(In[i].ids) |-> Rank(v, In[i].ids[k])], total |-> Total(v)]
Emit == i = 0 \/ PrintT(<<"EDGE", ToJson(Out)>>)
\* the constructive order is the declarative canonical one for every evaluated set
Canonical == i = 0 \/ LET v == SetOfLine(In[i]) IN IsCanonical(SortedIds(v), v)
=============================================================================
