----------------------------- MODULE EventCheck -----------------------------
(* C13 - the combined basic, epoch and parents checks accept exactly the well-formed events.      *)
(* WellFormed transcribes the STATEMENT of C13 (not the code).  An event is a record              *)
(*   [creator, epoch, seq, frame, lamport];  its parents are a sequence of records                 *)
(*   [creator, seq, lamport, k]  where k is the identity of the parent event: two entries of the   *)
(*   list are the same event iff they have the same k.                                             *)
(* cur is the current epoch, vals the set of current validator ids.                                *)
EXTENDS Integers, Sequences, FiniteSets

Lim == 2147483646                      \* 2^31-2: every counter must stay below it

InRange(x) == x # 0 /\ x < Lim

\* Apalache type annotations (comments for TLC): an event and a parent entry
\* @typeAlias: ev = { creator: Int, epoch: Int, seq: Int, frame: Int, lamport: Int };
\* @typeAlias: par = { creator: Int, seq: Int, lamport: Int, k: Int };
EventCheckAliases == TRUE
\* @type: Seq($par);
NoParents == <<>>

\* the largest parent Lamport time, 0 when there is no parent
\* @type: Seq($par) => Int;
MaxLam(ps) == IF Len(ps) = 0 THEN 0
              ELSE LET S == {ps[i].lamport : i \in DOMAIN ps} IN CHOOSE m \in S : \A x \in S : x <= m

\* the positions of the parents created by the event's own creator
\* @type: ($ev, Seq($par)) => Set(Int);
Own(e, ps) == {i \in DOMAIN ps : ps[i].creator = e.creator}

\* the clauses, named so that a vector can tell which of them it violates
\* @type: ($ev, Seq($par), Int, Set(Int)) => { seq_range: Bool, epoch_range: Bool, frame_range: Bool, lamport_range: Bool, distinct: Bool, has_parents: Bool, epoch_current: Bool, creator_valid: Bool, lamport_next: Bool, self_first: Bool, self_iff_seq: Bool, self_seq: Bool };
Clauses(e, ps, cur, vals) ==
  [ seq_range     |-> InRange(e.seq),
    epoch_range   |-> InRange(e.epoch),
    frame_range   |-> InRange(e.frame),
    lamport_range |-> InRange(e.lamport),
    distinct      |-> \A i, j \in DOMAIN ps : i # j => ps[i].k # ps[j].k,
    has_parents   |-> (e.seq > 1 => Len(ps) > 0),
    epoch_current |-> e.epoch = cur,
    creator_valid |-> e.creator \in vals,
    \* one more than the largest parent Lamport time (0 when there is no parent); written without e.lamport+1
    lamport_next  |-> e.lamport - 1 = MaxLam(ps),
    \* the only parent by the event's own creator is the first one ...
    self_first    |-> Own(e, ps) \subseteq {1},
    \* ... present exactly when the sequence exceeds 1 ...
    self_iff_seq  |-> (Own(e, ps) # {}) <=> (e.seq > 1),
    \* ... and carrying a sequence one lower
    self_seq      |-> (1 \in Own(e, ps)) => ps[1].seq = e.seq - 1 ]

ClauseNames == {"seq_range", "epoch_range", "frame_range", "lamport_range", "distinct", "has_parents", "epoch_current",
                "creator_valid", "lamport_next", "self_first", "self_iff_seq", "self_seq"}

\* @type: ($ev, Seq($par), Int, Set(Int)) => Set(Str);
Violated(e, ps, cur, vals) ==
  LET c == Clauses(e, ps, cur, vals) IN
  {n \in ClauseNames :
     \/ (n = "seq_range" /\ ~c.seq_range) \/ (n = "epoch_range" /\ ~c.epoch_range) \/ (n = "frame_range" /\ ~c.frame_range)
     \/ (n = "lamport_range" /\ ~c.lamport_range) \/ (n = "distinct" /\ ~c.distinct) \/ (n = "has_parents" /\ ~c.has_parents)
     \/ (n = "epoch_current" /\ ~c.epoch_current) \/ (n = "creator_valid" /\ ~c.creator_valid) \/ (n = "lamport_next" /\ ~c.lamport_next)
     \/ (n = "self_first" /\ ~c.self_first) \/ (n = "self_iff_seq" /\ ~c.self_iff_seq) \/ (n = "self_seq" /\ ~c.self_seq)}
\* @type: ($ev, Seq($par), Int, Set(Int)) => Bool;
WellFormed(e, ps, cur, vals) == Violated(e, ps, cur, vals) = {}
=============================================================================
