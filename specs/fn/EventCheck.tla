----------------------------- MODULE EventCheck -----------------------------
(* C13 - the combined basic, epoch and parents checks accept exactly the well-formed events.      *)
(* WellFormed transcribes the STATEMENT of C13 (not the code).  An event is a record              *)
(*   [creator, epoch, seq, frame, lamport];  its parents are a sequence of records                 *)
(*   [creator, seq, lamport, k]  where k is the identity of the parent event: two entries of the   *)
(*   list are the same event iff they have the same k.                                             *)
(* cur is the current epoch, vals the set of current validator ids.                                *)
EXTENDS Integers, Sequences, FiniteSets

Lim == 2147483646                      \* 2^31-2: every counter must stay below it

InRange(x) == x # 0 /\ x < Lim

RECURSIVE MaxLam(_, _)
MaxLam(ps, k) == IF k = 0 THEN 0 ELSE LET r == MaxLam(ps, k - 1) IN IF ps[k].lamport > r THEN ps[k].lamport ELSE r

\* the positions of the parents created by the event's own creator
Own(e, ps) == {i \in 1..Len(ps) : ps[i].creator = e.creator}

\* the clauses, named so that a vector can tell which of them it violates
Clauses(e, ps, cur, vals) ==
  [ seq_range     |-> InRange(e.seq),
    epoch_range   |-> InRange(e.epoch),
    frame_range   |-> InRange(e.frame),
    lamport_range |-> InRange(e.lamport),
    distinct      |-> \A i, j \in 1..Len(ps) : i # j => ps[i].k # ps[j].k,
    has_parents   |-> (e.seq > 1 => Len(ps) > 0),
    epoch_current |-> e.epoch = cur,
    creator_valid |-> e.creator \in vals,
    \* one more than the largest parent Lamport time (0 when there is no parent); written without e.lamport+1
    lamport_next  |-> e.lamport - 1 = MaxLam(ps, Len(ps)),
    \* the only parent by the event's own creator is the first one ...
    self_first    |-> Own(e, ps) \subseteq {1},
    \* ... present exactly when the sequence exceeds 1 ...
    self_iff_seq  |-> (Own(e, ps) # {}) <=> (e.seq > 1),
    \* ... and carrying a sequence one lower
    self_seq      |-> (1 \in Own(e, ps)) => ps[1].seq = e.seq - 1 ]

ClauseNames == {"seq_range", "epoch_range", "frame_range", "lamport_range", "distinct", "has_parents", "epoch_current",
                "creator_valid", "lamport_next", "self_first", "self_iff_seq", "self_seq"}

Violated(e, ps, cur, vals) == LET c == Clauses(e, ps, cur, vals) IN {n \in ClauseNames : ~c[n]}
WellFormed(e, ps, cur, vals) == Violated(e, ps, cur, vals) = {}
=============================================================================
