----------------------------- MODULE QuorumVec -----------------------------
(* C11, binding of Validators.Quorum() and of construction near the weight limit by vectors:    *)
(* TLC evaluates the specification's operators for concrete inputs and prints the expected      *)
(* values; the harness runs the real code on the same inputs (vh fnvec quorum|build).           *)
(*   blocks : read from the file IOEnv.IN, one {"t0": first total, "n": count} per line         *)
(*            (boundary blocks and seeded random blocks chosen by the driver)                   *)
(*   builds : every weight vector of 1..MaxLen members over BuildWeights, enumerated by TLC     *)
EXTENDS Quorum, Sequences, TLC, Json, IOUtils

CONSTANTS MaxLen, BuildWeights
VARIABLE job

Blocks == ndJsonDeserialize(IOEnv.IN)

\* pos.Validators: the weights are added up and the total must not exceed MaxTotal.
\* (written without any intermediate above 2^31-1)
RECURSIVE TotalFrom(_, _, _)
TotalFrom(w, k, acc) == IF k > Len(w) THEN acc
                        ELSE IF w[k] > MaxTotal - acc THEN -1 ELSE TotalFrom(w, k + 1, acc + w[k])
TotalOrOver(w) == TotalFrom(w, 1, 0)            \* -1: over the limit, the set must be refused

Init == \/ \E i \in 1..Len(Blocks) : job = [kind |-> "block", t0 |-> Blocks[i].t0, n |-> Blocks[i].n]
        \/ \E n \in 1..MaxLen : \E w \in [1..n -> BuildWeights] : job = [kind |-> "build", ws |-> w]
Next == UNCHANGED job

Out == IF job.kind = "block"
       THEN [t0 |-> job.t0, qs |-> [k \in 1..job.n |-> QSafe(job.t0 + k - 1)]]
       ELSE LET tot == TotalOrOver(job.ws) IN
            [ws |-> job.ws, ok |-> (tot >= 1), total |-> IF tot >= 1 THEN tot ELSE 0,
             q |-> IF tot >= 1 THEN QSafe(tot) ELSE 0]
Emit == PrintT(<<"EDGE", ToJson(Out)>>)
=============================================================================
