---- MODULE MC_EventCheckSeq ----
EXTENDS EventCheckSeq
RV == {{1, 2}, {2}}
====
