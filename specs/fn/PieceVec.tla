------------------------------- MODULE PieceVec -------------------------------
(* C31: TLC (a) explores every small dot list, checks the clauses of the statement for every        *)
(* argument and prints the specified values, (b) evaluates PieceFunc!Get with the real unit for the  *)
(* dot lists of the input file IOEnv.IN ({"dots": [[x, y], ...], "xs": [...]} per line, coordinates   *)
(* small enough for 32-bit intermediates).  The harness compares piecefunc.NewFunc(dots)(x) with    *)
(* every printed value exactly, and NewFunc's panic with ValidDots.                                  *)
EXTENDS PieceFunc, TLC, Json, IOUtils

CONSTANTS XMax,        \* small lists: X coordinates 0..XMax
          YS,          \* small lists: Y coordinates
          MaxAny,      \* small lists up to this length are enumerated in ANY order of X (invalid ones included)
          MaxDots      \* longer ones (up to MaxDots) only with strictly increasing X
VARIABLE v

In == ndJsonDeserialize(IOEnv.IN)
Dots(ps) == [k \in 1..Len(ps) |-> [x |-> ps[k][1], y |-> ps[k][2]]]
Pairs(dots) == [k \in 1..Len(dots) |-> <<dots[k].x, dots[k].y>>]

Init == v = [stage |-> "small", dots |-> <<>>]
Next ==
  \/ /\ v.stage = "small" /\ v.dots = <<>>
     /\ \E i \in 1..Len(In) : v' = [stage |-> "file", dots |-> Dots(In[i].dots), xs |-> In[i].xs]
  \/ /\ v.stage = "small"
     /\ \E x \in 0..XMax, y \in YS :
          /\ \/ Len(v.dots) < MaxAny
             \/ /\ Len(v.dots) >= MaxAny /\ Len(v.dots) >= 1 /\ Len(v.dots) < MaxDots
                /\ \A k \in 1..(Len(v.dots) - 1) : v.dots[k].x < v.dots[k + 1].x
                /\ x > v.dots[Len(v.dots)].x
          /\ v' = [stage |-> "small", dots |-> Append(v.dots, [x |-> x, y |-> y])]

Args == IF v.stage = "small" THEN [k \in 1..(XMax + 2) |-> k - 1] ELSE v.xs      \* small lists: every x in 0..XMax+1

Emit == PrintT(<<"EDGE", ToJson(
          IF ValidDots(v.dots)
          THEN [dots |-> Pairs(v.dots), valid |-> TRUE, xs |-> Args, ys |-> [k \in 1..Len(Args) |-> Get(v.dots, Args[k])]]
          ELSE [dots |-> Pairs(v.dots), valid |-> FALSE, xs |-> <<>>, ys |-> <<>>])>>)

\* the statement, for every small valid list and every argument
SmallClauses == (v.stage = "small" /\ ValidDots(v.dots)) => \A k \in 1..Len(Args) : Clauses(v.dots, Args[k])
\* the piece chosen by Get is one whose ends enclose x
PieceEncloses == ValidDots(v.dots) => \A k \in 1..Len(Args) :
                   (v.dots[1].x <= Args[k] /\ Args[k] <= v.dots[Len(v.dots)].x) => Between(v.dots, Piece(v.dots, Args[k]), Args[k])
\* the scalar forms of PieceFunc.tla for 2 and 3 dots are ValidDots/Get
ScalarForms ==
  LET d == v.dots IN
  /\ Len(d) = 2 => /\ ValidDots(d) = Valid2(d[1].x, d[1].y, d[2].x, d[2].y)
                   /\ ValidDots(d) => \A k \in 1..Len(Args) : Get(d, Args[k]) = Get2(d[1].x, d[1].y, d[2].x, d[2].y, Args[k])
  /\ Len(d) = 3 => /\ ValidDots(d) = Valid3(d[1].x, d[1].y, d[2].x, d[2].y, d[3].x, d[3].y)
                   /\ ValidDots(d) => \A k \in 1..Len(Args) : Get(d, Args[k]) = Get3(d[1].x, d[1].y, d[2].x, d[2].y, d[3].x, d[3].y, Args[k])
=============================================================================
