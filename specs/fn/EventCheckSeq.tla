----------------------------- MODULE EventCheckSeq -----------------------------
(* C13: the checkers as a long-lived object.  "Its epoch is the current one and its creator a current        *)
(* validator" refers to what the epoch reader answers AT THE TIME of the call, so the verdict of Validate must  *)
(* not depend on earlier calls made on the same Checkers value.  State: the reader's answer (current epoch,     *)
(* validator ids) and the history h of calls, so that TLC enumerates every sequence of up to MaxLen calls       *)
(*   setreader(epoch, vals)   the environment advances / changes what the reader answers                        *)
(*   validate(event)          -> accepted iff EventCheck!WellFormed under the reader's CURRENT answer            *)
(* and each sequence is executed on ONE real eventcheck.Checkers instance.                                      *)
EXTENDS EventCheck, TLC, Json

CONSTANTS REpochs, RVals,      \* answers the reader may give
          EvEpochs, EvCreators,\* epochs / creators of the validated events (first events: seq 1, lamport 1, no parents)
          MaxLen
VARIABLES cur, vals, h, act
vars == <<cur, vals, h, act>>
View == <<cur, vals, h>>
St == [cur |-> cur, vals |-> vals, h |-> h]

Ev(ep, cr) == [creator |-> cr, epoch |-> ep, seq |-> 1, frame |-> 1, lamport |-> 1]

Init == cur = 5 /\ vals = {1, 2} /\ h = <<>> /\ act = [op |-> "new"]

SetReader(ep, vs) == /\ cur' = ep /\ vals' = vs
                     /\ act' = [op |-> "setreader", epoch |-> ep, vals |-> vs]
                     /\ h' = Append(h, act')
Validate(ep, cr) == /\ UNCHANGED <<cur, vals>>
                    /\ act' = [op |-> "validate", e |-> Ev(ep, cr), res |-> WellFormed(Ev(ep, cr), NoParents, cur, vals)]
                    /\ h' = Append(h, [op |-> "validate", e |-> Ev(ep, cr)])
Next == /\ Len(h) < MaxLen
        /\ \/ \E ep \in REpochs, vs \in RVals : SetReader(ep, vs)
           \/ \E ep \in EvEpochs, cr \in EvCreators : Validate(ep, cr)
Spec == Init /\ [][Next]_vars

\* the verdict is a function of the event and of the reader's current answer (no other state exists in the specification)
VerdictFromCurrentAnswer == [][act'.op = "validate" => (act'.res <=> (act'.e.epoch = cur /\ act'.e.creator \in vals))]_vars

Emit == PrintT(<<"EDGE", ToJson([pre |-> St, act |-> act', post |-> St'])>>)
=============================================================================
