------------------------------- MODULE CodecVec -------------------------------
(* C32: TLC evaluates Codec.tla for concrete values and prints the expected encodings:             *)
(*   - the complete 16-bit table (256 blocks of 256 values), enumerated by TLC itself;             *)
(*   - the jobs of the input file IOEnv.IN (boundary and seeded random values chosen by the driver): *)
(*       {"k":"u32","n":N}                       N < 2^31 as an integer: BE/LE, decode, and limb-wise = value-wise *)
(*       {"k":"w","limbs":[..]}                  a 32- or 64-bit value as 16-bit limbs, most significant first   *)
(*       {"k":"pair","a":[..],"b":[..]}          two such values: order of the values and of their encodings    *)
(*       {"k":"id","epoch":[..],"lamport":[..],"tail":[24 bytes]}        an event id                          *)
(*       {"k":"idpair","a":{epoch,lamport,tail},"b":{...}}               order of two event ids               *)
(* The harness compares bigendian/littleendian/idx/dag/hash with every printed vector.              *)
EXTENDS Codec, TLC, Json, IOUtils
VARIABLE v
In == ndJsonDeserialize(IOEnv.IN)

Init == v = [k |-> "root"]
Next == /\ v.k = "root"
        /\ \/ \E h \in 0..255 : v' = [k |-> "u16blk", n0 |-> 256 * h]
           \/ \E i \in 1..Len(In) : v' = In[i]

Key(r) == r.epoch \o r.lamport
Out ==
  CASE v.k = "u16blk" -> [k |-> "u16blk", n0 |-> v.n0, be |-> [j \in 1..256 |-> BE(2, v.n0 + j - 1)], le |-> [j \in 1..256 |-> LE(2, v.n0 + j - 1)]]
    [] v.k = "u32"    -> [k |-> "u32", n |-> v.n, be |-> BE(4, v.n), le |-> LE(4, v.n)]
    [] v.k = "w"      -> [k |-> "w", limbs |-> v.limbs, be |-> BELimbs(v.limbs), le |-> LELimbs(v.limbs)]
    [] v.k = "pair"   -> [k |-> "pair", a |-> v.a, b |-> v.b, cmp |-> LimbCmp(v.a, v.b),
                          bytecmp |-> LexCmp(BELimbs(v.a), BELimbs(v.b))]
    [] v.k = "id"     -> [k |-> "id", epoch |-> v.epoch, lamport |-> v.lamport, tail |-> v.tail, id |-> EventID(v.epoch, v.lamport, v.tail)]
    [] v.k = "idpair" -> [k |-> "idpair", a |-> v.a, b |-> v.b, cmp |-> LimbCmp(Key(v.a), Key(v.b)),
                          bytecmp |-> LexCmp(EventID(v.a.epoch, v.a.lamport, v.a.tail), EventID(v.b.epoch, v.b.lamport, v.b.tail))]
Emit == v.k = "root" \/ PrintT(<<"EDGE", ToJson(Out)>>)

(* ---- C32 on the values TLC can hold ---- *)
\* 16-bit table: both decodings invert, neighbours are ordered byte-wise
Table16 == v.k = "u16blk" => \A j \in 0..255 : LET n == v.n0 + j IN
             /\ DecBE(BE(2, n)) = n /\ DecLE(LE(2, n)) = n
             /\ n < 65535 => LexCmp(BE(2, n), BE(2, n + 1)) = -1
\* 31-bit values: decode inverts; the limb-wise encodings are the encodings of the value
Int32 == v.k = "u32" => LET l == <<v.n \div 65536, v.n % 65536>> IN
             /\ DecBE(BE(4, v.n)) = v.n /\ DecLE(LE(4, v.n)) = v.n
             /\ BELimbs(l) = BE(4, v.n) /\ LELimbs(l) = LE(4, v.n)
\* the byte order of the encodings is the order of the values (limb order); ids with different (epoch, lamport) likewise
PairOrder == v.k = "pair" => LexCmp(BELimbs(v.a), BELimbs(v.b)) = LimbCmp(v.a, v.b)
IdOrder == v.k = "idpair" => (LimbCmp(Key(v.a), Key(v.b)) # 0 =>
             LexCmp(EventID(v.a.epoch, v.a.lamport, v.a.tail), EventID(v.b.epoch, v.b.lamport, v.b.tail)) = LimbCmp(Key(v.a), Key(v.b)))
=============================================================================
