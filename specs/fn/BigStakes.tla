----------------------------- MODULE BigStakes -----------------------------
(* C12, second half: building a validator set from arbitrary-precision stakes                   *)
(* (pos.ValidatorsBigBuilder).  L is the number of bits a total weight may have (31 in the code). *)
(*                                                                                              *)
(* Two levels.  The INTEGER level states the property directly but TLC can evaluate it only for  *)
(* small numbers (it is model-checked for L = 3 over all small stake vectors).  The LIMB level   *)
(* is the same computation on numbers written as K limbs of LB bits, least significant first;   *)
(* TLC checks limb level = integer level exhaustively for small limbs (LB = 2) and then          *)
(* evaluates the limb level with LB = 16, K = 17 for stakes up to 2^256 to produce the expected  *)
(* weights the real code (L = 31) is compared with.                                             *)
EXTENDS Canon, TLC

CONSTANTS L, LB, K

RECURSIVE Pow2(_)
Pow2(k) == IF k = 0 THEN 1 ELSE 2 * Pow2(k - 1)
RECURSIVE BitLen(_)
BitLen(n) == IF n = 0 THEN 0 ELSE 1 + BitLen(n \div 2)
RECURSIVE SumSeq(_, _)
SumSeq(s, k) == IF k = 0 THEN 0 ELSE s[k] + SumSeq(s, k - 1)

(* ---------------- integer level: stakes is a sequence, validator i has stake stakes[i] ---------------- *)
Shift(total) == IF BitLen(total) > L THEN BitLen(total) - L ELSE 0
Scaled(stakes) == LET sh == Shift(SumSeq(stakes, Len(stakes))) IN [i \in 1..Len(stakes) |-> stakes[i] \div Pow2(sh)]
\* the resulting validator set: validators whose scaled stake is zero are dropped
Members(w) == {i \in 1..Len(w) : w[i] > 0}
BigBuild(stakes) == LET w == Scaled(stakes) IN [i \in Members(w) |-> w[i]]

\* the clauses of C12 for big stakes
TotalFits(stakes) == SumSeq(Scaled(stakes), Len(stakes)) < Pow2(L)             \* never panics: within the weight limit
OrderKept(stakes) == LET w == Scaled(stakes) IN
                     \A i, j \in 1..Len(stakes) : stakes[i] >= stakes[j] => w[i] >= w[j]
ShiftMinimal(stakes) == LET t == SumSeq(stakes, Len(stakes)) sh == Shift(t) IN
                        /\ t \div Pow2(sh) < Pow2(L)                           \* enough
                        /\ sh > 0 => t \div Pow2(sh - 1) >= Pow2(L)            \* just enough
ZeroDropped(stakes) == DOMAIN BigBuild(stakes) = {i \in 1..Len(stakes) : stakes[i] >= Pow2(Shift(SumSeq(stakes, Len(stakes))))}

(* ---------------- limb level ---------------- *)
B == Pow2(LB)
Zero == [k \in 1..K |-> 0]
RECURSIVE LVal(_, _)
LVal(a, k) == IF k > K THEN 0 ELSE a[k] + B * LVal(a, k + 1)        \* value of limbs k..K (small numbers only)
RECURSIVE ToLimbsFrom(_, _)
ToLimbsFrom(n, k) == IF k > K THEN <<>> ELSE <<n % B>> \o ToLimbsFrom(n \div B, k + 1)
ToLimbs(n) == ToLimbsFrom(n, 1)

RECURSIVE AddFrom(_, _, _, _)
AddFrom(a, b, k, carry) == IF k > K THEN <<>>            \* school addition, limb k with the carry into it
                           ELSE LET s == a[k] + b[k] + carry IN <<s % B>> \o AddFrom(a, b, k + 1, s \div B)
LAdd(a, b) == AddFrom(a, b, 1, 0)
RECURSIVE LSum(_, _)
LSum(ls, k) == IF k = 0 THEN Zero ELSE LAdd(ls[k], LSum(ls, k - 1))

Top(a) == IF \A k \in 1..K : a[k] = 0 THEN 0 ELSE CHOOSE k \in 1..K : a[k] # 0 /\ \A j \in (k + 1)..K : a[j] = 0
LBitLen(a) == IF Top(a) = 0 THEN 0 ELSE (Top(a) - 1) * LB + BitLen(a[Top(a)])
At(a, k) == IF k \in 1..K THEN a[k] ELSE 0
LShr(a, s) == LET q == s \div LB  r == s % LB IN
              [k \in 1..K |-> At(a, k + q) \div Pow2(r) + (At(a, k + q + 1) % Pow2(r)) * Pow2(LB - r)]

LShift(ls) == LET bl == LBitLen(LSum(ls, Len(ls))) IN IF bl > L THEN bl - L ELSE 0
LScaled(ls) == LET sh == LShift(ls) IN [i \in 1..Len(ls) |-> LShr(ls[i], sh)]

\* a scaled stake fits L <= 31 bits: its value from the two (LB = 16) or more low limbs
Low(a) == IF LB = 16 THEN a[1] + 65536 * a[2] ELSE LVal(a, 1)
HighZero(a) == IF LB = 16 THEN \A k \in 3..K : a[k] = 0 ELSE TRUE
=============================================================================
