CONSTANTS FV <- FVAll FVFrame <- FVAll PSeq = {1, 2, 3} PLam = {1, 2, 3, 4} MaxParents = 3 Twins = {0, 1}
INIT Init
NEXT Next
INVARIANTS Emit IdentitySound
CHECK_DEADLOCK FALSE
