------------------------------- MODULE PieceSeq -------------------------------
(* C31: the function returned by piecefunc.NewFunc as a SEQUENTIAL OBJECT.  The statement gives f(x) as  *)
(* a function of the dot list and x alone, so a lookup must not depend on the lookups made before it on  *)
(* the same function value.  State: the dot list (fixed when the object is created) and the argument of   *)
(* the previous lookup (-1: none yet).  TLC explores every ordered pair (previous x, x) for every list;   *)
(* each transition is replayed on ONE real function instance that first performs the previous lookup, and *)
(* random walks (descending, alternating, repeated arguments) run on long-lived instances.                *)
EXTENDS PieceFunc, TLC, Json

CONSTANTS DotLists,      \* the dot lists (sequences of <<x, y>>), all valid, three or more dots
          XMax           \* arguments 0..XMax
VARIABLES dots, prev, act
vars == <<dots, prev, act>>
View == <<dots, prev>>
St == [dots |-> dots, prev |-> prev]

AsDots(l) == [k \in 1..Len(l) |-> [x |-> l[k][1], y |-> l[k][2]]]

Init == dots \in DotLists /\ prev = -1 /\ act = [op |-> "new"]
Lookup(x) == /\ prev' = x /\ UNCHANGED dots
             /\ act' = [op |-> "get", x |-> x, res |-> Get(AsDots(dots), x)]
Next == \E x \in 0..XMax : Lookup(x)
Spec == Init /\ [][Next]_vars

\* every list of the model is one NewFunc accepts, with at least two pieces
ListsValid == ValidDots(AsDots(dots)) /\ Len(dots) >= 3
\* the specified result depends on the list and the argument only, and obeys the clauses
HistoryFree == [][act'.res = Get(AsDots(dots), act'.x) /\ Clauses(AsDots(dots), act'.x)]_vars

Emit == PrintT(<<"EDGE", ToJson([pre |-> St, act |-> act', post |-> St'])>>)
=============================================================================
