---- MODULE MC_PieceSeq ----
EXTENDS PieceSeq
\* all strictly increasing choices of three X out of {0, 2, 5, 7} with Y over {0, 7} (not all equal), and two four-dot lists
Xs == {0, 2, 5, 7}
Lists3 == {<<<<a, p>>, <<b, q>>, <<c, r>>>> : a \in Xs, b \in Xs, c \in Xs, p \in {0, 7}, q \in {0, 7}, r \in {0, 7}}
Lists == {l \in Lists3 : l[1][1] < l[2][1] /\ l[2][1] < l[3][1] /\ ~(l[1][2] = l[2][2] /\ l[2][2] = l[3][2])}
           \cup {<<<<0, 9>>, <<2, 1>>, <<5, 6>>, <<7, 0>>>>, <<<<1, 0>>, <<2, 8>>, <<3, 3>>, <<6, 11>>>>}
====
