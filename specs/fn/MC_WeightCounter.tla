---- MODULE MC_WeightCounter ----
EXTENDS WeightCounter
WSmall == 1..4
\* weights around one third / one half of the largest total: sums reach 2^31-1 exactly
WBig == {1, 2, 715827881, 715827882, 715827883, 1073741823, 1073741824, 2147483645}
====
