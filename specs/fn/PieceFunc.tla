------------------------------ MODULE PieceFunc ------------------------------
(* C31 - piecewise-linear functions of utils/piecefunc.  Get transcribes Func.Get (piece search,  *)
(* Div, Mul) with the real unit U = 10^6; the clauses of the statement are stated next to it.     *)
(* dots is a sequence of records [x, y].  Pure definitions (used by TLC and by Apalache; the       *)
(* @type comments are Apalache's type annotations).                                               *)
EXTENDS Integers, Sequences

U == 1000000

\* the largest supported coordinate is math.MaxUint64/10^6 - 1 = 18446744073708.  TLC cannot even read
\* a numeral that big, so "c <= MaxVal" is written on the quotient and remainder by 10^6
\* (PieceFuncApa!LimitForm proves the equivalence for all integers)
LeMaxVal(c) == LET hi == c \div 1000000  lo == c % 1000000 IN hi < 18446744 \/ (hi = 18446744 /\ lo <= 73708)

\* NewFunc accepts exactly these lists
\* @type: (Seq({ x: Int, y: Int })) => Bool;
ValidDots(dots) ==
  /\ Len(dots) >= 2
  /\ \A i \in DOMAIN dots : dots[i].x >= 0 /\ dots[i].y >= 0 /\ LeMaxVal(dots[i].x) /\ LeMaxVal(dots[i].y)
  /\ \A i \in DOMAIN dots : i < Len(dots) => dots[i].x < dots[i + 1].x

\* fixed-point helpers of the code: ratios are integers scaled by U
Mul(a, b) == (a * b) \div U
Div(a, b) == (a * U) \div b

\* interpolation between two neighbouring dots (x0,y0), (x1,y1), x0 <= x <= x1
Ratio(x0, x1, x) == Div(x - x0, x1 - x0)
Interp(x0, y0, x1, y1, x) == Mul(y0, U - Ratio(x0, x1, x)) + Mul(y1, Ratio(x0, x1, x))

\* index p of the piece [dots[p], dots[p+1]] used for x (dots[1].x <= x <= dots[Len].x):
\* the first inner dot lying strictly right of x closes the piece, otherwise the last piece
\* @type: (Seq({ x: Int, y: Int }), Int) => Int;
Piece(dots, x) ==
  LET n == Len(dots)
      C == {i \in DOMAIN dots : 2 <= i /\ i <= n - 1 /\ dots[i].x > x} IN      \* (DOMAIN: Apalache wants constant ranges)
  IF C = {} THEN n - 1 ELSE (CHOOSE i \in C : \A j \in C : i <= j) - 1

\* @type: (Seq({ x: Int, y: Int }), Int) => Int;
Get(dots, x) ==
  LET n == Len(dots) IN
  IF x < dots[1].x THEN dots[1].y
  ELSE IF x > dots[n].x THEN dots[n].y
  ELSE LET p == Piece(dots, x) IN Interp(dots[p].x, dots[p].y, dots[p + 1].x, dots[p + 1].y, x)

(* ---- lists of two and three dots with the coordinates as plain numbers ---- *)
\* Used where sequences are expensive: Apalache validating recorded results of the real code at the range
\* extremes (checks/c31.py).  PieceVec!ScalarForms checks them against ValidDots/Get on every small list.
Coord(c) == c >= 0 /\ LeMaxVal(c)
Valid2(ax, ay, bx, by) == Coord(ax) /\ Coord(ay) /\ Coord(bx) /\ Coord(by) /\ ax < bx
Get2(ax, ay, bx, by, x) == IF x < ax THEN ay ELSE IF x > bx THEN by ELSE Interp(ax, ay, bx, by, x)
Valid3(ax, ay, bx, by, cx, cy) == Valid2(ax, ay, bx, by) /\ Coord(cx) /\ Coord(cy) /\ bx < cx
Get3(ax, ay, bx, by, cx, cy, x) == IF x < ax THEN ay ELSE IF x > cx THEN cy
                                  ELSE IF bx > x THEN Interp(ax, ay, bx, by, x) ELSE Interp(bx, by, cx, cy, x)

(* ---- the clauses of C31 for one list and one argument ---- *)
Max2(a, b) == IF a > b THEN a ELSE b
Min2(a, b) == IF a > b THEN b ELSE a
Abs(a) == IF a < 0 THEN -a ELSE a

\* the piece the statement means: neighbouring dots with dots[p].x <= x <= dots[p+1].x
\* @type: (Seq({ x: Int, y: Int }), Int, Int) => Bool;
Between(dots, p, x) == dots[p].x <= x /\ x <= dots[p + 1].x

\* @type: (Seq({ x: Int, y: Int }), Int) => Bool;
Clauses(dots, x) ==
  LET n == Len(dots) f == Get(dots, x) IN
  /\ x < dots[1].x => f = dots[1].y                                   \* before the first dot
  /\ x > dots[n].x => f = dots[n].y                                   \* after the last dot
  /\ \A i \in DOMAIN dots : x = dots[i].x => f = dots[i].y                   \* exactly at a dot
  /\ \A p \in DOMAIN dots : (p < n /\ Between(dots, p, x)) =>
       LET ax == dots[p].x  ay == dots[p].y  bx == dots[p + 1].x  by == dots[p + 1].y
           d == bx - ax                                               \* exact value = ay + (by-ay)(x-ax)/d
       IN /\ f <= Max2(ay, by)
          /\ f >= Min2(ay, by) - 1
          \* |f - exact| <= |dy|/U + 2, multiplied out by U*d to stay in the integers
          /\ U * Abs(f * d - (ay * d + (by - ay) * (x - ax))) <= (Abs(by - ay) + 2 * U) * d
=============================================================================
