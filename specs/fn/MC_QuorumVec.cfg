CONSTANTS MaxLen = 4 BuildWeights <- BW
INIT Init
NEXT Next
INVARIANT Emit
CHECK_DEADLOCK FALSE
