---------------------------- MODULE PieceFuncApa ----------------------------
(* C31, pattern P: one pair of neighbouring dots (x0,y0), (x1,y1) and an argument x between them,  *)
(* all over the ENTIRE supported range 0..MaxVal, checked symbolically by Apalache.                *)
EXTENDS PieceFunc
VARIABLES
  \* @type: Int;
  x0,
  \* @type: Int;
  x1,
  \* @type: Int;
  y0,
  \* @type: Int;
  y1,
  \* @type: Int;
  x

MaxU64 == 18446744073709551615          \* 2^64-1
MaxVal == MaxU64 \div U - 1              \* maxVal of the code

Init == /\ x0 \in 0..MaxVal /\ x1 \in 0..MaxVal /\ y0 \in 0..MaxVal /\ y1 \in 0..MaxVal /\ x \in 0..MaxVal
        /\ x0 < x1 /\ x0 <= x /\ x <= x1
\* one more than the supported range: the no-overflow obligation must fail (non-vacuity)
InitOver == /\ x0 \in 0..(MaxVal + 2) /\ x1 \in 0..(MaxVal + 2) /\ y0 \in 0..(MaxVal + 2) /\ y1 \in 0..(MaxVal + 2) /\ x \in 0..(MaxVal + 2)
            /\ x0 < x1 /\ x0 <= x /\ x <= x1
Next == UNCHANGED <<x0, x1, y0, y1, x>>

R == Ratio(x0, x1, x)
F == Interp(x0, y0, x1, y1, x)
Hi == Max2(y0, y1)
Lo == Min2(y0, y1)
D == x1 - x0
Exact == y0 * D + (y1 - y0) * (x - x0)            \* D times the exact interpolation

\* no intermediate of the uint64 computation exceeds 2^64-1, so Get equals the mathematical value
NoOverflow == /\ (x - x0) * U <= MaxU64 /\ R <= U
              /\ y0 * (U - R) <= MaxU64 /\ y1 * R <= MaxU64
              /\ Mul(y0, U - R) + Mul(y1, R) <= MaxU64
Bounds == F <= Hi /\ F >= Lo - 1
Accurate == U * Abs(F * D - Exact) <= (Abs(y1 - y0) + 2 * U) * D
AtDots == (x = x0 => F = y0) /\ (x = x1 => F = y1)
\* the four clauses above (and the split comparison, here on x+2 so that values beyond maxVal occur) in one obligation
\* (used by the quick tier: one solver run)
AllClauses == NoOverflow /\ Bounds /\ Accurate /\ AtDots /\ (LeMaxVal(x + 2) <=> x + 2 <= MaxVal)
\* the way PieceFunc.tla writes "c <= MaxVal" (x ranges over 0..MaxVal+2 from InitOver)
LimitForm == LeMaxVal(x) <=> x <= MaxVal
\* must be refuted: the bounds of the statement are tight
TightPlusOne == U * Abs(F * D - Exact) <= (Abs(y1 - y0) + 1 * U) * D
NeverBelowLo == F >= Lo
=============================================================================
