CONSTANTS XMax = 5 YS = {0, 1, 7} MaxAny = 2 MaxDots = 4
INIT Init
NEXT Next
INVARIANTS Emit SmallClauses PieceEncloses ScalarForms
CHECK_DEADLOCK FALSE
