CONSTANTS MaxN = 3 Weights <- WBig Small = FALSE
SPECIFICATION Spec
INVARIANTS SumIsCountedWeight AtMostTotal WholeSetHasQuorum
PROPERTY CountOnce
VIEW View
ACTION_CONSTRAINT Emit
CHECK_DEADLOCK FALSE
