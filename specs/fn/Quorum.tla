------------------------------ MODULE Quorum ------------------------------
(* C11 - quorum arithmetic of inter/pos (Validators.Quorum, WeightCounter).                      *)
(* Pure definitions only (no variables), shared by                                               *)
(*   QuorumApa.tla      the symbolic obligations (Apalache, all totals 1..2^31-1),               *)
(*   WeightCounter.tla  the counter state machine explored by TLC and replayed on the real code, *)
(*   QuorumVec.tla      TLC-evaluated expected values of Quorum() for concrete totals.           *)
EXTENDS Integers

MaxTotal == 2147483647                 \* 2^31-1 = math.MaxUint32/2, the largest total a set may have

\* the statement: floor(2*total/3) + 1
Q(t) == (2 * t) \div 3 + 1

\* the same value written so that no intermediate exceeds 2^31-1 (TLC integers are 32-bit);
\* QuorumApa!SafeForm proves QSafe(t) = Q(t) for every t in 1..MaxTotal
QSafe(t) == 2 * (t \div 3) + (2 * (t % 3)) \div 3 + 1

\* a subset of weight a reaches the quorum of a set of total weight t
Reaches(a, t) == a >= Q(t)

\* the clauses of C11 for a total t, subsets of weight a and b whose intersection weighs ab
WholeSetReaches(t) == Reaches(t, t)
TwoThirdsDoesNot(t, a) == (3 * a <= 2 * t) => ~Reaches(a, t)
QuorumsIntersect(t, a, b, ab) == (Reaches(a, t) /\ Reaches(b, t)) => 3 * ab > t
\* equivalent reading used by the counter machine: a reaches the quorum iff it holds MORE than 2/3
MoreThanTwoThirds(t, a) == Reaches(a, t) <=> (3 * a > 2 * t)
=============================================================================
