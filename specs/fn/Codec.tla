-------------------------------- MODULE Codec --------------------------------
(* C32 - index encodings (common/bigendian, common/littleendian, inter/idx, event ids).            *)
(* An encoding is a sequence of bytes (0..255).  BE(w, n) / LE(w, n) are the w-byte big-/little-     *)
(* endian digit expansions of n.  Pure definitions, used by TLC (values below 2^31) and, through    *)
(* CodecApa.tla, by Apalache (full 16-, 32- and 64-bit ranges).                                    *)
EXTENDS Integers, Sequences

RECURSIVE Pow256(_)
Pow256(k) == IF k = 0 THEN 1 ELSE 256 * Pow256(k - 1)

\* byte number k (0 = least significant) of n
Digit(n, k) == (n \div Pow256(k)) % 256

\* @type: (Int, Int) => Seq(Int);
BE(w, n) == [i \in 1..w |-> Digit(n, w - i)]        \* most significant byte first
\* @type: (Int, Int) => Seq(Int);
LE(w, n) == [i \in 1..w |-> Digit(n, i - 1)]        \* least significant byte first

\* decoding: the value of a byte sequence
RECURSIVE ValBE(_, _)
ValBE(b, k) == IF k = 0 THEN 0 ELSE b[k] + 256 * ValBE(b, k - 1)            \* value of the first k bytes, big endian
DecBE(b) == ValBE(b, Len(b))
RECURSIVE ValLE(_, _)
ValLE(b, k) == IF k > Len(b) THEN 0 ELSE b[k] + 256 * ValLE(b, k + 1)       \* value of bytes k.., little endian
DecLE(b) == ValLE(b, 1)

\* byte-wise (lexicographic) order of two sequences of equal length, as bytes.Compare: -1, 0, 1
RECURSIVE LexCmpFrom(_, _, _)
LexCmpFrom(a, b, k) == IF k > Len(a) THEN 0
                       ELSE IF a[k] < b[k] THEN -1 ELSE IF a[k] > b[k] THEN 1 ELSE LexCmpFrom(a, b, k + 1)
LexCmp(a, b) == LexCmpFrom(a, b, 1)
Cmp(x, y) == IF x < y THEN -1 ELSE IF x > y THEN 1 ELSE 0

(* ---- wide values as limbs: a value is a sequence of 16-bit limbs, most significant first ---- *)
\* big endian is digit-wise: the encoding of a limb sequence is the concatenation of the limbs' 2-byte encodings;
\* little endian is the same with limbs and bytes reversed (CodecApa proves both against BE/LE of the value)
RECURSIVE BELimbs(_)
BELimbs(l) == IF l = <<>> THEN <<>> ELSE BE(2, Head(l)) \o BELimbs(Tail(l))
RECURSIVE LELimbs(_)
LELimbs(l) == IF l = <<>> THEN <<>> ELSE LELimbs(Tail(l)) \o LE(2, Head(l))
\* order of two limb sequences of equal length = order of the values
LimbCmp(a, b) == LexCmp(a, b)

\* event id: 4 bytes epoch, 4 bytes Lamport time (both big endian), then the 24-byte tail
EventID(epochLimbs, lamportLimbs, tail) == BELimbs(epochLimbs) \o BELimbs(lamportLimbs) \o tail
=============================================================================
