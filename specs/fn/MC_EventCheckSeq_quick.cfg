CONSTANTS REpochs = {5, 6} RVals <- RV EvEpochs = {5, 6} EvCreators = {1, 2} MaxLen = 3
SPECIFICATION Spec
PROPERTY VerdictFromCurrentAnswer
VIEW View
ACTION_CONSTRAINT Emit
CHECK_DEADLOCK FALSE
