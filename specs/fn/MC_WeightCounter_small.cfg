CONSTANTS MaxN = 4 Weights <- WSmall Small = TRUE
SPECIFICATION Spec
INVARIANTS SumIsCountedWeight AtMostTotal QuorumExactly WholeSetHasQuorum
PROPERTY CountOnce
VIEW View
ACTION_CONSTRAINT Emit
CHECK_DEADLOCK FALSE
