CONSTANTS XMax = 7 YS = {0, 1, 3, 10} MaxAny = 3 MaxDots = 4
INIT Init
NEXT Next
INVARIANTS Emit SmallClauses PieceEncloses ScalarForms
CHECK_DEADLOCK FALSE
