INIT Init
NEXT Next
INVARIANTS Emit Table16 Int32 PairOrder IdOrder
CHECK_DEADLOCK FALSE
