---------------------------- MODULE QuorumSweep ----------------------------
(* C11, exhaustive sweep of Validators.Quorum(): the harness runs EVERY total From..To through  *)
(* the real Quorum() and writes what it returned as run-length segments (IOEnv.SEG):            *)
(*   {from, to, qfrom, pat}:  Quorum(from) = qfrom  and                                         *)
(*                            Quorum(t+1) - Quorum(t) = pat[((t-from) mod 3) + 1], from <= t < to *)
(* A segment agrees with the specification iff its first value and its first three steps do:    *)
(* QuorumApa!Periodic (Apalache, all totals) gives Q(t+3) = Q(t)+2, hence the steps of Q repeat  *)
(* with period 3.  The segments must tile From..To.  Disagreeing segments are printed as BAD.   *)
EXTENDS Quorum, Sequences, TLC, Json, IOUtils

CONSTANTS From, To
VARIABLE i

Segs == ndJsonDeserialize(IOEnv.SEG)
Min(x, y) == IF x < y THEN x ELSE y

SegOK(s) ==
  /\ 1 <= s.from /\ s.from <= s.to /\ s.to <= MaxTotal
  /\ s.qfrom = QSafe(s.from)
  /\ Len(s.pat) = Min(3, s.to - s.from)
  /\ \A k \in 1..Len(s.pat) : s.pat[k] = QSafe(s.from + k) - QSafe(s.from + k - 1)

Tiles(k) == /\ Segs[k].from = (IF k = 1 THEN From ELSE Segs[k - 1].to + 1)
            /\ (k = Len(Segs) => Segs[k].to = To)

Init == i = 0
Next == i < Len(Segs) /\ i' = i + 1

Check == \/ i = 0
         \/ /\ IF SegOK(Segs[i]) /\ Tiles(i) THEN TRUE ELSE PrintT(<<"BAD", ToJson(Segs[i])>>)
            /\ (i = Len(Segs) => PrintT(<<"SWEPT", Segs[1].from, Segs[i].to, i>>))
=============================================================================
