----------------------------- MODULE Validators -----------------------------
(* C12 - canonical, serialisable form of pos.Validators.                                        *)
(* The builder is a map id -> weight (weight 0 = absent).  One action: Set(id, w).  After every  *)
(* Set the real builder is asked to Build() and the resulting set is compared with the          *)
(* specification's canonical form (Canon.tla), as are rlp.Decode(rlp.Encode(v)) and v.Copy().   *)
(* `h` records the sequence of Set calls, so that TLC enumerates ALL call sequences up to        *)
(* MaxLen (insertion orders, overwrites, deletions by weight 0), not only all maps; the real    *)
(* builder is always driven through exactly that sequence.                                      *)
EXTENDS Canon, TLC, Json

CONSTANTS Ids, Weights, MaxLen
VARIABLES m, h, act
vars == <<m, h, act>>
View == <<m, h>>
Abs == [m |-> [i \in Ids |-> m[i]], h |-> h]

\* the validator set described by builder map mm: its non-zero pairs
SetOf(mm) == [i \in {j \in Ids : mm[j] # 0} |-> mm[i]]

Init == m = [i \in Ids |-> 0] /\ h = <<>> /\ act = [op |-> "init"]

\* what every read accessor of a built set must show; a function of the non-zero pairs only
Form(mm) ==
  LET v == SetOf(mm) IN
  [ids     |-> SortedIds(v),                                           \* SortedIDs(), GetID(i)
   weights |-> SortedWeights(v),                                       \* SortedWeights(), GetWeightByIdx(i)
   idx     |-> [i \in Ids |-> IF i \in DOMAIN v THEN Rank(v, i) ELSE -1],  \* Idxs() (-1: not a member), GetIdx
   get     |-> [i \in Ids |-> mm[i]],                                  \* Get(id)
   exists  |-> [i \in Ids |-> mm[i] # 0],                              \* Exists(id)
   total   |-> Total(v),                                               \* TotalWeight()
   len     |-> Cardinality(DOMAIN v)]                                  \* Len()

Set(id, w) ==
  /\ Len(h) < MaxLen
  /\ m' = [m EXCEPT ![id] = w]
  /\ h' = Append(h, <<id, w>>)
  \* encoding then decoding, and copying, yield the same set in the same order: the harness reads the
  \* form of rlp.Decode(rlp.Encode(v)) and of v.Copy() and reports whether each equals the form of v
  \* (which itself is compared with Form(m') below).
  \* Decoding REPLACES whatever the receiver held: the encoding of v is also decoded
  \*   - into a receiver that already holds an unrelated set (ids 1, 2, 3 and 9),
  \*   - into a by-value copy of the set built BEFORE this call (the pre-state's set),
  \* each must then show exactly the form of v and re-encode to the same bytes, and the set built
  \* before the call (whose map the by-value copy shares) must still show the pre-state's form.
  \* A built set is read-only: v.Builder() and v.Copy().Builder() hand out the caller's own builders; after
  \* the harness has changed every id in both of them, v and the copy must still show the form of v and
  \* encode to the same bytes.
  /\ act' = [op |-> "set", id |-> id, w |-> w, rlp_same |-> TRUE, copy_same |-> TRUE, builder_same |-> TRUE,
             decode_into_other_same |-> TRUE, decode_into_prev_copy_same |-> TRUE, prev_unchanged |-> TRUE,
             unchanged_by_derived_builders |-> TRUE]

Next == \E id \in Ids, w \in Weights : Set(id, w)
Spec == Init /\ [][Next]_vars

(* ---- C12 at the level of the specification ---- *)
\* the constructive order is the declarative one: every member once, neighbours in canonical order
CanonicalOrder == IsCanonical(SortedIds(SetOf(m)), SetOf(m))
\* index mapping is the inverse of the order
IndexInverse == LET v == SetOf(m) IN \A k \in 1..Cardinality(DOMAIN v) : Rank(v, SortedIds(v)[k]) = k - 1
\* weights listed in descending order and they add up to the total
WeightsDescending == LET s == SortedWeights(SetOf(m)) IN \A k \in 1..(Len(s) - 1) : s[k] >= s[k + 1]
\* the map is the last non-overwritten Set per id: the form depends on the pairs, not on the history
\* decoding into an occupied receiver: the result is the decoded set, not the union with the old content
\* (stated on the maps: replacing is not merging whenever the old set has a member the new one lacks)
ReplaceNotMerge == [][(\E i \in Ids : m[i] # 0 /\ m'[i] = 0) =>
                       SetOf(m') # [i \in DOMAIN SetOf(m) \cup DOMAIN SetOf(m') |-> IF i \in DOMAIN SetOf(m') THEN SetOf(m')[i] ELSE SetOf(m)[i]]]_vars
LastWriteWins == \A i \in Ids :
  LET P == {k \in 1..Len(h) : h[k][1] = i} IN
  m[i] = IF P = {} THEN 0 ELSE h[CHOOSE k \in P : \A k2 \in P : k2 <= k][2]

Emit == PrintT(<<"EDGE", ToJson([pre |-> Abs, act |-> act', post |-> Abs', obs |-> Form(m')])>>)
=============================================================================
