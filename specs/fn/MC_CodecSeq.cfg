CONSTANTS Widths = {2, 4, 8} Values = {0, 1, 2, 3, 4, 100, 101, 102, 103, 253, 254, 255, 256, 257, 258, 4660, 65535, 65536, 16909060, 2147483647}
SPECIFICATION Spec
PROPERTY Pure
VIEW View
ACTION_CONSTRAINT Emit
CHECK_DEADLOCK FALSE
