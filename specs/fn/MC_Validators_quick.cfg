CONSTANTS Ids = {1,2,3} Weights = {0,1,2,3} MaxLen = 4
SPECIFICATION Spec
INVARIANTS CanonicalOrder IndexInverse WeightsDescending LastWriteWins
PROPERTY ReplaceNotMerge
VIEW View
ACTION_CONSTRAINT Emit
CHECK_DEADLOCK FALSE
