INIT Init
NEXT Next
INVARIANTS Emit Canonical
CHECK_DEADLOCK FALSE
