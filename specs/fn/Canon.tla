------------------------------ MODULE Canon ------------------------------
(* Canonical form of a validator set (C12), pure definitions.  A validator set is a function m  *)
(* from a finite set of validator ids to POSITIVE weights.                                      *)
EXTENDS Integers, Sequences, FiniteSets

\* canonical strict order of the statement: descending weight, ties by ascending id
Before(m, i, j) == m[i] > m[j] \/ (m[i] = m[j] /\ i < j)

\* 0-based canonical index of validator i = number of validators placed before it
Rank(m, i) == Cardinality({j \in DOMAIN m : Before(m, j, i)})

\* the ids in canonical order
SortedIds(m) == [k \in 1..Cardinality(DOMAIN m) |-> CHOOSE i \in DOMAIN m : Rank(m, i) = k - 1]
SortedWeights(m) == [k \in 1..Cardinality(DOMAIN m) |-> m[SortedIds(m)[k]]]

RECURSIVE SumSet(_, _)
SumSet(m, S) == IF S = {} THEN 0 ELSE LET i == CHOOSE i \in S : TRUE IN m[i] + SumSet(m, S \ {i})
Total(m) == SumSet(m, DOMAIN m)

\* declarative reading, checked against the constructive one by the model checker:
\* s lists every validator exactly once and neighbours are in canonical order
IsCanonical(s, m) ==
  /\ Len(s) = Cardinality(DOMAIN m)
  /\ {s[k] : k \in 1..Len(s)} = DOMAIN m
  /\ \A k \in 1..(Len(s) - 1) : Before(m, s[k], s[k + 1])
=============================================================================
