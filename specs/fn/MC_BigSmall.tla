---------------------------- MODULE MC_BigSmall ----------------------------
(* model checking of BigStakes at small scope: L = 3, every vector of 1..MaxN stakes below MaxStake; *)
(* checks the C12 clauses on the integer level and that the limb level (LB = 2, K = 5) computes    *)
(* the same shift and the same scaled stakes                                                      *)
EXTENDS BigStakes
CONSTANTS MaxN, MaxStake
VARIABLE stakes
\* all vectors of 0..MaxN stakes, generated as a tree so that TLC's workers share the evaluation
Init == stakes = <<>>
Next == Len(stakes) < MaxN /\ \E s \in 0..(MaxStake - 1) : stakes' = Append(stakes, s)

Fits == TotalFits(stakes)
Order == OrderKept(stakes)
Minimal == ShiftMinimal(stakes)
Dropped == ZeroDropped(stakes)
LimbsAgree ==
  LET ls == [i \in 1..Len(stakes) |-> ToLimbs(stakes[i])]
      lsum == LSum(ls, Len(ls))
      sum == SumSeq(stakes, Len(stakes))
      lsc == LScaled(ls)
      sc == Scaled(stakes) IN
  /\ \A i \in 1..Len(stakes) : LVal(ls[i], 1) = stakes[i]
  /\ LVal(lsum, 1) = sum
  /\ LBitLen(lsum) = BitLen(sum)
  /\ LShift(ls) = Shift(sum)
  /\ \A i \in 1..Len(stakes) : LVal(lsc[i], 1) = sc[i]
\* every shift amount, not only the one the total asks for
\* (the last stake only: every vector is an extension of a shorter one)
ShrAgrees == Len(stakes) > 0 => \A s \in 0..(LB * K) :
               LVal(LShr(ToLimbs(stakes[Len(stakes)]), s), 1) = stakes[Len(stakes)] \div Pow2(s)
=============================================================================
