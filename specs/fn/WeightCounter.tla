--------------------------- MODULE WeightCounter ---------------------------
(* C11, pattern R: pos.WeightCounter as a state machine.  One action per public call            *)
(* (Count, CountByIdx, HasQuorum, Sum); `act` is output-only (call, arguments, specified        *)
(* result) so that every explored transition can be replayed on the real counter.               *)
(* Validator i (id i) has weight vw[i]; CountByIdx addresses validators by canonical index      *)
(* (Canon.tla: descending weight, ties by ascending id).                                        *)
EXTENDS Quorum, Canon, TLC, Json

CONSTANTS MaxN,        \* validator sets of 1..MaxN members
          Weights,     \* the weights a validator may have
          Small        \* TRUE when 3*total < 2^31, so the 2/3 reading can be evaluated by TLC

VARIABLES vw, counted, sum, act
vars == <<vw, counted, sum, act>>
View == <<vw, counted, sum>>
Abs == [vw |-> vw, counted |-> counted, sum |-> sum]

\* overflow-free test "the weights add up to at most MaxTotal" (pos panics above it)
RECURSIVE FitsFrom(_, _, _)
FitsFrom(w, k, acc) == IF k > Len(w) THEN TRUE
                       ELSE IF w[k] > MaxTotal - acc THEN FALSE ELSE FitsFrom(w, k + 1, acc + w[k])

Init == /\ \E n \in 1..MaxN : \E w \in [1..n -> Weights] : FitsFrom(w, 1, 0) /\ vw = w
        /\ counted = {} /\ sum = 0
        /\ act = [op |-> "init"]

N == Len(vw)
Tot == Total(vw)
Quorum == QSafe(Tot)

CountId(op, id, arg) ==
  /\ counted' = counted \cup {id}
  /\ sum' = IF id \in counted THEN sum ELSE sum + vw[id]
  /\ UNCHANGED vw
  /\ act' = [op |-> op, arg |-> arg, res |-> (id \notin counted)]

Count(id) == CountId("count", id, id)
CountByIdx(i) == CountId("countbyidx", SortedIds(vw)[i + 1], i)
HasQuorum == UNCHANGED <<vw, counted, sum>> /\ act' = [op |-> "hasquorum", arg |-> 0, res |-> (sum >= Quorum)]
Sum == UNCHANGED <<vw, counted, sum>> /\ act' = [op |-> "sum", arg |-> 0, res |-> sum]

Next == \/ \E id \in 1..N : Count(id)
        \/ \E i \in 0..(N - 1) : CountByIdx(i)
        \/ HasQuorum \/ Sum
Spec == Init /\ [][Next]_vars

(* ---- C11, counter clauses, at the level of the specification ---- *)
SumIsCountedWeight == sum = SumSet(vw, counted)          \* each counted validator exactly once
AtMostTotal == sum <= Tot
QuorumExactly == Small => ((sum >= Quorum) <=> (3 * sum > 2 * Tot))   \* reports a quorum iff > 2/3 counted
WholeSetHasQuorum == counted = DOMAIN vw => sum >= Quorum
CountOnce == [][(sum' # sum) => (act'.res = TRUE /\ act'.op \in {"count", "countbyidx"})]_vars

\* what the public API shows (the counted set itself is not readable)
Obs == [sum |-> sum, hasquorum |-> (sum >= Quorum), total |-> Tot, quorum |-> Quorum, n |-> N]
Emit == PrintT(<<"EDGE", ToJson([pre |-> Abs, act |-> act', post |-> Abs', obs |-> Obs'])>>)
=============================================================================
