CONSTANTS L = 3 LB = 2 K = 5 MaxN = 3 MaxStake = 24
INIT Init
NEXT Next
INVARIANTS Fits Order Minimal Dropped
CHECK_DEADLOCK FALSE
