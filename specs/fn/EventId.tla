-------------------------------- MODULE EventId --------------------------------
(* C32: dag.MutableBaseEvent as a small state machine.  "Event IDs carry the epoch and Lamport time they    *)
(* were built with": whatever was set or stamped before, Build(tail) returns an event whose id is            *)
(* BE4(epoch) o BE4(lamport) o tail for the CURRENT epoch and Lamport time, and SetID(tail) stamps the same   *)
(* into the mutable event.  State: the epoch, the Lamport time and the 32 id bytes of the mutable event.      *)
(* One action per call (SetEpoch, SetLamport, SetID, Build); every transition is replayed on a real           *)
(* MutableBaseEvent, random walks run on long-lived ones.                                                    *)
EXTENDS Codec, TLC, Json

CONSTANTS Epochs, Lamports,    \* values the setters are called with (below 2^31)
          Tails                \* tail numbers; TailOf(t) is the 24-byte tail handed to SetID / Build
VARIABLES epoch, lamport, id, act
vars == <<epoch, lamport, id, act>>
View == <<epoch, lamport, id>>
St == [epoch |-> epoch, lamport |-> lamport, id |-> id]

TailOf(t) == [i \in 1..24 |-> (37 * t + 11 * i) % 256]
Zero32 == [i \in 1..32 |-> 0]
\* the id the statement demands for (e, l, tail)
IdOf(e, l, t) == BE(4, e) \o BE(4, l) \o TailOf(t)
\* reading an id back: hash.Event.Epoch() / Lamport()
EpochOf(b) == DecBE(SubSeq(b, 1, 4))
LamportOf(b) == DecBE(SubSeq(b, 5, 8))

Init == epoch = 0 /\ lamport = 0 /\ id = Zero32 /\ act = [op |-> "new"]

SetEpoch(e) == epoch' = e /\ UNCHANGED <<lamport, id>> /\ act' = [op |-> "setepoch", v |-> e]
SetLamport(l) == lamport' = l /\ UNCHANGED <<epoch, id>> /\ act' = [op |-> "setlamport", v |-> l]
SetID(t) == /\ id' = IdOf(epoch, lamport, t) /\ UNCHANGED <<epoch, lamport>>
            /\ act' = [op |-> "setid", tail |-> TailOf(t)]
\* Build leaves the mutable event alone and returns an event with the id of the CURRENT epoch and Lamport time
Build(t) == /\ UNCHANGED <<epoch, lamport, id>>
            /\ act' = [op |-> "build", tail |-> TailOf(t),
                       res |-> [id |-> IdOf(epoch, lamport, t), epoch |-> epoch, lamport |-> lamport,
                                id_epoch |-> EpochOf(IdOf(epoch, lamport, t)), id_lamport |-> LamportOf(IdOf(epoch, lamport, t))]]

Next == \/ \E e \in Epochs : SetEpoch(e)
        \/ \E l \in Lamports : SetLamport(l)
        \/ \E t \in Tails : SetID(t) \/ Build(t)
Spec == Init /\ [][Next]_vars

(* ---- C32, event-id clause, on the specification ---- *)
\* a built id carries exactly the values it was built with
BuiltCarries == [][act'.op = "build" => (act'.res.id_epoch = epoch /\ act'.res.id_lamport = lamport)]_vars
\* a stamped id carries the values current at the time of SetID (it may be stale later: only Build/SetID refresh it)
StampedCarries == [][act'.op = "setid" => (EpochOf(id') = epoch /\ LamportOf(id') = lamport)]_vars
\* some explored state has an id whose prefix is stale (otherwise the machine would not exercise re-stamping)
\* -- checked by the driver through a vacuity guard on the replayed edges, not here

Emit == PrintT(<<"EDGE", ToJson([pre |-> St, act |-> act', post |-> St'])>>)
=============================================================================
