CONSTANTS L = 31 LB = 16 K = 17
INIT Init
NEXT Next
INVARIANTS Emit Sane
CHECK_DEADLOCK FALSE
