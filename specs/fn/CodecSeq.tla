------------------------------- MODULE CodecSeq -------------------------------
(* C32: the encoders and decoders as functions of their argument ALONE.  Encodings are values: what a caller    *)
(* does to a returned byte slice (overwrite it, append to it) cannot change any later encoding, and decoding    *)
(* cannot change the bytes it reads.  State: the value encoded by the previous call (-1: none).  TLC explores    *)
(* every ordered pair (previous value, value) per width; the harness executes each pair in ONE process on the    *)
(* real functions: after every encode it overwrites the returned slice and appends to it (within its capacity   *)
(* if it has spare capacity), it decodes every encoding twice from the same buffer and reports whether the      *)
(* buffer still holds the bytes it was given.                                                                   *)
EXTENDS Codec, TLC, Json

CONSTANTS Widths, Values        \* Values: numbers below 2^31; a value takes part in width w if it is below 256^w
VARIABLES w, prev, act
vars == <<w, prev, act>>
View == <<w, prev>>
St == [w |-> w, prev |-> prev]

Fits(n, k) == IF k >= 4 THEN TRUE ELSE n < Pow256(k)
\* the values are below 2^31: written as 16-bit limbs (most significant first) so that TLC never forms 256^4 and more;
\* Codec!BELimbs / LELimbs are the limb-wise forms of BE / LE (CodecApa!LimbWise)
Limbs(k, n) == IF k = 2 THEN <<n>> ELSE IF k = 4 THEN <<n \div 65536, n % 65536>> ELSE <<0, 0, n \div 65536, n % 65536>>
EncBE(k, n) == BELimbs(Limbs(k, n))
EncLE(k, n) == LELimbs(Limbs(k, n))
Init == w \in Widths /\ prev = -1 /\ act = [op |-> "new"]
Enc(n) == /\ Fits(n, w) /\ prev' = n /\ UNCHANGED w
          /\ act' = [op |-> "enc", w |-> w, n |-> n,
                     be |-> EncBE(w, n), le |-> EncLE(w, n),                      \* what the encoders return
                     idx_same_as_be |-> TRUE,                               \* every idx type of that width encodes like bigendian
                     dec_be |-> DecBE(EncBE(w, n)), dec_be_again |-> DecBE(EncBE(w, n)), be_input_unchanged |-> TRUE,
                     dec_le |-> DecLE(EncLE(w, n)), dec_le_again |-> DecLE(EncLE(w, n)), le_input_unchanged |-> TRUE]
Next == \E n \in Values : Enc(n)
Spec == Init /\ [][Next]_vars

\* on the specification: the result depends on (w, n) only and decodes to n
Pure == [][act'.be = EncBE(w, act'.n) /\ (w <= 3 => act'.be = BE(w, act'.n)) /\ act'.dec_be = act'.n /\ act'.dec_le = act'.n]_vars
Emit == PrintT(<<"EDGE", ToJson([pre |-> St, act |-> act', post |-> St'])>>)
=============================================================================
