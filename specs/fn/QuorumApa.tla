---------------------------- MODULE QuorumApa ----------------------------
(* C11, pattern P: the quorum clauses for ALL totals 1..2^31-1 and all subset weights, checked  *)
(* symbolically by Apalache:  apalache-mc check --init=Init --next=Next --inv=<Inv> --length=0  *)
(* InitOver admits the total 2^31 as well; NoOverflow must FAIL from it (non-vacuity).           *)
EXTENDS Quorum

VARIABLES
  \* @type: Int;
  t,
  \* @type: Int;
  a,
  \* @type: Int;
  b,
  \* @type: Int;
  ab

\* Validators.Quorum() evaluates  total*2/3 + 1  in uint32 arithmetic
Q32(x) == (((x * 2) % 4294967296) \div 3 + 1) % 4294967296

Subsets == /\ a \in 0..t /\ b \in 0..t /\ ab \in 0..t
           /\ ab <= a /\ ab <= b /\ a + b - ab <= t     \* a, b weights of two subsets, ab of their intersection
Init == t \in 1..MaxTotal /\ Subsets
InitOver == t \in 1..(MaxTotal + 1) /\ Subsets
Next == UNCHANGED <<t, a, b, ab>>

NoOverflow == Q32(t) = Q(t)
SafeForm == QSafe(t) = Q(t) /\ 2 * (t \div 3) <= MaxTotal /\ QSafe(t) <= MaxTotal
Whole == WholeSetReaches(t)
TwoThirds == TwoThirdsDoesNot(t, a)
Intersect == QuorumsIntersect(t, a, b, ab)
Strict == MoreThanTwoThirds(t, a)
\* Q advances by exactly 2 every 3 totals (used by the exhaustive sweep of Quorum(), see QuorumSweep.tla)
Periodic == Q(t + 3) = Q(t) + 2
\* all of the above in one obligation (used by the quick tier: one solver run)
AllClauses == NoOverflow /\ SafeForm /\ Whole /\ TwoThirds /\ Intersect /\ Strict /\ Periodic
\* deliberately false strengthenings (must be refuted: the obligations are not vacuous)
IntersectTooStrong == (Reaches(a, t) /\ Reaches(b, t)) => 3 * ab > t + 3
TwoThirdsTooStrong == (3 * a <= 2 * t + 3) => ~Reaches(a, t)
=============================================================================
