CONSTANTS From = 1 To = 2147483647
INIT Init
NEXT Next
INVARIANT Check
CHECK_DEADLOCK FALSE
