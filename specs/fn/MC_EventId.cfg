CONSTANTS Epochs = {1, 258} Lamports = {2, 65539} Tails = {1, 2}
SPECIFICATION Spec
PROPERTIES BuiltCarries StampedCarries
VIEW View
ACTION_CONSTRAINT Emit
CHECK_DEADLOCK FALSE
