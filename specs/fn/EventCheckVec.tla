---------------------------- MODULE EventCheckVec ----------------------------
(* C13: TLC enumerates events with boundary values and parent lists and prints, for each, the      *)
(* verdict of EventCheck!WellFormed and the violated clauses; the harness runs every vector through *)
(* eventcheck.Checkers.Validate (accept <=> WellFormed).                                           *)
(* The event's creator is validator 1, the other creator is validator 2.                           *)
(*  part "fields" : every combination of the boundary values FV for seq/epoch/frame/lamport, current *)
(*                  epoch equal/different, creator a validator or not, with parent lists that are   *)
(*                  plausible for those values (templates relative to seq and lamport)              *)
(*  part "parents": ordinary field values (seq in PSeq, lamport in PLam) with EVERY parent list of   *)
(*                  length 0..MaxParents over the pool {creator self/other} x {seq-2, seq-1, seq}    *)
(*                  x {lamport-2, lamport-1, lamport} x {event, its fork twin}, duplicates included  *)
EXTENDS EventCheck, TLC, Json

CONSTANTS FV,             \* boundary values of the counters
          FVFrame,        \* boundary values tried for the frame
          PSeq, PLam,     \* field values of part "parents"
          MaxParents,     \* longest parent list of part "parents"
          Twins           \* {0} or {0, 1}: whether the pool contains fork twins (same fields, other identity)
VARIABLE v
Self == 1
Other == 2

OtherEpoch(ep) == IF ep > 5 THEN ep - 1 ELSE ep + 1
Envs(ep) == {[cur |-> c, vals |-> vs] : c \in {ep, OtherEpoch(ep)}, vs \in {{1, 2}, {2}}}

\* a parent of event (sq, lam): creator c, seq sq+ds, lamport lam+dl, twin t; identity derived from all of them
Par(c, sq, lam, ds, dl, t) == [creator |-> c, seq |-> sq + ds, lamport |-> lam + dl, k |-> 1 + t + 2 * (-dl) + 6 * (-ds) + 18 * (c - 1)]
Pool(sq, lam) == {Par(c, sq, lam, ds, dl, t) : c \in {Self, Other}, ds \in {d \in {-2, -1, 0} : sq + d >= 0},
                                               dl \in {d \in {-2, -1, 0} : lam + d >= 0}, t \in Twins}
\* all parent lists of length 0..n over pool P
Lists(P, n) == UNION {[1..m -> P] : m \in 0..n}

\* plausible parent lists for boundary field values
Templates(sq, lam) ==
  LET ok(ds, dl) == sq + ds >= 0 /\ lam + dl >= 0
      sp == Par(Self, sq, lam, -1, -1, 0)
      op == Par(Other, sq, lam, 0, -1, 0)
      olow == Par(Other, sq, lam, 0, -2, 0) IN
  {<<>>} \cup (IF ok(-1, -1) THEN {<<sp>>, <<sp, op>>, <<op>>, <<op, sp>>, <<sp, sp>>} ELSE {})
         \cup (IF ok(-1, -2) THEN {<<Par(Self, sq, lam, -1, -2, 0), op>>, <<sp, olow>>} ELSE {})

Init == v = [stage |-> "root"]
Next ==
  \/ /\ v.stage = "root"
     /\ \/ \E sq \in FV, ep \in FV, fr \in FVFrame, lam \in FV :
             v' = [stage |-> "fields", e |-> [creator |-> Self, epoch |-> ep, seq |-> sq, frame |-> fr, lamport |-> lam]]
        \/ \E sq \in PSeq, lam \in PLam :
             v' = [stage |-> "parents", e |-> [creator |-> Self, epoch |-> 7, seq |-> sq, frame |-> 1, lamport |-> lam]]
  \/ /\ v.stage = "fields"
     /\ \E env \in Envs(v.e.epoch), ps \in Templates(v.e.seq, v.e.lamport) :
          v' = [stage |-> "vec", e |-> v.e, ps |-> ps, cur |-> env.cur, vals |-> env.vals]
  \/ /\ v.stage = "parents"
     /\ \E ps \in Lists(Pool(v.e.seq, v.e.lamport), MaxParents) :
          v' = [stage |-> "vec", e |-> v.e, ps |-> ps, cur |-> 7, vals |-> {1, 2}]

Emit == v.stage # "vec" \/
        PrintT(<<"EDGE", ToJson([e |-> v.e, ps |-> v.ps, cur |-> v.cur, vals |-> v.vals,
                                  wf |-> WellFormed(v.e, v.ps, v.cur, v.vals),
                                  why |-> Violated(v.e, v.ps, v.cur, v.vals)])>>)

\* sanity of the enumeration itself: identities determine the parent's fields
IdentitySound == v.stage = "vec" =>
  \A i, j \in 1..Len(v.ps) : v.ps[i].k = v.ps[j].k => v.ps[i] = v.ps[j]
=============================================================================
