CONSTANTS FV <- FVAll FVFrame <- FVSome PSeq = {1, 2, 3} PLam = {1, 2, 3} MaxParents = 2 Twins = {0, 1}
INIT Init
NEXT Next
INVARIANTS Emit IdentitySound
CHECK_DEADLOCK FALSE
