------------------------------ MODULE CodecApa ------------------------------
(* C32, pattern P: for w in {2, 4, 8}, over ALL values n, m < 256^w:                               *)
(*   decode(encode(n)) = n for both byte orders, and n < m <=> BE(n) <_bytes BE(m);                 *)
(*   the limb-wise encodings used for the vectors equal the encodings of the value;                 *)
(*   event ids order by (epoch, lamport).  Bytes are written out as integers (no recursion).        *)
EXTENDS Integers

CONSTANT
  \* @type: Int;
  W
VARIABLES
  \* @type: Int;
  n,
  \* @type: Int;
  m,
  \* @type: Int;
  e1,
  \* @type: Int;
  l1,
  \* @type: Int;
  e2,
  \* @type: Int;
  l2

CInit2 == W = 2
CInit4 == W = 4
CInit8 == W = 8

P256(k) == IF k = 0 THEN 1 ELSE IF k = 1 THEN 256 ELSE IF k = 2 THEN 65536 ELSE IF k = 3 THEN 16777216
           ELSE IF k = 4 THEN 4294967296 ELSE IF k = 5 THEN 1099511627776 ELSE IF k = 6 THEN 281474976710656
           ELSE IF k = 7 THEN 72057594037927936 ELSE 18446744073709551616
Digit(x, k) == (x \div P256(k)) % 256          \* same definition as Codec!Digit
Top == P256(W)
Idx == 0..7                                     \* byte positions; those >= W are not used

Init == /\ n \in 0..(Top - 1) /\ m \in 0..(Top - 1)
        /\ e1 \in 0..4294967295 /\ l1 \in 0..4294967295 /\ e2 \in 0..4294967295 /\ l2 \in 0..4294967295
Next == UNCHANGED <<n, m, e1, l1, e2, l2>>

\* BE(W, x)[i] = Digit(x, W - i), LE(W, x)[i] = Digit(x, i - 1)
\* value of the big-endian bytes = sum of byte i times 256^(W-i); likewise little endian: same digits, same sum
Sum(x) == (IF W > 0 THEN Digit(x, 0) * P256(0) ELSE 0) + (IF W > 1 THEN Digit(x, 1) * P256(1) ELSE 0)
        + (IF W > 2 THEN Digit(x, 2) * P256(2) ELSE 0) + (IF W > 3 THEN Digit(x, 3) * P256(3) ELSE 0)
        + (IF W > 4 THEN Digit(x, 4) * P256(4) ELSE 0) + (IF W > 5 THEN Digit(x, 5) * P256(5) ELSE 0)
        + (IF W > 6 THEN Digit(x, 6) * P256(6) ELSE 0) + (IF W > 7 THEN Digit(x, 7) * P256(7) ELSE 0)
RoundTrip == Sum(n) = n

\* bytes.Compare(BE(n), BE(m)) < 0: at the first differing position (most significant first) n's byte is smaller
BytesLess(x, y) == \E k \in Idx : /\ k < W /\ Digit(x, k) < Digit(y, k)
                                  /\ \A j \in Idx : (j > k /\ j < W) => Digit(x, j) = Digit(y, j)
OrderPreserved == (n < m) <=> BytesLess(n, m)
Injective == (n # m) => \E k \in Idx : k < W /\ Digit(n, k) # Digit(m, k)

\* limb view (W >= 2): the two bytes of the 16-bit limb number q of n are the bytes 2q+1, 2q of n
Limb(x, q) == (x \div P256(2 * q)) % 65536
LimbWise == \A q \in 0..3 : (2 * q + 1 < W) =>
              /\ (Limb(n, q) \div 256) % 256 = Digit(n, 2 * q + 1)
              /\ Limb(n, q) % 256 = Digit(n, 2 * q)
LimbOrder == (W = 4 \/ W = 8) =>
               ((n < m) <=> \E q \in 0..3 : /\ 2 * q + 1 < W /\ Limb(n, q) < Limb(m, q)
                                            /\ \A r \in 0..3 : (r > q /\ 2 * r + 1 < W) => Limb(n, r) = Limb(m, r))

(* ---- 64-bit values and event ids, by halves ------------------------------------------------------ *)
(* Z3 does not finish the 8-byte obligations stated on one 64-bit variable, so they are split:      *)
(* every 64-bit value is Key(e, l) of two 32-bit halves (Halves); its 8 bytes are the 4 bytes of e     *)
(* followed by the 4 bytes of l (SplitDigits); round trip and order of the 8 bytes then follow from   *)
(* the statements about the halves (RoundTrip8, Order8), which mention 32-bit digits only.            *)
(* The same three facts are C32's event-id clause: an id starts with BE4(epoch) o BE4(lamport).       *)
Key(e, l) == e * 4294967296 + l
Halves == (W = 8) => /\ n = Key(n \div 4294967296, n % 4294967296)
                     /\ n \div 4294967296 <= 4294967295 /\ n % 4294967296 <= 4294967295
SplitDigits == \A k \in 0..3 : Digit(Key(e1, l1), k) = Digit(l1, k) /\ Digit(Key(e1, l1), k + 4) = Digit(e1, k)
Sum4(x) == Digit(x, 0) + Digit(x, 1) * 256 + Digit(x, 2) * 65536 + Digit(x, 3) * 16777216
RoundTrip8 == Sum4(l1) + 4294967296 * Sum4(e1) = Key(e1, l1)
BL4(x, y) == \E k \in 0..3 : Digit(x, k) < Digit(y, k) /\ \A j \in 0..3 : j > k => Digit(x, j) = Digit(y, j)
EQ4(x, y) == \A k \in 0..3 : Digit(x, k) = Digit(y, k)
\* byte order of BE4(e1) o BE4(l1) against BE4(e2) o BE4(l2)
Bytes8Less == BL4(e1, e2) \/ (EQ4(e1, e2) /\ BL4(l1, l2))
Order8 == /\ (Key(e1, l1) < Key(e2, l2)) <=> (e1 < e2 \/ (e1 = e2 /\ l1 < l2))      \* value order = (epoch, lamport) order
          /\ (e1 < e2 \/ (e1 = e2 /\ l1 < l2)) <=> Bytes8Less                        \* = byte order of the 8 bytes
\* one obligation per width for the quick tier
All24 == RoundTrip /\ OrderPreserved /\ Injective /\ LimbWise /\ LimbOrder
All8 == RoundTrip8 /\ Order8 /\ Halves /\ SplitDigits

\* deliberately false (must be refuted): little-endian bytes do not order like the values
LEBytesLess(x, y) == \E k \in Idx : /\ k < W /\ Digit(x, k) < Digit(y, k)
                                    /\ \A j \in Idx : (j < k) => Digit(x, j) = Digit(y, j)
LEOrderPreserved == (n < m) <=> LEBytesLess(n, m)
=============================================================================
