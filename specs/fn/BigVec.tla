------------------------------- MODULE BigVec -------------------------------
(* C12: expected result of ValidatorsBigBuilder.Build() for concrete big stakes.  Input file      *)
(* IOEnv.IN: one {"stakes": [[16-bit limbs, least significant first, K of them], ...]} per line   *)
(* (validator i has the i-th stake).  TLC evaluates the limb level of BigStakes.tla with L = 31.  *)
EXTENDS BigStakes, Json, IOUtils
VARIABLE i
In == ndJsonDeserialize(IOEnv.IN)
Init == i = 0
Next == i = 0 /\ i' \in 1..Len(In)
Out == LET ls == In[i].stakes
           sc == LScaled(ls)
           w == [k \in 1..Len(ls) |-> Low(sc[k])]
           v == [k \in Members(w) |-> w[k]] IN
       [stakes |-> ls, shift |-> LShift(ls), fits |-> \A k \in 1..Len(ls) : HighZero(sc[k]),
        weights |-> w,                              \* Get(id) for id = 1..n (0: dropped)
        ids |-> SortedIds(v), sorted |-> SortedWeights(v), total |-> Total(v)]
Emit == i = 0 \/ PrintT(<<"EDGE", ToJson(Out)>>)
\* the limb-level result obeys the clauses as well (total within 31 bits, order kept)
Sane == i = 0 \/ LET o == Out IN /\ o.fits /\ o.total >= 0
                        /\ \A a, b \in 1..Len(o.weights) : (o.weights[a] > o.weights[b]) => o.stakes[a] # o.stakes[b]
=============================================================================
