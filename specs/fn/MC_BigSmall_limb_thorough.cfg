CONSTANTS L = 3 LB = 2 K = 5 MaxN = 3 MaxStake = 32
INIT Init
NEXT Next
INVARIANTS LimbsAgree ShrAgrees
CHECK_DEADLOCK FALSE
