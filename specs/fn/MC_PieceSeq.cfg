CONSTANTS DotLists <- Lists XMax = 8
SPECIFICATION Spec
INVARIANT ListsValid
PROPERTY HistoryFree
VIEW View
ACTION_CONSTRAINT Emit
CHECK_DEADLOCK FALSE
