------------------------------ MODULE KV ------------------------------
(* The single reference semantics of a kvdb.Store (C23): an ordered map from byte strings to    *)
(* byte strings.  One action per public mutating call; what the read API shows (Get, Has,        *)
(* NewIterator(prefix, start), also through every live snapshot) is the observation `Obs` of     *)
(* each state.  `act` is an output-only variable naming the call, so that every explored         *)
(* transition can be replayed on the real stores (pattern R).                                    *)
(*                                                                                               *)
(* A batch is a sequence of put/delete operations; Write applies them in order, Replay(w)        *)
(* re-issues them in order to a writer w.  After Write the only thing the model does with the    *)
(* batch is Reset (backends differ on writing a batch twice and the property does not say).      *)
(* A snapshot is a frozen copy of the map.                                                       *)
(*                                                                                               *)
(* The state space is bounded by MaxDepth steps from one of the designed initial states;         *)
(* `clear` (release snapshots, reset the batch, delete every key) and `goto` (establish a        *)
(* designed state on the cleared store) are compounds of public calls that let a long-lived       *)
(* object walk through the whole explored graph.                                                 *)
EXTENDS KVDefs

CONSTANTS Keys,        \* keys that are written (set of byte strings)
          Vals,        \* values (strings); contains the empty value ""
          BKeys, BVals,\* keys / values used inside batches
          MaxBatch,    \* operations per batch
          MaxSnaps,    \* snapshot slots
          MaxDepth,    \* steps explored from an initial state
          Inits,       \* designed initial states: records [store, batch, bw, snaps]
          ProbeKeys,   \* sequence of keys looked up in every observation
          IterTable    \* sequence of <<prefix, start, mode>> iterated in every observation

VARIABLES store,  \* [Keys -> Vals \cup BVals \cup {NONE}]
          batch,  \* sequence of batch operations
          bw,     \* the batch has been written and not reset yet
          snaps,  \* [1..MaxSnaps -> [live : BOOLEAN, view : view]]
          steps,  \* exploration depth (not part of the abstract state)
          act     \* output only: the call that produced this state

vars == <<store, batch, bw, snaps, steps, act>>
View == <<store, batch, bw, snaps>>

\* TLC re-evaluates a constant that the configuration overrides (`<-`) at every reference; these
\* zero-arity aliases are evaluated once
KeySet == Keys
ITab == IterTable
Probes == ProbeKeys
InitSet == Inits
EmptyView == [k \in KeySet |-> NONE]
SortedKeys == SortKeys(KeySet)     \* the key universe in ascending order, computed once
RangeIdx == RangeIndex(SortedKeys, ITab)
NoSnap == [live |-> FALSE, view |-> EmptyView]
EmptyState == [store |-> EmptyView, batch |-> <<>>, bw |-> FALSE, snaps |-> [i \in 1..MaxSnaps |-> NoSnap]]
Cur == [store |-> store, batch |-> batch, bw |-> bw, snaps |-> snaps]

AbsOf(s) == [store |-> ViewJ(SortedKeys, s.store), batch |-> OpsJ(s.batch), bw |-> s.bw,
             snaps |-> [i \in 1..MaxSnaps |-> [live |-> s.snaps[i].live, view |-> ViewJ(SortedKeys, s.snaps[i].view)]]]
Abs == AbsOf(Cur)

TypeOK ==
  /\ store \in [Keys -> Vals \cup BVals \cup {NONE}]
  /\ Len(batch) <= MaxBatch /\ bw \in BOOLEAN
  /\ \A i \in 1..MaxSnaps : snaps[i].live \in BOOLEAN /\ snaps[i].view \in [Keys -> Vals \cup BVals \cup {NONE}]

Init ==
  /\ \E s \in InitSet : store = s.store /\ batch = s.batch /\ bw = s.bw /\ snaps = s.snaps
  /\ steps = 0 /\ act = [op |-> "init"]

Step == steps < MaxDepth /\ steps' = steps + 1

Put(k, v) ==
  /\ Step /\ store' = [store EXCEPT ![k] = v] /\ UNCHANGED <<batch, bw, snaps>>
  /\ act' = [op |-> "put", k |-> Str(k), v |-> v]

Delete(k) ==
  /\ Step /\ store' = [store EXCEPT ![k] = NONE] /\ UNCHANGED <<batch, bw, snaps>>
  /\ act' = [op |-> "del", k |-> Str(k)]

BPut(k, v) ==
  /\ Step /\ ~bw /\ Len(batch) < MaxBatch
  /\ batch' = Append(batch, OpPut(k, v)) /\ UNCHANGED <<store, bw, snaps>>
  /\ act' = [op |-> "bput", k |-> Str(k), v |-> v]

BDelete(k) ==
  /\ Step /\ ~bw /\ Len(batch) < MaxBatch
  /\ batch' = Append(batch, OpDel(k)) /\ UNCHANGED <<store, bw, snaps>>
  /\ act' = [op |-> "bdel", k |-> Str(k)]

BWrite ==
  /\ Step /\ ~bw
  /\ store' = ApplyOps(store, batch) /\ bw' = TRUE /\ UNCHANGED <<batch, snaps>>
  /\ act' = [op |-> "bwrite"]

BReset ==
  /\ Step /\ (bw \/ batch # <<>>)
  /\ batch' = <<>> /\ bw' = FALSE /\ UNCHANGED <<store, snaps>>
  /\ act' = [op |-> "breset"]

\* Replay(w) with w = the store itself, and with w = a fresh batch of the same store that is then written
BReplay(target) ==
  /\ Step /\ ~bw /\ batch # <<>>
  /\ store' = ApplyOps(store, batch) /\ UNCHANGED <<batch, bw, snaps>>
  /\ act' = [op |-> "breplay", target |-> target]

Snap(i) ==
  /\ Step /\ ~snaps[i].live
  /\ snaps' = [snaps EXCEPT ![i] = [live |-> TRUE, view |-> store]] /\ UNCHANGED <<store, batch, bw>>
  /\ act' = [op |-> "snap", i |-> i]

Release(i) ==
  /\ Step /\ snaps[i].live
  /\ snaps' = [snaps EXCEPT ![i] = NoSnap] /\ UNCHANGED <<store, batch, bw>>
  /\ act' = [op |-> "release", i |-> i]

Clear ==
  /\ Cur # EmptyState
  /\ store' = EmptyState.store /\ batch' = <<>> /\ bw' = FALSE /\ snaps' = EmptyState.snaps
  /\ steps' = 0 /\ act' = [op |-> "clear"]

Goto(s) ==
  /\ Cur = EmptyState /\ s # EmptyState
  /\ store' = s.store /\ batch' = s.batch /\ bw' = s.bw /\ snaps' = s.snaps
  /\ steps' = 0 /\ act' = [op |-> "goto", state |-> AbsOf(s)]

Next ==
  \/ \E k \in Keys, v \in Vals : Put(k, v)
  \/ \E k \in Keys : Delete(k)
  \/ \E k \in BKeys, v \in BVals : BPut(k, v)
  \/ \E k \in BKeys : BDelete(k)
  \/ BWrite \/ BReset \/ BReplay("store") \/ BReplay("batch")
  \/ \E i \in 1..MaxSnaps : Snap(i) \/ Release(i)
  \/ Clear
  \/ \E s \in InitSet : Goto(s)

Spec == Init /\ [][Next]_vars

(* ---- the clauses of C23 at the level of the specification ---- *)
\* iteration yields exactly the keys with the prefix at or after prefix o start, ascending, with their values
IterationIsOrderedRange ==
  \A i \in DOMAIN ITab : IterateCorrect(IterateIdx(RangeIdx[i], store), store, ITab[i][1], ITab[i][2])
\* an empty value is present
EmptyValueIsPresent == \A k \in Keys : store[k] = "" => (Lookup(store, k) # NONE /\ k \in Present(store))
\* queued batch operations are invisible until written or replayed
BatchIsBuffered == [][act'.op \in {"bput", "bdel", "breset"} => store' = store]_vars
\* writing / replaying a batch leaves every key with the value of the last operation naming it
BatchAppliesInOrder ==
  [][act'.op \in {"bwrite", "breplay"} => \A k \in Keys : store'[k] = LastOpValue(store, batch, k)]_vars
\* a live snapshot never changes
SnapshotsFrozen ==
  [][\A i \in 1..MaxSnaps : (snaps[i].live /\ snaps'[i].live) => snaps'[i].view = snaps[i].view]_vars
\* a snapshot shows the map as it was when taken
SnapshotIsCopy == [][\A i \in 1..MaxSnaps : act'.op = "snap" /\ act'.i = i => snaps'[i].view = store]_vars

(* ---- emission (pattern R) ---- *)
StoreObs(view) == ReaderObs(view, Probes, RangeIdx)
Obs == [store |-> StoreObs(store),
        snaps |-> [i \in 1..MaxSnaps |-> IF snaps[i].live THEN [live |-> TRUE, view |-> StoreObs(snaps[i].view)]
                                                        ELSE [live |-> FALSE]]]
\* One line per explored transition: the raw values of the state variables before and after (cheap to
\* print) and the call.  One line per distinct state: the same raw key, the abstract state in the form the
\* harness consumes, and what the read API must show there.  The harness joins the two on the key.
Emit == PrintT(<<"EDGE", ToJson([pre |-> View, act |-> act', post |-> View'])>>)
EmitState == PrintT(<<"EDGE", ToJson([key |-> View, state |-> Abs, obs |-> Obs])>>)
=============================================================================
