CONSTANTS
  TKeys <- TKeys3  Vals <- Vals1  Noise <- Noise3  RTKeys <- RTKeys1  Cfgs <- Cfgs9
  MaxBatch = 2  MaxDepth = 2
  InitsOf <- InitsQ  TProbeKeys <- TProbe  TIterTable <- TIterTab
SPECIFICATION Spec
INVARIANTS TypeOK TableViewIsStrippedRestriction TableIterationIsOrderedRange PrefixRangeCovers EmitState
PROPERTIES WritesStayInPrefix IndependentTablesIsolated SnapshotFrozen BatchIsBuffered
VIEW View
ACTION_CONSTRAINT Emit
CHECK_DEADLOCK FALSE
