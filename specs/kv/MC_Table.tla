------------------------------ MODULE MC_Table ------------------------------
EXTENDS Table

kE == <<>>
kA == <<Ba>>
kAF == <<Ba, BF>>
kF == <<BF>>
kFF == <<BF, BF>>
kB == <<Bb>>
k0 == <<B0>>

TKeys4 == {kE, kA, kAF, kF}
TKeys3 == {kE, kA, kF}
RTKeys1 == {kE}
Noise3 == {k0, kB, <<Bb, B0>>}
Vals1 == {"1"}
Vals2 == {"", "1"}

\* prefix pairs: empty prefix, 0x00 / 0xff boundaries, prefix-of-one-another, adjacent ranges, nested table
Cfg(a, b, n) == [p1 |-> a, p2 |-> b, nested |-> n]
Cfgs8 == << Cfg(<<>>, kA, FALSE), Cfg(k0, kA, FALSE), Cfg(kA, kAF, FALSE), Cfg(kAF, kB, FALSE),
            Cfg(kF, kFF, FALSE), Cfg(kFF, kA, FALSE), Cfg(kA, <<Ba, Ba>>, TRUE),
            \* nested table whose own and parent prefixes do not commute ("a" o "\xff" # "\xff" o "a")
            Cfg(kA, kAF, TRUE) >>
\* ... and one more where the prefixes taken in the wrong order, own o parent = "b" o "\x00", are an unrelated raw
\* key that the store holds (Noise): reading through table 2 or its snapshot must not show that key
Cfgs9 == Cfgs8 \o << Cfg(k0, <<B0, Bb>>, TRUE) >>
\* own prefix of the nested table of a configuration
OwnOf(c) == SubSeq(c.p2, Len(c.p1) + 1, Len(c.p2))
NonCommuting(c) == c.nested /\ c.p1 \o OwnOf(c) # OwnOf(c) \o c.p1

TProbe == <<kE, kA, kAF, kF, k0, <<Ba, Ba>>, kFF, kB, <<Ba, BF, BF>>>>
TIterPrefixes == {<<>>, kA, kAF, kF}
TIterStarts == {<<>>, k0, kA, kF}
TIterTab ==
  SetToSeq({<<p, s, 3>> : p \in TIterPrefixes, s \in TIterStarts}
           \cup {<<<<>>, <<>>, 0>>, <<<<>>, <<>>, 1>>, <<<<>>, <<>>, 2>>, <<kA, <<>>, 0>>, <<<<>>, kF, 0>>})

\* designed initial states, generic in the configuration
RawOf(c, S) == [rk \in RawKeysOf[c] |-> IF \E p \in S : p[1] = rk THEN (CHOOSE p \in S : p[1] = rk)[2] ELSE NONE]
K(c, t, k) == P(c, t) \o k
NoisePairs == {<<n, RVAL>> : n \in Noise}
StT(r, o, b, w, sn) == [raw |-> r, bt |-> o, batch |-> b, bw |-> w, snap |-> sn]
Mixed(c) ==
  StT(RawOf(c, NoisePairs \cup {<<K(c, 1, kE), "1">>, <<K(c, 1, kF), "1">>, <<K(c, 2, kA), "1">>, <<K(c, 2, kF), "1">>}),
      2, <<OpPut(kE, "1"), OpDel(kA)>>, FALSE,
      [live |-> TRUE, t |-> 1, rawv |-> RawOf(c, {<<K(c, 1, kA), "1">>, <<K(c, 2, kE), "1">>, <<k0, RVAL>>})])
FullT(c) == StT([rk \in RawKeysOf[c] |-> "1"], 0, <<>>, FALSE, NoSnapOf(c))
NoiseOnly(c) == StT(RawOf(c, NoisePairs), 1, <<OpPut(kA, "1")>>, TRUE, NoSnapOf(c))
InitsQ(c) == {EmptyStateOf(c), Mixed(c)}
InitsT(c) == {EmptyStateOf(c), Mixed(c), FullT(c), NoiseOnly(c)}

ASSUME BytesSelfCheck
\* the nested configurations really are extensions of the parent prefix; at least two do not commute, and for one of
\* them the wrong order names a key that exists in the store
ASSUME \A i \in DOMAIN Cfgs9 : Cfgs9[i].nested => HasPrefix(Cfgs9[i].p2, Cfgs9[i].p1)
ASSUME Cardinality({i \in DOMAIN Cfgs9 : NonCommuting(Cfgs9[i])}) >= 2
ASSUME \E i \in DOMAIN Cfgs9 : NonCommuting(Cfgs9[i]) /\ (OwnOf(Cfgs9[i]) \o Cfgs9[i].p1) \in Noise3
ASSUME PrintT(<<"KVCONF", ToJson(TableConfJ)>>)
=============================================================================
