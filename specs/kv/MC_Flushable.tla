------------------------------ MODULE MC_Flushable ------------------------------
EXTENDS Flushable, KVKeys

\* designed initial states
V(S) == [k \in Keys |-> IF \E p \in S : p[1] = k THEN (CHOOSE p \in S : p[1] = k)[2] ELSE NONE]
O(S) == [k \in {p[1] : p \in S} |-> (CHOOSE p \in S : p[1] = k)[2]]
NoSnaps == [i \in 1..MaxSnaps |-> NoSnap]
Snap1(S) == [i \in 1..MaxSnaps |-> IF i = 1 THEN [live |-> TRUE, view |-> V(S)] ELSE NoSnap]
St(u, o, b, w, sn) == [under |-> u, over |-> o, batch |-> b, bw |-> w, snaps |-> sn, bprev |-> FALSE]
\* the overlay has been written by the store's batch object, which was then Reset (and possibly refilled)
StR(u, o, b, sn) == [under |-> u, over |-> o, batch |-> b, bw |-> FALSE, snaps |-> sn, bprev |-> TRUE]

Full == V({<<kA, "1">>, <<kA0, "">>, <<kAF, "1">>, <<kB, "1">>, <<kF, "">>, <<kFF, "1">>})
InitsFl == {
  EmptyState,
  \* tombstones and overwrites over a full underlying store
  St(Full, O({<<kA, TOMB>>, <<kAF, "">>, <<kF, TOMB>>, <<kFF, "">>}), <<>>, FALSE, NoSnaps),
  \* overlay keys interleaved with underlying keys, pending batch, a snapshot that differs from the view
  St(V({<<kA0, "1">>, <<kB, "">>}), O({<<kA, "1">>, <<kA0, TOMB>>, <<kB, "1">>, <<kF, "1">>}),
     <<OpPut(kAF, "1"), OpDel(kA)>>, FALSE, Snap1({<<kA0, "1">>, <<kB, "">>, <<kFF, "">>})),
  \* tombstones over nothing
  St(EmptyView, O({<<kA, TOMB>>, <<kFF, TOMB>>, <<kB, "">>}), <<>>, FALSE, NoSnaps),
  \* clean overlay, written batch, snapshot
  St(V({<<kAF, "1">>, <<kF, "1">>, <<kFF, "">>}), EmptyOver, <<OpPut(kFF, "1")>>, TRUE, Snap1({<<kAF, "1">>})),
  \* a written, not yet reset batch whose keys are still unflushed
  St(V({<<kA0, "1">>, <<kFF, "">>}), O({<<kA, "1">>, <<kB, "">>, <<kFF, "2">>}), <<OpPut(kA, "1"), OpPut(kFF, "2")>>, TRUE, NoSnaps),
  \* the batch object wrote the overlay (values of both lengths, a tombstone), was reset and is being refilled
  StR(V({<<kA0, "1">>, <<kFF, "">>}), O({<<kA, "1">>, <<kAF, "2">>, <<kB, "">>, <<kF, TOMB>>, <<kFF, "1">>}),
      <<OpPut(kAF, "1")>>, NoSnaps)
}

ASSUME BytesSelfCheck
ASSUME PrintT(<<"KVCONF", ToJson(ConfJ(ProbeKeys, IterTable))>>)
=============================================================================
