CONSTANTS
  Keys <- Keys6  Vals <- Vals2  BKeys <- BKeys3  BVals <- BVals3
  MaxBatch = 2  MaxSnaps = 2  MaxDepth = 3
  Inits <- InitsFl  ProbeKeys <- Probe  IterTable <- IterTab
SPECIFICATION Spec
INVARIANTS TypeOK ViewIsOverlay UnflushedCountsDistinctKeys IterationIsOrderedRange EmitState
PROPERTIES FlushMakesUnderTheView DropRestoresUnder OnlyFlushWritesUnder SnapshotsFrozen SnapshotIsCopy BatchIsBuffered ReusedBatchIsBuffered
VIEW View
ACTION_CONSTRAINT Emit
CHECK_DEADLOCK FALSE
