CONSTANTS
  Keys <- Keys7  Vals <- Vals2  BKeys <- Keys7  BVals <- BVals3
  MaxBatch = 4  MaxSnaps = 2  MaxDepth = 1000000
  Inits <- InitsFl  ProbeKeys <- Probe  IterTable <- IterTab
SPECIFICATION Spec
INVARIANTS TypeOK ViewIsOverlay UnflushedCountsDistinctKeys IterationIsOrderedRange EmitState
VIEW View
ACTION_CONSTRAINT Emit
CHECK_DEADLOCK FALSE
