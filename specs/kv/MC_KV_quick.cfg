CONSTANTS
  Keys <- Keys6  Vals <- Vals2  BKeys <- BKeys3  BVals <- BVals3
  MaxBatch = 2  MaxSnaps = 1  MaxDepth = 2
  Inits <- InitsKV  ProbeKeys <- Probe  IterTable <- IterTab
SPECIFICATION Spec
INVARIANTS TypeOK IterationIsOrderedRange EmptyValueIsPresent EmitState
PROPERTIES BatchIsBuffered BatchAppliesInOrder SnapshotsFrozen SnapshotIsCopy
VIEW View
ACTION_CONSTRAINT Emit
CHECK_DEADLOCK FALSE
