------------------------------ MODULE MC_KV ------------------------------
EXTENDS KV, KVKeys

\* designed initial states
V(S) == [k \in Keys |-> IF \E p \in S : p[1] = k THEN (CHOOSE p \in S : p[1] = k)[2] ELSE NONE]
NoSnaps == [i \in 1..MaxSnaps |-> NoSnap]
Snap1(S) == [i \in 1..MaxSnaps |-> IF i = 1 THEN [live |-> TRUE, view |-> V(S)] ELSE NoSnap]
St(s, b, w, sn) == [store |-> s, batch |-> b, bw |-> w, snaps |-> sn]

Full == V({<<kA, "1">>, <<kA0, "">>, <<kAF, "1">>, <<kB, "">>, <<kF, "1">>, <<kFF, "">>})
InitsKV == {
  EmptyState,
  St(Full, <<>>, FALSE, NoSnaps),
  St(V({<<kA0, "1">>, <<kF, "">>}), <<OpPut(kA, "1"), OpDel(kA)>>, FALSE, Snap1({<<kA, "">>, <<kA0, "1">>})),
  St(V({<<kAF, "">>, <<kB, "1">>, <<kFF, "1">>}), <<OpDel(kFF), OpPut(kFF, "")>>, FALSE, NoSnaps),
  St(V({<<kA, "">>, <<kAF, "1">>, <<kFF, "1">>}), <<OpPut(kAF, "")>>, TRUE, Snap1({<<kAF, "1">>, <<kB, "1">>, <<kF, "">>})),
  \* a written, not yet reset batch whose effect is still what the store holds
  St(V({<<kA, "1">>, <<kB, "">>, <<kFF, "2">>}), <<OpPut(kA, "1"), OpPut(kFF, "2")>>, TRUE, NoSnaps)
}
InitsSmall == {
  EmptyState,
  St(Full, <<>>, FALSE, NoSnaps),
  St(V({<<kA0, "1">>, <<kF, "">>}), <<OpPut(kA, "1"), OpDel(kA)>>, FALSE, Snap1({<<kA, "">>, <<kA0, "1">>}))
}

ASSUME BytesSelfCheck
ASSUME PrintT(<<"KVCONF", ToJson(ConfJ(ProbeKeys, IterTable))>>)
=============================================================================
