SPECIFICATION TSpec
CONSTRAINT Mark
POSTCONDITION Accepted
CHECK_DEADLOCK FALSE
