------------------------------ MODULE KVDefs ------------------------------
(* Pure definitions shared by KV.tla, Flushable.tla and Table.tla: views (finite maps from byte  *)
(* strings to values), batch operations, iteration, and the JSON forms used for edge emission.  *)
EXTENDS Bytes, TLC, Json

\* marks an absent key in a view.  Values are strings; the empty value "" is a value, not absence.
NONE == "~"

Lookup(view, k) == IF k \in DOMAIN view THEN view[k] ELSE NONE
Present(view) == {k \in DOMAIN view : view[k] # NONE}

(* ---- batch operations: a batch is a sequence of these, applied in order ---- *)
OpPut(k, v) == [t |-> "put", k |-> k, v |-> v]
OpDel(k) == [t |-> "del", k |-> k, v |-> NONE]
ApplyOp(view, op) == [view EXCEPT ![op.k] = op.v]
RECURSIVE ApplyOps(_, _)
ApplyOps(view, ops) == IF ops = <<>> THEN view ELSE ApplyOps(ApplyOp(view, Head(ops)), Tail(ops))
OpKeys(ops) == {ops[i].k : i \in DOMAIN ops}
\* independent characterisation used by the invariants: a key ends with the value of the last
\* operation that names it, and keeps its value when no operation names it
LastOpValue(view, ops, k) ==
  IF \E i \in DOMAIN ops : ops[i].k = k
  THEN ops[CHOOSE i \in DOMAIN ops : ops[i].k = k /\ \A j \in DOMAIN ops : ops[j].k = k => j <= i].v
  ELSE view[k]

(* ---- iteration ---- *)
Iterate(view, prefix, start) == Range(view, NONE, prefix, start)
\* what "iterates in ascending key order over the keys with the prefix, from the start key" means
IterateCorrect(it, view, prefix, start) ==
  /\ \A i, j \in DOMAIN it : i < j => Less(it[i][1], it[j][1])
  /\ {it[i][1] : i \in DOMAIN it} = {k \in Present(view) : HasPrefix(k, prefix) /\ ~Less(k, prefix \o start)}
  /\ \A i \in DOMAIN it : it[i][2] = view[it[i][1]]

\* The models evaluate iterations on every state, so they sort their key universe once (`sorted`) and
\* pre-select, for every entry of their <<prefix, start, mode>> table, the keys inside that range
\* (`RangeIndex`, a constant).  IterateIdx then only drops the absent keys; the invariant
\* IterationIsOrderedRange of each model checks the result against IterateCorrect on every state.
RangeIndex(sorted, itab) ==
  [i \in DOMAIN itab |-> SelectSeq(sorted, LAMBDA k : InRange(k, itab[i][1], itab[i][2]))]
IterateIdx(ks, view) ==
  LET ps == SelectSeq(ks, LAMBDA k : view[k] # NONE) IN [j \in DOMAIN ps |-> <<ps[j], view[ps[j]]>>]

(* ---- JSON forms ---- *)
PairsOf(it) == [i \in DOMAIN it |-> <<Str(it[i][1]), it[i][2]>>]
ViewJ(sorted, view) == PairsOf(IterateIdx(sorted, view))
OpJ(op) == [t |-> op.t, k |-> Str(op.k), v |-> op.v]
OpsJ(ops) == [i \in DOMAIN ops |-> OpJ(ops[i])]

\* What a reader (store, snapshot, table) shows through Get / Has / NewIterator:
\* probe = sequence of keys looked up;  idx = RangeIndex of the iterated <<prefix, start>> table
ReaderObs(view, probe, idx) ==
  [get   |-> [i \in DOMAIN probe |-> Lookup(view, probe[i])],
   has   |-> [i \in DOMAIN probe |-> Lookup(view, probe[i]) # NONE],
   iters |-> [i \in DOMAIN idx |-> PairsOf(IterateIdx(idx[i], view))]]

\* the observation plan handed to the harness.  An entry of itab is <<prefix, start, mode>>; mode says how
\* an empty prefix / start is passed to NewIterator: bit 0 set = nil prefix, bit 1 set = nil start
\* (printed as "~"), otherwise an empty non-nil slice.  Both mean "empty" to the specification.
ConfJ(probe, itab) ==
  [probe |-> [i \in DOMAIN probe |-> Str(probe[i])],
   iters |-> [i \in DOMAIN itab |->
               <<IF itab[i][1] = <<>> /\ itab[i][3] % 2 = 1 THEN "~" ELSE Str(itab[i][1]),
                 IF itab[i][2] = <<>> /\ itab[i][3] \div 2 = 1 THEN "~" ELSE Str(itab[i][2])>>]]
\* all <<prefix, start, mode>> combinations, as a sequence (order fixed by TLC's set enumeration)
RECURSIVE SetToSeq(_)
SetToSeq(S) == IF S = {} THEN <<>> ELSE LET x == CHOOSE x \in S : TRUE IN <<x>> \o SetToSeq(S \ {x})
=============================================================================
