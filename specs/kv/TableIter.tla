------------------------------ MODULE TableIter ------------------------------
(* Trace specification for tables used the way callers use them: iterators held open while other *)
(* calls go through the same table, through sibling tables and through the underlying store       *)
(* (C24: "behaves as the part of the underlying store whose keys start with that prefix, with the *)
(* prefix removed, for reads, iterations ...").  A scenario has up to three tables over one store *)
(* (effective prefixes in the reset line).  Every Get / Has must return what the table view holds. *)
(* An iterator that has seen no write since its creation must yield EXACTLY the table view's keys *)
(* with its prefix at or after prefix o start, ascending, with their values, whatever lookups are *)
(* issued in between; once a write happened after its creation only the clauses that hold for any *)
(* interleaving remain (ascending, inside the range, every yielded pair was in the table view at  *)
(* some moment between creation and yield).  A recorded panic is never accepted.                  *)
(* Trace lines (keys are byte arrays, values strings), scenarios separated by "reset":            *)
(*   reset{prefixes,raw}  put{t,k,v}  del{t,k}  rput{k,v}  rdel{k}  get{t,k,ok,v}  has{t,k,ok}     *)
(*   iter{id,t,prefix,start}  next{id,ok,k,v}  release{id}                                        *)
EXTENDS Bytes, TLC, Json, IOUtils

Trace == ndJsonDeserialize(IOEnv.TRACE)
Ids == 1..3

VARIABLES l,       \* next trace line
          pref,    \* sequence of effective table prefixes
          raw,     \* content of the underlying store: set of <<key, value>>
          its      \* [Ids -> [live, t, prefix, start, any, last, dirty, hist]]
tvars == <<l, pref, raw, its>>
T == Trace[l]
Is(op) == l <= Len(Trace) /\ T.op = op /\ l' = l + 1

Dead == [live |-> FALSE, t |-> 1, prefix |-> <<>>, start |-> <<>>, any |-> FALSE, last |-> <<>>, dirty |-> FALSE, hist |-> {}]
PutV(vw, k, v) == {p \in vw : p[1] # k} \cup {<<k, v>>}
DelV(vw, k) == {p \in vw : p[1] # k}
AsSet(pairs) == {<<pairs[i][1], pairs[i][2]>> : i \in DOMAIN pairs}
\* the view of table t: the store's keys with the table's prefix, prefix removed
TableView(rw, t) == {<<StripPrefix(p[1], pref[t]), p[2]>> : p \in {q \in rw : HasPrefix(q[1], pref[t])}}
\* after a write every live iterator is "dirty" and may also see the new content
Wrote(rw) == [i \in Ids |-> IF its[i].live THEN [its[i] EXCEPT !.dirty = TRUE, !.hist = @ \cup {rw}] ELSE its[i]]

TInit == TLCSet(1, 1) /\ l = 1 /\ pref = <<>> /\ raw = {} /\ its = [i \in Ids |-> Dead]

TReset == Is("reset") /\ pref' = T.prefixes /\ raw' = AsSet(T.raw) /\ its' = [i \in Ids |-> Dead]
TPut == Is("put") /\ raw' = PutV(raw, pref[T.t] \o T.k, T.v) /\ its' = Wrote(raw') /\ UNCHANGED pref
TDel == Is("del") /\ raw' = DelV(raw, pref[T.t] \o T.k) /\ its' = Wrote(raw') /\ UNCHANGED pref
TRPut == Is("rput") /\ raw' = PutV(raw, T.k, T.v) /\ its' = Wrote(raw') /\ UNCHANGED pref
TRDel == Is("rdel") /\ raw' = DelV(raw, T.k) /\ its' = Wrote(raw') /\ UNCHANGED pref
TGet ==
  /\ Is("get") /\ UNCHANGED <<pref, raw, its>>
  /\ IF T.ok THEN <<T.k, T.v>> \in TableView(raw, T.t) ELSE \A p \in TableView(raw, T.t) : p[1] # T.k
THas ==
  /\ Is("has") /\ UNCHANGED <<pref, raw, its>>
  /\ T.ok = (\E p \in TableView(raw, T.t) : p[1] = T.k)
TIter ==
  /\ Is("iter") /\ T.id \in Ids /\ ~its[T.id].live
  /\ its' = [its EXCEPT ![T.id] = [live |-> TRUE, t |-> T.t, prefix |-> T.prefix, start |-> T.start, any |-> FALSE,
                                    last |-> <<>>, dirty |-> FALSE, hist |-> {raw}]]
  /\ UNCHANGED <<pref, raw>>
\* pairs of view vw that the iterator may still yield
Ahead(it, vw) == {p \in vw : HasPrefix(p[1], it.prefix) /\ Leq(it.prefix \o it.start, p[1]) /\ (it.any => Less(it.last, p[1]))}
TNext ==
  /\ Is("next") /\ T.id \in Ids /\ its[T.id].live
  /\ LET it == its[T.id] IN
     IF ~it.dirty
     THEN \* no write since creation: exactly the next pair of the view, or the end
          LET ahead == Ahead(it, TableView(raw, it.t)) IN
          IF T.ok THEN <<T.k, T.v>> \in ahead /\ \A q \in ahead : Leq(T.k, q[1])
                  ELSE ahead = {}
     ELSE T.ok => \E h \in it.hist : <<T.k, T.v>> \in Ahead(it, TableView(h, it.t))
  /\ its' = IF T.ok THEN [its EXCEPT ![T.id].any = TRUE, ![T.id].last = T.k] ELSE its
  /\ UNCHANGED <<pref, raw>>
TRelease == Is("release") /\ T.id \in Ids /\ its' = [its EXCEPT ![T.id] = Dead] /\ UNCHANGED <<pref, raw>>

TNextStep == TReset \/ TPut \/ TDel \/ TRPut \/ TRDel \/ TGet \/ THas \/ TIter \/ TNext \/ TRelease
TSpec == TInit /\ [][TNextStep]_tvars

Mark == TLCSet(1, IF l > TLCGet(1) THEN l ELSE TLCGet(1))
Accepted == IF TLCGet(1) = Len(Trace) + 1 THEN PrintT(<<"ACCEPTED", Len(Trace)>>)
            ELSE PrintT(<<"REJECTED", TLCGet(1), ToJson(Trace[TLCGet(1)])>>)
=============================================================================
