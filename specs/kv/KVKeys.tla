------------------------------ MODULE KVKeys ------------------------------
(* The key alphabet, probe keys and (prefix, start) table shared by the KV and Flushable models. *)
EXTENDS KVDefs

kA == <<Ba>>          \* "a"
kA0 == <<Ba, B0>>     \* "a\x00"
kAF == <<Ba, BF>>     \* "a\xff"
kB == <<Bb>>          \* "b"  (= IncPrefix("a") = IncPrefix("a\xff"))
kF == <<BF>>          \* "\xff"
kFF == <<BF, BF>>     \* "\xff\xff"
kE == <<>>            \* the empty key

Keys6 == {kA, kA0, kAF, kB, kF, kFF}
Keys7 == Keys6 \cup {kE}
BKeys3 == {kA, kAF, kFF}
Vals2 == {"", "1"}
Vals1 == {"1"}
\* batch values: two values of equal length and different content, so that a store that recycles a batch's
\* buffers after Reset is visible
BVals3 == {"", "1", "2"}

\* keys looked up in every observation: the written keys plus keys that are never written
Probe == <<kA, kA0, kAF, kB, kF, kFF, kE, <<B0>>, <<Ba, Ba>>, <<BF, B0>>, <<Bb, B0>>, <<Ba, BF, BF>>>>

\* (prefix, start) table: 6 prefixes x 5 starts, plus nil / empty-slice variants of the empty prefix and start
IterPrefixes == {<<>>, kA, kAF, kB, kF, kFF}
IterStarts == {<<>>, <<B0>>, kA, kF, <<BF, B0>>}
IterTab ==
  SetToSeq({<<p, s, 3>> : p \in IterPrefixes, s \in IterStarts}
           \cup {<<<<>>, <<>>, 0>>, <<<<>>, <<>>, 1>>, <<<<>>, <<>>, 2>>, <<kA, <<>>, 0>>, <<<<>>, kA, 0>>, <<kAF, <<>>, 0>>})
=============================================================================
