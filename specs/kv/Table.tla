------------------------------ MODULE Table ------------------------------
(* Tables (C24).  A table with prefix p over a store shows the part of the store whose keys      *)
(* start with p, with p removed; writes through it touch only such keys.  The model has one       *)
(* underlying store `raw` and two tables over it (configuration `cfg` picks the pair of          *)
(* prefixes; in a "nested" configuration table 2 is created from table 1 with NewTable, so its   *)
(* effective prefix is p1 o suffix).  The underlying store is also written directly (`rput`,      *)
(* `rdel`): what the tables then show is still the stripped restriction.                         *)
(*                                                                                               *)
(* One batch object at a time, owned by the table that created it (`bt`); it can be replayed      *)
(* into either table (as a store, or into a fresh batch of that table which is then written).    *)
(* One snapshot slot, taken through either table.  `writes` in the action record is the set of    *)
(* raw keys the call hands to the underlying store (the harness records them).                    *)
(* Compact(nil, nil) through a table changes nothing; the range it asks the underlying store for  *)
(* is recorded by the harness and judged by TableCompact.tla.                                    *)
EXTENDS KVDefs

CONSTANTS TKeys,       \* keys used through the tables (byte strings; includes the empty key)
          Vals,        \* values written through tables
          Noise,       \* further raw keys, written only directly
          RTKeys,      \* table keys whose raw keys are also written directly (subset of TKeys)
          Cfgs,        \* sequence of [p1, p2, nested]
          MaxBatch, MaxDepth,
          InitsOf(_),  \* designed initial states of a configuration: records [raw, bt, batch, bw, snap]
          TProbeKeys, TIterTable

RVAL == "r"            \* value of direct raw writes

VARIABLES cfg,    \* index into Cfgs, never changes
          raw,    \* [RawKeys(cfg) -> Vals \cup {RVAL, NONE}]
          bt,     \* 0 = no batch object, else the table that created it
          batch, bw,
          snap,   \* [live, t, rawv]: snapshot taken through table t when the store held rawv
          steps, act

vars == <<cfg, raw, bt, batch, bw, snap, steps, act>>
View == <<cfg, raw, bt, batch, bw, snap>>

\* cached aliases of overridden constants (see KV.tla)
CfgSeq == Cfgs
TKeySet == TKeys
NoiseSet == Noise
RTKeySet == RTKeys
TITab == TIterTable
TProbes == TProbeKeys
CfgIds == DOMAIN CfgSeq

P(c, t) == IF t = 1 THEN CfgSeq[c].p1 ELSE CfgSeq[c].p2
RawKeysOf == [c \in CfgIds |-> {P(c, t) \o k : t \in 1..2, k \in TKeySet} \cup NoiseSet]
SortedRaw == [c \in CfgIds |-> SortKeys(RawKeysOf[c])]
\* the keys a table can show: the raw keys with its prefix, stripped
TDomOf == [c \in CfgIds |-> [t \in 1..2 |-> {StripPrefix(rk, P(c, t)) : rk \in {r \in RawKeysOf[c] : HasPrefix(r, P(c, t))}}]]
SortedT == [c \in CfgIds |-> [t \in 1..2 |-> SortKeys(TDomOf[c][t])]]
\* raw keys that rput / rdel write directly
RawWritable == [c \in CfgIds |-> {P(c, t) \o k : t \in 1..2, k \in RTKeySet} \cup NoiseSet]
TRangeIdx == [c \in CfgIds |-> [t \in 1..2 |-> RangeIndex(SortedT[c][t], TITab)]]

\* the table view: restriction of the store to the prefix, prefix stripped
TView(c, rawv, t) == [k \in TDomOf[c][t] |-> rawv[P(c, t) \o k]]
\* prefixes that are not prefixes of one another
Independent(c) == ~HasPrefix(P(c, 1), P(c, 2)) /\ ~HasPrefix(P(c, 2), P(c, 1))

EmptyRaw(c) == [rk \in RawKeysOf[c] |-> NONE]
NoSnapOf(c) == [live |-> FALSE, t |-> 1, rawv |-> EmptyRaw(c)]
EmptyStateOf(c) == [raw |-> EmptyRaw(c), bt |-> 0, batch |-> <<>>, bw |-> FALSE, snap |-> NoSnapOf(c)]
Cur == [raw |-> raw, bt |-> bt, batch |-> batch, bw |-> bw, snap |-> snap]

AbsOf(c, s) == [cfg |-> c, raw |-> ViewJ(SortedRaw[c], s.raw), bt |-> s.bt, batch |-> OpsJ(s.batch), bw |-> s.bw,
                snap |-> [live |-> s.snap.live, t |-> s.snap.t, view |-> ViewJ(SortedRaw[c], s.snap.rawv)]]
Abs == AbsOf(cfg, Cur)

TypeOK ==
  /\ cfg \in CfgIds /\ raw \in [RawKeysOf[cfg] -> Vals \cup {RVAL, NONE}]
  /\ bt \in 0..2 /\ Len(batch) <= MaxBatch /\ bw \in BOOLEAN /\ (bt = 0 => batch = <<>> /\ ~bw)
  /\ snap.live \in BOOLEAN /\ snap.t \in 1..2

Init ==
  /\ cfg \in CfgIds
  /\ \E s \in InitsOf(cfg) : raw = s.raw /\ bt = s.bt /\ batch = s.batch /\ bw = s.bw /\ snap = s.snap
  /\ steps = 0 /\ act = [op |-> "init"]

Step == steps < MaxDepth /\ steps' = steps + 1 /\ UNCHANGED cfg
PrefOps(ops, p) == [i \in DOMAIN ops |-> [ops[i] EXCEPT !.k = p \o @]]
StrSet(S) == {Str(k) : k \in S}

TPut(t, k, v) ==
  /\ Step /\ raw' = [raw EXCEPT ![P(cfg, t) \o k] = v] /\ UNCHANGED <<bt, batch, bw, snap>>
  /\ act' = [op |-> "tput", t |-> t, k |-> Str(k), v |-> v, writes |-> {Str(P(cfg, t) \o k)}]

TDelete(t, k) ==
  /\ Step /\ raw' = [raw EXCEPT ![P(cfg, t) \o k] = NONE] /\ UNCHANGED <<bt, batch, bw, snap>>
  /\ act' = [op |-> "tdel", t |-> t, k |-> Str(k), writes |-> {Str(P(cfg, t) \o k)}]

RPut(rk) ==
  /\ Step /\ raw' = [raw EXCEPT ![rk] = RVAL] /\ UNCHANGED <<bt, batch, bw, snap>>
  /\ act' = [op |-> "rput", k |-> Str(rk), v |-> RVAL, writes |-> {Str(rk)}]

RDelete(rk) ==
  /\ Step /\ raw' = [raw EXCEPT ![rk] = NONE] /\ UNCHANGED <<bt, batch, bw, snap>>
  /\ act' = [op |-> "rdel", k |-> Str(rk), writes |-> {Str(rk)}]

TBPut(t, k, v) ==
  /\ Step /\ bt \in {0, t} /\ ~bw /\ Len(batch) < MaxBatch
  /\ bt' = t /\ batch' = Append(batch, OpPut(k, v)) /\ UNCHANGED <<raw, bw, snap>>
  /\ act' = [op |-> "tbput", t |-> t, k |-> Str(k), v |-> v, writes |-> {}]

TBDelete(t, k) ==
  /\ Step /\ bt \in {0, t} /\ ~bw /\ Len(batch) < MaxBatch
  /\ bt' = t /\ batch' = Append(batch, OpDel(k)) /\ UNCHANGED <<raw, bw, snap>>
  /\ act' = [op |-> "tbdel", t |-> t, k |-> Str(k), writes |-> {}]

TBWrite ==
  /\ Step /\ bt # 0 /\ ~bw
  /\ raw' = ApplyOps(raw, PrefOps(batch, P(cfg, bt))) /\ bw' = TRUE /\ UNCHANGED <<bt, batch, snap>>
  /\ act' = [op |-> "tbwrite", writes |-> StrSet(OpKeys(PrefOps(batch, P(cfg, bt))))]

TBReset ==
  /\ Step /\ bt # 0 /\ (bw \/ batch # <<>>)
  /\ batch' = <<>> /\ bw' = FALSE /\ UNCHANGED <<raw, bt, snap>>
  /\ act' = [op |-> "tbreset", writes |-> {}]

\* the harness forgets the batch object; the next tbput creates a new one on its table
TBDrop ==
  /\ Step /\ bt # 0
  /\ bt' = 0 /\ batch' = <<>> /\ bw' = FALSE /\ UNCHANGED <<raw, snap>>
  /\ act' = [op |-> "tbdrop", writes |-> {}]

\* Replay of the batch (created on table bt) into table t2: as a store, or into a fresh batch of t2 then written
TBReplay(t2, target) ==
  /\ Step /\ bt # 0 /\ ~bw /\ batch # <<>>
  /\ raw' = ApplyOps(raw, PrefOps(batch, P(cfg, t2))) /\ UNCHANGED <<bt, batch, bw, snap>>
  /\ act' = [op |-> "tbreplay", t |-> t2, target |-> target, writes |-> StrSet(OpKeys(PrefOps(batch, P(cfg, t2))))]

TSnap(t) ==
  /\ Step /\ ~snap.live
  /\ snap' = [live |-> TRUE, t |-> t, rawv |-> raw] /\ UNCHANGED <<raw, bt, batch, bw>>
  /\ act' = [op |-> "tsnap", t |-> t, writes |-> {}]

TRelease ==
  /\ Step /\ snap.live
  /\ snap' = NoSnapOf(cfg) /\ UNCHANGED <<raw, bt, batch, bw>>
  /\ act' = [op |-> "trelease", writes |-> {}]

Compact(t) ==
  /\ Step /\ UNCHANGED <<raw, bt, batch, bw, snap>>
  /\ act' = [op |-> "compact", t |-> t, writes |-> {}]

Clear ==
  /\ Cur # EmptyStateOf(cfg)
  /\ raw' = EmptyRaw(cfg) /\ bt' = 0 /\ batch' = <<>> /\ bw' = FALSE /\ snap' = NoSnapOf(cfg)
  /\ steps' = 0 /\ UNCHANGED cfg /\ act' = [op |-> "clear"]

Goto(s) ==
  /\ Cur = EmptyStateOf(cfg) /\ s # EmptyStateOf(cfg)
  /\ raw' = s.raw /\ bt' = s.bt /\ batch' = s.batch /\ bw' = s.bw /\ snap' = s.snap
  /\ steps' = 0 /\ UNCHANGED cfg /\ act' = [op |-> "goto", state |-> AbsOf(cfg, s)]

Next ==
  \/ \E t \in 1..2, k \in TKeySet, v \in Vals : TPut(t, k, v) \/ TBPut(t, k, v)
  \/ \E t \in 1..2, k \in TKeySet : TDelete(t, k) \/ TBDelete(t, k)
  \/ \E rk \in RawWritable[cfg] : RPut(rk) \/ RDelete(rk)
  \/ TBWrite \/ TBReset \/ TBDrop
  \/ \E t \in 1..2, target \in {"store", "batch"} : TBReplay(t, target)
  \/ \E t \in 1..2 : TSnap(t) \/ Compact(t)
  \/ TRelease
  \/ Clear
  \/ \E s \in InitsOf(cfg) : Goto(s)

Spec == Init /\ [][Next]_vars

(* ---- the clauses of C24 at the level of the specification ---- *)
\* a table view is the part of the store with the prefix, prefix removed (a bijection on keys)
TableViewIsStrippedRestriction ==
  \A t \in 1..2 : LET p == P(cfg, t)  tv == TView(cfg, raw, t) IN
    /\ \A rk \in DOMAIN raw : HasPrefix(rk, p) => (StripPrefix(rk, p) \in DOMAIN tv /\ tv[StripPrefix(rk, p)] = raw[rk])
    /\ \A k \in DOMAIN tv : (p \o k) \in DOMAIN raw /\ HasPrefix(p \o k, p)
TableIterationIsOrderedRange ==
  \A t \in 1..2 : LET tv == TView(cfg, raw, t) IN
    \A i \in DOMAIN TITab : IterateCorrect(IterateIdx(TRangeIdx[cfg][t][i], tv), tv, TITab[i][1], TITab[i][2])
\* the table an action writes through (0 = none: direct raw writes, reads, ...)
WriterOf(a, owner) ==
  IF a.op \in {"tput", "tdel"} THEN a.t ELSE IF a.op = "tbwrite" THEN owner ELSE IF a.op = "tbreplay" THEN a.t ELSE 0
\* writes through a table touch only keys with its prefix
WritesStayInPrefix ==
  [][LET w == WriterOf(act', bt) IN
     w # 0 => \A rk \in DOMAIN raw : raw'[rk] # raw[rk] => HasPrefix(rk, P(cfg, w))]_vars
\* tables whose prefixes are not prefixes of one another never observe each other's writes
IndependentTablesIsolated ==
  [][LET w == WriterOf(act', bt) IN
     (w # 0 /\ Independent(cfg)) => TView(cfg, raw', 3 - w) = TView(cfg, raw, 3 - w)]_vars
\* a snapshot through a table is frozen
SnapshotFrozen == [][(snap.live /\ snap'.live) => snap' = snap]_vars
BatchIsBuffered == [][act'.op \in {"tbput", "tbdel", "tbreset", "tbdrop"} => raw' = raw]_vars
\* the obvious compaction range of a table covers its prefix
PrefixRangeCovers ==
  \A t \in 1..2 : LET p == P(cfg, t) IN CoversPrefix(p, FALSE, p, IncPrefix(p) = <<>>, IncPrefix(p))

(* ---- emission (pattern R): see KV.tla ---- *)
TableObs(c, rawv, t) == ReaderObs(TView(c, rawv, t), TProbes, TRangeIdx[c][t])
Obs == [raw    |-> ViewJ(SortedRaw[cfg], raw),
        tables |-> [t \in 1..2 |-> TableObs(cfg, raw, t)],
        snap   |-> IF snap.live THEN [live |-> TRUE, t |-> snap.t, view |-> TableObs(cfg, snap.rawv, snap.t)]
                                ELSE [live |-> FALSE]]
Emit == PrintT(<<"EDGE", ToJson([pre |-> View, act |-> act', post |-> View'])>>)
EmitState == PrintT(<<"EDGE", ToJson([key |-> View, state |-> Abs, obs |-> Obs])>>)
\* configuration handed to the harness
TableConfJ ==
  [probe |-> ConfJ(TProbes, TITab).probe, iters |-> ConfJ(TProbes, TITab).iters,
   cfgs  |-> [c \in CfgIds |-> [p1 |-> Str(CfgSeq[c].p1), p2 |-> Str(CfgSeq[c].p2), nested |-> CfgSeq[c].nested]]]
=============================================================================
