------------------------------ MODULE TableCompact ------------------------------
(* Trace specification for the last clause of C24: "compacting a whole table asks the underlying *)
(* store for a range covering every key with the table's prefix".  Each trace line is one         *)
(* Compact(nil, nil) issued through a real table, as seen by the recorder underneath:            *)
(*   {"op":"compact","prefix":[bytes],"startnil":b,"start":[bytes],"limitnil":b,"limit":[bytes]} *)
(* A line is accepted iff the recorded range [start, limit) covers the prefix (Bytes.tla,         *)
(* CoversPrefix: start <= prefix, and limit is absent or greater than every key with the prefix). *)
(* The exact bounds are left open, as the property leaves them open.                             *)
EXTENDS Bytes, TLC, Json, IOUtils

Trace == ndJsonDeserialize(IOEnv.TRACE)
VARIABLE l
T == Trace[l]

TInit == TLCSet(1, 1) /\ l = 1
TCompact ==
  /\ l <= Len(Trace) /\ T.op = "compact"
  /\ CoversPrefix(T.prefix, T.startnil, T.start, T.limitnil, T.limit)
  /\ l' = l + 1
TSpec == TInit /\ [][TCompact]_l

Mark == TLCSet(1, IF l > TLCGet(1) THEN l ELSE TLCGet(1))
Accepted == IF TLCGet(1) = Len(Trace) + 1 THEN PrintT(<<"ACCEPTED", Len(Trace)>>)
            ELSE PrintT(<<"REJECTED", TLCGet(1), ToJson(Trace[TLCGet(1)])>>)
=============================================================================
