------------------------------ MODULE FlushableIter ------------------------------
(* Trace specification for iterators of a flushable store that are held open while the store is   *)
(* written, flushed and dropped (C22, "iterators created before writes").  The property does not  *)
(* say which of the concurrent writes such an iterator sees, so this machine only demands what    *)
(* holds for every choice:                                                                        *)
(*   - yielded keys are strictly ascending, carry the iterator's prefix and are >= prefix o start *)
(*   - every yielded (key, value) pair was in the store's view at some moment between the         *)
(*     creation of the iterator and the yield                                                     *)
(*   - nothing panics (the recorder logs a panic as a line that no action accepts)                *)
(* Trace lines (keys are byte arrays, values strings), scenarios separated by "reset":            *)
(*   reset{under}  put{k,v}  del{k}  flush  drop  iter{id,prefix,start}  next{id,ok,k,v}  release{id} *)
EXTENDS Bytes, TLC, Json, IOUtils

Trace == ndJsonDeserialize(IOEnv.TRACE)
Ids == 1..3

VARIABLES l,      \* next trace line
          under,  \* underlying content: set of <<key, value>>
          view,   \* what the store shows: set of <<key, value>>
          its     \* [Ids -> [live, prefix, start, any, last, hist]]; hist = views since creation
tvars == <<l, under, view, its>>
T == Trace[l]
Is(op) == l <= Len(Trace) /\ T.op = op /\ l' = l + 1

Dead == [live |-> FALSE, prefix |-> <<>>, start |-> <<>>, any |-> FALSE, last |-> <<>>, hist |-> {}]
PutV(vw, k, v) == {p \in vw : p[1] # k} \cup {<<k, v>>}
DelV(vw, k) == {p \in vw : p[1] # k}
AsSet(pairs) == {<<pairs[i][1], pairs[i][2]>> : i \in DOMAIN pairs}
\* every live iterator may from now on also see the new view
Seen(vw) == [i \in Ids |-> IF its[i].live THEN [its[i] EXCEPT !.hist = @ \cup {vw}] ELSE its[i]]

TInit == TLCSet(1, 1) /\ l = 1 /\ under = {} /\ view = {} /\ its = [i \in Ids |-> Dead]

TReset == Is("reset") /\ under' = AsSet(T.under) /\ view' = AsSet(T.under) /\ its' = [i \in Ids |-> Dead]
TPut == Is("put") /\ view' = PutV(view, T.k, T.v) /\ its' = Seen(view') /\ UNCHANGED under
TDel == Is("del") /\ view' = DelV(view, T.k) /\ its' = Seen(view') /\ UNCHANGED under
TFlush == Is("flush") /\ under' = view /\ UNCHANGED <<view, its>>
TDrop == Is("drop") /\ view' = under /\ its' = Seen(view') /\ UNCHANGED under
TIter ==
  /\ Is("iter") /\ T.id \in Ids /\ ~its[T.id].live
  /\ its' = [its EXCEPT ![T.id] = [live |-> TRUE, prefix |-> T.prefix, start |-> T.start, any |-> FALSE,
                                    last |-> <<>>, hist |-> {view}]]
  /\ UNCHANGED <<under, view>>
TNext ==
  /\ Is("next") /\ T.id \in Ids /\ its[T.id].live
  /\ LET it == its[T.id] IN
     IF T.ok
     THEN /\ HasPrefix(T.k, it.prefix) /\ Leq(it.prefix \o it.start, T.k)
          /\ (it.any => Less(it.last, T.k))
          /\ \E h \in it.hist : <<T.k, T.v>> \in h
          /\ its' = [its EXCEPT ![T.id].any = TRUE, ![T.id].last = T.k]
     ELSE its' = its
  /\ UNCHANGED <<under, view>>
TRelease == Is("release") /\ T.id \in Ids /\ its' = [its EXCEPT ![T.id] = Dead] /\ UNCHANGED <<under, view>>

TNextStep == TReset \/ TPut \/ TDel \/ TFlush \/ TDrop \/ TIter \/ TNext \/ TRelease
TSpec == TInit /\ [][TNextStep]_tvars

Mark == TLCSet(1, IF l > TLCGet(1) THEN l ELSE TLCGet(1))
Accepted == IF TLCGet(1) = Len(Trace) + 1 THEN PrintT(<<"ACCEPTED", Len(Trace)>>)
            ELSE PrintT(<<"REJECTED", TLCGet(1), ToJson(Trace[TLCGet(1)])>>)
=============================================================================
