------------------------------ MODULE Flushable ------------------------------
(* Flushable store (C22): an underlying ordered map `under` plus the overlay `over` of the writes *)
(* made since the last Flush / DropNotFlushed.  The overlay is a partial map: its domain is the   *)
(* set of keys written since then, a deleted key carries the tombstone TOMB.                     *)
(*                                                                                               *)
(*   reads, Has and iteration see   View = under overlaid with over                              *)
(*   Flush                          under' = View, over' = empty                                 *)
(*   DropNotFlushed                 over' = empty (View' = under)                                *)
(*   NotFlushedPairs                |DOMAIN over|                                                *)
(*   snapshot                       a frozen copy of View                                        *)
(*                                                                                               *)
(* The ghost variables `gview` / `gdirty` restate the property without an overlay: gview is the   *)
(* map as a plain KV store would hold it, gdirty the set of distinct keys written since the last  *)
(* flush or drop.  The invariants tie the two formulations together.                             *)
(* Batches, snapshots, `clear`/`goto`, depth bound and emission are as in KV.tla.                *)
(*                                                                                               *)
(* A batch is a buffer of its own: Write copies its operations into the overlay, Reset empties    *)
(* the buffer, and whatever is queued on the SAME batch object afterwards changes nothing that    *)
(* the store, its snapshots or the underlying store show until the next Write.  `bprev` records   *)
(* that the store's one long-lived batch object has been through Write and Reset since the last   *)
(* Flush / DropNotFlushed (what it wrote may still sit unflushed in the overlay).  It has no      *)
(* influence on any other variable; it makes the reuse histories Put.. Write Reset Put.. distinct *)
(* states of the graph (the harness realises such a state by writing the overlay through that     *)
(* very batch object) and lets `ReusedBatchIsBuffered` name the clause.                           *)
EXTENDS KVDefs

CONSTANTS Keys, Vals, BKeys, BVals, MaxBatch, MaxSnaps, MaxDepth,
          Inits,       \* designed initial states: records [under, over, batch, bw, snaps]
          ProbeKeys, IterTable

TOMB == "x"          \* overlay entry of a deleted key; not a value

VARIABLES under,  \* [Keys -> Vals \cup BVals \cup {NONE}]
          over,   \* [written keys -> Vals \cup {TOMB}]
          batch, bw, snaps,
          bprev,  \* the batch object has been written and reset since the last flush / drop
          gview, gdirty,   \* ghosts
          steps, act

vars == <<under, over, batch, bw, snaps, bprev, gview, gdirty, steps, act>>
View == <<under, over, batch, bw, snaps, bprev>>

\* TLC re-evaluates a constant that the configuration overrides (`<-`) at every reference; these
\* zero-arity aliases are evaluated once
KeySet == Keys
ITab == IterTable
Probes == ProbeKeys
InitSet == Inits
EmptyView == [k \in KeySet |-> NONE]
SortedKeys == SortKeys(KeySet)     \* the key universe in ascending order, computed once
RangeIdx == RangeIndex(SortedKeys, ITab)
EmptyOver == [k \in {} |-> TOMB]
NoSnap == [live |-> FALSE, view |-> EmptyView]
EmptyState == [under |-> EmptyView, over |-> EmptyOver, batch |-> <<>>, bw |-> FALSE,
               snaps |-> [i \in 1..MaxSnaps |-> NoSnap], bprev |-> FALSE]
Cur == [under |-> under, over |-> over, batch |-> batch, bw |-> bw, snaps |-> snaps, bprev |-> bprev]

\* the underlying map overlaid with the unflushed writes
Overlay(u, o) == [k \in KeySet |-> IF k \in DOMAIN o THEN (IF o[k] = TOMB THEN NONE ELSE o[k]) ELSE u[k]]
Seen == Overlay(under, over)
NotFlushedPairs == Cardinality(DOMAIN over)

Write1(o, k, x) == [j \in DOMAIN o \cup {k} |-> IF j = k THEN x ELSE o[j]]
OverOp(o, op) == Write1(o, op.k, IF op.t = "del" THEN TOMB ELSE op.v)
RECURSIVE OverOps(_, _)
OverOps(o, ops) == IF ops = <<>> THEN o ELSE OverOps(OverOp(o, Head(ops)), Tail(ops))

OverJ(o) == LET ks == SelectSeq(SortedKeys, LAMBDA k : k \in DOMAIN o) IN [i \in DOMAIN ks |-> <<Str(ks[i]), o[ks[i]]>>]
AbsOf(s) == [under |-> ViewJ(SortedKeys, s.under), over |-> OverJ(s.over), batch |-> OpsJ(s.batch), bw |-> s.bw, bprev |-> s.bprev,
             snaps |-> [i \in 1..MaxSnaps |-> [live |-> s.snaps[i].live, view |-> ViewJ(SortedKeys, s.snaps[i].view)]]]
Abs == AbsOf(Cur)

TypeOK ==
  /\ under \in [Keys -> Vals \cup BVals \cup {NONE}]
  /\ DOMAIN over \subseteq Keys /\ \A k \in DOMAIN over : over[k] \in Vals \cup BVals \cup {TOMB}
  /\ Len(batch) <= MaxBatch /\ bw \in BOOLEAN /\ bprev \in BOOLEAN
  /\ \A i \in 1..MaxSnaps : snaps[i].live \in BOOLEAN /\ snaps[i].view \in [Keys -> Vals \cup BVals \cup {NONE}]

Init ==
  /\ \E s \in InitSet : /\ under = s.under /\ over = s.over /\ batch = s.batch /\ bw = s.bw /\ snaps = s.snaps /\ bprev = s.bprev
                      /\ gview = Overlay(s.under, s.over) /\ gdirty = DOMAIN s.over
  /\ steps = 0 /\ act = [op |-> "init"]

Step == steps < MaxDepth /\ steps' = steps + 1

Put(k, v) ==
  /\ Step /\ over' = Write1(over, k, v) /\ UNCHANGED <<under, batch, bw, snaps, bprev>>
  /\ gview' = [gview EXCEPT ![k] = v] /\ gdirty' = gdirty \cup {k}
  /\ act' = [op |-> "put", k |-> Str(k), v |-> v]

Delete(k) ==
  /\ Step /\ over' = Write1(over, k, TOMB) /\ UNCHANGED <<under, batch, bw, snaps, bprev>>
  /\ gview' = [gview EXCEPT ![k] = NONE] /\ gdirty' = gdirty \cup {k}
  /\ act' = [op |-> "del", k |-> Str(k)]

BPut(k, v) ==
  /\ Step /\ ~bw /\ Len(batch) < MaxBatch
  /\ batch' = Append(batch, OpPut(k, v)) /\ UNCHANGED <<under, over, bw, snaps, bprev, gview, gdirty>>
  /\ act' = [op |-> "bput", k |-> Str(k), v |-> v]

BDelete(k) ==
  /\ Step /\ ~bw /\ Len(batch) < MaxBatch
  /\ batch' = Append(batch, OpDel(k)) /\ UNCHANGED <<under, over, bw, snaps, bprev, gview, gdirty>>
  /\ act' = [op |-> "bdel", k |-> Str(k)]

BWrite ==
  /\ Step /\ ~bw
  /\ over' = OverOps(over, batch) /\ bw' = TRUE /\ UNCHANGED <<under, batch, snaps, bprev>>
  /\ gview' = ApplyOps(gview, batch) /\ gdirty' = gdirty \cup OpKeys(batch)
  /\ act' = [op |-> "bwrite"]

BReset ==
  /\ Step /\ (bw \/ batch # <<>>)
  /\ batch' = <<>> /\ bw' = FALSE /\ UNCHANGED <<under, over, snaps, gview, gdirty>>
  /\ bprev' = (bprev \/ (bw /\ batch # <<>>))
  /\ act' = [op |-> "breset"]

BReplay(target) ==
  /\ Step /\ ~bw /\ batch # <<>>
  /\ over' = OverOps(over, batch) /\ UNCHANGED <<under, batch, bw, snaps, bprev>>
  /\ gview' = ApplyOps(gview, batch) /\ gdirty' = gdirty \cup OpKeys(batch)
  /\ act' = [op |-> "breplay", target |-> target]

Flush ==
  /\ Step /\ under' = Seen /\ over' = EmptyOver /\ UNCHANGED <<batch, bw, snaps, gview>>
  /\ gdirty' = {} /\ bprev' = FALSE
  /\ act' = [op |-> "flush"]

DropNotFlushed ==
  /\ Step /\ over' = EmptyOver /\ UNCHANGED <<under, batch, bw, snaps>>
  /\ gview' = under /\ gdirty' = {} /\ bprev' = FALSE
  /\ act' = [op |-> "drop"]

Snap(i) ==
  /\ Step /\ ~snaps[i].live
  /\ snaps' = [snaps EXCEPT ![i] = [live |-> TRUE, view |-> Seen]]
  /\ UNCHANGED <<under, over, batch, bw, bprev, gview, gdirty>>
  /\ act' = [op |-> "snap", i |-> i]

Release(i) ==
  /\ Step /\ snaps[i].live
  /\ snaps' = [snaps EXCEPT ![i] = NoSnap] /\ UNCHANGED <<under, over, batch, bw, bprev, gview, gdirty>>
  /\ act' = [op |-> "release", i |-> i]

Clear ==
  /\ Cur # EmptyState
  /\ under' = EmptyView /\ over' = EmptyOver /\ batch' = <<>> /\ bw' = FALSE /\ snaps' = EmptyState.snaps
  /\ gview' = EmptyView /\ gdirty' = {} /\ bprev' = FALSE
  /\ steps' = 0 /\ act' = [op |-> "clear"]

Goto(s) ==
  /\ Cur = EmptyState /\ s # EmptyState
  /\ under' = s.under /\ over' = s.over /\ batch' = s.batch /\ bw' = s.bw /\ snaps' = s.snaps /\ bprev' = s.bprev
  /\ gview' = Overlay(s.under, s.over) /\ gdirty' = DOMAIN s.over
  /\ steps' = 0 /\ act' = [op |-> "goto", state |-> AbsOf(s)]

Next ==
  \/ \E k \in Keys, v \in Vals : Put(k, v)
  \/ \E k \in Keys : Delete(k)
  \/ \E k \in BKeys, v \in BVals : BPut(k, v)
  \/ \E k \in BKeys : BDelete(k)
  \/ BWrite \/ BReset \/ BReplay("store") \/ BReplay("batch")
  \/ Flush \/ DropNotFlushed
  \/ \E i \in 1..MaxSnaps : Snap(i) \/ Release(i)
  \/ Clear
  \/ \E s \in InitSet : Goto(s)

Spec == Init /\ [][Next]_vars

(* ---- the clauses of C22 at the level of the specification ---- *)
\* the store reads as the underlying store overlaid with the writes made since the last flush or drop
ViewIsOverlay == Seen = gview
\* the reported number of unflushed keys = number of distinct keys written since then
UnflushedCountsDistinctKeys == DOMAIN over = gdirty /\ NotFlushedPairs = Cardinality(gdirty)
IterationIsOrderedRange ==
  LET seen == Seen IN
  \A i \in DOMAIN ITab : IterateCorrect(IterateIdx(RangeIdx[i], seen), seen, ITab[i][1], ITab[i][2])
\* flushing makes the underlying store equal to the view, empties the overlay and is invisible to readers
FlushMakesUnderTheView ==
  [][act'.op = "flush" => (under' = gview /\ over' = EmptyOver /\ Overlay(under', over') = Seen)]_vars
\* dropping restores the underlying view
DropRestoresUnder ==
  [][act'.op = "drop" => (under' = under /\ Overlay(under', over') = under /\ over' = EmptyOver)]_vars
\* nothing but a flush changes the underlying store
OnlyFlushWritesUnder == [][act'.op \notin {"flush", "clear", "goto"} => under' = under]_vars
\* snapshots are unaffected by later writes, flushes and drops
SnapshotsFrozen ==
  [][\A i \in 1..MaxSnaps : (snaps[i].live /\ snaps'[i].live) => snaps'[i].view = snaps[i].view]_vars
SnapshotIsCopy == [][\A i \in 1..MaxSnaps : act'.op = "snap" /\ act'.i = i => snaps'[i].view = gview]_vars
BatchIsBuffered == [][act'.op \in {"bput", "bdel", "breset"} => (over' = over /\ under' = under /\ snaps' = snaps)]_vars
\* ... also when the batch object has been written and reset before: what it wrote earlier stays as written
\* (reads, iteration, snapshots and the underlying store are unchanged) until its next Write
ReusedBatchIsBuffered ==
  [][(bprev /\ act'.op \in {"bput", "bdel"}) =>
       (Overlay(under', over') = Seen /\ snaps' = snaps /\ under' = under /\ NotFlushedPairs = Cardinality(DOMAIN over'))]_vars

(* ---- emission (pattern R): see KV.tla ---- *)
StoreObs(view) == ReaderObs(view, Probes, RangeIdx)
Obs == [view  |-> LET seen == Seen IN StoreObs(seen),
        nfp   |-> NotFlushedPairs,
        under |-> ViewJ(SortedKeys, under),
        snaps |-> [i \in 1..MaxSnaps |-> IF snaps[i].live THEN [live |-> TRUE, view |-> StoreObs(snaps[i].view)]
                                                        ELSE [live |-> FALSE]]]
Emit == PrintT(<<"EDGE", ToJson([pre |-> View, act |-> act', post |-> View'])>>)
EmitState == PrintT(<<"EDGE", ToJson([key |-> View, state |-> Abs, obs |-> Obs])>>)
=============================================================================
