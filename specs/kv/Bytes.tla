------------------------------ MODULE Bytes ------------------------------
(* Byte strings, as the key-value stores of kvdb see them.  A byte string is a finite sequence  *)
(* of byte values 0..255.  The models use a four-symbol alphabet chosen to collide on prefixes  *)
(* and to sit on the boundaries that prefix arithmetic has to get right:                         *)
(*      0 = 0x00 (smallest byte), 97 = 'a', 98 = 'b' (the successor of 'a'), 255 = 0xff.          *)
(* Everything here is written from the meaning of "binary-alphabetical order", "key prefix"      *)
(* and "start key" in the kvdb interface, not from any implementation.                           *)
EXTENDS Integers, Sequences, FiniteSets

B0 == 0
Ba == 97
Bb == 98
BF == 255
Alphabet == {B0, Ba, Bb, BF}

(* ---- order ---- *)
\* strict lexicographic ("binary-alphabetical") order; a proper prefix sorts first
RECURSIVE Less(_, _)
Less(x, y) ==
  IF y = <<>> THEN FALSE
  ELSE IF x = <<>> THEN TRUE
  ELSE IF Head(x) # Head(y) THEN Head(x) < Head(y)
  ELSE Less(Tail(x), Tail(y))
Leq(x, y) == x = y \/ Less(x, y)

HasPrefix(k, p) == Len(p) <= Len(k) /\ SubSeq(k, 1, Len(p)) = p
StripPrefix(k, p) == SubSeq(k, Len(p) + 1, Len(k))

\* the ascending sequence of a finite set of byte strings
MinOf(S) == CHOOSE m \in S : \A x \in S : Leq(m, x)
RECURSIVE SortKeys(_)
SortKeys(S) == IF S = {} THEN <<>> ELSE LET m == MinOf(S) IN <<m>> \o SortKeys(S \ {m})

(* ---- ranges ---- *)
\* an iteration with (prefix, start) covers exactly the keys k with prefix [= k and k >= prefix o start
InRange(k, prefix, start) == HasPrefix(k, prefix) /\ Leq(prefix \o start, k)
\* Range over a set of present keys: ascending keys inside the (prefix, start) range
RangeKeys(S, prefix, start) == SortKeys({k \in S : InRange(k, prefix, start)})
\* Range over a view (a function from keys to values, `absent` marking missing keys):
\* the ascending sequence of <<key, value>> pairs
Range(view, absent, prefix, start) ==
  LET ks == RangeKeys({k \in DOMAIN view : view[k] # absent}, prefix, start)
  IN  [i \in 1..Len(ks) |-> <<ks[i], view[ks[i]]>>]
\* the same, given the ascending sequence `sorted` of DOMAIN view (models sort their key universe once)
RangeOfSorted(sorted, view, absent, prefix, start) ==
  LET ks == SelectSeq(sorted, LAMBDA k : view[k] # absent /\ InRange(k, prefix, start))
  IN  [i \in 1..Len(ks) |-> <<ks[i], view[ks[i]]>>]

(* ---- prefix successor ---- *)
\* the smallest byte string that is greater than every string having prefix p;
\* <<>> stands for "there is none" (p empty or all 0xff): only "no upper bound" covers the prefix
RECURSIVE IncPrefix(_)
IncPrefix(p) ==
  IF p = <<>> THEN <<>>
  ELSE IF p[Len(p)] < 255 THEN [p EXCEPT ![Len(p)] = @ + 1]
  ELSE IncPrefix(SubSeq(p, 1, Len(p) - 1))

\* a key range [start, limit) (noStart / noLimit = unbounded on that side) covers every key with prefix p
CoversPrefix(p, noStart, start, noLimit, limit) ==
  /\ noStart \/ Leq(start, p)
  /\ noLimit \/ (Less(p, limit) /\ ~HasPrefix(limit, p))

(* ---- printing: one character per byte of the alphabet ---- *)
ByteChar(b) == CASE b = 0 -> "0" [] b = 97 -> "a" [] b = 98 -> "b" [] b = 255 -> "F" [] OTHER -> "?"
RECURSIVE Str(_)
Str(k) == IF k = <<>> THEN "" ELSE ByteChar(Head(k)) \o Str(Tail(k))

(* ---- self-checks, evaluated by TLC when a model is loaded ---- *)
AllStrings(n) == UNION {[1..m -> Alphabet] : m \in 0..n}
BytesSelfCheck ==
  LET U == AllStrings(2) IN
  /\ \A x, y \in U : (Less(x, y) \/ Less(y, x) \/ x = y) /\ ~(Less(x, y) /\ Less(y, x))
  /\ \A x, y, z \in U : Less(x, y) /\ Less(y, z) => Less(x, z)
  /\ \A x \in U, p \in U : HasPrefix(x, p) => Leq(p, x)
  /\ LET s == SortKeys(U) IN Len(s) = Cardinality(U) /\ \A i \in 1..(Len(s) - 1) : Less(s[i], s[i + 1])
  \* IncPrefix(p) bounds exactly the keys with prefix p from above
  /\ \A p \in U \ {<<>>} : LET q == IncPrefix(p) IN
       IF q = <<>> THEN \A i \in 1..Len(p) : p[i] = 255
       ELSE /\ \A x \in AllStrings(3) : HasPrefix(x, p) => Less(x, q)
            /\ CoversPrefix(p, FALSE, p, FALSE, q)
  \* CoversPrefix is sound: a covered prefix has all its keys inside [start, limit)
  /\ \A p \in U, l \in U : CoversPrefix(p, TRUE, <<>>, FALSE, l) =>
       \A x \in AllStrings(3) : HasPrefix(x, p) => Less(x, l)
=============================================================================
