CONSTANTS
  Keys <- Keys7  Vals <- Vals2  BKeys <- Keys7  BVals <- BVals3
  MaxBatch = 4  MaxSnaps = 2  MaxDepth = 1000000
  Inits <- InitsKV  ProbeKeys <- Probe  IterTable <- IterTab
SPECIFICATION Spec
INVARIANTS TypeOK IterationIsOrderedRange EmitState
VIEW View
ACTION_CONSTRAINT Emit
CHECK_DEADLOCK FALSE
