CONSTANTS
  TKeys <- TKeys4  Vals <- Vals2  Noise <- Noise3  RTKeys <- TKeys4  Cfgs <- Cfgs9
  MaxBatch = 2  MaxDepth = 2
  InitsOf <- InitsT  TProbeKeys <- TProbe  TIterTable <- TIterTab
SPECIFICATION Spec
INVARIANTS TypeOK TableViewIsStrippedRestriction TableIterationIsOrderedRange PrefixRangeCovers EmitState
PROPERTIES WritesStayInPrefix IndependentTablesIsolated SnapshotFrozen BatchIsBuffered
VIEW View
ACTION_CONSTRAINT Emit
CHECK_DEADLOCK FALSE
