---- MODULE MC_FlushScen ----
EXTENDS FlushScen
DB2 == <<"A", "B">>
Key1 == <<"k1">>
Key2 == <<"k1", "k2">>
Val1 == {1}
Val2 == {1, 2}
====
