---- MODULE MC_FlushScen ----
EXTENDS FlushScen
DB2 == <<"A", "B">>
Key1 == <<"k1">>
Key3 == <<"k1", "k2", "k3">>
PutK1 == {"k1"}
PutK12 == {"k1", "k2"}
Val1 == {1}
ViaDirect == {"direct"}
ViaBoth == {"direct", "lbatch"}
Val2 == {1, 2}
====
