CONSTANTS Names = {"a", "b"} MaxSteps = 2 MaxFails = 0
SPECIFICATION Spec
INVARIANT EmitConc
VIEW View
CHECK_DEADLOCK FALSE
