---- MODULE MC_MultiDB ----
(* Routing-table grammar, request paths and bounds for MultiDB.tla.                               *)
EXTENDS MultiDB

\* --- routing queries: every table of the grammar, every request path
RouteTables == AllTables

\* --- open / restart / verify: tables without two patterns for the same literal, smaller request set
Unambiguous(t) == t["ep-%d"] = None \/ t["ep-%s"] = None
OpenTablesQ == {t \in AllTables : /\ Unambiguous(t) /\ t[""] = R("x", "m", <<>>) /\ t["lp-%d"] # None
                                   /\ t["g"] # R("y", "gdb", <<>>) /\ t["ep-%s"] # R("x", "e-", <<>>)}
OpenTablesT == {t \in AllTables : Unambiguous(t) /\ t["lp-%d"] # None /\ t["ep-%s"] # R("x", "e-", <<>>)}
OpenReqsQ == {<<S("g")>>, <<S("g"), S("t")>>, <<S("g"), S("u"), S("t")>>, <<S("g"), S("t"), S("u")>>, <<S("h"), S("t")>>,
              <<A("ep", "5")>>, <<A("ep", "5"), S("t")>>, <<A("lp", "5")>>, <<A("ep", "x")>>}
OpenReqsT == OpenReqsQ \cup {<<S("h")>>, <<A("lp", "5"), S("u")>>}
====
