------------------------------ MODULE MultiDB ------------------------------
(* Multi-database producer (kvdb/multidb), property C26.                                        *)
(*                                                                                               *)
(* A routing table maps request keys to routes [type, name, table].  Keys are the default key    *)
(* "", exact request paths ("g", "g/t") and scanf patterns "lit-%d" / "lit-%s".  A request is a   *)
(* path of segments; RouteOf picks the route of the longest prefix of the path that has a route: *)
(* an exact key wins over patterns at the same prefix, and where several patterns match the same *)
(* prefix the statement only asks for a deterministic choice, so the specification keeps the     *)
(* *set* of candidates (Cands).  The unmatched rest of the path is appended to the table         *)
(* (innermost segment first, as RouteOf publicly returns it); a path without any matching key    *)
(* goes to the default route with its first segment appended to the database name.               *)
(* Pattern matching follows fmt.Sscanf, which CompileFilter is defined by: the literal part must *)
(* match, %d takes the digits, %s takes everything up to white space, trailing input is ignored  *)
(* (so a pattern that matches the first segment matches every path starting with it).            *)
(*                                                                                               *)
(* Each database keeps the records (request, table) of the requests opened in it; a request      *)
(* whose table is a prefix of, or has as prefix, the table of another recorded request of the    *)
(* same database is refused.  Verify under a routing table holds iff every recorded request      *)
(* still routes to the same type, name and table.                                                *)
(*                                                                                               *)
(* Strings that need prefix tests (tables, keys inside a database) are sequences of one-letter   *)
(* strings; the harness joins them.  `hist` (the successful calls so far) is part of the state   *)
(* so that the harness can rebuild any pre-state; `act` is output only.                          *)
EXTENDS Integers, Sequences, FiniteSets, TLC, Json, MultiDBGrammar

\* from MultiDBGrammar: KeyDefs (route key (Go string) -> [kind |-> "default"] | [kind |-> "exact", path] |
\* [kind |-> "pat", lit, verb]), Options (route key -> the routes the grammar offers for it), None, Nums,
\* AllTables, AllReqs
CONSTANTS Tables,       \* the routing tables explored (subset of AllTables)
          Reqs,         \* the request paths explored (subset of AllReqs)
          MaxOpens      \* bound on OpenDB calls per behaviour (0: routing queries only)

VARIABLES rt, recs, live, cells, hist, act
vars == <<rt, recs, live, cells, hist, act>>
View == <<rt, recs, live, cells, hist>>

Keys == DOMAIN KeyDefs

(* ---------------- strings ---------------- *)
SegStr(s) == IF s.arg = "" THEN s.lit ELSE s.lit \o "-" \o s.arg
RECURSIVE JoinPath(_)
JoinPath(p) == IF p = <<>> THEN "" ELSE IF Len(p) = 1 THEN SegStr(p[1]) ELSE SegStr(p[1]) \o "/" \o JoinPath(Tail(p))
\* the segments after position j, innermost first, as table letters
RECURSIVE RevTokens(_, _)
RevTokens(p, j) == IF Len(p) <= j THEN <<>> ELSE <<SegStr(p[Len(p)])>> \o RevTokens(SubSeq(p, 1, Len(p) - 1), j)
IsPrefix(a, b) == Len(a) <= Len(b) /\ SubSeq(b, 1, Len(a)) = a
GoName(k, r) == IF KeyDefs[k].kind = "pat" THEN r.name \o "%" \o KeyDefs[k].verb ELSE r.name

(* ---------------- routing ---------------- *)
Present(t) == {k \in Keys : t[k] # None}
ExactKeys(t, q) == {k \in Present(t) : KeyDefs[k].kind = "exact" /\ KeyDefs[k].path = q}
\* Sscanf(q, "lit-%verb"): literal part, then the verb; whatever follows in q is ignored
PatKeys(t, q) == {k \in Present(t) : /\ KeyDefs[k].kind = "pat"
                                      /\ q[1].lit = KeyDefs[k].lit /\ q[1].arg # ""
                                      /\ (KeyDefs[k].verb = "d" => q[1].arg \in Nums)}
PatName(k, r, q) == IF KeyDefs[k].verb = "d" THEN r.name \o q[1].arg
                    ELSE r.name \o q[1].arg \o (IF Len(q) = 1 THEN "" ELSE "/" \o JoinPath(Tail(q)))
RECURSIVE Resolve(_, _, _)
Resolve(t, p, j) ==
  IF j = 0
  THEN {[type |-> t[""].type, name |-> t[""].name \o (IF p = <<>> THEN "" ELSE SegStr(p[1])),
         table |-> t[""].table \o RevTokens(p, 1)]}
  ELSE LET q == SubSeq(p, 1, j) IN
       IF ExactKeys(t, q) # {}
       THEN {[type |-> t[k].type, name |-> t[k].name, table |-> t[k].table \o RevTokens(p, j)] : k \in ExactKeys(t, q)}
       ELSE IF PatKeys(t, q) # {}
       THEN {[type |-> t[k].type, name |-> PatName(k, t[k], q), table |-> t[k].table \o RevTokens(p, j)] : k \in PatKeys(t, q)}
       ELSE Resolve(t, p, j - 1)
\* the candidate routes of request path p under routing table t (tabulated once over the grammar)
CandTab == [t \in AllTables |-> [p \in AllReqs |-> Resolve(t, p, Len(p))]]
Cands(t, p) == CandTab[t][p]
Determined(t, p) == Cardinality(Cands(t, p)) = 1
RouteOf(t, p) == CHOOSE r \in Cands(t, p) : TRUE

(* ---------------- state ---------------- *)
RtJson(t) == [k \in Present(t) |-> [type |-> t[k].type, name |-> GoName(k, t[k]), table |-> t[k].table]]
Abs == [rt |-> RtJson(rt), hist |-> hist]

Init == /\ rt \in Tables
        /\ recs = {}        \* [type, name, req (path), table]
        /\ live = {}        \* request paths with a store handed out in this process
        /\ cells = {}       \* [type, name, key (letters), v]
        /\ hist = <<>>
        /\ act = [op |-> "init"]

Opens == Cardinality({i \in 1..Len(hist) : hist[i].op = "open"})
Restarts == Cardinality({i \in 1..Len(hist) : hist[i].op = "restart"})

\* RouteOf(req) asked from many producer instances built from the same table, and after a restart:
\* one answer (distinct = 1), and it is one of the candidates
Route(p) ==
  /\ hist = <<>>
  /\ UNCHANGED <<rt, recs, live, cells, hist>>
  /\ act' = [op |-> "route", req |-> JoinPath(p), cands |-> Cands(rt, p), res |-> [distinct |-> 1, member |-> TRUE]]

Conflicting(a, b) == IsPrefix(a, b) \/ IsPrefix(b, a)
SameDB(x, r) == x.type = r.type /\ x.name = r.name

\* OpenDB(req); on success the caller writes the key "m" with the request as value through the store
Open(p) ==
  /\ Opens < MaxOpens /\ Determined(rt, p)
  /\ LET r == RouteOf(rt, p)
         old == {x \in recs : SameDB(x, r)}
         known == \E x \in old : x.req = p /\ x.table = r.table
         refused == ~known /\ \E x \in old : x.req = p \/ Conflicting(x.table, r.table) IN
     /\ IF refused
        THEN UNCHANGED <<recs, live, cells>>
        ELSE /\ recs' = recs \cup {[type |-> r.type, name |-> r.name, req |-> p, table |-> r.table]}
             /\ live' = live \cup {p}
             /\ cells' = {c \in cells : ~(SameDB(c, r) /\ c.key = r.table \o <<"m">>)}
                           \cup {[type |-> r.type, name |-> r.name, key |-> r.table \o <<"m">>, v |-> JoinPath(p)]}
     /\ act' = [op |-> "open", req |-> JoinPath(p), res |-> [ok |-> ~refused, route |-> r]]
     /\ hist' = Append(hist, [op |-> "open", req |-> JoinPath(p)])
  /\ UNCHANGED rt

\* flush, stop, start again over the same databases with the same routing table
Restart ==
  /\ Restarts < 1 /\ MaxOpens > 0 /\ Opens < MaxOpens
  /\ live' = {}
  /\ UNCHANGED <<rt, recs, cells>>
  /\ act' = [op |-> "restart", res |-> [ok |-> TRUE]]
  /\ hist' = Append(hist, [op |-> "restart"])

\* a producer whose routing table differs from rt in (at most) the route of key k, over the same databases: Verify()
VerifyOK(t2) == \A x \in recs : Cands(t2, x.req) = {[type |-> x.type, name |-> x.name, table |-> x.table]}
Verify(k, o) ==
  LET t2 == [rt EXCEPT ![k] = o] IN
  /\ recs # {} /\ Restarts = 0
  /\ \A x \in recs : Determined(t2, x.req)
  /\ UNCHANGED <<rt, recs, live, cells, hist>>
  /\ act' = [op |-> "verify", rt2 |-> RtJson(t2), res |-> [ok |-> VerifyOK(t2)]]

Next == \/ \E p \in Reqs : Route(p) \/ Open(p)
        \/ Restart
        \/ \E k \in Keys : \E o \in Options[k] : Verify(k, o)
Spec == Init /\ [][Next]_vars

(* ---------------- what a store shows ---------------- *)
RecOf(p) == CHOOSE x \in recs : x.req = p
ViewOf(p) == LET x == RecOf(p) IN
  {[k |-> SubSeq(c.key, Len(x.table) + 1, Len(c.key)), v |-> c.v] : c \in {c \in cells : SameDB(c, x) /\ IsPrefix(x.table, c.key)}}
Obs == [views |-> [s \in {JoinPath(p) : p \in live} |-> ViewOf(CHOOSE p \in live : JoinPath(p) = s)]]

(* ---------------- the property (C26) on the specification ---------------- *)
\* stores opened for different requests never see each other's keys
Isolated == \A p \in live : ViewOf(p) = {[k |-> <<"m">>, v |-> JoinPath(p)]}
\* recorded tables of one database never overlap, and a request is recorded once
RecordsDisjoint == \A x, y \in recs : (x # y /\ SameDB(x, y)) => (~Conflicting(x.table, y.table) /\ x.req # y.req)
\* re-opening a recorded request (also after a restart) is accepted with the recorded database and table
ReopenStable == [][(act'.op = "open" /\ \E x \in recs : JoinPath(x.req) = act'.req) =>
                     /\ act'.res.ok
                     /\ \E x \in recs : /\ JoinPath(x.req) = act'.req /\ x.type = act'.res.route.type
                                        /\ x.name = act'.res.route.name /\ x.table = act'.res.route.table]_vars
\* verification under the unchanged table always holds
VerifySelf == VerifyOK(rt) \/ \E x \in recs : ~Determined(rt, x.req)

Emit == PrintT(<<"EDGE", ToJson([pre |-> Abs, act |-> act', post |-> Abs', obs |-> Obs'])>>)
=============================================================================
