--------------------------- MODULE FlaggedTrace ---------------------------
(* Trace specification for the crash-injection runs of the real flaggedproducer (C25).            *)
(* Same layout and same verdict rules as SyncedPoolTrace.tla: "reset", then application calls     *)
(* (open / put / flush / fdrop, each announced before it runs) interleaved with the durable       *)
(* operations the backend saw (create / dirty / data / clean / drop), then "restart" with the     *)
(* verdict of Initialize over the surviving databases and the surviving contents.  Effects are    *)
(* those of Flagged.tla; `conf` notes whether the protocol allowed each operation there.          *)
EXTENDS Flagged, Json, IOUtils

Trace == ndJsonDeserialize(IOEnv.TRACE)
VARIABLES l, conf, run, last,
          ref    \* flush id -> contents when Flush(id) returned in the run of this history without a crash
tvars == <<l, conf, run, last, ref, dur, opened, flag, cur, fid, hist, nw, ndrops, pc, res>>
T == Trace[l]
Is(op) == l <= Len(Trace) /\ T.op = op /\ l' = l + 1
Keep == run' = run /\ ref' = ref
Call(g) == conf' = (conf /\ g) /\ last' = last /\ Keep
Step(g, name) == conf' = (conf /\ g) /\ last' = name /\ Keep

TInit == /\ TLCSet(1, 1) /\ l = 1 /\ conf = TRUE /\ run = [scen |-> 0, crash |-> 0] /\ last = "none" /\ ref = <<>> /\ FInit

TReset == /\ Is("reset")
          /\ dur' = NoDBs /\ opened' = {} /\ flag' = [d \in DBs |-> FALSE] /\ cur' = IdleCall
          /\ fid' = 0 /\ hist' = <<>> /\ nw' = 0 /\ ndrops' = 0 /\ pc' = "run" /\ res' = [v |-> "-", id |-> 0]
          /\ conf' = TRUE /\ run' = [scen |-> T.scen, crash |-> T.crash] /\ last' = "none"
          \* the runs of one history follow its run without a crash, whose completed flushes are the reference
          /\ ref' = IF T.crash = 0 THEN <<>> ELSE ref

TOpen == Is("open") /\ BeginOpenE(T.db) /\ Call(BeginOpenG(T.db))
TPut == Is("put") /\ BeginWriteE(T.db, T.w) /\ Call(BeginWriteG(T.db, T.w))
TFlush == Is("flush") /\ BeginFlushE(T.id) /\ Call(Idle /\ T.id = fid + 1)
TFDrop == Is("fdrop") /\ BeginDropE(T.db) /\ Call(BeginDropG(T.db))

TCreate == Is("create") /\ DoCreateE(T.db) /\ Step(DoCreateG(T.db), "create")
TDirty == Is("dirty") /\ MarkDirtyE(T.db) /\ Step(MarkDirtyG(T.db), "dirty")
TData == Is("data") /\ WriteDataE(T.db, T.w) /\ Step(WriteDataG(T.db, T.w), "data")
TClean == Is("clean") /\ MarkCleanE(T.db, T.id) /\ Step(MarkCleanG(T.db, T.id), "clean")
TDrop == Is("drop") /\ DoDropE(T.db) /\ Step(DoDropG(T.db), "drop")

\* Flush(id) returned; if the recorded operations did not complete the flush in the
\* specification's books, it is taken as completed here
TFlushed == /\ Is("flushed")
            /\ IF cur.kind = "flush"
               THEN cur' = IdleCall /\ hist' = RecordFlush(hist, fid, dur)
               ELSE UNCHANGED <<cur, hist>>
            /\ UNCHANGED <<dur, opened, flag, fid, nw, ndrops, pc, res>>
            /\ conf' = (conf /\ cur.kind = "idle") /\ run' = run /\ last' = last
            /\ ref' = IF run.crash = 0 THEN RecordFlush(ref, T.id, dur) ELSE ref

Bound == \A d \in DBs : T.dbs[d].ex = dur[d].ex /\ T.dbs[d].mark = dur[d].mark /\ T.dbs[d].data = dur[d].data
TRestart ==
  /\ Is("restart") /\ Bound
  /\ LET r == [v |-> T.verdict, id |-> T.id]
         allowed == r \in Verdicts(dur)
         consistent == VerdictConsistent(dur, ref, r) IN
     /\ IF allowed /\ consistent THEN TRUE
        ELSE PrintT(<<"INCONSISTENT", ToJson([scen |-> run.scen, crash |-> run.crash, last |-> last, verdict |-> r,
                                             kind |-> IF allowed THEN "contents" ELSE "verdict",
                                             allowed |-> Verdicts(dur), line |-> l])>>)
     /\ IF conf THEN TRUE ELSE PrintT(<<"NONCONF", ToJson([scen |-> run.scen, crash |-> run.crash])>>)
  /\ UNCHANGED <<dur, opened, flag, cur, fid, hist, nw, ndrops, pc, res, conf, last>> /\ Keep

TNext == TReset \/ TOpen \/ TPut \/ TFlush \/ TFDrop \/ TCreate \/ TDirty \/ TData \/ TClean \/ TDrop \/ TFlushed \/ TRestart
TSpec == TInit /\ [][TNext]_tvars

Mark == TLCSet(1, IF l > TLCGet(1) THEN l ELSE TLCGet(1))
Accepted == IF TLCGet(1) = Len(Trace) + 1 THEN PrintT(<<"ACCEPTED", Len(Trace)>>)
            ELSE PrintT(<<"REJECTED", TLCGet(1), ToJson(Trace[TLCGet(1)])>>)
=============================================================================
