CONSTANTS DBs <- DB2 Keys <- Key1 Vals <- Val2 MaxFlush = 2 MaxDrops = 2 DropsFirst = TRUE
SPECIFICATION PSpec
INVARIANTS CrashConsistent
CHECK_DEADLOCK FALSE
