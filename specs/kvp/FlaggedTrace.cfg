CONSTANTS DBs = {"A", "B"} Keys = {"k1", "k2"} Vals = {1, 2} MaxFlush = 99 MaxDrops = 99 MaxWrites = 99 MarkOthers = TRUE
SPECIFICATION TSpec
CONSTRAINT Mark
POSTCONDITION Accepted
CHECK_DEADLOCK FALSE
