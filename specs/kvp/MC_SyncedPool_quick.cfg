CONSTANTS DBs <- DB2 Keys <- Key1 Vals <- Val2 MaxFlush = 2 MaxDrops = 2 DropsFirst = FALSE
SPECIFICATION PSpec
INVARIANTS CrashConsistent CrashConsistentEverywhere TypeOK
CHECK_DEADLOCK FALSE
