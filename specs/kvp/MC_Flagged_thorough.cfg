CONSTANTS DBs <- DB2 Keys <- Key2 Vals <- Val2 MaxFlush = 2 MaxDrops = 2 MaxWrites = 4 MarkOthers = TRUE
SPECIFICATION FSpec
INVARIANTS CrashConsistent CrashConsistentEverywhere FlagIsMark
CHECK_DEADLOCK FALSE
