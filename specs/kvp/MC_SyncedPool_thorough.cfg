CONSTANTS DBs <- DB2 Keys <- Key2 Vals <- Val1 MaxFlush = 2 MaxDrops = 2 DropsFirst = FALSE
SPECIFICATION PSpec
INVARIANTS CrashConsistent CrashConsistentEverywhere TypeOK
CHECK_DEADLOCK FALSE
