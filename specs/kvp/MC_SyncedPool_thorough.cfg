CONSTANTS DBs <- DB2 Keys <- Key2 Vals <- Val2 MaxFlush = 2 MaxDrops = 1 DropsFirst = FALSE
SPECIFICATION PSpec
INVARIANTS CrashConsistent CrashConsistentEverywhere TypeOK
CHECK_DEADLOCK FALSE
