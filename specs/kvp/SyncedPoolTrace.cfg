CONSTANTS DBs = {"A", "B"} Keys = {"k1", "k2", "k3"} Vals = {1, 2, 3} MaxFlush = 99 MaxDrops = 99 DropsFirst = FALSE
SPECIFICATION TSpec
CONSTRAINT Mark
POSTCONDITION Accepted
CHECK_DEADLOCK FALSE
