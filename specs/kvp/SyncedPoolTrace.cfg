CONSTANTS DBs = {"A", "B"} Keys = {"k1", "k2"} Vals = {1, 2} MaxFlush = 99 MaxDrops = 99 DropsFirst = FALSE
SPECIFICATION TSpec
CONSTRAINT Mark
POSTCONDITION Accepted
CHECK_DEADLOCK FALSE
