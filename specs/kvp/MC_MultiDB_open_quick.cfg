CONSTANTS Tables <- OpenTablesQ Reqs <- OpenReqsQ MaxOpens = 2
SPECIFICATION Spec
INVARIANTS Isolated RecordsDisjoint VerifySelf
PROPERTY ReopenStable
VIEW View
ACTION_CONSTRAINT Emit
CHECK_DEADLOCK FALSE
