------------------------------ MODULE FlushScen ------------------------------
(* Environment model for C25 (pattern S): TLC enumerates the application-level histories that     *)
(* are run, with a crash injected at every durable operation, on the real SyncedPool              *)
(* (Comp = "pool") and on the real flaggedproducer (Comp = "flagged").                            *)
(*   ops: open d | put d k v (v = 0: delete) | drop d | flush id                                  *)
(* Guards are those of the application calls of SyncedPool.tla / Flagged.tla: a database is       *)
(* written and dropped only while open (and, in the pool, not queued for dropping), a dropped     *)
(* database may be opened again.                                                                 *)
(* Canonical = TRUE (pool): the overlay makes the order of calls between two flushes irrelevant   *)
(* for the durable operations, so between two flushes the calls come in one fixed order           *)
(* (per database: open, puts by key, drop) and a key is written at most once; a history is        *)
(* complete at its MaxFlush-th flush.  Canonical = FALSE (flagged producer: every call is         *)
(* durable at once): every order, complete at MaxOps calls.  Every crash point of a prefix of a   *)
(* history is a crash point of the history, so only complete histories are emitted.              *)
EXTENDS Integers, Sequences, FiniteSets, TLC, Json

CONSTANTS Comp, DBSeq, KeySeq, Vals, MaxFlush, MaxDrops, MaxOps, Canonical
VARIABLES ops, opened, queued, nfl, ndr, rank
svars == <<ops, opened, queued, nfl, ndr, rank>>

NK == Len(KeySeq)
Base(i) == (i - 1) * (NK + 2)

Init == ops = <<>> /\ opened = {} /\ queued = {} /\ nfl = 0 /\ ndr = 0 /\ rank = -1

Room == Len(ops) < MaxOps
Ordered(r) == IF Canonical THEN r > rank ELSE TRUE

Open(i) == /\ Room /\ DBSeq[i] \notin opened /\ Ordered(Base(i))
           /\ ops' = Append(ops, [op |-> "open", db |-> DBSeq[i]])
           /\ opened' = opened \cup {DBSeq[i]} /\ rank' = Base(i)
           /\ UNCHANGED <<queued, nfl, ndr>>
Put(i, j, v) == /\ Room /\ DBSeq[i] \in opened \ queued /\ Ordered(Base(i) + j)
                /\ ops' = Append(ops, [op |-> "put", db |-> DBSeq[i], k |-> KeySeq[j], v |-> v])
                /\ rank' = Base(i) + j
                /\ UNCHANGED <<opened, queued, nfl, ndr>>
Drop(i) == /\ Room /\ DBSeq[i] \in opened \ queued /\ ndr < MaxDrops /\ Ordered(Base(i) + NK + 1)
           /\ ops' = Append(ops, [op |-> "drop", db |-> DBSeq[i]])
           /\ IF Comp = "pool" THEN queued' = queued \cup {DBSeq[i]} /\ opened' = opened
              ELSE opened' = opened \ {DBSeq[i]} /\ queued' = queued
           /\ ndr' = ndr + 1 /\ rank' = Base(i) + NK + 1
           /\ UNCHANGED nfl
Flush == /\ Room /\ nfl < MaxFlush
         /\ ops' = Append(ops, [op |-> "flush", id |-> nfl + 1])
         /\ nfl' = nfl + 1 /\ opened' = opened \ queued /\ queued' = {} /\ rank' = -1
         /\ UNCHANGED ndr

\* a pool history ends with its last flush (later calls are volatile only)
Complete == IF Canonical THEN nfl = MaxFlush ELSE Len(ops) = MaxOps
Next == /\ ~Complete
        /\ \/ \E i \in 1..Len(DBSeq) : Open(i) \/ Drop(i) \/ \E j \in 1..NK, v \in Vals \cup {0} : Put(i, j, v)
           \/ Flush
Spec == Init /\ [][Next]_svars

EmitScen == Complete => PrintT(<<"EDGE", ToJson([comp |-> Comp, ops |-> ops])>>)
=============================================================================
