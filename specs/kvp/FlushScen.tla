------------------------------ MODULE FlushScen ------------------------------
(* Environment model for C25 (pattern S): the application-level histories that are run, with a    *)
(* crash injected at every durable operation of their last call, on the real SyncedPool           *)
(* (Comp = "pool") and on the real flaggedproducer (Comp = "flagged").                            *)
(*   calls: open d | put d k v (v = 0: delete) | bput d (a large value under every key, so that   *)
(*          one flush of d spans several write batches) | drop d | flush id                       *)
(*   a put goes either directly to the store (via = "direct": Put/Delete or a one-shot batch) or  *)
(*   through the long-lived batch object of its database (via = "lbatch": one batch per open      *)
(*   store, reused with Reset, the usual Write+Reset pattern); whether that batch has been        *)
(*   written before (lb) is part of the state.                                                    *)
(* The model keeps, per database, what decides the durable operations of every later call:        *)
(* open / queued for dropping / closed, existence on disk, durable contents, the volatile         *)
(* overlay (pool), the dirty flag (flagged producer: set by a write and, in the protocol of       *)
(* Flagged.tla, on the other open databases by a drop), and the contents at the last flush.       *)
(* `ops` is the path by which TLC first reached the state; it is hidden from the VIEW, so the     *)
(* state graph is the finite graph of these abstract states, explored completely (no bound on     *)
(* the length of a history), and every transition of it is emitted once with the path to its      *)
(* pre-state: the history is path + call, and the crash points are the durable operations of      *)
(* the call (the crash points of the path are those of the transitions along it).                 *)
(* Every drop/flush situation (dropped database dirty or clean x others dirty or clean x          *)
(* contents at the last flush ...) is therefore covered by construction, not by sampling.         *)
(* For the pool only flushes perform durable operations, so only flush transitions are emitted;   *)
(* `cls` classifies the pre-state of a flush (used to stratify when a tier cannot run them all).  *)
EXTENDS Integers, Sequences, FiniteSets, TLC, Json

CONSTANTS Comp, DBSeq, KeySeq, PutKeys, Vals, Vias, Big, MaxFlush, MaxDrops, MaxBulk
VARIABLES ops, st, nfl, ndr, nbulk, act
svars == <<ops, st, nfl, ndr, nbulk, act>>
View == <<st, nfl, ndr, nbulk>>

DBs == {DBSeq[i] : i \in 1..Len(DBSeq)}
Keys == {KeySeq[i] : i \in 1..Len(KeySeq)}
U == -1
Empty == [k \in Keys |-> 0]
NoOvl == [k \in Keys |-> U]
Closed == [mode |-> "closed", ex |-> FALSE, cont |-> Empty, ovl |-> NoOvl, dirty |-> FALSE, last |-> Empty, lb |-> FALSE]

Init == ops = <<>> /\ st = [d \in DBs |-> Closed] /\ nfl = 0 /\ ndr = 0 /\ nbulk = 0 /\ act = [op |-> "init"]

Do(a) == ops' = Append(ops, a) /\ act' = a

Open(d) == /\ st[d].mode = "closed"
           /\ st' = [st EXCEPT ![d].mode = "open", ![d].ovl = NoOvl, ![d].dirty = FALSE, ![d].lb = FALSE,
                               ![d].ex = IF Comp = "flagged" THEN TRUE ELSE @]
           /\ Do([op |-> "open", db |-> d]) /\ UNCHANGED <<nfl, ndr, nbulk>>

Put(d, k, v, via) ==
  /\ st[d].mode = "open"
  /\ st' = IF Comp = "pool" THEN [st EXCEPT ![d].ovl[k] = v, ![d].lb = @ \/ via = "lbatch"]
           ELSE [st EXCEPT ![d].cont[k] = v, ![d].dirty = TRUE, ![d].lb = @ \/ via = "lbatch"]
  /\ Do([op |-> "put", db |-> d, k |-> k, v |-> v, via |-> via]) /\ UNCHANGED <<nfl, ndr, nbulk>>

BPut(d) == /\ st[d].mode = "open" /\ nbulk < MaxBulk /\ Comp = "pool"
           /\ st' = [st EXCEPT ![d].ovl = [k \in Keys |-> Big]]
           /\ nbulk' = nbulk + 1
           /\ Do([op |-> "bput", db |-> d, v |-> Big]) /\ UNCHANGED <<nfl, ndr>>

Drop(d) == /\ st[d].mode = "open" /\ ndr < MaxDrops
           /\ st' = IF Comp = "pool" THEN [st EXCEPT ![d].mode = "queued"]
                    ELSE [x \in DBs |-> IF x = d THEN [Closed EXCEPT !.last = st[d].last]
                                        ELSE IF st[x].mode = "open" THEN [st[x] EXCEPT !.dirty = TRUE] ELSE st[x]]
           /\ ndr' = ndr + 1
           /\ Do([op |-> "drop", db |-> d]) /\ UNCHANGED <<nfl, nbulk>>

Merge(c, o) == [k \in Keys |-> IF o[k] = U THEN c[k] ELSE o[k]]
Flush == /\ nfl < MaxFlush
         /\ st' = [d \in DBs |->
                     IF st[d].mode = "queued" THEN Closed
                     ELSE IF st[d].mode = "open"
                     THEN IF Comp = "pool"
                          THEN [st[d] EXCEPT !.ex = TRUE, !.cont = Merge(st[d].cont, st[d].ovl), !.ovl = NoOvl,
                                             !.last = Merge(st[d].cont, st[d].ovl)]
                          ELSE [st[d] EXCEPT !.dirty = FALSE, !.last = st[d].cont]
                     ELSE Closed]
         /\ nfl' = nfl + 1
         /\ Do([op |-> "flush", id |-> nfl + 1]) /\ UNCHANGED <<ndr, nbulk>>

Next == \/ \E d \in DBs : Open(d) \/ Drop(d) \/ BPut(d) \/ \E k \in PutKeys, v \in Vals \cup {0}, via \in Vias : Put(d, k, v, via)
        \/ Flush
Spec == Init /\ [][Next]_svars

(* ---- classification of the pre-state of a transition ---- *)
NonEmpty(c) == \E k \in Keys : c[k] # 0
Kind(d) == LET s == st[d] IN
  IF s.mode = "closed" THEN (IF NonEmpty(s.last) THEN "cl" ELSE "c")
  ELSE IF s.mode = "queued" THEN "Q" \o (IF s.ex THEN "E" ELSE "N") \o (IF NonEmpty(s.cont) THEN "n" ELSE "z")
  ELSE (IF s.ex THEN "E" ELSE "N")
       \o (IF \E k \in Keys : s.ovl[k] = Big THEN "b" ELSE IF \E k \in Keys : s.ovl[k] # U THEN "w" ELSE "e")
       \o (IF NonEmpty(s.cont) THEN "n" ELSE "z") \o (IF s.dirty THEN "d" ELSE "k")
       \o (IF Comp = "flagged" /\ NonEmpty(s.last) THEN "l" ELSE "") \o (IF s.lb THEN "L" ELSE "")
RECURSIVE KindsFrom(_)
KindsFrom(i) == IF i > Len(DBSeq) THEN "" ELSE Kind(DBSeq[i]) \o "." \o KindsFrom(i + 1)
Cls == KindsFrom(1) \o "f" \o ToString(nfl)

Durable(a) == IF Comp = "pool" THEN a.op = "flush" ELSE TRUE
EmitEdge == Durable(act') => PrintT(<<"EDGE", ToJson([comp |-> Comp, ops |-> ops', last |-> Len(ops'), cls |-> Cls, call |-> act'.op])>>)
=============================================================================
