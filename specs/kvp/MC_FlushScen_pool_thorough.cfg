CONSTANTS Comp = "pool" DBSeq <- DB2 KeySeq <- Key2 Vals <- Val1 MaxFlush = 2 MaxDrops = 2 MaxOps = 99 Canonical = TRUE
SPECIFICATION Spec
INVARIANT EmitScen
CHECK_DEADLOCK FALSE
