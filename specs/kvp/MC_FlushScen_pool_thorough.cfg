CONSTANTS Comp = "pool" DBSeq <- DB2 KeySeq <- Key3 PutKeys <- PutK1 Vals <- Val2 Vias <- ViaDirect Big = 3 MaxFlush = 3 MaxDrops = 2 MaxBulk = 1
SPECIFICATION Spec
VIEW View
ACTION_CONSTRAINT EmitEdge
CHECK_DEADLOCK FALSE
