CONSTANTS Names = {"a", "b"}
SPECIFICATION TSpec
CONSTRAINT Mark
POSTCONDITION Accepted
CHECK_DEADLOCK FALSE
