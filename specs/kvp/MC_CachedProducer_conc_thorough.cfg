CONSTANTS Names = {"a", "b"} MaxSteps = 3 MaxFails = 0
SPECIFICATION Spec
INVARIANT EmitConc
VIEW View
CHECK_DEADLOCK FALSE
