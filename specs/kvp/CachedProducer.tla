--------------------------- MODULE CachedProducer ---------------------------
(* Caching database producer (kvdb/cachedproducer: Wrap and WrapAll), property C27.             *)
(*                                                                                               *)
(* Written from the property statement: opening a name that is currently open returns the same  *)
(* store and only counts a reference; the underlying database is closed exactly once, when the   *)
(* last of those opens is closed; closing more often than opening is an error; the underlying    *)
(* drop runs at most once per open.                                                              *)
(*                                                                                               *)
(* One action per public call.  Close(n) / Drop(n) are called on the store most recently         *)
(* returned by OpenDB(n) (using a store after its last close is outside the statement).          *)
(* OpenFail(n) is an OpenDB(n) whose underlying open fails (transient fault of the underlying    *)
(* producer): the error is returned, no reference is taken, nothing is cached.  Whether such a   *)
(* failed call re-arms the underlying Drop is left open: Drop(n) is not explored between a       *)
(* failed open and the next successful one.                                                      *)
(* The state carries the whole call history `hist`, so the state graph is the tree of all        *)
(* open/close/drop sequences up to MaxSteps; the harness rebuilds a pre-state by executing the   *)
(* history on a fresh producer (pattern R).  `act` is output only.                               *)
EXTENDS Integers, Sequences, FiniteSets, TLC, Json

CONSTANTS Names, MaxSteps, MaxFails
VARIABLES opened,   \* name -> is there a cached store
          refs,     \* name -> opens not yet closed
          nd,       \* name -> an open happened since the last underlying drop
          uopen,    \* name -> OpenDB calls that reached the underlying producer
          uclose,   \* name -> Close calls that reached the underlying store
          udrop,    \* name -> Drop calls that reached the underlying store
          opens,    \* name -> successful OpenDB calls
          ufail,    \* name -> OpenDB calls whose underlying open failed
          amb,      \* name -> a failed open happened after the last successful one
          hist,     \* calls so far: <<[op, n]>>
          act
vars == <<opened, refs, nd, uopen, uclose, udrop, opens, ufail, amb, hist, act>>
View == <<opened, refs, nd, uopen, uclose, udrop, opens, ufail, amb, hist>>

Abs == [hist |-> hist, names |-> Names]
Obs == [uopen |-> uopen, uclose |-> uclose, udrop |-> udrop, ufail |-> ufail]

Zero == [n \in Names |-> 0]
Init == /\ opened = [n \in Names |-> FALSE] /\ refs = Zero /\ nd = [n \in Names |-> FALSE]
        /\ uopen = Zero /\ uclose = Zero /\ udrop = Zero /\ opens = Zero /\ ufail = Zero
        /\ amb = [n \in Names |-> FALSE]
        /\ hist = <<>> /\ act = [op |-> "init"]

Log(op, n) == hist' = Append(hist, [op |-> op, n |-> n])

Open(n) ==
  /\ Len(hist) < MaxSteps
  /\ opens' = [opens EXCEPT ![n] = @ + 1]
  /\ nd' = [nd EXCEPT ![n] = TRUE]
  /\ refs' = [refs EXCEPT ![n] = @ + 1]
  /\ opened' = [opened EXCEPT ![n] = TRUE]
  /\ uopen' = [uopen EXCEPT ![n] = IF opened[n] THEN @ ELSE @ + 1]
  /\ amb' = [amb EXCEPT ![n] = FALSE]
  /\ UNCHANGED <<uclose, udrop, ufail>>
  /\ Log("open", n)
  \* same: the call returned the very store the previous OpenDB(n) returned
  /\ act' = [op |-> "open", n |-> n, res |-> [err |-> FALSE, same |-> opened[n]]]

\* the underlying producer fails to open n: only an open that reaches it can fail
OpenFail(n) ==
  /\ Len(hist) < MaxSteps /\ ~opened[n] /\ MaxFails > 0 /\ ufail[n] < MaxFails
  /\ ufail' = [ufail EXCEPT ![n] = @ + 1]
  /\ amb' = [amb EXCEPT ![n] = TRUE]
  /\ UNCHANGED <<opened, refs, nd, uopen, uclose, udrop, opens>>
  /\ Log("openfail", n)
  /\ act' = [op |-> "openfail", n |-> n, res |-> [err |-> TRUE, same |-> FALSE]]

\* a store for n has been handed out at least once
HasStore(n) == opens[n] > 0

Close(n) ==
  /\ Len(hist) < MaxSteps /\ HasStore(n)
  /\ IF refs[n] = 0
     THEN /\ UNCHANGED <<opened, refs, uclose>>
          /\ act' = [op |-> "close", n |-> n, res |-> [err |-> TRUE]]
     ELSE /\ refs' = [refs EXCEPT ![n] = @ - 1]
          /\ opened' = [opened EXCEPT ![n] = refs[n] > 1]
          /\ uclose' = [uclose EXCEPT ![n] = IF refs[n] = 1 THEN @ + 1 ELSE @]
          /\ act' = [op |-> "close", n |-> n, res |-> [err |-> FALSE]]
  /\ UNCHANGED <<nd, uopen, udrop, opens, ufail, amb>>
  /\ Log("close", n)

Drop(n) ==
  /\ Len(hist) < MaxSteps /\ HasStore(n) /\ ~amb[n]
  /\ udrop' = [udrop EXCEPT ![n] = IF nd[n] THEN @ + 1 ELSE @]
  /\ nd' = [nd EXCEPT ![n] = FALSE]
  /\ UNCHANGED <<opened, refs, uopen, uclose, opens, ufail, amb>>
  /\ Log("drop", n)
  /\ act' = [op |-> "drop", n |-> n, res |-> [err |-> FALSE]]

Next == \E n \in Names : Open(n) \/ OpenFail(n) \/ Close(n) \/ Drop(n)
Spec == Init /\ [][Next]_vars

(* ---- the property (C27) at the level of the specification ---- *)
\* the underlying store is open exactly while references are held ...
OpenIffRefs == \A n \in Names : opened[n] <=> refs[n] > 0
\* ... and every underlying open except a currently held one has been closed exactly once
ClosedExactlyOnce == \A n \in Names : uclose[n] = uopen[n] - (IF opened[n] THEN 1 ELSE 0)
\* the underlying close happens at the last close of the held opens and at no other moment
CloseAtLastRef == [][\A n \in Names : uclose'[n] # uclose[n] =>
                       /\ act'.op = "close" /\ act'.n = n /\ refs[n] = 1 /\ uclose'[n] = uclose[n] + 1]_vars
\* closing more often than opening is reported
ExtraCloseIsError == [][act'.op = "close" => (act'.res.err <=> refs[act'.n] = 0)]_vars
\* the underlying drop runs at most once per open
DropAtMostOncePerOpen == \A n \in Names : udrop[n] <= opens[n]
\* a second open of an open name never reaches the underlying producer
OneUnderlyingOpenPerGeneration == [][\A n \in Names : (act'.op = "open" /\ act'.n = n /\ opened[n]) => uopen'[n] = uopen[n]]_vars

\* a failed open takes no reference and caches nothing
FailedOpenIsNeutral == [][act'.op = "openfail" => (refs' = refs /\ opened' = opened /\ uopen' = uopen /\ uclose' = uclose)]_vars

\* concurrent mode (pattern S): for every call history up to the bound, every ordered pair of calls that are both
\* possible there; the harness issues the second while the first is held inside its underlying call
Calls == {[op |-> o, n |-> n] : o \in {"open", "close", "drop"}, n \in Names}
Possible(c) == c.op = "open" \/ (HasStore(c.n) /\ ~amb[c.n])
EmitConc == PrintT(<<"EDGE", ToJson([hist |-> hist, names |-> Names,
                                     pairs |-> {<<x, y>> : x \in {c \in Calls : Possible(c)}, y \in {c \in Calls : Possible(c)}}])>>)

Emit == PrintT(<<"EDGE", ToJson([pre |-> Abs, act |-> act', post |-> Abs', obs |-> Obs'])>>)
=============================================================================
