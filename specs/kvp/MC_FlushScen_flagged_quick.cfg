CONSTANTS Comp = "flagged" DBSeq <- DB2 KeySeq <- Key3 PutKeys <- PutK1 Vals <- Val1 Vias <- ViaBoth Big = 3 MaxFlush = 2 MaxDrops = 2 MaxBulk = 0
SPECIFICATION Spec
VIEW View
ACTION_CONSTRAINT EmitEdge
CHECK_DEADLOCK FALSE
