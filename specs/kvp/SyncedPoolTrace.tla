-------------------------- MODULE SyncedPoolTrace --------------------------
(* Trace specification for the crash-injection runs of the real flushable.SyncedPool (C25).       *)
(* One trace = many runs; every run starts with a "reset" line, continues with the application    *)
(* calls and the durable operations the backend saw (in the order it saw them) up to the point    *)
(* where the process was stopped, and ends with a "restart" line: the verdict of Initialize over  *)
(* the surviving databases of a fresh pool, and the surviving contents.                           *)
(*                                                                                               *)
(* Every durable operation is applied through the *effect* of the corresponding action of         *)
(* SyncedPool.tla; `conf` notes whether the action's guard (the protocol: phase order, which      *)
(* databases, which data) allowed it there.  At the "restart" line                               *)
(*   - the recorded surviving state must be the specification's durable state (otherwise the      *)
(*     trace is rejected: harness or specification defect, never a finding), and                  *)
(*   - the recorded verdict must be one Durable!Verdicts allows and must satisfy the clause of    *)
(*     C25 (VerdictConsistent); if not, an INCONSISTENT line is printed and validation goes on.   *)
(* A run whose operations left the protocol prints a NONCONF line.                               *)
(* "The contents a database had when flush n completed" are taken from the run of the same        *)
(* history without a crash (ref[n], recorded when Flush(n) returned); that run comes first.       *)
EXTENDS SyncedPool, Json, IOUtils

Trace == ndJsonDeserialize(IOEnv.TRACE)
VARIABLES l, conf, run, last,
          ref    \* flush id -> contents when Flush(id) returned in the run of this history without a crash
tvars == <<l, conf, run, last, ref, dur, over, opened, qdrop, fl, fid, hist, ndrops, pc, res>>
T == Trace[l]
Is(op) == l <= Len(Trace) /\ T.op = op /\ l' = l + 1
Keep == run' = run /\ ref' = ref
Step(g, name) == conf' = (conf /\ g) /\ last' = name /\ Keep

TInit == /\ TLCSet(1, 1) /\ l = 1 /\ conf = TRUE /\ run = [scen |-> 0, crash |-> 0] /\ last = "none" /\ ref = <<>> /\ PInit

TReset == /\ Is("reset")
          /\ dur' = NoDBs /\ over' = [d \in DBs |-> NoOver] /\ opened' = {} /\ qdrop' = {}
          /\ fl' = NoFlush /\ fid' = 0 /\ hist' = <<>> /\ ndrops' = 0 /\ pc' = "run" /\ res' = [v |-> "-", id |-> 0]
          /\ conf' = TRUE /\ run' = [scen |-> T.scen, crash |-> T.crash] /\ last' = "none"
          \* the runs of one history follow its run without a crash, whose completed flushes are the reference
          /\ ref' = IF T.crash = 0 THEN <<>> ELSE ref

TOpen == Is("open") /\ OpenE(T.db) /\ conf' = (conf /\ OpenG(T.db)) /\ Keep /\ last' = last
TPut == Is("put") /\ PutE(T.db, T.k, T.v) /\ conf' = (conf /\ PutG(T.db, T.k, T.v)) /\ Keep /\ last' = last
TQDrop == Is("qdrop") /\ QDropE(T.db) /\ conf' = (conf /\ QDropG(T.db)) /\ Keep /\ last' = last
TFlush == Is("flush") /\ StartFlushE(T.id) /\ conf' = (conf /\ Idle /\ T.id = fid + 1) /\ Keep /\ last' = last

TCreate == Is("create") /\ DoCreateE(T.db) /\ Step(DoCreateG(T.db), "create")
TDirty == Is("dirty") /\ DoDirtyE(T.db) /\ Step(DoDirtyG(T.db), "dirty")
TDrop == Is("drop") /\ DoDropE(T.db) /\ Step(DoDropG(T.db), "drop")
TData == /\ Is("data")
         /\ IF "mark" \in DOMAIN T
            THEN DoDataMarkE(T.db, T.w, T.mark) /\ Step(FALSE, "data")      \* a mark inside a write batch is outside the protocol
            ELSE DoDataE(T.db, T.w) /\ Step(DoDataG(T.db, T.w), "data")
TClean == Is("clean") /\ DoCleanE(T.db, T.id) /\ Step(DoCleanG(T.db, T.id), "clean")

\* Flush(id) returned: by then the protocol has completed the flush; if the recorded operations did
\* not complete it in the specification's books, the flush is taken as completed here
TFlushed == /\ Is("flushed")
            /\ IF fl.on
               THEN /\ fl' = NoFlush /\ hist' = RecordFlush(hist, fid, dur)
                    /\ opened' = opened \ fl.drop /\ qdrop' = qdrop \ fl.drop
                    /\ over' = [d \in DBs |-> IF d \in fl.drop THEN NoOver ELSE over[d]]
               ELSE UNCHANGED <<fl, hist, opened, qdrop, over>>
            /\ UNCHANGED <<dur, fid, ndrops, pc, res>>
            /\ conf' = (conf /\ ~fl.on) /\ run' = run /\ last' = last
            /\ ref' = IF run.crash = 0 THEN RecordFlush(ref, T.id, dur) ELSE ref

Bound == \A d \in DBs : T.dbs[d].ex = dur[d].ex /\ T.dbs[d].mark = dur[d].mark /\ T.dbs[d].data = dur[d].data
TRestart ==
  /\ Is("restart") /\ Bound
  /\ LET r == [v |-> T.verdict, id |-> T.id]
         allowed == r \in Verdicts(dur)
         consistent == VerdictConsistent(dur, ref, r) IN
     /\ IF allowed /\ consistent THEN TRUE
        ELSE PrintT(<<"INCONSISTENT", ToJson([scen |-> run.scen, crash |-> run.crash, last |-> last, verdict |-> r,
                                             kind |-> IF allowed THEN "contents" ELSE "verdict",
                                             allowed |-> Verdicts(dur), line |-> l])>>)
     /\ IF conf THEN TRUE ELSE PrintT(<<"NONCONF", ToJson([scen |-> run.scen, crash |-> run.crash])>>)
  /\ UNCHANGED <<dur, over, opened, qdrop, fl, fid, hist, ndrops, pc, res, conf, last>> /\ Keep

TNext == TReset \/ TOpen \/ TPut \/ TQDrop \/ TFlush \/ TCreate \/ TDirty \/ TDrop \/ TData \/ TClean \/ TFlushed \/ TRestart
TSpec == TInit /\ [][TNext]_tvars

Mark == TLCSet(1, IF l > TLCGet(1) THEN l ELSE TLCGet(1))
Accepted == IF TLCGet(1) = Len(Trace) + 1 THEN PrintT(<<"ACCEPTED", Len(Trace)>>)
            ELSE PrintT(<<"REJECTED", TLCGet(1), ToJson(Trace[TLCGet(1)])>>)
=============================================================================
