CONSTANTS DBs <- DB2 Keys <- Key1 Vals <- Val2 MaxFlush = 2 MaxDrops = 2 MaxWrites = 3 MarkOthers = FALSE
SPECIFICATION FSpec
INVARIANTS CrashConsistent
CHECK_DEADLOCK FALSE
