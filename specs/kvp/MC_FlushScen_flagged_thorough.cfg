CONSTANTS Comp = "flagged" DBSeq <- DB2 KeySeq <- Key1 Vals <- Val2 MaxFlush = 2 MaxDrops = 2 MaxOps = 6 Canonical = FALSE
SPECIFICATION Spec
INVARIANT EmitScen
CHECK_DEADLOCK FALSE
