CONSTANTS DBs <- DB2 Keys <- Key1 Vals <- Val2 MaxFlush = 2 MaxDrops = 2 MaxWrites = 3 MarkOthers = TRUE
SPECIFICATION FSpec
INVARIANTS CrashConsistent CrashConsistentEverywhere FlagIsMark
CHECK_DEADLOCK FALSE
