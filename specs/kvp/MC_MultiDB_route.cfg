CONSTANTS Tables <- RouteTables Reqs <- AllReqs MaxOpens = 0
SPECIFICATION Spec
VIEW View
ACTION_CONSTRAINT Emit
CHECK_DEADLOCK FALSE
