----------------------------- MODULE SyncedPool -----------------------------
(* Flush protocol of the flush-buffering pool (kvdb/flushable.SyncedPool), property C25.          *)
(*                                                                                               *)
(* Application calls (only between flushes): Open(d), Put(d,k,v) into the volatile overlay,       *)
(* QDrop(d) = Drop() of a pool store, which only queues the drop, StartFlush(id) = Flush(id).     *)
(* A flush is a sequence of durable micro-steps, one action each, in four phases with any order   *)
(* of the databases inside a phase:                                                              *)
(*    dirty marks on ALL open databases (also those queued for dropping; a database that does    *)
(*    not exist yet is created first)  ->  queued drops  ->  data  ->  clean marks.               *)
(* The data of one database may be written in several batches (any partition of its overlay:      *)
(* a large flush is split into write batches); the first clean mark is written only when no       *)
(* database of the flush has unwritten data left.                                                 *)
(* This is the order that satisfies CrashConsistent.  DropsFirst = TRUE is the order of the code  *)
(* before the repair of F11 (queued drops, then dirty marks on the remaining databases); it is    *)
(* kept only to reproduce F11 in the model.                                                       *)
(* Crash is enabled in every state (between any two micro-steps); Restart reports a verdict of    *)
(* Durable!Verdicts.  hist[id] = contents of every database when flush id completed, i.e. when    *)
(* its last micro-step was taken.                                                                *)
(*                                                                                               *)
(* Every action X is split into its guard XG and its effect XE so that the trace specification    *)
(* can apply the effect of a recorded durable operation and separately note whether the           *)
(* protocol allowed it at that point.                                                            *)
EXTENDS Durable

CONSTANTS MaxFlush, MaxDrops, DropsFirst

VARIABLES dur,      \* durable state (Durable.tla)
          over,     \* db -> key -> Vals \cup {Absent (tombstone), UNSET}: volatile overlay
          opened,   \* databases with a wrapper in the pool
          qdrop,    \* queued drops
          fl,       \* running flush: [on, dirty, drop, clean] = databases still to handle per phase, cleaning = a clean mark was written
          fid,      \* id of the running / last flush
          hist,     \* flush id -> Contents at completion
          ndrops,   \* drops queued so far (bound)
          pc,       \* "run" | "crashed" | "restarted"
          res       \* restart verdict [v, id]
pvars == <<dur, over, opened, qdrop, fl, fid, hist, ndrops, pc, res>>

NoOver == [k \in Keys |-> UNSET]
NoFlush == [on |-> FALSE, dirty |-> {}, drop |-> {}, clean |-> {}, cleaning |-> FALSE]
Done(f) == f.dirty = {} /\ f.drop = {} /\ f.clean = {}
\* the keys a flush writes for an overlay
OverWrites(o) == [k \in {x \in Keys : o[x] # UNSET} |-> o[k]]
Pending(d) == {k \in Keys : over[d][k] # UNSET}
\* w writes some of the pending keys of d with their overlay values
PartOf(w, d) == DOMAIN w \subseteq Pending(d) /\ \A k \in DOMAIN w : w[k] = over[d][k]

PInit == /\ dur = NoDBs /\ over = [d \in DBs |-> NoOver] /\ opened = {} /\ qdrop = {}
         /\ fl = NoFlush /\ fid = 0 /\ hist = <<>> /\ ndrops = 0 /\ pc = "run" /\ res = [v |-> "-", id |-> 0]

Idle == pc = "run" /\ ~fl.on
Flushing == pc = "run" /\ fl.on

(* ---------------- application calls ---------------- *)
OpenG(d) == Idle /\ d \notin opened
OpenE(d) == opened' = opened \cup {d} /\ UNCHANGED <<dur, over, qdrop, fl, fid, hist, ndrops, pc, res>>
Open(d) == OpenG(d) /\ OpenE(d)

PutG(d, k, v) == Idle /\ d \in opened /\ d \notin qdrop
PutE(d, k, v) == over' = [over EXCEPT ![d][k] = v] /\ UNCHANGED <<dur, opened, qdrop, fl, fid, hist, ndrops, pc, res>>
Put(d, k, v) == PutG(d, k, v) /\ PutE(d, k, v)

QDropG(d) == Idle /\ d \in opened /\ d \notin qdrop /\ ndrops < MaxDrops
QDropE(d) == qdrop' = qdrop \cup {d} /\ ndrops' = ndrops + 1 /\ UNCHANGED <<dur, over, opened, fl, fid, hist, pc, res>>
QDrop(d) == QDropG(d) /\ QDropE(d)

\* completion bookkeeping shared by all steps of a flush: nf = remaining work, nd = durable state after the step
Finish(nf, nd) == IF Done(nf) THEN fl' = NoFlush /\ hist' = RecordFlush(hist, fid', nd)
                  ELSE fl' = nf /\ hist' = hist

StartFlushG(id) == Idle /\ id = fid + 1 /\ id <= MaxFlush
StartFlushE(id) ==
  /\ fid' = id
  /\ IF DropsFirst
     THEN \* queued databases that were never written to disk just disappear from the pool
          LET gone == {d \in qdrop : ~dur[d].ex}
              keep == opened \ qdrop IN
          /\ opened' = opened \ gone /\ qdrop' = qdrop \ gone
          /\ over' = [d \in DBs |-> IF d \in gone THEN NoOver ELSE over[d]]
          /\ Finish([on |-> TRUE, dirty |-> keep, drop |-> qdrop \ gone, clean |-> keep, cleaning |-> FALSE], dur)
     ELSE /\ UNCHANGED <<opened, qdrop, over>>
          /\ Finish([on |-> TRUE, dirty |-> opened, drop |-> qdrop, clean |-> opened \ qdrop, cleaning |-> FALSE], dur)
  /\ UNCHANGED <<dur, ndrops, pc, res>>
StartFlush(id) == StartFlushG(id) /\ StartFlushE(id)

(* ---------------- durable micro-steps of a flush ---------------- *)
DirtyPhase == IF DropsFirst THEN fl.drop = {} ELSE TRUE
DropPhase == IF DropsFirst THEN TRUE ELSE fl.dirty = {}
DataPhase == fl.dirty = {} /\ fl.drop = {} /\ ~fl.cleaning
CleanPhase == fl.dirty = {} /\ fl.drop = {} /\ \A x \in fl.clean : Pending(x) = {}

DoCreateG(d) == Flushing /\ d \in fl.dirty /\ ~dur[d].ex /\ DirtyPhase
DoCreateE(d) == dur' = CreateEff(dur, d) /\ UNCHANGED <<over, opened, qdrop, fl, fid, hist, ndrops, pc, res>>
DoCreate(d) == DoCreateG(d) /\ DoCreateE(d)

DoDirtyG(d) == Flushing /\ d \in fl.dirty /\ dur[d].ex /\ DirtyPhase
DoDirtyE(d) == /\ dur' = MarkEff(dur, d, DirtyMark) /\ fid' = fid
               /\ Finish([fl EXCEPT !.dirty = @ \ {d}], dur')
               /\ UNCHANGED <<over, opened, qdrop, ndrops, pc, res>>
DoDirty(d) == DoDirtyG(d) /\ DoDirtyE(d)

DoDropG(d) == Flushing /\ d \in fl.drop /\ DropPhase
DoDropE(d) == /\ dur' = DropEff(dur, d) /\ fid' = fid
              /\ over' = [over EXCEPT ![d] = NoOver] /\ opened' = opened \ {d} /\ qdrop' = qdrop \ {d}
              /\ Finish([fl EXCEPT !.drop = @ \ {d}, !.dirty = @ \ {d}, !.clean = @ \ {d}], dur')
              /\ UNCHANGED <<ndrops, pc, res>>
DoDrop(d) == DoDropG(d) /\ DoDropE(d)

\* w = one write batch of the flush into d: some of d's pending overlay entries (possibly none)
DoDataG(d, w) == Flushing /\ d \in fl.clean /\ DataPhase /\ PartOf(w, d)
DoDataE(d, w) == /\ dur' = WriteEff(dur, d, w)
                 /\ over' = [over EXCEPT ![d] = [k \in Keys |-> IF k \in DOMAIN w THEN UNSET ELSE over[d][k]]]
                 /\ UNCHANGED <<opened, qdrop, fl, fid, hist, ndrops, pc, res>>
DoData(d, w) == DoDataG(d, w) /\ DoDataE(d, w)
\* outside the protocol (trace specification only): a write batch that also carries a flush mark m
DoDataMarkE(d, w, m) ==
  /\ dur' = MarkEff(WriteEff(dur, d, w), d, m) /\ fid' = fid
  /\ over' = [over EXCEPT ![d] = [k \in Keys |-> IF k \in DOMAIN w THEN UNSET ELSE over[d][k]]]
  /\ Finish(IF m[1] = "C" THEN [fl EXCEPT !.clean = @ \ {d}, !.cleaning = TRUE] ELSE [fl EXCEPT !.dirty = @ \ {d}], dur')
  /\ UNCHANGED <<opened, qdrop, ndrops, pc, res>>

DoCleanG(d, id) == Flushing /\ d \in fl.clean /\ CleanPhase /\ id = fid
DoCleanE(d, id) == /\ dur' = MarkEff(dur, d, CleanMark(id)) /\ fid' = fid
                   /\ Finish([fl EXCEPT !.clean = @ \ {d}, !.cleaning = TRUE], dur')
                   /\ UNCHANGED <<over, opened, qdrop, ndrops, pc, res>>
DoClean(d) == DoCleanG(d, fid) /\ DoCleanE(d, fid)

(* ---------------- crash and restart ---------------- *)
Crash == /\ pc = "run" /\ pc' = "crashed"
         /\ over' = [d \in DBs |-> NoOver] /\ opened' = {} /\ qdrop' = {} /\ fl' = NoFlush
         /\ UNCHANGED <<dur, fid, hist, ndrops, res>>
Restart == /\ pc = "crashed" /\ pc' = "restarted"
           /\ res' \in Verdicts(dur)
           /\ UNCHANGED <<dur, over, opened, qdrop, fl, fid, hist, ndrops>>

PNext == \/ \E d \in DBs : Open(d) \/ QDrop(d) \/ DoCreate(d) \/ DoDirty(d) \/ DoDrop(d) \/ DoClean(d)
         \/ \E d \in DBs : \E S \in SUBSET Pending(d) : S # {} /\ DoData(d, [k \in S |-> over[d][k]])
         \/ \E d \in DBs, k \in Keys, v \in Vals \cup {Absent} : Put(d, k, v)
         \/ StartFlush(fid + 1) \/ Crash \/ Restart
PSpec == PInit /\ [][PNext]_pvars

(* ---------------- the property (C25) ---------------- *)
CrashConsistent == pc = "restarted" => VerdictConsistent(dur, hist, res)
\* the same, stated on every state as a potential crash point
CrashConsistentEverywhere == pc = "run" => CrashConsistentAt(dur, hist)
TypeOK == /\ qdrop \subseteq opened /\ fid \in 0..MaxFlush /\ DOMAIN hist \subseteq 1..MaxFlush
          /\ (fl.on => ~Done(fl)) /\ fl.drop \subseteq qdrop
          /\ (~fl.on => \A d \in DBs : d \notin opened => Pending(d) = {})
=============================================================================
