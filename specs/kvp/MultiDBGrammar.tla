--------------------------- MODULE MultiDBGrammar ---------------------------
(* The routing-table grammar of MultiDB.tla: route keys, the routes each key may take, segments. *)
(* Plain definitions (not CONSTANTS) so that TLC evaluates them once.                            *)
EXTENDS Sequences, TLC

S(l) == [lit |-> l, arg |-> ""]
A(l, a) == [lit |-> l, arg |-> a]
R(t, n, tab) == [type |-> t, name |-> n, table |-> tab]
None == [type |-> "none", name |-> "", table |-> <<>>]

KeyDefs ==
  ("" :> [kind |-> "default"]) @@
  ("g" :> [kind |-> "exact", path |-> <<S("g")>>]) @@
  ("g/t" :> [kind |-> "exact", path |-> <<S("g"), S("t")>>]) @@
  ("ep-%d" :> [kind |-> "pat", lit |-> "ep", verb |-> "d"]) @@
  ("ep-%s" :> [kind |-> "pat", lit |-> "ep", verb |-> "s"]) @@
  ("lp-%d" :> [kind |-> "pat", lit |-> "lp", verb |-> "d"])

\* the grammar: every key takes one of its options (pattern routes: name = the part before the verb)
Options ==
  ("" :> {R("x", "m", <<>>), R("y", "", <<"t">>)}) @@
  ("g" :> {None, R("y", "gdb", <<>>), R("x", "m", <<"u">>)}) @@
  ("g/t" :> {None, R("x", "m", <<"t">>)}) @@
  ("ep-%d" :> {None, R("x", "e-", <<>>), R("y", "s-", <<"t">>)}) @@
  ("ep-%s" :> {None, R("y", "s-", <<>>), R("x", "e-", <<>>)}) @@
  ("lp-%d" :> {None, R("x", "e-", <<"t">>)})
\* all routing tables of the grammar, all request paths
AllTables == {("" :> a) @@ ("g" :> b) @@ ("g/t" :> c) @@ ("ep-%d" :> d) @@ ("ep-%s" :> e) @@ ("lp-%d" :> f) :
                a \in Options[""], b \in Options["g"], c \in Options["g/t"],
                d \in Options["ep-%d"], e \in Options["ep-%s"], f \in Options["lp-%d"]}

Heads == {S("g"), S("h"), S("ep"), A("ep", "5"), A("ep", "x"), A("lp", "5"), A("lp", "7")}
Tails == {<<>>, <<S("t")>>, <<S("u")>>, <<S("t"), S("u")>>, <<S("u"), S("t")>>}
AllReqs == {<<h>> \o tl : h \in Heads, tl \in Tails}
\* segment arguments that are decimal numbers
Nums == {"5", "7"}
=============================================================================
