-------------------------- MODULE CachedConcTrace --------------------------
(* Concurrent mode of C27 (pattern S + T).  The harness runs a call history on a caching         *)
(* producer and then issues two calls from two goroutines, the second while the first is held    *)
(* inside its underlying OpenDB / Close / Drop.  Recorded, in the order of occurrence (one        *)
(* recorder lock): "call" (a public call begins), "ret", and the calls that reach the underlying  *)
(* producer: "uopen", "uclose", "udrop".  The abstract machine keeps only the clauses of C27      *)
(* that do not depend on an order of the overlapping calls:                                       *)
(*   an underlying open happens only on behalf of an OpenDB call        (uopen <= OpenDB calls)   *)
(*   the underlying store is closed at most once per underlying open    (uclose <= uopen)         *)
(*   the underlying drop runs at most once per open                     (udrop <= OpenDB calls)   *)
(* A trace line that no action allows is rejected.  Scenarios are separated by "reset" lines.     *)
EXTENDS Integers, Sequences, TLC, Json, IOUtils

CONSTANT Names
Trace == ndJsonDeserialize(IOEnv.TRACE)
VARIABLES l, calls, uopen, uclose, udrop
tvars == <<l, calls, uopen, uclose, udrop>>
T == Trace[l]
Is(op) == l <= Len(Trace) /\ T.op = op /\ l' = l + 1
Zero == [n \in Names |-> 0]

TInit == TLCSet(1, 1) /\ l = 1 /\ calls = Zero /\ uopen = Zero /\ uclose = Zero /\ udrop = Zero
TReset == Is("reset") /\ calls' = Zero /\ uopen' = Zero /\ uclose' = Zero /\ udrop' = Zero
TCall == /\ Is("call")
         /\ calls' = IF T.call = "open" THEN [calls EXCEPT ![T.n] = @ + 1] ELSE calls
         /\ UNCHANGED <<uopen, uclose, udrop>>
TRet == Is("ret") /\ UNCHANGED <<calls, uopen, uclose, udrop>>
TUOpen == Is("uopen") /\ uopen[T.n] < calls[T.n] /\ uopen' = [uopen EXCEPT ![T.n] = @ + 1] /\ UNCHANGED <<calls, uclose, udrop>>
TUClose == Is("uclose") /\ uclose[T.n] < uopen[T.n] /\ uclose' = [uclose EXCEPT ![T.n] = @ + 1] /\ UNCHANGED <<calls, uopen, udrop>>
TUDrop == Is("udrop") /\ udrop[T.n] < calls[T.n] /\ udrop' = [udrop EXCEPT ![T.n] = @ + 1] /\ UNCHANGED <<calls, uopen, uclose>>

TNext == TReset \/ TCall \/ TRet \/ TUOpen \/ TUClose \/ TUDrop
TSpec == TInit /\ [][TNext]_tvars

Mark == TLCSet(1, IF l > TLCGet(1) THEN l ELSE TLCGet(1))
Accepted == IF TLCGet(1) = Len(Trace) + 1 THEN PrintT(<<"ACCEPTED", Len(Trace)>>)
            ELSE PrintT(<<"REJECTED", TLCGet(1), ToJson(Trace[TLCGet(1)])>>)
=============================================================================
