CONSTANTS Tables <- OpenTablesT Reqs <- OpenReqsT MaxOpens = 2
SPECIFICATION Spec
INVARIANTS Isolated RecordsDisjoint VerifySelf
PROPERTY ReopenStable
VIEW View
ACTION_CONSTRAINT Emit
CHECK_DEADLOCK FALSE
