CONSTANTS Comp = "pool" DBSeq <- DB2 KeySeq <- Key1 Vals <- Val2 MaxFlush = 2 MaxDrops = 2 MaxOps = 99 Canonical = TRUE
SPECIFICATION Spec
INVARIANT EmitScen
CHECK_DEADLOCK FALSE
