------------------------------ MODULE Durable ------------------------------
(* What survives a crash of a multi-database flush protocol, and what a restart makes of it       *)
(* (property C25).  Shared by SyncedPool.tla (flush-buffering pool) and Flagged.tla (dirty-flag   *)
(* producer) and by their trace specifications.                                                   *)
(*                                                                                               *)
(* dur[d] = [ex, data, mark]: does database d exist on disk, its contents (key -> value,         *)
(* Absent = no value), and its flush mark: none, dirty, or clean with the id of a flush.          *)
(* Restart = Initialize over the surviving databases (flushable.CheckDBsSynced): it reports       *)
(*   "dirty"    if some surviving database carries a dirty mark,                                  *)
(*   "unsynced" if two surviving databases carry clean marks of different flushes,                *)
(*   "noninit"  if some carry a clean mark and some carry no mark,                                *)
(* (whichever of these applies that it meets first), otherwise "ok" with the common flush id      *)
(* (0 when no database carries a mark: nothing was ever flushed).                                 *)
(* CrashConsistent: an "ok" restart with id n finds every database with exactly the contents it   *)
(* had when flush n completed (absent = empty); id 0 finds everything empty.                      *)
EXTENDS Integers, FiniteSets, Sequences, TLC

CONSTANTS DBs, Keys, Vals

Absent == 0                      \* no value (also: the value a delete writes)
UNSET == -1                      \* volatile overlay: key not written since the last flush
NoMark == <<"none", 0>>
DirtyMark == <<"D", 0>>
CleanMark(id) == <<"C", id>>
EmptyData == [k \in Keys |-> Absent]
NoDB == [ex |-> FALSE, data |-> EmptyData, mark |-> NoMark]
NoDBs == [d \in DBs |-> NoDB]

Contents(dur) == [d \in DBs |-> dur[d].data]          \* an absent database counts as empty

(* ---- durable effects of the four kinds of durable operation ---- *)
CreateEff(dur, d) == [dur EXCEPT ![d].ex = TRUE]
MarkEff(dur, d, m) == [dur EXCEPT ![d].ex = TRUE, ![d].mark = m]
DropEff(dur, d) == [dur EXCEPT ![d] = NoDB]
\* w: written keys -> value (Absent = delete); one atomic write batch
WriteEff(dur, d, w) == [dur EXCEPT ![d].ex = TRUE,
                                   ![d].data = [k \in Keys |-> IF k \in DOMAIN w THEN w[k] ELSE dur[d].data[k]]]

(* ---- restart ---- *)
Surv(dur) == {d \in DBs : dur[d].ex}
Marks(dur) == {dur[d].mark : d \in Surv(dur)}
CleanIds(dur) == {m[2] : m \in {x \in Marks(dur) : x[1] = "C"}}
Bad(dur) == (IF DirtyMark \in Marks(dur) THEN {"dirty"} ELSE {})
            \cup (IF Cardinality(CleanIds(dur)) > 1 THEN {"unsynced"} ELSE {})
            \cup (IF CleanIds(dur) # {} /\ NoMark \in Marks(dur) THEN {"noninit"} ELSE {})
OkId(dur) == IF CleanIds(dur) = {} THEN 0 ELSE CHOOSE i \in CleanIds(dur) : TRUE
\* the verdicts Initialize may report for this durable state
Verdicts(dur) == IF Bad(dur) # {} THEN {[v |-> b, id |-> 0] : b \in Bad(dur)}
                 ELSE {[v |-> "ok", id |-> OkId(dur)]}

\* hist: flush id -> Contents when that flush completed
ConsistentWith(dur, hist, id) ==
  IF id = 0 THEN Contents(dur) = [d \in DBs |-> EmptyData]
  ELSE id \in DOMAIN hist /\ Contents(dur) = hist[id]
\* the clause of C25 for one restart verdict r = [v, id]
VerdictConsistent(dur, hist, r) == r.v \in {"dirty", "unsynced", "noninit"} \/ (r.v = "ok" /\ ConsistentWith(dur, hist, r.id))
\* ... and for whatever a restart from this durable state may report
CrashConsistentAt(dur, hist) == \A r \in Verdicts(dur) : VerdictConsistent(dur, hist, r)

RecordFlush(hist, id, dur) == [i \in DOMAIN hist \cup {id} |-> IF i = id THEN Contents(dur) ELSE hist[i]]
=============================================================================
