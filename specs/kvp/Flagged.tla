------------------------------- MODULE Flagged -------------------------------
(* Dirty-flag producer (kvdb/flaggedproducer), property C25.                                      *)
(*                                                                                               *)
(* Writes go straight to the databases.  Every application call is a short sequence of durable    *)
(* micro-steps (one action each), `cur` holds the call in progress:                              *)
(*   Open(d)      : create d if it does not exist                                                *)
(*   Write(d, w)  : dirty mark on d if d is still clean since the last flush, then the data       *)
(*   Flush(id)    : for every open database, in any order: (optionally a dirty mark, then) the    *)
(*                  clean mark with the flush id                                                 *)
(*   Drop(d)      : dirty mark on every OTHER open database that is still clean, then the drop.   *)
(* MarkOthers = FALSE is the code before the repair of F11 (the drop is immediate); it is kept    *)
(* only to reproduce F11 in the model.                                                           *)
(* Crash is enabled in every state; Restart reports a verdict of Durable!Verdicts.               *)
(* hist[id] = contents of every database when flush id completed (its last clean mark).           *)
(* Actions are split into guard XG and effect XE for the trace specification.                     *)
EXTENDS Durable

CONSTANTS MaxFlush, MaxDrops, MaxWrites, MarkOthers

VARIABLES dur,      \* durable state (Durable.tla)
          opened,   \* databases opened through the producer
          flag,     \* db -> the volatile dirty flag (a dirty mark was written since the last flush)
          cur,      \* call in progress: [kind |-> "idle"] | [kind |-> "open", d] | [kind |-> "write", d, w] | [kind |-> "flush", todo] | [kind |-> "drop", d, todo]
          fid, hist, nw, ndrops, pc, res
fvars == <<dur, opened, flag, cur, fid, hist, nw, ndrops, pc, res>>

IdleCall == [kind |-> "idle"]
FInit == /\ dur = NoDBs /\ opened = {} /\ flag = [d \in DBs |-> FALSE] /\ cur = IdleCall
         /\ fid = 0 /\ hist = <<>> /\ nw = 0 /\ ndrops = 0 /\ pc = "run" /\ res = [v |-> "-", id |-> 0]

Idle == pc = "run" /\ cur.kind = "idle"
Running == pc = "run"

(* ---------------- application calls ---------------- *)
BeginOpenG(d) == Idle /\ d \notin opened
BeginOpenE(d) == /\ IF dur[d].ex THEN opened' = opened \cup {d} /\ cur' = IdleCall
                    ELSE opened' = opened /\ cur' = [kind |-> "open", d |-> d]
                 /\ UNCHANGED <<dur, flag, fid, hist, nw, ndrops, pc, res>>
BeginOpen(d) == BeginOpenG(d) /\ BeginOpenE(d)

BeginWriteG(d, w) == Idle /\ d \in opened /\ nw < MaxWrites
BeginWriteE(d, w) == /\ cur' = [kind |-> "write", d |-> d, w |-> w] /\ nw' = nw + 1
                     /\ UNCHANGED <<dur, opened, flag, fid, hist, ndrops, pc, res>>
BeginWrite(d, w) == BeginWriteG(d, w) /\ BeginWriteE(d, w)

BeginFlushG(id) == Idle /\ id = fid + 1 /\ id <= MaxFlush
BeginFlushE(id) == /\ fid' = id
                   /\ IF opened = {} THEN cur' = IdleCall /\ hist' = RecordFlush(hist, id, dur)
                      ELSE cur' = [kind |-> "flush", todo |-> opened] /\ hist' = hist
                   /\ UNCHANGED <<dur, opened, flag, nw, ndrops, pc, res>>
BeginFlush(id) == BeginFlushG(id) /\ BeginFlushE(id)

BeginDropG(d) == Idle /\ d \in opened /\ ndrops < MaxDrops
BeginDropE(d) == /\ cur' = [kind |-> "drop", d |-> d,
                            todo |-> IF MarkOthers THEN {o \in opened \ {d} : ~flag[o]} ELSE {}]
                 /\ ndrops' = ndrops + 1
                 /\ UNCHANGED <<dur, opened, flag, fid, hist, nw, pc, res>>
BeginDrop(d) == BeginDropG(d) /\ BeginDropE(d)

(* ---------------- durable micro-steps ---------------- *)
DoCreateG(d) == Running /\ cur.kind = "open" /\ cur.d = d
DoCreateE(d) == /\ dur' = CreateEff(dur, d) /\ opened' = opened \cup {d} /\ flag' = [flag EXCEPT ![d] = FALSE]
                /\ cur' = IdleCall
                /\ UNCHANGED <<fid, hist, nw, ndrops, pc, res>>
DoCreate == cur.kind = "open" /\ DoCreateG(cur.d) /\ DoCreateE(cur.d)

\* the dirty mark: on the written database, on a database being flushed, on the others before a drop
MarkDirtyG(d) == /\ Running /\ d \in opened /\ ~flag[d]
                 /\ \/ cur.kind = "write" /\ cur.d = d
                    \/ cur.kind = "flush" /\ d \in cur.todo
                    \/ cur.kind = "drop" /\ d \in cur.todo
MarkDirtyE(d) == /\ dur' = MarkEff(dur, d, DirtyMark) /\ flag' = [flag EXCEPT ![d] = TRUE]
                 /\ cur' = IF cur.kind = "drop" THEN [cur EXCEPT !.todo = @ \ {d}] ELSE cur
                 /\ UNCHANGED <<opened, fid, hist, nw, ndrops, pc, res>>
MarkDirty(d) == MarkDirtyG(d) /\ MarkDirtyE(d)

WriteDataG(d, w) == Running /\ cur.kind = "write" /\ cur.d = d /\ cur.w = w /\ flag[d]
WriteDataE(d, w) == /\ dur' = WriteEff(dur, d, w) /\ cur' = IdleCall
                    /\ UNCHANGED <<opened, flag, fid, hist, nw, ndrops, pc, res>>
WriteData == cur.kind = "write" /\ WriteDataG(cur.d, cur.w) /\ WriteDataE(cur.d, cur.w)

MarkCleanG(d, id) == Running /\ cur.kind = "flush" /\ d \in cur.todo /\ id = fid
MarkCleanE(d, id) == /\ dur' = MarkEff(dur, d, CleanMark(id)) /\ flag' = [flag EXCEPT ![d] = FALSE]
                     /\ IF cur.kind = "flush" /\ cur.todo \ {d} # {}
                        THEN cur' = [cur EXCEPT !.todo = @ \ {d}] /\ hist' = hist
                        ELSE cur' = IdleCall /\ hist' = RecordFlush(hist, id, dur')
                     /\ UNCHANGED <<opened, fid, nw, ndrops, pc, res>>
MarkClean(d) == MarkCleanG(d, fid) /\ MarkCleanE(d, fid)

DoDropG(d) == Running /\ cur.kind = "drop" /\ cur.d = d /\ cur.todo = {}
DoDropE(d) == /\ dur' = DropEff(dur, d) /\ opened' = opened \ {d} /\ flag' = [flag EXCEPT ![d] = FALSE]
              /\ cur' = IdleCall
              /\ UNCHANGED <<fid, hist, nw, ndrops, pc, res>>
DoDrop == cur.kind = "drop" /\ DoDropG(cur.d) /\ DoDropE(cur.d)

(* ---------------- crash and restart ---------------- *)
Crash == /\ pc = "run" /\ pc' = "crashed"
         /\ opened' = {} /\ flag' = [d \in DBs |-> FALSE] /\ cur' = IdleCall
         /\ UNCHANGED <<dur, fid, hist, nw, ndrops, res>>
Restart == /\ pc = "crashed" /\ pc' = "restarted"
           /\ res' \in Verdicts(dur)
           /\ UNCHANGED <<dur, opened, flag, cur, fid, hist, nw, ndrops>>

\* one-key writes: w = [k |-> v], v = Absent is a delete
Writes == {[x \in {k} |-> v] : k \in Keys, v \in Vals \cup {Absent}}
FNext == \/ \E d \in DBs : BeginOpen(d) \/ BeginDrop(d) \/ MarkDirty(d) \/ MarkClean(d)
         \/ \E d \in DBs, w \in Writes : BeginWrite(d, w)
         \/ BeginFlush(fid + 1) \/ DoCreate \/ WriteData \/ DoDrop \/ Crash \/ Restart
FSpec == FInit /\ [][FNext]_fvars

(* ---------------- the property (C25) ---------------- *)
CrashConsistent == pc = "restarted" => VerdictConsistent(dur, hist, res)
CrashConsistentEverywhere == pc = "run" => CrashConsistentAt(dur, hist)
\* while the process runs, the volatile flag says whether the durable mark is the dirty one
FlagIsMark == pc = "run" => \A d \in opened : flag[d] <=> dur[d].mark = DirtyMark
=============================================================================
