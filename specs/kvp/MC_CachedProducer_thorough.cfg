CONSTANTS Names = {"a", "b"} MaxSteps = 7 MaxFails = 1
SPECIFICATION Spec
INVARIANTS OpenIffRefs ClosedExactlyOnce DropAtMostOncePerOpen
PROPERTIES CloseAtLastRef ExtraCloseIsError OneUnderlyingOpenPerGeneration FailedOpenIsNeutral
VIEW View
ACTION_CONSTRAINT Emit
CHECK_DEADLOCK FALSE
