CONSTANTS Names = {"a", "b"} MaxSteps = 6
SPECIFICATION Spec
INVARIANTS OpenIffRefs ClosedExactlyOnce DropAtMostOncePerOpen
PROPERTIES CloseAtLastRef ExtraCloseIsError OneUnderlyingOpenPerGeneration
VIEW View
ACTION_CONSTRAINT Emit
CHECK_DEADLOCK FALSE
