------------------------------ MODULE Lazy ------------------------------
(* kvdb/flushable.LazyFlushable (X04): a flushable store whose real database is produced only    *)
(* when it is first needed ("Real db won't be produced until first .Flush() is called").          *)
(* State: the content of the database the producer hands out (`real`), whether it has been        *)
(* produced (`opened`), the not yet flushed modifications (`cache`: key -> value, Deleted, or       *)
(* Untouched), how many of the next producer calls fail (`fails`, the environment), and how often   *)
(* the producer has been called (`pcalls`, observable by the harness' producer).                    *)
(*   Put / Delete        modify the cache only                                                      *)
(*   Get / Has / iterate the cache over the real database once that is produced, over nothing before *)
(*   Flush               produces the database if necessary, then moves the cache into it; when the   *)
(*                       producer fails its error is returned and NOTHING else changes (the cache is  *)
(*                       kept, the store stays usable, a later Flush asks the producer again)         *)
(*   InitUnderlyingDb    produces the database if necessary (same failure rule), flushes nothing      *)
(*   DropNotFlushed      forgets the cache;  NotFlushedPairs = number of modified keys                *)
(*   Close               drops the cache and closes what was produced; afterwards reads fail           *)
(* The ordered-map semantics (KVDefs, Bytes) are those of specs/kv.  `act` is output only.            *)
EXTENDS KVDefs

CONSTANTS Keys, Vals, RealInits, MaxFails, ProbeKeys, IterTable
VARIABLES real, opened, cache, fails, pcalls, closed, act
vars == <<real, opened, cache, fails, pcalls, closed, act>>
View == <<real, opened, cache, fails, pcalls, closed>>

UNT == "^"                     \* key not modified since the last flush
ErrProducer == "producer failed"
ErrClosed == "database closed"
KeySet == Keys
Sorted == SortKeys(KeySet)
NoMods == [k \in KeySet |-> UNT]
Under == IF opened THEN real ELSE [k \in KeySet |-> NONE]
\* what the store shows
Shown == [k \in KeySet |-> IF cache[k] # UNT THEN cache[k] ELSE Under[k]]
Merge(base, mods) == [k \in KeySet |-> IF mods[k] # UNT THEN mods[k] ELSE base[k]]

TypeOK == /\ real \in [Keys -> Vals \cup {"r", NONE}] /\ cache \in [Keys -> Vals \cup {NONE, UNT}]
          /\ opened \in BOOLEAN /\ closed \in BOOLEAN /\ fails \in 0..MaxFails /\ pcalls \in 0..(MaxFails + 1)

Init == /\ real \in RealInits /\ opened = FALSE /\ cache = NoMods /\ fails \in 0..MaxFails /\ pcalls = 0 /\ closed = FALSE
        /\ act = [op |-> "init"]

Put(k, v) == /\ ~closed /\ cache' = [cache EXCEPT ![k] = v] /\ UNCHANGED <<real, opened, fails, pcalls, closed>>
             /\ act' = [op |-> "put", k |-> Str(k), v |-> v, err |-> ""]
Delete(k) == /\ ~closed /\ cache' = [cache EXCEPT ![k] = NONE] /\ UNCHANGED <<real, opened, fails, pcalls, closed>>
             /\ act' = [op |-> "del", k |-> Str(k), err |-> ""]

\* the producer is asked only while nothing has been produced; it fails while `fails` > 0
ProduceFails == ~opened /\ fails > 0
Produce == IF opened THEN UNCHANGED <<fails, pcalls>> /\ opened' = opened
           ELSE /\ pcalls' = pcalls + 1
                /\ IF fails > 0 THEN fails' = fails - 1 /\ opened' = FALSE ELSE fails' = fails /\ opened' = TRUE

Flush == /\ ~closed /\ Produce
         /\ IF ProduceFails THEN UNCHANGED <<real, cache>> ELSE real' = Merge(real, cache) /\ cache' = NoMods
         /\ UNCHANGED closed
         /\ act' = [op |-> "flush", err |-> IF ProduceFails THEN ErrProducer ELSE ""]
InitDb == /\ ~closed /\ Produce /\ UNCHANGED <<real, cache, closed>>
          /\ act' = [op |-> "initdb", err |-> IF ProduceFails THEN ErrProducer ELSE ""]
DropNotFlushed == /\ ~closed /\ cache' = NoMods /\ UNCHANGED <<real, opened, fails, pcalls, closed>>
                  /\ act' = [op |-> "dropnotflushed"]
Close == /\ ~closed /\ closed' = TRUE /\ cache' = NoMods /\ UNCHANGED <<real, opened, fails, pcalls>>
         /\ act' = [op |-> "close", err |-> ""]

Next == \/ \E k \in Keys, v \in Vals : Put(k, v)
        \/ \E k \in Keys : Delete(k)
        \/ Flush \/ InitDb \/ DropNotFlushed \/ Close
Spec == Init /\ [][Next]_vars

(* ---- properties of the specification ---- *)
\* nothing reaches the produced database except through a successful Flush
OnlyFlushWrites == [][real' # real => act'.op = "flush" /\ act'.err = ""]_vars
\* a failed producer call changes nothing but the call counters: the cache is kept and the store shows the same
FailureKeepsEverything == [][act'.op \in {"flush", "initdb"} /\ act'.err # "" => cache' = cache /\ real' = real /\ ~opened' /\ Shown' = Shown]_vars
\* the producer is needed once: it is never asked again after it succeeded
ProducedOnce == [][opened => pcalls' = pcalls]_vars
\* flushing never changes what the store shows, unless it is the flush that first produces a non-empty database
FlushInvisible == [][act'.op = "flush" /\ act'.err = "" /\ opened => Shown' = Shown]_vars
\* before the database is produced the store shows the cache over nothing
LazyShowsCacheOnly == ~opened => \A k \in Keys : Shown[k] = (IF cache[k] = UNT THEN NONE ELSE cache[k])

(* ---- emission ---- *)
Probes == ProbeKeys
ITab == IterTable
GetJ(k) == IF closed THEN "ERROR " \o ErrClosed ELSE Lookup(Shown, k)
HasJ(k) == IF closed THEN [err |-> ErrClosed] ELSE [b |-> Lookup(Shown, k) # NONE]
IterJ(p, s) == IF closed THEN [pairs |-> <<>>, err |-> ErrClosed] ELSE [pairs |-> PairsOf(Iterate(Shown, p, s)), err |-> ""]
ModsJ == LET ks == SelectSeq(Sorted, LAMBDA k : cache[k] # UNT) IN [i \in DOMAIN ks |-> <<Str(ks[i]), cache[ks[i]]>>]
Abs == [real |-> ViewJ(Sorted, real), opened |-> opened, mods |-> ModsJ, fails |-> fails, pcalls |-> pcalls, closed |-> closed]
Obs == [get |-> [i \in DOMAIN Probes |-> GetJ(Probes[i])],
        has |-> [i \in DOMAIN Probes |-> HasJ(Probes[i])],
        iters |-> [i \in DOMAIN ITab |-> IterJ(ITab[i][1], ITab[i][2])],
        \* the produced database read directly (it exists, with its content, whether or not the store has asked for it)
        real |-> IF closed /\ opened THEN [kind |-> "closed"] ELSE [kind |-> "open", pairs |-> ViewJ(Sorted, real)],
        notflushed |-> IF closed THEN -1 ELSE Cardinality({k \in KeySet : cache[k] # UNT}),
        pcalls |-> pcalls]
Emit == PrintT(<<"EDGE", ToJson([pre |-> View, act |-> act', post |-> View'])>>)
EmitState == PrintT(<<"EDGE", ToJson([key |-> View, state |-> Abs, obs |-> Obs])>>)
XConfJ == [probe |-> [i \in DOMAIN Probes |-> Str(Probes[i])],
           iters |-> [i \in DOMAIN ITab |-> <<Str(ITab[i][1]), Str(ITab[i][2])>>]]
=============================================================================
