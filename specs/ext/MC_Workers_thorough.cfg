CONSTANTS Tasks = {1, 2, 3} Callers = {1, 2} Caps = {0, 1, 2} StartNs = {1, 2} MaxStarted = 2
SPECIFICATION Spec
INVARIANTS QueueBounded OnePlace WorkersAccounted AllGoneIsFinal RefusedOnlyAfterQuit BlockedEnqueueFreedByQuit
PROPERTIES DrainSawEmpty CountIsQueueLength Monotone
CHECK_DEADLOCK FALSE
