------------------------------ MODULE KVWrappers ------------------------------
(* The thin key-value wrappers of kvdb that the listed properties do not cover (X01):            *)
(* readonlystore, skipkeys, skiperrors, nokeyiserr, fallible, devnulldb and batched, stacked      *)
(* over kvdb/memorydb.  The bottom store is the ordered byte-string map of specs/kv (KVDefs,      *)
(* Bytes are reused); every wrapper contributes one rule to each public call, and a stack of      *)
(* wrappers (bottom first) is evaluated by recursion over its layers, so that compositions are    *)
(* specified by the same text as single wrappers:                                                 *)
(*   readonly    Put / Delete fail with "operation is unsupported", also on its batches           *)
(*   skipkeys(p) keys with prefix p are invisible to Get / Has / iteration (writes pass)          *)
(*   nokeyiserr  Get of a missing key is the error "not found" (also through its snapshots)       *)
(*   skiperrors(E) an error whose text is in E becomes "no error, no result" on Get / Has / Put / *)
(*               Delete / Close (not on iterators and batches)                                    *)
(*   fallible    every Put, Close and Drop consumes one unit of the write budget; when none is    *)
(*               left the call panics ("write limit is over") and does nothing else; batches      *)
(*               and Delete are not counted                                                       *)
(*   devnull     always empty, accepts and forgets everything                                     *)
(*   batched     Put / Delete go to one pending batch of the store below; reads do not see it;    *)
(*               before queueing, a pending batch larger than kvdb.IdealBatchSize is written and  *)
(*               reset (MayFlush); Flush writes and resets, Write writes only, Reset forgets,     *)
(*               Replay re-issues the pending operations, Close flushes and closes                *)
(* A configuration (constant Configs) names a stack, the keys and values it is driven with and   *)
(* the groups of calls that are explored on it.  The parent memorydb is part of the state and of  *)
(* every observation (the contracts of batched and readonly talk about it); `pput`, `pdel`,       *)
(* `pclose` are calls made on the parent directly, behind the wrapper's back.                     *)
(* `act` is an output-only variable (pattern R).  Misuse that the code answers with a nil         *)
(* dereference (writing to a closed memorydb, dropping an open one) is not explored.              *)
EXTENDS KVDefs

CONSTANTS Configs,      \* sequence of configurations [name, layers, keys, vals, pvals, feats]
          Threshold,    \* kvdb.IdealBatchSize in bytes
          VLen,         \* value -> its length in bytes (values are names; long ones stand for long byte strings)
          MaxPending,   \* bound on the explored length of the pending batch
          MaxUB,        \* bound on the explored length of a user batch
          MinBudget,    \* the write counter is explored down to this value
          Budgets,      \* arguments of SetWriteCount
          ProbeKeys, IterTable

VARIABLES ci,       \* index of the configuration (constant along a behaviour)
          parent,   \* content of the bottom memorydb
          closed,   \* the bottom memorydb has been closed
          budget,   \* write counter of the fallible layer
          pending,  \* pending batch of the batched layer
          ub,       \* a batch obtained from the top of the stack by NewBatch
          snap,     \* one snapshot slot, taken through the top of the stack
          act
vars == <<ci, parent, closed, budget, pending, ub, snap, act>>
View == <<ci, parent, closed, budget, pending, ub, snap>>

ErrUnsupported == "operation is unsupported"
ErrNotFound == "not found"
ErrClosed == "database closed"
PanicLimit == "PANIC write limit is over"
Misuse == "MISUSE"

Cfgs == Configs
C == Cfgs[ci]
L == C.layers
Top == Len(L)
F == C.feats
AllKeys == UNION {Cfgs[i].keys : i \in DOMAIN Cfgs}
Sorted == SortKeys(AllKeys)
EmptyView == [k \in AllKeys |-> NONE]
NoSnap == [live |-> FALSE, view |-> EmptyView]
St == [parent |-> parent, closed |-> closed, budget |-> budget, pending |-> pending]
R(e, s) == [err |-> e, st |-> s]

OpSize(op) == Len(op.k) + (IF op.t = "put" THEN VLen[op.v] ELSE 0)
RECURSIVE PSize(_)
PSize(ops) == IF ops = <<>> THEN 0 ELSE OpSize(Head(ops)) + PSize(Tail(ops))
Front(s) == SubSeq(s, 1, Len(s) - 1)

Has(ls, t) == \E i \in DOMAIN ls : ls[i].t = t
Bottom(ls) == ls[1].t

(* ---------------------------------------------------------------- batches ---- *)
\* every layer hands out the batch of the bottom store; a readonly layer on the way makes it reject Put / Delete
BatchRO(ls, m) == \E i \in 1..m : ls[i].t = "readonly"
BatchAdd(ls, m, op, ops) ==
  IF BatchRO(ls, m) THEN [err |-> ErrUnsupported, ops |-> ops]
  ELSE IF Bottom(ls) = "devnull" THEN [err |-> "", ops |-> ops]
  ELSE [err |-> "", ops |-> Append(ops, op)]
BatchWrite(ls, ops, st) ==
  IF Bottom(ls) = "devnull" THEN R("", st)
  ELSE IF st.closed THEN R(ErrClosed, st)
  ELSE R("", [st EXCEPT !.parent = ApplyOps(@, ops)])

Flush(ls, st) ==
  LET r == BatchWrite(ls, st.pending, st) IN
  IF r.err # "" THEN r ELSE R("", [r.st EXCEPT !.pending = <<>>])
MustFlush(st) == PSize(st.pending) > Threshold
MayFlush(ls, st) == IF MustFlush(st) THEN Flush(ls, st) ELSE R("", st)

(* ---------------------------------------------------------------- writes ---- *)
RECURSIVE WriteAt(_, _, _, _)
WriteAt(ls, n, op, st) ==
  LET l == ls[n] IN
  CASE l.t = "mem" -> IF st.closed THEN R(Misuse, st) ELSE R("", [st EXCEPT !.parent = ApplyOp(@, op)])
    [] l.t = "devnull" -> R("", st)
    [] l.t = "readonly" -> R(ErrUnsupported, st)
    [] l.t = "skiperrors" -> LET r == WriteAt(ls, n - 1, op, st) IN IF r.err \in l.errs THEN R("", r.st) ELSE r
    [] l.t = "fallible" ->
         IF op.t = "put"
         THEN LET s1 == [st EXCEPT !.budget = @ - 1] IN
              IF s1.budget < 0 THEN R(PanicLimit, s1) ELSE WriteAt(ls, n - 1, op, s1)
         ELSE WriteAt(ls, n - 1, op, st)
    [] l.t = "batched" ->
         LET f == MayFlush(ls, st) IN
         IF f.err # "" THEN f
         ELSE LET b == BatchAdd(ls, n - 1, op, f.st.pending) IN R(b.err, [f.st EXCEPT !.pending = b.ops])
    [] OTHER -> WriteAt(ls, n - 1, op, st)

RECURSIVE CloseAt(_, _, _)
CloseAt(ls, n, st) ==
  LET l == ls[n] IN
  CASE l.t = "mem" -> IF st.closed THEN R(ErrClosed, st) ELSE R("", [st EXCEPT !.closed = TRUE, !.parent = EmptyView])
    [] l.t = "devnull" -> R("", st)
    [] l.t = "skiperrors" -> LET r == CloseAt(ls, n - 1, st) IN IF r.err \in l.errs THEN R("", r.st) ELSE r
    [] l.t = "fallible" ->
         LET s1 == [st EXCEPT !.budget = @ - 1] IN
         IF s1.budget < 0 THEN R(PanicLimit, s1) ELSE CloseAt(ls, n - 1, s1)
    [] l.t = "batched" -> LET f == Flush(ls, st) IN IF f.err # "" THEN f ELSE CloseAt(ls, n - 1, f.st)
    [] OTHER -> CloseAt(ls, n - 1, st)

RECURSIVE DropAt(_, _, _)
DropAt(ls, n, st) ==
  LET l == ls[n] IN
  CASE l.t = "mem" -> IF st.closed THEN R("", st) ELSE R(Misuse, st)
    [] l.t = "devnull" -> R("", st)
    [] l.t = "fallible" ->
         LET s1 == [st EXCEPT !.budget = @ - 1] IN
         IF s1.budget < 0 THEN R(PanicLimit, s1) ELSE DropAt(ls, n - 1, s1)
    [] OTHER -> DropAt(ls, n - 1, st)

(* ---------------------------------------------------------------- reads ---- *)
\* rd = [view, closed]: what the bottom reader (the store or a snapshot of it) holds
G(v, e) == [v |-> v, err |-> e]
RECURSIVE GetAt(_, _, _, _)
GetAt(ls, n, k, rd) ==
  LET l == ls[n] IN
  CASE l.t = "mem" -> IF rd.closed THEN G(NONE, ErrClosed) ELSE G(rd.view[k], "")
    [] l.t = "devnull" -> G(NONE, "")
    [] l.t = "skipkeys" -> IF HasPrefix(k, l.p) THEN G(NONE, "") ELSE GetAt(ls, n - 1, k, rd)
    [] l.t = "nokeyiserr" -> LET r == GetAt(ls, n - 1, k, rd) IN IF r.v = NONE /\ r.err = "" THEN G(NONE, ErrNotFound) ELSE r
    [] l.t = "skiperrors" -> LET r == GetAt(ls, n - 1, k, rd) IN IF r.err \in l.errs THEN G(NONE, "") ELSE r
    [] OTHER -> GetAt(ls, n - 1, k, rd)

H(b, e) == [b |-> b, err |-> e]
RECURSIVE HasAt(_, _, _, _)
HasAt(ls, n, k, rd) ==
  LET l == ls[n] IN
  CASE l.t = "mem" -> IF rd.closed THEN H(FALSE, ErrClosed) ELSE H(rd.view[k] # NONE, "")
    [] l.t = "devnull" -> H(FALSE, "")
    [] l.t = "skipkeys" -> IF HasPrefix(k, l.p) THEN H(FALSE, "") ELSE HasAt(ls, n - 1, k, rd)
    [] l.t = "skiperrors" -> LET r == HasAt(ls, n - 1, k, rd) IN IF r.err \in l.errs THEN H(FALSE, "") ELSE r
    [] OTHER -> HasAt(ls, n - 1, k, rd)

I(ps, e) == [pairs |-> ps, err |-> e]
RECURSIVE IterAt(_, _, _, _, _)
IterAt(ls, n, prefix, start, rd) ==
  LET l == ls[n] IN
  CASE l.t = "mem" -> IF rd.closed THEN I(<<>>, ErrClosed) ELSE I(Iterate(rd.view, prefix, start), "")
    [] l.t = "devnull" -> I(<<>>, "")
    [] l.t = "skipkeys" -> LET r == IterAt(ls, n - 1, prefix, start, rd) IN
                           I(SelectSeq(r.pairs, LAMBDA p : ~HasPrefix(p[1], l.p)), r.err)
    [] OTHER -> IterAt(ls, n - 1, prefix, start, rd)

\* a snapshot taken through the stack is the bottom store's snapshot, wrapped only by nokeyiserr and skiperrors
SnapLayers(ls) == SelectSeq(ls, LAMBDA l : l.t \in {"mem", "devnull", "nokeyiserr", "skiperrors"})

(* ---------------------------------------------------------------- actions ---- *)
TypeOK ==
  /\ ci \in DOMAIN Cfgs /\ closed \in BOOLEAN /\ budget \in MinBudget..100
  /\ Len(pending) <= MaxPending /\ Len(ub) <= MaxUB
  /\ snap.live \in BOOLEAN

Init ==
  /\ ci \in DOMAIN Cfgs
  /\ parent = EmptyView /\ closed = FALSE /\ budget = 0 /\ pending = <<>> /\ ub = <<>> /\ snap = NoSnap
  /\ act = [op |-> "init"]

Set(s) == /\ parent' = s.parent /\ closed' = s.closed /\ budget' = s.budget /\ pending' = s.pending
Bounded(s) == s.budget >= MinBudget /\ Len(s.pending) <= MaxPending

Write(op) ==
  LET r == WriteAt(L, Top, op, St) IN
  /\ "w" \in F /\ op.k \in C.keys /\ (op.t = "put" => op.v \in C.vals)
  /\ r.err # Misuse /\ Bounded(r.st)
  /\ Set(r.st) /\ UNCHANGED <<ci, ub, snap>>
  /\ act' = [op |-> op.t, k |-> Str(op.k), v |-> op.v, err |-> r.err]

PWrite(op) ==
  /\ "p" \in F /\ ~closed /\ Bottom(L) = "mem" /\ op.k \in C.keys /\ (op.t = "put" => op.v \in C.pvals)
  /\ parent' = ApplyOp(parent, op) /\ UNCHANGED <<ci, closed, budget, pending, ub, snap>>
  /\ act' = [op |-> "p" \o op.t, k |-> Str(op.k), v |-> op.v]

PClose ==
  /\ "pclose" \in F /\ ~closed /\ Bottom(L) = "mem"
  /\ closed' = TRUE /\ parent' = EmptyView /\ UNCHANGED <<ci, budget, pending, ub, snap>>
  /\ act' = [op |-> "pclose"]

Close ==
  LET r == CloseAt(L, Top, St) IN
  /\ "close" \in F /\ Bounded(r.st)
  /\ Set(r.st) /\ UNCHANGED <<ci, ub, snap>>
  /\ act' = [op |-> "close", err |-> r.err]

Drop ==
  LET r == DropAt(L, Top, St) IN
  /\ "drop" \in F /\ r.err # Misuse /\ Bounded(r.st)
  /\ Set(r.st) /\ UNCHANGED <<ci, ub, snap>>
  /\ act' = [op |-> "drop", err |-> r.err]

SetWriteCount(n) ==
  /\ "budget" \in F
  /\ budget' = n /\ UNCHANGED <<ci, parent, closed, pending, ub, snap>>
  /\ act' = [op |-> "setwc", n |-> n]

\* the batch handed out by the top of the stack
UBAdd(op) ==
  LET b == BatchAdd(L, Top, op, ub) IN
  /\ "ub" \in F /\ op.k \in C.keys /\ (op.t = "put" => op.v \in C.vals) /\ Len(b.ops) <= MaxUB
  /\ ub' = b.ops /\ UNCHANGED <<ci, parent, closed, budget, pending, snap>>
  /\ act' = [op |-> "ub" \o op.t, k |-> Str(op.k), v |-> op.v, err |-> b.err]
UBWrite ==
  LET r == BatchWrite(L, ub, St) IN
  /\ "ub" \in F
  /\ Set(r.st) /\ UNCHANGED <<ci, ub, snap>>
  /\ act' = [op |-> "ubwrite", err |-> r.err]
UBReset ==
  /\ "ub" \in F /\ ub # <<>>
  /\ ub' = <<>> /\ UNCHANGED <<ci, parent, closed, budget, pending, snap>>
  /\ act' = [op |-> "ubreset"]

Snap ==
  /\ "snap" \in F /\ ~snap.live /\ ~closed
  /\ snap' = [live |-> TRUE, view |-> parent] /\ UNCHANGED <<ci, parent, closed, budget, pending, ub>>
  /\ act' = [op |-> "snap"]
Release ==
  /\ "snap" \in F /\ snap.live
  /\ snap' = NoSnap /\ UNCHANGED <<ci, parent, closed, budget, pending, ub>>
  /\ act' = [op |-> "release"]

\* calls that only the batched wrapper has
BWrite ==
  LET r == BatchWrite(L, pending, St) IN
  /\ "batched" \in F
  /\ Set(r.st) /\ UNCHANGED <<ci, ub, snap>>
  /\ act' = [op |-> "bwrite", err |-> r.err]
BReset ==
  /\ "batched" \in F /\ pending # <<>>
  /\ pending' = <<>> /\ UNCHANGED <<ci, parent, closed, budget, ub, snap>>
  /\ act' = [op |-> "breset"]
BFlush ==
  LET r == Flush(L, St) IN
  /\ "batched" \in F
  /\ Set(r.st) /\ UNCHANGED <<ci, ub, snap>>
  /\ act' = [op |-> "bflush", err |-> r.err]
BMayFlush ==
  LET r == MayFlush(L, St) IN
  /\ "batched" \in F
  /\ Set(r.st) /\ UNCHANGED <<ci, ub, snap>>
  /\ act' = [op |-> "bmayflush", flushed |-> MustFlush(St), err |-> r.err]

Next ==
  \/ \E k \in C.keys, v \in C.vals : Write(OpPut(k, v)) \/ UBAdd(OpPut(k, v))
  \/ \E k \in C.keys : Write(OpDel(k)) \/ UBAdd(OpDel(k)) \/ PWrite(OpDel(k))
  \/ \E k \in C.keys, v \in C.pvals : PWrite(OpPut(k, v))
  \/ PClose \/ Close \/ Drop
  \/ \E n \in Budgets : SetWriteCount(n)
  \/ UBWrite \/ UBReset \/ Snap \/ Release
  \/ BWrite \/ BReset \/ BFlush \/ BMayFlush
Spec == Init /\ [][Next]_vars

(* ---------------------------------------------------------------- properties of the specification ---- *)
Rd == [view |-> parent, closed |-> closed]
TopGet(k) == GetAt(L, Top, k, Rd)
TopHas(k) == HasAt(L, Top, k, Rd)
TopIter(p, s) == IterAt(L, Top, p, s, Rd)
IsTop(t) == L[Top].t = t
Through == {"put", "del", "ubput", "ubdel", "ubwrite", "bwrite", "bflush", "bmayflush", "close", "drop"}   \* calls made on the wrapper

\* nothing done through a stack with a readonly layer changes the parent (closing aside)
ReadOnlyNeverWrites ==
  [][Has(L, "readonly") /\ act'.op \in (Through \ {"close"}) => parent' = parent]_vars
\* keys with the skipped prefix are invisible through the top, all other keys read as in the parent
SkippedInvisible ==
  IsTop("skipkeys") /\ ~closed =>
    /\ \A k \in AllKeys :
         IF HasPrefix(k, L[Top].p) THEN TopGet(k) = G(NONE, "") /\ TopHas(k) = H(FALSE, "")
         ELSE TopGet(k).v = GetAt(L, Top - 1, k, Rd).v
    /\ \A i \in DOMAIN IterTable :
         LET it == TopIter(IterTable[i][1], IterTable[i][2]).pairs IN
         /\ \A j \in DOMAIN it : ~HasPrefix(it[j][1], L[Top].p)
         /\ {it[j][1] : j \in DOMAIN it} =
              {k \in Present(parent) : InRange(k, IterTable[i][1], IterTable[i][2]) /\ ~HasPrefix(k, L[Top].p)}
\* nokeyiserr directly over the store: Get fails exactly for the absent keys
MissingIsError ==
  IsTop("nokeyiserr") /\ Top = 2 /\ ~closed =>
    \A k \in AllKeys : (TopGet(k).err = ErrNotFound) <=> (IF Bottom(L) = "devnull" THEN TRUE ELSE Lookup(parent, k) = NONE)
\* the write budget: a Put through a fallible top consumes one unit; it panics exactly when none is left and then writes nothing
BudgetRule ==
  [][IsTop("fallible") /\ act'.op = "put" =>
       /\ budget' = budget - 1
       /\ (act'.err = PanicLimit) <=> (budget <= 0)
       /\ act'.err = PanicLimit => parent' = parent]_vars
\* everything above a devnull bottom reads as empty
DevNullEmpty ==
  Bottom(L) = "devnull" => \A k \in AllKeys : TopGet(k).v = NONE /\ ~TopHas(k).b
\* batched: reads through the wrapper never depend on the pending batch
ReadsIgnorePending ==
  IsTop("batched") => \A k \in AllKeys : TopGet(k) = GetAt(L, Top - 1, k, Rd)
\* batched: queued operations reach the parent only through a flush / write; the parent changes on Put / Delete only when the
\* pending batch had outgrown the threshold, and then every key holds the value of the last pending operation naming it
BatchedBuffers ==
  [][IsTop("batched") /\ act'.op \in {"put", "del"} =>
       IF MustFlush(St) /\ act'.err = ""
       THEN /\ \A k \in AllKeys : parent'[k] = LastOpValue(parent, pending, k)
            /\ Len(pending') <= 1
       ELSE parent' = parent]_vars
FlushWritesAll ==
  [][IsTop("batched") /\ act'.op \in {"bflush", "close"} /\ act'.err = "" /\ ~closed =>
       /\ pending' = <<>>
       /\ closed' \/ \A k \in AllKeys : parent'[k] = LastOpValue(parent, pending, k)]_vars
\* batched: whatever is pending was small enough when its last operation was queued
PendingWasSmall == pending # <<>> => PSize(Front(pending)) <= Threshold

(* ---------------------------------------------------------------- emission (pattern R) ---- *)
Probes == ProbeKeys
ITab == IterTable
GetJ(r) == IF r.err # "" THEN "ERROR " \o r.err ELSE r.v
HasJ(r) == IF r.err # "" THEN [err |-> r.err] ELSE [b |-> r.b]
IterJ(r) == [pairs |-> PairsOf(r.pairs), err |-> r.err]
ReaderJ(ls, rd) ==
  [get   |-> [i \in DOMAIN Probes |-> GetJ(GetAt(ls, Len(ls), Probes[i], rd))],
   has   |-> [i \in DOMAIN Probes |-> HasJ(HasAt(ls, Len(ls), Probes[i], rd))],
   iters |-> [i \in DOMAIN ITab |-> IterJ(IterAt(ls, Len(ls), ITab[i][1], ITab[i][2], rd))]]

LayerJ(l) == [t |-> l.t, p |-> Str(l.p), errs |-> l.errs]
CfgJ(c) == [name |-> c.name, layers |-> [i \in DOMAIN c.layers |-> LayerJ(c.layers[i])]]

\* the abstract state as the harness builds it
Abs == [cfg |-> CfgJ(C), parent |-> ViewJ(Sorted, parent), closed |-> closed, budget |-> budget,
        pending |-> OpsJ(pending), ub |-> OpsJ(ub),
        snap |-> [live |-> snap.live, view |-> ViewJ(Sorted, snap.view)]]
\* what the public API shows: reads through the top of the stack, the parent read directly, the snapshot read through the
\* wrapper's snapshot, GetWriteCount, and the pending / user batch as Replay re-issues them
Obs == [top     |-> ReaderJ(L, Rd),
        parent  |-> IF Bottom(L) = "devnull" THEN [kind |-> "devnull"]
                    ELSE IF closed THEN [kind |-> "closed"] ELSE [kind |-> "open", pairs |-> ViewJ(Sorted, parent)],
        snap    |-> IF snap.live THEN [live |-> TRUE, view |-> ReaderJ(SnapLayers(L), [view |-> snap.view, closed |-> FALSE])]
                    ELSE [live |-> FALSE],
        budget  |-> budget,
        pending |-> OpsJ(pending),
        ub      |-> OpsJ(ub)]

Emit == PrintT(<<"EDGE", ToJson([pre |-> View, act |-> act', post |-> View'])>>)
EmitState == PrintT(<<"EDGE", ToJson([key |-> View, state |-> Abs, obs |-> Obs])>>)

XConfJ == [probe |-> [i \in DOMAIN Probes |-> Str(Probes[i])],
          iters |-> [i \in DOMAIN ITab |-> <<Str(ITab[i][1]), Str(ITab[i][2])>>],
          vlen  |-> VLen, threshold |-> Threshold]
=============================================================================
