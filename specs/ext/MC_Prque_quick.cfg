CONSTANTS N = 4 Prios = {0,1,2} MaxSize = 4
SPECIFICATION Spec
INVARIANTS TypeOK DrainSorted
PROPERTIES PopIsGreatest TakesOne PushAdds
VIEW View
ACTION_CONSTRAINT Emit
CHECK_DEADLOCK FALSE
