SPECIFICATION LSpec
CONSTRAINT Mark
POSTCONDITION Accepted
INVARIANTS QueueBounded OnePlace WorkersAccounted
CHECK_DEADLOCK FALSE
