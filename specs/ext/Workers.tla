------------------------------- MODULE Workers -------------------------------
(* utils/workers: the worker pool of the event processor, fetcher and seeder (X02).              *)
(*   New(wg, quit, maxTasks)  a queue of at most maxTasks functions                              *)
(*   Start(n)                 n more workers; a worker repeatedly takes the oldest queued task    *)
(*                            and runs it, and leaves once it notices that quit is closed          *)
(*   Enqueue(fn)              blocks until there is room in the queue (nil) or quit is closed      *)
(*                            ("terminated"); when both hold either may happen                     *)
(*   Drain()                  removes queued tasks without running them until it finds the queue  *)
(*                            empty                                                               *)
(*   TasksCount()             number of queued tasks (running ones are not counted)               *)
(*   close(quit), wg.Wait()   the owner's way of stopping the pool and waiting for its workers    *)
(* Every public call is split into call / internal linearization step(s) / return (pattern L);    *)
(* the workers contribute the internal steps Take and Exit and the logged steps TaskStart and     *)
(* TaskEnd (first and last statement of the task function).  Tasks are identified by distinct     *)
(* numbers.  With maxTasks = 0 the queue is a rendezvous: an Enqueue completes by handing its      *)
(* task to an idle worker or to a running Drain.                                                   *)
EXTENDS Integers, Sequences, FiniteSets, TLC

VARIABLES cap,      \* maxTasks
          queue,    \* queued tasks, oldest first
          idle,     \* number of live workers that hold no task
          taken,    \* tasks taken from the queue whose function has not logged its start yet
          running,  \* tasks between their start and end lines
          started,  \* workers started so far
          exited,   \* workers that have left
          quit,     \* the quit channel is closed
          done,     \* tasks that ran to completion
          dropped,  \* tasks removed by Drain
          pend      \* caller -> [a |-> call, st |-> "called" | "done", res |-> result]
wvars == <<cap, queue, idle, taken, running, started, exited, quit, done, dropped, pend>>

OK == [s |-> "ok", n |-> 0]
Terminated == [s |-> "terminated", n |-> 0]
Num(n) == [s |-> "n", n |-> n]

Known == {queue[i] : i \in DOMAIN queue} \cup taken \cup running \cup done \cup dropped
Pending(fn) == {g \in DOMAIN pend : pend[g].st = "called" /\ pend[g].a.fn = fn}

WInit(c) ==
  /\ cap = c /\ queue = <<>> /\ idle = 0 /\ taken = {} /\ running = {} /\ started = 0 /\ exited = 0
  /\ quit = FALSE /\ done = {} /\ dropped = {} /\ pend = <<>>

(* ---- call and return lines ---- *)
Call(g, a) ==
  /\ g \notin DOMAIN pend
  /\ a.fn = "enqueue" => a.t \notin Known /\ \A h \in DOMAIN pend : pend[h].a.fn = "enqueue" => pend[h].a.t # a.t
  /\ pend' = [h \in DOMAIN pend \cup {g} |-> IF h = g THEN [a |-> a, st |-> "called", res |-> OK] ELSE pend[h]]
  /\ UNCHANGED <<cap, queue, idle, taken, running, started, exited, quit, done, dropped>>

Ret(g, res) ==
  /\ g \in DOMAIN pend /\ pend[g].st = "done" /\ pend[g].res = res
  /\ pend' = [h \in DOMAIN pend \ {g} |-> pend[h]]
  /\ UNCHANGED <<cap, queue, idle, taken, running, started, exited, quit, done, dropped>>

(* ---- internal steps of the calls ---- *)
Finish(g, res) == pend' = [pend EXCEPT ![g].st = "done", ![g].res = res]

LinStart(g) ==
  /\ g \in Pending("start")
  /\ idle' = idle + pend[g].a.n /\ started' = started + pend[g].a.n /\ Finish(g, OK)
  /\ UNCHANGED <<cap, queue, taken, running, exited, quit, done, dropped>>

LinEnqueue(g) ==
  /\ g \in Pending("enqueue")
  /\ \/ /\ Len(queue) < cap
        /\ queue' = Append(queue, pend[g].a.t) /\ Finish(g, OK)
        /\ UNCHANGED <<cap, idle, taken, running, started, exited, quit, done, dropped>>
     \/ /\ cap = 0 /\ idle > 0                            \* rendezvous with an idle worker
        /\ idle' = idle - 1 /\ taken' = taken \cup {pend[g].a.t} /\ Finish(g, OK)
        /\ UNCHANGED <<cap, queue, running, started, exited, quit, done, dropped>>
     \/ /\ quit
        /\ Finish(g, Terminated)
        /\ UNCHANGED <<cap, queue, idle, taken, running, started, exited, quit, done, dropped>>

\* Drain removes one queued task ...
LinDrainPop(g) ==
  /\ g \in Pending("drain")
  /\ \/ /\ queue # <<>>
        /\ queue' = Tail(queue) /\ dropped' = dropped \cup {Head(queue)} /\ UNCHANGED pend
     \/ /\ cap = 0                                        \* ... or receives from a blocked Enqueue
        /\ \E h \in Pending("enqueue") :
             /\ dropped' = dropped \cup {pend[h].a.t} /\ Finish(h, OK) /\ UNCHANGED queue
  /\ UNCHANGED <<cap, idle, taken, running, started, exited, quit, done>>
\* ... and returns when it finds the queue empty
LinDrainEnd(g) ==
  /\ g \in Pending("drain") /\ queue = <<>>
  /\ Finish(g, OK)
  /\ UNCHANGED <<cap, queue, idle, taken, running, started, exited, quit, done, dropped>>

LinCount(g) ==
  /\ g \in Pending("count")
  /\ Finish(g, Num(Len(queue)))
  /\ UNCHANGED <<cap, queue, idle, taken, running, started, exited, quit, done, dropped>>

LinStop(g) ==
  /\ g \in Pending("stop") /\ ~quit
  /\ quit' = TRUE /\ Finish(g, OK)
  /\ UNCHANGED <<cap, queue, idle, taken, running, started, exited, done, dropped>>

\* wg.Wait returns once every started worker has left
LinWait(g) ==
  /\ g \in Pending("wait") /\ exited = started
  /\ Finish(g, OK)
  /\ UNCHANGED <<cap, queue, idle, taken, running, started, exited, quit, done, dropped>>

Lin(g) == LinStart(g) \/ LinEnqueue(g) \/ LinDrainPop(g) \/ LinDrainEnd(g) \/ LinCount(g) \/ LinStop(g) \/ LinWait(g)

(* ---- the workers ---- *)
Take ==
  /\ idle > 0 /\ queue # <<>>
  /\ idle' = idle - 1 /\ taken' = taken \cup {Head(queue)} /\ queue' = Tail(queue)
  /\ UNCHANGED <<cap, running, started, exited, quit, done, dropped, pend>>
Exit ==
  /\ idle > 0 /\ quit
  /\ idle' = idle - 1 /\ exited' = exited + 1
  /\ UNCHANGED <<cap, queue, taken, running, started, quit, done, dropped, pend>>
TaskStart(t) ==
  /\ t \in taken
  /\ taken' = taken \ {t} /\ running' = running \cup {t}
  /\ UNCHANGED <<cap, queue, idle, started, exited, quit, done, dropped, pend>>
TaskEnd(t) ==
  /\ t \in running
  /\ running' = running \ {t} /\ done' = done \cup {t} /\ idle' = idle + 1
  /\ UNCHANGED <<cap, queue, taken, started, exited, quit, dropped, pend>>

Internal == Take \/ Exit \/ \E g \in DOMAIN pend : Lin(g)

(* ---- what the rules imply (model-checked by MC_Workers) ---- *)
QueueBounded == Len(queue) <= cap
\* a task is in exactly one place; in particular it runs at most once and never after having been dropped
InQueue == {queue[i] : i \in DOMAIN queue}
OnePlace ==
  /\ Cardinality(InQueue) = Len(queue)
  /\ \A A, B \in {<<1, InQueue>>, <<2, taken>>, <<3, running>>, <<4, done>>, <<5, dropped>>} : A[1] # B[1] => A[2] \cap B[2] = {}
\* every started worker is idle, holds one task, or has left: never more tasks in progress than workers
WorkersAccounted == idle >= 0 /\ idle + Cardinality(taken) + Cardinality(running) + exited = started
\* once all workers have left nothing is in progress and nothing will start
AllGoneIsFinal == exited = started => taken = {} /\ running = {}
\* Drain is done only when it saw the queue empty; TasksCount answers the queue length (action properties)
DrainSawEmpty == [][\A g \in DOMAIN pend : (g \in Pending("drain") /\ g \in DOMAIN pend' /\ pend'[g].st = "done") => queue = <<>>]_wvars
CountIsQueueLength == [][\A g \in DOMAIN pend : (g \in Pending("count") /\ g \in DOMAIN pend' /\ pend'[g].st = "done") => pend'[g].res.n = Len(queue)]_wvars
\* an Enqueue is refused only after quit was closed
RefusedOnlyAfterQuit == \A g \in DOMAIN pend : pend[g].res = Terminated => quit
\* tasks only move forward: a finished or dropped task stays so
Monotone == [][done \subseteq done' /\ dropped \subseteq dropped']_wvars
=============================================================================
