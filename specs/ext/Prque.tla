------------------------------ MODULE Prque ------------------------------
(* common/prque: priority queue with index callbacks (X03).                                     *)
(* Abstract state: which of the items 1..N are queued and with which priority (q[v] = NoP when  *)
(* item v is not queued).  One action per public call.  Pop / PopItem return AN element of the   *)
(* greatest priority: when several share it the choice is left open, so the specification is     *)
(* nondeterministic there and the replay accepts any of the allowed outcomes.                    *)
(* The setIndex callback contract is part of every observation: the last index reported for a    *)
(* queued item is its current position (the positions of the queued items are exactly            *)
(* 0..Size-1, every item that left the queue was last told -1), and Remove(i) with the index     *)
(* last reported for item v removes exactly v.  `act` is output only (pattern R).                *)
EXTENDS Integers, Sequences, FiniteSets, TLC, Json

CONSTANTS N,        \* items are 1..N (the values handed to Push; distinct while queued)
          Prios,    \* priorities used (naturals; the harness maps them into int64, also around the wrap point)
          MaxSize   \* bound on the queue size explored
NoP == -1
Items == 1..N

VARIABLES q, act
vars == <<q, act>>
View == q

Queued(f) == {v \in Items : f[v] # NoP}
Size(f) == Cardinality(Queued(f))
MaxP(f) == CHOOSE p \in {f[v] : v \in Queued(f)} : \A w \in Queued(f) : f[w] <= p
Top(f) == {v \in Queued(f) : f[v] = MaxP(f)}

TypeOK == q \in [Items -> Prios \cup {NoP}] /\ Size(q) <= MaxSize

Init == q = [v \in Items |-> NoP] /\ act = [op |-> "init"]

Push(v, p) ==
  /\ q[v] = NoP /\ Size(q) < MaxSize
  /\ q' = [q EXCEPT ![v] = p]
  /\ act' = [op |-> "push", v |-> v, p |-> p]

\* Pop returns a value of the greatest priority together with that priority
Pop ==
  /\ Queued(q) # {}
  /\ \E v \in Top(q) :
       /\ q' = [q EXCEPT ![v] = NoP]
       /\ act' = [op |-> "pop", res |-> [v |-> v, p |-> q[v]]]

PopItem ==
  /\ Queued(q) # {}
  /\ \E v \in Top(q) :
       /\ q' = [q EXCEPT ![v] = NoP]
       /\ act' = [op |-> "popitem", res |-> [v |-> v]]

\* Remove(i) where i is the index last reported by the callback for the queued item v
Remove(v) ==
  /\ q[v] # NoP
  /\ q' = [q EXCEPT ![v] = NoP]
  /\ act' = [op |-> "remove", v |-> v, res |-> [removed |-> TRUE]]

\* Remove of a negative index (what the callback reports for an item that is not queued) does nothing
RemoveGone(v) ==
  /\ q[v] = NoP
  /\ UNCHANGED q
  /\ act' = [op |-> "removegone", v |-> v, res |-> [removed |-> FALSE]]

Empty == UNCHANGED q /\ act' = [op |-> "empty", res |-> [b |-> Queued(q) = {}]]
SizeOp == UNCHANGED q /\ act' = [op |-> "size", res |-> [n |-> Size(q)]]
Reset == q' = [v \in Items |-> NoP] /\ act' = [op |-> "reset"]

Next == \/ \E v \in Items, p \in Prios : Push(v, p)
        \/ Pop \/ PopItem
        \/ \E v \in Items : Remove(v) \/ RemoveGone(v)
        \/ Empty \/ SizeOp \/ Reset
Spec == Init /\ [][Next]_vars

(* ---- properties of the specification ---- *)
\* what a pop returns has the greatest priority of all queued elements
PopIsGreatest == [][act'.op = "pop" => \A v \in Queued(q) : q[v] <= act'.res.p]_vars
\* pop / remove take exactly one element and leave all others with their priorities
TakesOne == [][act'.op \in {"pop", "popitem", "remove"} =>
                 /\ Size(q') = Size(q) - 1
                 /\ \A v \in Queued(q') : q'[v] = q[v]]_vars
\* push adds exactly the pushed element
PushAdds == [][act'.op = "push" => Queued(q') = Queued(q) \cup {act'.v} /\ q'[act'.v] = act'.p]_vars

(* ---- observation ---- *)
\* the priorities in the order a complete drain by Pop must produce them (non-increasing)
RECURSIVE Drain(_)
Drain(f) == IF Queued(f) = {} THEN <<>>
            ELSE LET v == CHOOSE v \in Top(f) : TRUE IN <<f[v]>> \o Drain([f EXCEPT ![v] = NoP])
DrainSorted == \A i \in 1..(Len(Drain(q)) - 1) : Drain(q)[i] >= Drain(q)[i + 1]

ObsOf(q0) == [size  |-> Size(q0), empty |-> Queued(q0) = {},
        \* callback view: the queued items (last reported index >= 0) with their priorities, the set of those indices,
        \* and the items that were told -1 (or nothing at all)
        tracked |-> {[v |-> v, p |-> q0[v]] : v \in Queued(q0)},
        idxs  |-> 0..(Size(q0) - 1),
        gone  |-> Items \ Queued(q0),
        \* a complete drain: the priorities in pop order and the popped elements
        drain |-> Drain(q0),
        items |-> {[v |-> v, p |-> q0[v]] : v \in Queued(q0)}]
Emit == PrintT(<<"EDGE", ToJson([pre |-> q, act |-> act', post |-> q', obs |-> ObsOf(q')])>>)
=============================================================================
