------------------------------- MODULE MC_Workers -------------------------------
(* Small-scope model check of Workers.tla with a free environment: Callers issue any of the      *)
(* public calls (each task number is enqueued at most once, quit is closed at most once).        *)
EXTENDS Workers

CONSTANTS Tasks, Callers, Caps, StartNs, MaxStarted

Init == \E c \in Caps : WInit(c)

Calls == {[fn |-> "enqueue", t |-> t, n |-> 0] : t \in Tasks}
         \cup {[fn |-> "start", t |-> 0, n |-> n] : n \in StartNs}
         \cup {[fn |-> f, t |-> 0, n |-> 0] : f \in {"drain", "count", "stop", "wait"}}

EnvCall(g, a) ==
  /\ a.fn = "enqueue" => a.t \notin Known /\ \A h \in DOMAIN pend : pend[h].a.fn = "enqueue" => pend[h].a.t # a.t
  /\ a.fn = "stop" => ~quit /\ Pending("stop") = {}
  /\ a.fn = "start" => started + a.n <= MaxStarted /\ Pending("start") = {} /\ Pending("wait") = {}
  /\ a.fn = "wait" => Pending("start") = {}
  /\ Call(g, a)

Next ==
  \/ \E g \in Callers, a \in Calls : EnvCall(g, a)
  \/ \E g \in DOMAIN pend : Ret(g, pend[g].res)
  \/ Internal
  \/ \E t \in taken : TaskStart(t)
  \/ \E t \in running : TaskEnd(t)
Spec == Init /\ [][Next]_wvars
\* with fair workers and fair callers every accepted task is run or dropped unless the pool is stopped or has no workers
Fair == /\ WF_wvars(Take) /\ WF_wvars(\E t \in taken : TaskStart(t)) /\ WF_wvars(\E t \in running : TaskEnd(t))
FairSpec == Spec /\ Fair
QueueEmpties == (queue # <<>> /\ started > 0) ~> (queue = <<>> \/ quit)
\* a blocked Enqueue can complete as soon as quit is closed
BlockedEnqueueFreedByQuit == \A g \in DOMAIN pend : (g \in Pending("enqueue") /\ quit) => ENABLED LinEnqueue(g)
=============================================================================
