CONSTANTS Tasks = {1, 2} Callers = {1} Caps = {1, 2} StartNs = {1} MaxStarted = 1
SPECIFICATION FairSpec
INVARIANTS QueueBounded OnePlace WorkersAccounted
PROPERTIES QueueEmpties
CHECK_DEADLOCK FALSE
