CONSTANTS Keys <- K3  Vals = {"", "x"}  RealInits <- Reals3  MaxFails = 2  ProbeKeys <- Probe  IterTable <- IterTab
SPECIFICATION Spec
INVARIANTS TypeOK LazyShowsCacheOnly EmitState
PROPERTIES OnlyFlushWrites FailureKeepsEverything ProducedOnce FlushInvisible
VIEW View
ACTION_CONSTRAINT Emit
CHECK_DEADLOCK FALSE
