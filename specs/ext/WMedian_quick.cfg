CONSTANTS Weights = {0,1,2,3} MaxLen = 4
SPECIFICATION Spec
INVARIANTS SplitPoint PanicsIffShort ZeroWeightSkipped
ACTION_CONSTRAINT Emit
CHECK_DEADLOCK FALSE
