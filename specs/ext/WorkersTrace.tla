------------------------------- MODULE WorkersTrace -------------------------------
(* Validates histories recorded from the real utils/workers pool against Workers.tla (patterns   *)
(* L+T).  Lines (appended to the log under one mutex):                                            *)
(*   {"op":"reset","cap":c}                      a new pool New(wg, quit, c)                      *)
(*   {"op":"call","g":g,"a":{"fn":..,"t":..,"n":..}}   caller g is about to invoke fn             *)
(*   {"op":"ret","g":g,"res":{"s":..,"n":..}}     fn returned to caller g                          *)
(*   {"op":"start","t":t} / {"op":"end","t":t}   first / last statement of task t's function      *)
(* Between the lines TLC places the internal steps of Workers.tla (linearization points of the    *)
(* calls, workers taking tasks and leaving).  A "stuck" line (the harness gave up waiting for      *)
(* something the rules promise) matches no action.  High-water-mark acceptance.                    *)
EXTENDS Workers, Json, IOUtils

Trace == ndJsonDeserialize(IOEnv.TRACE)
VARIABLE l
lvars == <<l, cap, queue, idle, taken, running, started, exited, quit, done, dropped, pend>>
T == Trace[l]
Is(op) == l <= Len(Trace) /\ T.op = op /\ l' = l + 1

LInit == TLCSet(1, 1) /\ l = 1 /\ WInit(0)

LReset ==
  /\ Is("reset")
  /\ cap' = T.cap /\ queue' = <<>> /\ idle' = 0 /\ taken' = {} /\ running' = {} /\ started' = 0 /\ exited' = 0
  /\ quit' = FALSE /\ done' = {} /\ dropped' = {} /\ pend' = <<>>

LNext ==
  \/ LReset
  \/ Is("call") /\ Call(T.g, T.a)
  \/ Is("ret") /\ Ret(T.g, T.res)
  \/ Is("start") /\ TaskStart(T.t)
  \/ Is("end") /\ TaskEnd(T.t)
  \/ l' = l /\ Internal
LSpec == LInit /\ [][LNext]_lvars

Mark == TLCSet(1, IF l > TLCGet(1) THEN l ELSE TLCGet(1))
Accepted == IF TLCGet(1) = Len(Trace) + 1 THEN PrintT(<<"ACCEPTED", Len(Trace)>>)
            ELSE PrintT(<<"REJECTED", TLCGet(1), ToJson(Trace[TLCGet(1)])>>)
=============================================================================
