------------------------------ MODULE WMedian ------------------------------
(* utils/wmedian.Of(values, stop) (X03): the values are given in the caller's order, each with a  *)
(* weight; the result is the first value at which the running total of the weights reaches        *)
(* `stop` (the weighted median when the values are sorted and stop is half of the total; the       *)
(* quorum indexer calls it with stop = quorum).  When even the total weight stays below `stop`      *)
(* there is no such value and the call panics ("invalid median").                                  *)
(* TLC evaluates the definition over every weight sequence of length <= MaxLen over Weights and    *)
(* every stop in 0..(total+1); each vector is one transition out of the initial state, emitted     *)
(* for execution on the real function.                                                             *)
EXTENDS Integers, Sequences, FiniteSets, TLC, Json

CONSTANTS Weights, MaxLen
VARIABLE act
vars == <<act>>

RECURSIVE Sum(_, _)
Sum(ws, n) == IF n = 0 THEN 0 ELSE ws[n] + Sum(ws, n - 1)     \* total weight of the first n values

Reaches(ws, stop) == {i \in 1..Len(ws) : Sum(ws, i) >= stop}
\* the definition: least index whose prefix total reaches stop; 0 = none (panic)
Of(ws, stop) == IF Reaches(ws, stop) = {} THEN 0
                ELSE CHOOSE i \in Reaches(ws, stop) : \A j \in Reaches(ws, stop) : i <= j

Inputs == UNION {[1..n -> Weights] : n \in 0..MaxLen}

Init == act = [op |-> "init"]
Next == /\ act.op = "init"
        /\ \E ws \in Inputs : \E stop \in 0..(Sum(ws, Len(ws)) + 1) :
             act' = [op |-> "of", ws |-> ws, stop |-> stop,
                     res |-> [panic |-> Of(ws, stop) = 0, i |-> Of(ws, stop)],
                     msg |-> IF Of(ws, stop) = 0 THEN "invalid median" ELSE ""]
Spec == Init /\ [][Next]_vars

(* ---- what the definition implies (checked on every vector) ---- *)
Vec == act.op = "of"
\* the result is the split point: strictly less than stop before it, at least stop with it
SplitPoint == Vec /\ ~act.res.panic =>
                /\ Sum(act.ws, act.res.i) >= act.stop
                /\ Sum(act.ws, act.res.i - 1) < act.stop \/ act.res.i = 1
\* it panics exactly when the total weight is below stop (in particular for no values at all, stop > 0 or not)
PanicsIffShort == Vec => (act.res.panic <=> (Len(act.ws) = 0 \/ Sum(act.ws, Len(act.ws)) < act.stop))
\* a value of weight zero is never the answer unless it is the first and stop = 0
ZeroWeightSkipped == Vec /\ ~act.res.panic /\ act.ws[act.res.i] = 0 => act.res.i = 1 /\ act.stop = 0

Emit == PrintT(<<"EDGE", ToJson([pre |-> [s |-> 0], act |-> act', post |-> [s |-> 0]])>>)
=============================================================================
