CONSTANTS
  Configs <- ConfigsT  Threshold = 102400  VLen <- VLenDef
  MaxPending = 4  MaxUB = 2  MinBudget <- MinBudgetDef  Budgets = {0, 1, 2}
  ProbeKeys <- Probe  IterTable <- IterTab
SPECIFICATION Spec
INVARIANTS TypeOK SkippedInvisible MissingIsError DevNullEmpty ReadsIgnorePending PendingWasSmall EmitState
PROPERTIES ReadOnlyNeverWrites BudgetRule BatchedBuffers FlushWritesAll
VIEW View
ACTION_CONSTRAINT Emit
CHECK_DEADLOCK FALSE
