CONSTANTS Weights = {0,1,2,3,7} MaxLen = 5
SPECIFICATION Spec
INVARIANTS SplitPoint PanicsIffShort ZeroWeightSkipped
ACTION_CONSTRAINT Emit
CHECK_DEADLOCK FALSE
