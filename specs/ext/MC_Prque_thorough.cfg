CONSTANTS N = 6 Prios = {0,1,2} MaxSize = 6
SPECIFICATION Spec
INVARIANTS TypeOK DrainSorted
PROPERTIES PopIsGreatest TakesOne PushAdds
VIEW View
ACTION_CONSTRAINT Emit
CHECK_DEADLOCK FALSE
