CONSTANTS N = 5 Prios = {0,1,2,3} MaxSize = 5
SPECIFICATION Spec
INVARIANTS TypeOK DrainSorted
PROPERTIES PopIsGreatest TakesOne PushAdds
VIEW View
ACTION_CONSTRAINT Emit
CHECK_DEADLOCK FALSE
