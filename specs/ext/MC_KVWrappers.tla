------------------------------ MODULE MC_KVWrappers ------------------------------
EXTENDS KVWrappers

kA == <<Ba>>
kAB == <<Ba, Bb>>
kB == <<Bb>>
K3 == {kA, kAB, kB}
K2 == {kA, kB}
K1 == {kA}

Ly(t, p, errs) == [t |-> t, p |-> p, errs |-> errs]
Mem == Ly("mem", <<>>, {})
DevNull == Ly("devnull", <<>>, {})
RO == Ly("readonly", <<>>, {})
Skip(p) == Ly("skipkeys", p, {})
NoKey == Ly("nokeyiserr", <<>>, {})
SkipErr(errs) == Ly("skiperrors", <<>>, errs)
Fall == Ly("fallible", <<>>, {})
Batched == Ly("batched", <<>>, {})

Cf(name, layers, keys, vals, pvals, feats) ==
  [name |-> name, layers |-> layers, keys |-> keys, vals |-> vals, pvals |-> pvals, feats |-> feats]

Small == {"", "x"}
\* with a one-byte key: E queues exactly half of IdealBatchSize, L one byte more
Big == {"E", "L"}
VLenDef == [v \in {"", "x", "E", "L"} |-> CASE v = "" -> 0 [] v = "x" -> 1 [] v = "E" -> 51199 [] v = "L" -> 51200]

Common == <<
  Cf("readonly", <<Mem, RO>>, K3, Small, Small, {"w", "p", "ub"}),
  Cf("skipkeys-a", <<Mem, Skip(kA)>>, K3, Small, Small, {"w"}),
  Cf("skipkeys-b", <<Mem, Skip(kB)>>, K3, Small, Small, {"w"}),
  Cf("nokeyiserr", <<Mem, NoKey>>, K2, Small, {}, {"w", "snap"}),
  Cf("skiperrors(notfound)/nokeyiserr", <<Mem, NoKey, SkipErr({ErrNotFound})>>, K2, Small, {}, {"w", "snap"}),
  Cf("skiperrors(other)/nokeyiserr", <<Mem, NoKey, SkipErr({"some other error"})>>, K2, Small, {}, {"w"}),
  Cf("skiperrors(unsupported)/readonly", <<Mem, RO, SkipErr({ErrUnsupported})>>, K2, Small, Small, {"w", "p"}),
  Cf("skiperrors(closed)", <<Mem, SkipErr({ErrClosed})>>, K1, {"x"}, {}, {"w", "pclose", "close"}),
  Cf("skiperrors()", <<Mem, SkipErr({})>>, K1, {"x"}, {}, {"w", "pclose", "close"}),
  Cf("nokeyiserr/skipkeys-a", <<Mem, Skip(kA), NoKey>>, K2, {"x"}, {}, {"w"}),
  Cf("skipkeys-a/nokeyiserr", <<Mem, NoKey, Skip(kA)>>, K2, {"x"}, {}, {"w"}),
  Cf("fallible", <<Mem, Fall>>, K2, {"x"}, {}, {"w", "budget", "close", "drop", "ub"}),
  Cf("fallible/readonly", <<Mem, RO, Fall>>, K1, {"x"}, {}, {"w", "budget"}),
  Cf("readonly/fallible", <<Mem, Fall, RO>>, K1, {"x"}, {}, {"w", "budget"}),
  Cf("devnull", <<DevNull>>, K2, Small, {}, {"w", "ub", "snap", "close", "drop"}),
  Cf("nokeyiserr/devnull", <<DevNull, NoKey>>, K1, {"x"}, {}, {"w", "snap"}),
  Cf("batched/readonly", <<Mem, RO, Batched>>, K1, {"x"}, {"x"}, {"w", "p", "batched", "close"}),
  Cf("batched/devnull", <<DevNull, Batched>>, K1, Big, {}, {"w", "batched"})
>>
ConfigsQ == Common \o <<
  Cf("batched", <<Mem, Batched>>, K1, Big, {"x"}, {"w", "p", "batched", "close"})
>>
ConfigsT == Common \o <<
  Cf("skipkeys-ab", <<Mem, Skip(kAB)>>, K3, Small, Small, {"w"}),
  Cf("skipkeys-all", <<Mem, Skip(<<>>)>>, K3, Small, Small, {"w"}),
  Cf("batched", <<Mem, Batched>>, K2, Big, {"x"}, {"w", "p", "batched", "close"}),
  Cf("batched+userbatch", <<Mem, Batched>>, K1, {"x"}, {}, {"w", "batched", "ub"}),
  Cf("batched/fallible", <<Mem, Fall, Batched>>, K1, Big, {}, {"w", "batched", "budget"}),
  Cf("skiperrors(closed)/batched", <<Mem, Batched, SkipErr({ErrClosed})>>, K1, Big, {}, {"w", "pclose", "close"})
>>

MinBudgetDef == -2
Probe == <<kA, kAB, kB>>
IterTab == << <<<<>>, <<>>>>, <<kA, <<>>>>, <<<<>>, kAB>>, <<kB, <<>>>>, <<kA, kB>> >>

ASSUME BytesSelfCheck
ASSUME PrintT(<<"XCONF", ToJson(XConfJ)>>)
=============================================================================
