------------------------------ MODULE MC_Lazy ------------------------------
EXTENDS Lazy
kA == <<Ba>>
kAB == <<Ba, Bb>>
kB == <<Bb>>
K2 == {kA, kB}
K3 == {kA, kAB, kB}
V(K, S) == [k \in K |-> IF \E p \in S : p[1] = k THEN (CHOOSE p \in S : p[1] = k)[2] ELSE NONE]
Reals2 == {V(K2, {}), V(K2, {<<kA, "r">>}), V(K2, {<<kA, "">>, <<kB, "r">>})}
Reals3 == {V(K3, {}), V(K3, {<<kA, "r">>, <<kAB, "">>}), V(K3, {<<kAB, "r">>, <<kB, "r">>})}
Probe == <<kA, kAB, kB>>
IterTab == << <<<<>>, <<>>>>, <<kA, <<>>>>, <<<<>>, kAB>>, <<kB, <<>>>> >>
ASSUME BytesSelfCheck
ASSUME PrintT(<<"XCONF", ToJson(XConfJ)>>)
=============================================================================
