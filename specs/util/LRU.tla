------------------------------ MODULE LRU ------------------------------
(* Weighted LRU cache (utils/simplewlru, utils/wlru).  Abstract state: the entries from the     *)
(* oldest to the newest with their weights, plus the configured bounds.  One action per public   *)
(* call; `act` is an output-only variable carrying the call, its specified result and the        *)
(* eviction-callback log of that call, so that every explored transition can be replayed into    *)
(* the real cache (pattern R of DESIGN.md).                                                      *)
EXTENDS Integers, Sequences, FiniteSets, TLC, Json

CONSTANTS Keys, Weights, Vals, Bounds      \* Bounds: set of <<maxWeight, maxSize>>
VARIABLES q, mw, mn, act
vars == <<q, mw, mn, act>>
View == <<q, mw, mn>>

Abs == [q |-> q, mw |-> mw, mn |-> mn]

RECURSIVE TotW(_)
TotW(s) == IF s = <<>> THEN 0 ELSE Head(s).w + TotW(Tail(s))
Over(s, W, N) == s # <<>> /\ (TotW(s) > W \/ Len(s) > N)
RECURSIVE Norm(_, _, _)
Norm(s, W, N) == IF Over(s, W, N) THEN Norm(Tail(s), W, N) ELSE s
Without(s, k) == SelectSeq(s, LAMBDA e : e.k # k)
Has(s, k) == \E i \in 1..Len(s) : s[i].k = k
Entry(s, k) == s[CHOOSE i \in 1..Len(s) : s[i].k = k]
KV(e) == [k |-> e.k, v |-> e.v]
\* the entries dropped from the front of s to obtain its suffix t, as (key, value) pairs, oldest first
Dropped(s, t) == [i \in 1..(Len(s) - Len(t)) |-> KV(s[i])]

Init == q = <<>> /\ \E b \in Bounds : mw = b[1] /\ mn = b[2]
        /\ act = [op |-> "init"]

Add(k, v, w) ==
  LET s == Append(Without(q, k), [k |-> k, v |-> v, w |-> w])
      t == Norm(s, mw, mn) IN
  /\ q' = t /\ UNCHANGED <<mw, mn>>
  /\ act' = [op |-> "add", k |-> k, v |-> v, w |-> w,
             res |-> [evicted |-> Len(s) - Len(t)], evlog |-> Dropped(s, t)]

Get(k) ==
  /\ q' = (IF Has(q, k) THEN Append(Without(q, k), Entry(q, k)) ELSE q) /\ UNCHANGED <<mw, mn>>
  /\ act' = [op |-> "get", k |-> k,
             res |-> [ok |-> Has(q, k), v |-> IF Has(q, k) THEN Entry(q, k).v ELSE 0], evlog |-> <<>>]

Peek(k) ==
  /\ UNCHANGED <<q, mw, mn>>
  /\ act' = [op |-> "peek", k |-> k,
             res |-> [ok |-> Has(q, k), v |-> IF Has(q, k) THEN Entry(q, k).v ELSE 0], evlog |-> <<>>]

Contains(k) ==
  /\ UNCHANGED <<q, mw, mn>>
  /\ act' = [op |-> "contains", k |-> k, res |-> [ok |-> Has(q, k)], evlog |-> <<>>]

Remove(k) ==
  /\ q' = Without(q, k) /\ UNCHANGED <<mw, mn>>
  /\ act' = [op |-> "remove", k |-> k, res |-> [ok |-> Has(q, k)],
             evlog |-> IF Has(q, k) THEN <<KV(Entry(q, k))>> ELSE <<>>]

RemoveOldest ==
  /\ q' = (IF q = <<>> THEN q ELSE Tail(q)) /\ UNCHANGED <<mw, mn>>
  /\ act' = [op |-> "removeoldest",
             res |-> IF q = <<>> THEN [ok |-> FALSE, k |-> 0, v |-> 0] ELSE [ok |-> TRUE, k |-> Head(q).k, v |-> Head(q).v],
             evlog |-> IF q = <<>> THEN <<>> ELSE <<KV(Head(q))>>]

GetOldest ==
  /\ UNCHANGED <<q, mw, mn>>
  /\ act' = [op |-> "getoldest",
             res |-> IF q = <<>> THEN [ok |-> FALSE, k |-> 0, v |-> 0] ELSE [ok |-> TRUE, k |-> Head(q).k, v |-> Head(q).v],
             evlog |-> <<>>]

Resize(b) ==
  LET t == Norm(q, b[1], b[2]) IN
  /\ q' = t /\ mw' = b[1] /\ mn' = b[2]
  /\ act' = [op |-> "resize", mw |-> b[1], mn |-> b[2], res |-> [evicted |-> Len(q) - Len(t)], evlog |-> Dropped(q, t)]

\* Purge reports every entry to the callback, in no particular order
Purge ==
  /\ q' = <<>> /\ UNCHANGED <<mw, mn>>
  /\ act' = [op |-> "purge", res |-> [n |-> Len(q)], evset |-> {KV(q[i]) : i \in 1..Len(q)}]

\* thread-safe variant only (utils/wlru)
ContainsOrAdd(k, v, w) ==
  IF Has(q, k)
  THEN /\ UNCHANGED <<q, mw, mn>>
       /\ act' = [op |-> "containsoradd", k |-> k, v |-> v, w |-> w, res |-> [ok |-> TRUE, evicted |-> 0], evlog |-> <<>>]
  ELSE LET s == Append(q, [k |-> k, v |-> v, w |-> w])
           t == Norm(s, mw, mn) IN
       /\ q' = t /\ UNCHANGED <<mw, mn>>
       /\ act' = [op |-> "containsoradd", k |-> k, v |-> v, w |-> w,
                  res |-> [ok |-> FALSE, evicted |-> Len(s) - Len(t)], evlog |-> Dropped(s, t)]

PeekOrAdd(k, v, w) ==
  IF Has(q, k)
  THEN /\ UNCHANGED <<q, mw, mn>>
       /\ act' = [op |-> "peekoradd", k |-> k, v |-> v, w |-> w,
                  res |-> [ok |-> TRUE, prev |-> Entry(q, k).v, evicted |-> 0], evlog |-> <<>>]
  ELSE LET s == Append(q, [k |-> k, v |-> v, w |-> w])
           t == Norm(s, mw, mn) IN
       /\ q' = t /\ UNCHANGED <<mw, mn>>
       /\ act' = [op |-> "peekoradd", k |-> k, v |-> v, w |-> w,
                  res |-> [ok |-> FALSE, prev |-> 0, evicted |-> Len(s) - Len(t)], evlog |-> Dropped(s, t)]

Next == \/ \E k \in Keys, v \in Vals, w \in Weights : Add(k, v, w) \/ ContainsOrAdd(k, v, w) \/ PeekOrAdd(k, v, w)
        \/ \E k \in Keys : Get(k) \/ Peek(k) \/ Contains(k) \/ Remove(k)
        \/ RemoveOldest \/ GetOldest \/ Purge
        \/ \E b \in Bounds : Resize(b)
Spec == Init /\ [][Next]_vars

(* ---- the property (C29) at the level of the specification ---- *)
Bounded == TotW(q) <= mw /\ Len(q) <= mn
DistinctKeys == \A i, j \in 1..Len(q) : i # j => q[i].k # q[j].k
\* whatever leaves the cache through the bounds leaves oldest-first: the survivors are a suffix
IsSuffix(t, s) == Len(t) <= Len(s) /\ \A i \in 1..Len(t) : t[i] = s[Len(s) - Len(t) + i]
EvictOldestFirst ==
  [][act'.op \in {"resize"} => IsSuffix(q', q)]_vars
\* an entry heavier than the weight bound never stays
NoOverweightEntry == \A i \in 1..Len(q) : q[i].w <= mw

\* what the public read API shows: keys oldest-first with their values, total weight, counters
Obs == [q |-> [i \in 1..Len(q) |-> KV(q[i])], mw |-> mw, mn |-> mn,
        weight |-> TotW(q), len |-> Len(q), tw |-> TotW(q), tn |-> Len(q)]
Emit == PrintT(<<"EDGE", ToJson([pre |-> Abs, act |-> act', post |-> Abs', obs |-> Obs'])>>)
=============================================================================
