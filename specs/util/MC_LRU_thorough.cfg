CONSTANTS Keys = {1,2,3} Weights = {0,1,2,5} Vals = {1,2} Bounds <- BoundsT
SPECIFICATION Spec
INVARIANTS Bounded DistinctKeys NoOverweightEntry
PROPERTY EvictOldestFirst
VIEW View
ACTION_CONSTRAINT Emit
CHECK_DEADLOCK FALSE
