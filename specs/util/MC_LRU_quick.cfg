CONSTANTS Keys = {1,2,3} Weights = {1,2,5} Vals = {1,2} Bounds <- BoundsQ
SPECIFICATION Spec
INVARIANTS Bounded DistinctKeys NoOverweightEntry
PROPERTY EvictOldestFirst
VIEW View
ACTION_CONSTRAINT Emit
CHECK_DEADLOCK FALSE
