------------------------------- MODULE FlushLin -------------------------------
(* Linearizability of kvdb/flushable.Flushable over a memory store (pattern L).  Sequential model:       *)
(* under = flushed contents, over = writes since the last flush/drop (value, or -1 = deleted);           *)
(* keys 1..4, values >= 1, 0 = absent / not written.                                                       *)
EXTENDS Integers, Sequences, FiniteSets, TLC, Json, IOUtils

Trace == ndJsonDeserialize(IOEnv.TRACE)
VARIABLES l, pend, out, under, over, snaps
\* pend: goroutine -> [a |-> call record, st |-> "called" | "done", res |-> model result]; out: result of the last sequential step
svars == <<under, over, snaps>>
lvars == <<l, pend, out, under, over, snaps>>
T == Trace[l]
Is(op) == l <= Len(Trace) /\ T.op = op /\ l' = l + 1
View(k) == IF over[k] = -1 THEN 0 ELSE IF over[k] # 0 THEN over[k] ELSE under[k]

LInit == /\ TLCSet(1, 1) /\ l = 1 /\ pend = <<>> /\ out = <<>>
         /\ under = [k \in 1..4 |-> 0] /\ over = [k \in 1..4 |-> 0] /\ snaps = <<>>

LReset == /\ Is("reset") /\ pend' = <<>> /\ out' = <<>>
          /\ under' = [k \in 1..4 |-> 0] /\ over' = [k \in 1..4 |-> 0] /\ snaps' = <<>>

LCall == /\ Is("call") /\ T.g \notin DOMAIN pend
         /\ pend' = [g \in DOMAIN pend \cup {T.g} |-> IF g = T.g THEN [a |-> T.a, st |-> "called", res |-> <<>>] ELSE pend[g]]
         /\ UNCHANGED <<out, svars>>

\* the sequential specification: effect and result of one operation
DoOp(a) ==
  CASE a.op = "put" -> over' = [over EXCEPT ![a.k] = a.v] /\ UNCHANGED <<under, snaps>> /\ out' = [ok |-> TRUE]
    [] a.op = "del" -> over' = [over EXCEPT ![a.k] = -1] /\ UNCHANGED <<under, snaps>> /\ out' = [ok |-> TRUE]
    \* GetSnapshot freezes the current view; reads through the snapshot see that frozen view
    [] a.op = "snap" -> snaps' = [i \in DOMAIN snaps \cup {a.sid} |-> IF i = a.sid THEN [k \in 1..4 |-> View(k)] ELSE snaps[i]]
                        /\ UNCHANGED <<under, over>> /\ out' = [ok |-> TRUE]
    [] a.op = "sget" -> UNCHANGED svars /\ out' = [ok |-> snaps[a.sid][a.k] # 0, v |-> snaps[a.sid][a.k]]
    [] a.op = "get" -> UNCHANGED svars /\ out' = [ok |-> View(a.k) # 0, v |-> View(a.k)]
    [] a.op = "has" -> UNCHANGED svars /\ out' = [ok |-> View(a.k) # 0]
    [] a.op = "flush" -> under' = [k \in 1..4 |-> View(k)] /\ over' = [k \in 1..4 |-> 0] /\ UNCHANGED snaps /\ out' = [ok |-> TRUE]
    [] a.op = "drop" -> UNCHANGED <<under, snaps>> /\ over' = [k \in 1..4 |-> 0] /\ out' = [ok |-> TRUE]
    [] a.op = "nfp" -> UNCHANGED svars /\ out' = [n |-> Cardinality({k \in 1..4 : over[k] # 0})]
    [] a.op = "uget" -> UNCHANGED svars /\ out' = [ok |-> under[a.k] # 0, v |-> under[a.k]]

\* internal linearization point of goroutine g
Lin(g) == /\ g \in DOMAIN pend /\ pend[g].st = "called"
          /\ DoOp(pend[g].a)
          /\ pend' = [pend EXCEPT ![g].st = "done", ![g].res = out']
          /\ l' = l

LRet == /\ Is("ret") /\ T.g \in DOMAIN pend /\ pend[T.g].st = "done"
        /\ pend[T.g].res = T.res                             \* the logged result is the model's at the linearization point
        /\ pend' = [g \in DOMAIN pend \ {T.g} |-> pend[g]]
        /\ UNCHANGED <<out, svars>>

LNext == LReset \/ LCall \/ LRet \/ \E g \in DOMAIN pend : Lin(g)
LSpec == LInit /\ [][LNext]_lvars

Mark == TLCSet(1, IF l > TLCGet(1) THEN l ELSE TLCGet(1))
Accepted == IF TLCGet(1) = Len(Trace) + 1 THEN PrintT(<<"ACCEPTED", Len(Trace)>>)
            ELSE PrintT(<<"REJECTED", TLCGet(1), ToJson(Trace[TLCGet(1)])>>)
=============================================================================
