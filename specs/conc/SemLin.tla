------------------------------- MODULE SemLin -------------------------------
(* Linearizability of utils/datasemaphore.DataSemaphore (pattern L).  Sequential model: held = [num, size], *)
(* cap = [num, size] (zero after Terminate).  Acquire is called with a timeout far beyond the run, so it    *)
(* may only return true (at a point where the request fits) or false when it can never fit (> capacity,     *)
(* which includes "terminated").                                                                             *)
EXTENDS Integers, Sequences, FiniteSets, TLC, Json, IOUtils

Trace == ndJsonDeserialize(IOEnv.TRACE)
VARIABLES l, pend, out, held, cap
\* pend: goroutine -> [a |-> call record, st |-> "called" | "done", res |-> model result]; out: result of the last sequential step
svars == <<held, cap>>
lvars == <<l, pend, out, held, cap>>
T == Trace[l]
Is(op) == l <= Len(Trace) /\ T.op = op /\ l' = l + 1
Fits(w) == held.num + w.num <= cap.num /\ held.size + w.size <= cap.size
Plus(w) == [num |-> held.num + w.num, size |-> held.size + w.size]
HeldWithinCap == cap.num = 0 \/ (held.num <= cap.num /\ held.size <= cap.size)

LInit == /\ TLCSet(1, 1) /\ l = 1 /\ pend = <<>> /\ out = <<>>
         /\ held = [num |-> 0, size |-> 0] /\ cap = [num |-> 0, size |-> 0]

LReset == /\ Is("reset") /\ pend' = <<>> /\ out' = <<>>
          /\ held' = [num |-> 0, size |-> 0] /\ cap' = T.cap

LCall == /\ Is("call") /\ T.g \notin DOMAIN pend
         /\ pend' = [g \in DOMAIN pend \cup {T.g} |-> IF g = T.g THEN [a |-> T.a, st |-> "called", res |-> <<>>] ELSE pend[g]]
         /\ UNCHANGED <<out, svars>>

\* the sequential specification: effect and result of one operation
DoOp(a) ==
  CASE a.op = "try" -> IF Fits(a.w) THEN held' = Plus(a.w) /\ UNCHANGED cap /\ out' = [ok |-> TRUE]
                       ELSE UNCHANGED svars /\ out' = [ok |-> FALSE]
    [] a.op = "acquire" -> \/ Fits(a.w) /\ held' = Plus(a.w) /\ UNCHANGED cap /\ out' = [ok |-> TRUE]
                           \/ (a.w.num > cap.num \/ a.w.size > cap.size) /\ UNCHANGED svars /\ out' = [ok |-> FALSE]
    [] a.op = "release" -> IF held.num < a.w.num \/ held.size < a.w.size
                           THEN held' = [num |-> 0, size |-> 0] /\ UNCHANGED cap /\ out' = [warned |-> TRUE]
                           ELSE held' = [num |-> held.num - a.w.num, size |-> held.size - a.w.size] /\ UNCHANGED cap /\ out' = [warned |-> FALSE]
    [] a.op = "terminate" -> cap' = [num |-> 0, size |-> 0] /\ UNCHANGED held /\ out' = [ok |-> TRUE]
    [] a.op = "processing" -> UNCHANGED svars /\ out' = held

\* internal linearization point of goroutine g
Lin(g) == /\ g \in DOMAIN pend /\ pend[g].st = "called"
          /\ DoOp(pend[g].a)
          /\ pend' = [pend EXCEPT ![g].st = "done", ![g].res = out']
          /\ l' = l

LRet == /\ Is("ret") /\ T.g \in DOMAIN pend /\ pend[T.g].st = "done"
        /\ pend[T.g].res = T.res                             \* the logged result is the model's at the linearization point
        /\ pend' = [g \in DOMAIN pend \ {T.g} |-> pend[g]]
        /\ UNCHANGED <<out, svars>>

LNext == LReset \/ LCall \/ LRet \/ \E g \in DOMAIN pend : Lin(g)
LSpec == LInit /\ [][LNext]_lvars

Mark == TLCSet(1, IF l > TLCGet(1) THEN l ELSE TLCGet(1))
Accepted == IF TLCGet(1) = Len(Trace) + 1 THEN PrintT(<<"ACCEPTED", Len(Trace)>>)
            ELSE PrintT(<<"REJECTED", TLCGet(1), ToJson(Trace[TLCGet(1)])>>)
=============================================================================
