SPECIFICATION LSpec
CONSTRAINT Mark
POSTCONDITION Accepted
CHECK_DEADLOCK FALSE
