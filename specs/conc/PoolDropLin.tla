------------------------------- MODULE PoolDropLin -------------------------------
(* Linearizability of database drops in kvdb/flushable.SyncedPool (pattern L): Drop() on a store of the pool   *)
(* queues the database; the next Flush closes and drops every queued database.  Sequential model:            *)
(* queued = databases whose Drop() returned and that no Flush has consumed yet, gone = dropped databases.    *)
(* Operations: dropdb(d), flush, names (the databases the pool still lists).                                  *)
EXTENDS Integers, Sequences, FiniteSets, TLC, Json, IOUtils

Trace == ndJsonDeserialize(IOEnv.TRACE)
VARIABLES l, pend, out, queued, gone
\* pend: goroutine -> [a |-> call record, st |-> "called" | "done", res |-> model result]; out: result of the last sequential step
svars == <<queued, gone>>
lvars == <<l, pend, out, queued, gone>>
T == Trace[l]
Is(op) == l <= Len(Trace) /\ T.op = op /\ l' = l + 1

SeqOf(S) == LET RECURSIVE F(_) F(X) == IF X = {} THEN <<>> ELSE LET m == CHOOSE x \in X : \A y \in X : x <= y IN <<m>> \o F(X \ {m}) IN F(S)
LInit == /\ TLCSet(1, 1) /\ l = 1 /\ pend = <<>> /\ out = <<>>
         /\ queued = {} /\ gone = {}

LReset == /\ Is("reset") /\ pend' = <<>> /\ out' = <<>>
          /\ queued' = {} /\ gone' = {}

LCall == /\ Is("call") /\ T.g \notin DOMAIN pend
         /\ pend' = [g \in DOMAIN pend \cup {T.g} |-> IF g = T.g THEN [a |-> T.a, st |-> "called", res |-> <<>>] ELSE pend[g]]
         /\ UNCHANGED <<out, svars>>

\* the sequential specification: effect and result of one operation
DoOp(a) ==
  CASE a.op = "dropdb" -> queued' = queued \cup {a.d} /\ UNCHANGED gone /\ out' = [ok |-> TRUE]
    [] a.op = "flush" -> gone' = gone \cup queued /\ queued' = {} /\ out' = [ok |-> TRUE]
    [] a.op = "names" -> UNCHANGED svars /\ out' = [n |-> SeqOf((1..3) \ gone)]

\* internal linearization point of goroutine g
Lin(g) == /\ g \in DOMAIN pend /\ pend[g].st = "called"
          /\ DoOp(pend[g].a)
          /\ pend' = [pend EXCEPT ![g].st = "done", ![g].res = out']
          /\ l' = l

LRet == /\ Is("ret") /\ T.g \in DOMAIN pend /\ pend[T.g].st = "done"
        /\ pend[T.g].res = T.res                             \* the logged result is the model's at the linearization point
        /\ pend' = [g \in DOMAIN pend \ {T.g} |-> pend[g]]
        /\ UNCHANGED <<out, svars>>

LNext == LReset \/ LCall \/ LRet \/ \E g \in DOMAIN pend : Lin(g)
LSpec == LInit /\ [][LNext]_lvars

Mark == TLCSet(1, IF l > TLCGet(1) THEN l ELSE TLCGet(1))
Accepted == IF TLCGet(1) = Len(Trace) + 1 THEN PrintT(<<"ACCEPTED", Len(Trace)>>)
            ELSE PrintT(<<"REJECTED", TLCGet(1), ToJson(Trace[TLCGet(1)])>>)
=============================================================================
