------------------------------- MODULE PoolLin -------------------------------
(* Linearizability of kvdb/flushable.SyncedPool with two databases over memory stores (pattern L).       *)
(* Sequential model per database d in 1..2: under[d], over[d] as in FlushLin; Flush flushes every       *)
(* database in one step; "uget" reads the underlying database.                                            *)
EXTENDS Integers, Sequences, FiniteSets, TLC, Json, IOUtils

Trace == ndJsonDeserialize(IOEnv.TRACE)
VARIABLES l, pend, out, under, over
\* pend: goroutine -> [a |-> call record, st |-> "called" | "done", res |-> model result]; out: result of the last sequential step
svars == <<under, over>>
lvars == <<l, pend, out, under, over>>
T == Trace[l]
Is(op) == l <= Len(Trace) /\ T.op = op /\ l' = l + 1
View(d, k) == IF over[d][k] = -1 THEN 0 ELSE IF over[d][k] # 0 THEN over[d][k] ELSE under[d][k]

LInit == /\ TLCSet(1, 1) /\ l = 1 /\ pend = <<>> /\ out = <<>>
         /\ under = [d \in 1..2 |-> [k \in 1..3 |-> 0]] /\ over = [d \in 1..2 |-> [k \in 1..3 |-> 0]]

LReset == /\ Is("reset") /\ pend' = <<>> /\ out' = <<>>
          /\ under' = [d \in 1..2 |-> [k \in 1..3 |-> 0]] /\ over' = [d \in 1..2 |-> [k \in 1..3 |-> 0]]

LCall == /\ Is("call") /\ T.g \notin DOMAIN pend
         /\ pend' = [g \in DOMAIN pend \cup {T.g} |-> IF g = T.g THEN [a |-> T.a, st |-> "called", res |-> <<>>] ELSE pend[g]]
         /\ UNCHANGED <<out, svars>>

\* the sequential specification: effect and result of one operation
DoOp(a) ==
  CASE a.op = "put" -> over' = [over EXCEPT ![a.d][a.k] = a.v] /\ UNCHANGED under /\ out' = [ok |-> TRUE]
    [] a.op = "del" -> over' = [over EXCEPT ![a.d][a.k] = -1] /\ UNCHANGED under /\ out' = [ok |-> TRUE]
    [] a.op = "get" -> UNCHANGED svars /\ out' = [ok |-> View(a.d, a.k) # 0, v |-> View(a.d, a.k)]
    [] a.op = "flush" -> under' = [d \in 1..2 |-> [k \in 1..3 |-> View(d, k)]] /\ over' = [d \in 1..2 |-> [k \in 1..3 |-> 0]] /\ out' = [ok |-> TRUE]
    [] a.op = "uget" -> UNCHANGED svars /\ out' = [ok |-> under[a.d][a.k] # 0, v |-> under[a.d][a.k]]

\* internal linearization point of goroutine g
Lin(g) == /\ g \in DOMAIN pend /\ pend[g].st = "called"
          /\ DoOp(pend[g].a)
          /\ pend' = [pend EXCEPT ![g].st = "done", ![g].res = out']
          /\ l' = l

LRet == /\ Is("ret") /\ T.g \in DOMAIN pend /\ pend[T.g].st = "done"
        /\ pend[T.g].res = T.res                             \* the logged result is the model's at the linearization point
        /\ pend' = [g \in DOMAIN pend \ {T.g} |-> pend[g]]
        /\ UNCHANGED <<out, svars>>

LNext == LReset \/ LCall \/ LRet \/ \E g \in DOMAIN pend : Lin(g)
LSpec == LInit /\ [][LNext]_lvars

Mark == TLCSet(1, IF l > TLCGet(1) THEN l ELSE TLCGet(1))
Accepted == IF TLCGet(1) = Len(Trace) + 1 THEN PrintT(<<"ACCEPTED", Len(Trace)>>)
            ELSE PrintT(<<"REJECTED", TLCGet(1), ToJson(Trace[TLCGet(1)])>>)
=============================================================================
