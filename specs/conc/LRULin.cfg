CONSTANTS Keys = {1,2,3} Weights = {1,2,5} Vals = {1,2} Bounds = {}
SPECIFICATION LSpec
CONSTRAINT Mark
POSTCONDITION Accepted
CHECK_DEADLOCK FALSE
