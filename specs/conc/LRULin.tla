------------------------------- MODULE LRULin -------------------------------
(* Linearizability of the thread-safe weighted LRU (utils/wlru) against the sequential model     *)
(* LRU.tla (pattern L).  The recorded history has one "call" line when a goroutine is about to    *)
(* invoke an operation and one "ret" line after it returned (both appended to the log under one   *)
(* mutex, so the logged interval contains the real one).  Between the two, the internal step      *)
(* Lin(g) applies the pending operation to the sequential state; TLC searches for an assignment   *)
(* of linearization points under which every logged result equals the model's.                    *)
EXTENDS LRU, IOUtils

Trace == ndJsonDeserialize(IOEnv.TRACE)
VARIABLES l, pend       \* pend: goroutine -> [a |-> call record, st |-> "called" | "done", res |-> model result, ev |-> evictions]
lvars == <<l, pend, q, mw, mn, act>>
T == Trace[l]
Is(op) == l <= Len(Trace) /\ T.op = op /\ l' = l + 1

LInit == /\ TLCSet(1, 1) /\ l = 1 /\ pend = <<>> /\ q = <<>> /\ mw = 0 /\ mn = 0 /\ act = [op |-> "init"]

LReset == /\ Is("reset") /\ q' = <<>> /\ mw' = T.mw /\ mn' = T.mn /\ act' = [op |-> "init"] /\ pend' = <<>>

LCall == /\ Is("call") /\ T.g \notin DOMAIN pend
         /\ pend' = [g \in DOMAIN pend \cup {T.g} |-> IF g = T.g THEN [a |-> T.a, st |-> "called", res |-> <<>>] ELSE pend[g]]
         /\ UNCHANGED <<q, mw, mn, act>>

DoOp(a) ==
  CASE a.op = "add" -> Add(a.k, a.v, a.w)
    [] a.op = "get" -> Get(a.k)
    [] a.op = "peek" -> Peek(a.k)
    [] a.op = "contains" -> Contains(a.k)
    [] a.op = "remove" -> Remove(a.k)
    [] a.op = "removeoldest" -> RemoveOldest
    [] a.op = "getoldest" -> GetOldest
    [] a.op = "resize" -> Resize(<<a.mw, a.mn>>)
    [] a.op = "purge" -> Purge
    [] a.op = "containsoradd" -> ContainsOrAdd(a.k, a.v, a.w)
    [] a.op = "peekoradd" -> PeekOrAdd(a.k, a.v, a.w)
    [] a.op = "len" -> UNCHANGED <<q, mw, mn>> /\ act' = [op |-> "len", res |-> [n |-> Len(q)]]
    [] a.op = "weight" -> UNCHANGED <<q, mw, mn>> /\ act' = [op |-> "weight", res |-> [w |-> TotW(q)]]
    [] a.op = "total" -> UNCHANGED <<q, mw, mn>> /\ act' = [op |-> "total", res |-> [w |-> TotW(q), n |-> Len(q)]]
    [] a.op = "keys" -> UNCHANGED <<q, mw, mn>> /\ act' = [op |-> "keys", res |-> [keys |-> [i \in 1..Len(q) |-> q[i].k]]]

\* internal linearization point of goroutine g
Lin(g) == /\ g \in DOMAIN pend /\ pend[g].st = "called"
          /\ DoOp(pend[g].a)
          /\ pend' = [pend EXCEPT ![g].st = "done", ![g].res = act'.res]
          /\ l' = l

LRet == /\ Is("ret") /\ T.g \in DOMAIN pend /\ pend[T.g].st = "done"
        /\ pend[T.g].res = T.res                             \* the logged result is the model's at the linearization point
        /\ pend' = [g \in DOMAIN pend \ {T.g} |-> pend[g]]
        /\ UNCHANGED <<q, mw, mn, act>>

LNext == LReset \/ LCall \/ LRet \/ \E g \in DOMAIN pend : Lin(g)
LSpec == LInit /\ [][LNext]_lvars

Mark == TLCSet(1, IF l > TLCGet(1) THEN l ELSE TLCGet(1))
Accepted == IF TLCGet(1) = Len(Trace) + 1 THEN PrintT(<<"ACCEPTED", Len(Trace)>>)
            ELSE PrintT(<<"REJECTED", TLCGet(1), ToJson(Trace[TLCGet(1)])>>)
=============================================================================
