package gsp

import (
	"encoding/json"
	"fmt"
	"os"
	"sync"
	"sync/atomic"
	"time"

	"github.com/Fantom-foundation/lachesis-base/gossip/itemsfetcher"
)

const (
	fetchArrive = 60 * time.Millisecond
	fetchForget = 3 * time.Second
	fetchGap    = 6 * time.Millisecond // pause after every script step
	// a scenario whose own sleeps overshoot by more than this is discarded as too noisy: the
	// specification's margins (2 and 4 arrive timeouts) leave at least 2 arrive timeouts of slack
	fetchMaxNoise = 30 * time.Millisecond
)

type FetchStep struct {
	Op string `json:"op"`
	P  string `json:"p"`
	ID int    `json:"id"`
}

type FetchScenario struct {
	Script []FetchStep `json:"script"`
}

// RunFetcherScenario executes one script on a fresh Fetcher in real time and records the trace.
// Returns the largest overshoot of the scenario's own 2 ms sleeps / goroutine ping-pongs (the noise of the host).
func RunFetcherScenario(sc *FetchScenario, scen int, log *scenLog, stats map[string]int) time.Duration {
	var mu sync.Mutex // guards the environment's answers and orders the trace lines
	t0 := time.Now()
	ms := func() int { return int(time.Since(t0) / time.Millisecond) }
	interested := map[int]bool{}
	interest := func(id int) bool {
		b, ok := interested[id]
		return !ok || b
	}
	suspended := false
	log.emit(rec{"op": "reset", "scen": scen, "arrive": int(fetchArrive / time.Millisecond), "forget": int(fetchForget / time.Millisecond), "script": sc.Script})

	// noise monitor
	var maxOver int64
	stopMon := make(chan struct{})
	var monWg sync.WaitGroup
	ping, pong := make(chan struct{}), make(chan struct{})
	monWg.Add(2)
	go func() {
		defer monWg.Done()
		for range ping {
			pong <- struct{}{}
		}
	}()
	go func() {
		defer monWg.Done()
		defer close(ping)
		for {
			select {
			case <-stopMon:
				return
			default:
			}
			a := time.Now()
			time.Sleep(2 * time.Millisecond)
			over := int64(time.Since(a) - 2*time.Millisecond)
			if over > atomic.LoadInt64(&maxOver) {
				atomic.StoreInt64(&maxOver, over)
			}
			// goroutine wake-up latency (what the fetcher's loop -> worker hand-over depends on)
			a = time.Now()
			ping <- struct{}{}
			<-pong
			if rtt := int64(time.Since(a)); rtt > atomic.LoadInt64(&maxOver) {
				atomic.StoreInt64(&maxOver, rtt)
			}
		}
	}()

	toInts := func(ids []interface{}) []int {
		r := make([]int, len(ids))
		for i, x := range ids {
			r[i] = x.(int)
		}
		return r
	}
	f := itemsfetcher.New(itemsfetcher.Config{
		ForgetTimeout: fetchForget, ArriveTimeout: fetchArrive, GatherSlack: fetchArrive / 10,
		HashLimit: 1000, MaxBatch: 10, MaxParallelRequests: 2, MaxQueuedBatches: 8,
	}, itemsfetcher.Callback{
		OnlyInterested: func(ids []interface{}) []interface{} {
			mu.Lock()
			defer mu.Unlock()
			sub := make([]interface{}, 0, len(ids))
			for _, id := range ids {
				if interest(id.(int)) {
					sub = append(sub, id)
				}
			}
			if len(ids) != 0 {
				log.emit(rec{"op": "only", "ids": toInts(ids), "sub": toInts(sub), "t": ms()})
			}
			return sub
		},
		Suspend: func() bool {
			mu.Lock()
			defer mu.Unlock()
			return suspended
		},
	})
	requester := func(peer string) itemsfetcher.ItemsRequesterFn {
		return func(ids []interface{}) error {
			mu.Lock()
			defer mu.Unlock()
			log.emit(rec{"op": "request", "p": peer, "ids": toInts(ids), "t": ms()})
			stats["request"]++
			if suspended {
				stats["request_while_suspended"]++
			}
			return nil
		}
	}
	reqA, reqB := requester("A"), requester("B")
	f.Start()
	time.Sleep(fetchGap)
	for _, st := range sc.Script {
		switch st.Op {
		case "announce":
			mu.Lock()
			log.emit(rec{"op": "announce", "p": st.P, "ids": []int{st.ID}, "t": ms()})
			if suspended {
				stats["announce_while_suspended"]++
			}
			mu.Unlock()
			fn := reqA
			if st.P == "B" {
				fn = reqB
			}
			f.NotifyAnnounces(st.P, []interface{}{st.ID}, time.Now(), fn)
		case "suspend":
			mu.Lock()
			suspended = !suspended
			log.emit(rec{"op": "suspend", "b": suspended, "t": ms()})
			if !suspended {
				stats["unsuspend"]++
			}
			mu.Unlock()
		case "receive":
			mu.Lock()
			log.emit(rec{"op": "received", "ids": []int{st.ID}, "t": ms()})
			stats["received"]++
			mu.Unlock()
			f.NotifyReceived([]interface{}{st.ID})
		case "interest":
			mu.Lock()
			interested[st.ID] = !interest(st.ID)
			log.emit(rec{"op": "interest", "id": st.ID, "b": interested[st.ID], "t": ms()})
			stats["interest_toggle"]++
			mu.Unlock()
		case "wait":
			mu.Lock()
			log.emit(rec{"op": "wait", "t": ms()})
			mu.Unlock()
			time.Sleep(fetchArrive * 3 / 2)
		}
		time.Sleep(fetchGap)
	}
	time.Sleep(6*fetchArrive + 20*time.Millisecond) // idle period
	mu.Lock()
	log.emit(rec{"op": "end", "t": ms(), "noise_us": atomic.LoadInt64(&maxOver) / 1000})
	mu.Unlock()
	log.stop()
	close(stopMon)
	f.Stop()
	monWg.Wait()
	return time.Duration(atomic.LoadInt64(&maxOver))
}

// CmdFetcherRun: vh gsp-fetcher <scenarios.ndjson> <trace.ndjson> [parallel]
// Scenarios whose noise exceeds fetchMaxNoise are run again (up to two more times, at most 8 at a time);
// those that stay noisy are left out of the trace and counted.
func CmdFetcherRun(args []string) int {
	if len(args) < 2 {
		fmt.Fprintln(os.Stderr, "usage: vh gsp-fetcher <scenarios.ndjson> <trace.ndjson> [parallel]")
		return 2
	}
	par := 48
	if len(args) > 2 {
		fmt.Sscan(args[2], &par)
	}
	out, closeOut, err := openTrace(args[1])
	if err != nil {
		fmt.Fprintln(os.Stderr, err)
		return 2
	}
	defer closeOut()
	stats := map[string]int{}
	var smu sync.Mutex
	type noisy struct {
		idx int
		raw []byte
	}
	var again []noisy
	var worst int64
	runOne := func(idx int, raw []byte, final bool) error {
		var s FetchScenario
		if err := json.Unmarshal(raw, &s); err != nil {
			return fmt.Errorf("bad scenario: %v", err)
		}
		log := &scenLog{}
		st := map[string]int{}
		noise := RunFetcherScenario(&s, idx, log, st)
		smu.Lock()
		defer smu.Unlock()
		if int64(noise) > worst {
			worst = int64(noise)
		}
		if noise > fetchMaxNoise {
			stats["noisy_runs"]++
			if final {
				stats["discarded_noisy"]++
			} else {
				again = append(again, noisy{idx, raw})
			}
			return nil
		}
		out.flush(log)
		mergeStats(stats, st)
		stats["validated_scenarios"]++
		return nil
	}
	n, err := forEachScenario(args[0], par, func(idx int, raw []byte) error { return runOne(idx, raw, false) })
	if err != nil {
		fmt.Fprintln(os.Stderr, err)
		return 2
	}
	for round := 0; round < 2 && len(again) > 0; round++ {
		todo := again
		again = nil
		sem := make(chan struct{}, 8)
		var wg sync.WaitGroup
		for _, x := range todo {
			wg.Add(1)
			sem <- struct{}{}
			go func(x noisy) {
				defer wg.Done()
				runOne(x.idx, x.raw, round == 1)
				<-sem
			}(x)
		}
		wg.Wait()
	}
	stats["scenarios"] = n
	stats["lines"] = out.n
	stats["worst_noise_us"] = int(worst / 1000)
	json.NewEncoder(os.Stdout).Encode(stats)
	return 0
}
