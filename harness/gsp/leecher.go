// Package gsp: recorders for the event processor, items fetcher, stream seeder and leechers
// (properties C15-C18).  The Go side only executes the real components on scripts enumerated by
// TLC and writes one ndjson line per specification action; the verdict is TLC's (trace validation).
package gsp

import (
	"bufio"
	"encoding/json"
	"fmt"
	"os"
	"sort"
	"sync"
	"sync/atomic"
	"time"

	"github.com/Fantom-foundation/lachesis-base/gossip/basestream/basestreamleecher"
	"github.com/Fantom-foundation/lachesis-base/gossip/basestream/basestreamleecher/basepeerleecher"
)

type rec map[string]interface{}

// scenLog collects the lines of one scenario; scenarios are flushed as contiguous blocks.
type scenLog struct {
	mu    sync.Mutex
	lines [][]byte
	off   bool
}

func (s *scenLog) emit(r rec) {
	b, _ := json.Marshal(r)
	s.mu.Lock()
	if !s.off {
		s.lines = append(s.lines, b)
	}
	s.mu.Unlock()
}

func (s *scenLog) stop() {
	s.mu.Lock()
	s.off = true
	s.mu.Unlock()
}

type traceOut struct {
	mu sync.Mutex
	w  *bufio.Writer
	n  int
}

func (t *traceOut) flush(s *scenLog) {
	s.mu.Lock()
	defer s.mu.Unlock()
	t.mu.Lock()
	defer t.mu.Unlock()
	for _, l := range s.lines {
		t.w.Write(l)
		t.w.WriteByte('\n')
		t.n++
	}
}

func openTrace(path string) (*traceOut, func(), error) {
	f, err := os.Create(path)
	if err != nil {
		return nil, nil, err
	}
	t := &traceOut{w: bufio.NewWriterSize(f, 1<<20)}
	return t, func() { t.w.Flush(); f.Close() }, nil
}

// forEachScenario reads ndjson scenarios and runs fn on `par` goroutines.
func forEachScenario(path string, par int, fn func(idx int, raw []byte) error) (int, error) {
	in, err := os.Open(path)
	if err != nil {
		return 0, err
	}
	defer in.Close()
	sc := bufio.NewScanner(in)
	sc.Buffer(make([]byte, 1<<20), 1<<26)
	type job struct {
		idx int
		raw []byte
	}
	jobs := make(chan job, 4*par)
	var wg sync.WaitGroup
	var firstErr atomic.Value
	for w := 0; w < par; w++ {
		wg.Add(1)
		go func() {
			defer wg.Done()
			for j := range jobs {
				if firstErr.Load() != nil {
					continue
				}
				if err := fn(j.idx, j.raw); err != nil {
					firstErr.Store(err)
				}
			}
		}()
	}
	n := 0
	for sc.Scan() {
		if len(sc.Bytes()) == 0 {
			continue
		}
		n++
		jobs <- job{n, append([]byte{}, sc.Bytes()...)}
	}
	close(jobs)
	wg.Wait()
	if e := firstErr.Load(); e != nil {
		return n, e.(error)
	}
	return n, sc.Err()
}

// ------------------------------------------------------------------ base leecher

type BaseStep struct {
	Op string `json:"op"`
	P  string `json:"p"`
}

type BaseScenario struct {
	Pick   string     `json:"pick"`
	Script []BaseStep `json:"script"`
}

// RunBaseLeecherScenario drives a fresh BaseLeecher synchronously (Routine() under Mu is exactly
// what its loop does on every tick) and logs every public call and callback.
func RunBaseLeecherScenario(sc *BaseScenario, scen int, log *scenLog, stats map[string]int) {
	log.emit(rec{"op": "reset", "scen": scen, "pick": sc.Pick, "script": sc.Script})
	var d *basestreamleecher.BaseLeecher
	ongoing := false
	peer := ""
	should := false
	d = basestreamleecher.New(time.Hour, basestreamleecher.Callbacks{
		SelectSessionPeerCandidates: func() []string {
			// the documented use: the candidates are the registered peers
			r := make([]string, 0, len(d.Peers))
			for p := range d.Peers {
				r = append(r, p)
			}
			sort.Strings(r)
			return r
		},
		ShouldTerminateSession: func() bool { return should },
		StartSession: func(c []string) {
			p := "?"
			if len(c) != 0 {
				p = c[0]
				if sc.Pick == "last" {
					p = c[len(c)-1]
				}
			}
			log.emit(rec{"op": "start", "cands": c, "p": p})
			ongoing, peer = true, p
			stats["start"]++
		},
		TerminateSession: func() {
			log.emit(rec{"op": "termsession"})
			if ongoing {
				stats["termsession_running"]++
			}
			ongoing, peer = false, ""
		},
		OngoingSession:     func() bool { return ongoing },
		OngoingSessionPeer: func() string { return peer },
	})
	terminated := false
	for _, st := range sc.Script {
		switch st.Op {
		case "register":
			log.emit(rec{"op": "register", "p": st.P})
			d.RegisterPeer(st.P)
		case "unregister":
			log.emit(rec{"op": "unregister", "p": st.P})
			if ongoing && peer == st.P {
				stats["unregister_session_peer"]++
			}
			d.UnregisterPeer(st.P)
			log.emit(rec{"op": "unregistered", "p": st.P})
		case "tick": // (no line of its own: the callbacks it causes are logged; the script is in the reset line)
			if terminated {
				stats["tick_after_terminate"]++
			}
			d.Mu.Lock()
			d.Routine()
			d.Mu.Unlock()
		case "should":
			should = !should
		case "terminate":
			log.emit(rec{"op": "terminate"})
			d.Terminate()
			terminated = true
			log.emit(rec{"op": "terminated"})
			stats["terminate"]++
		}
	}
	if !terminated {
		d.Terminate()
	}
}

func mergeStats(dst, src map[string]int) {
	for k, v := range src {
		dst[k] += v
	}
}

// CmdBaseLeecherRun: vh gsp-baseleecher <scenarios.ndjson> <trace.ndjson>
func CmdBaseLeecherRun(args []string) int {
	if len(args) < 2 {
		fmt.Fprintln(os.Stderr, "usage: vh gsp-baseleecher <scenarios.ndjson> <trace.ndjson>")
		return 2
	}
	out, closeOut, err := openTrace(args[1])
	if err != nil {
		fmt.Fprintln(os.Stderr, err)
		return 2
	}
	defer closeOut()
	stats := map[string]int{}
	var smu sync.Mutex
	n, err := forEachScenario(args[0], 4, func(idx int, raw []byte) error {
		var s BaseScenario
		if err := json.Unmarshal(raw, &s); err != nil {
			return fmt.Errorf("bad scenario: %v", err)
		}
		log := &scenLog{}
		st := map[string]int{}
		RunBaseLeecherScenario(&s, idx, log, st)
		out.flush(log)
		smu.Lock()
		mergeStats(stats, st)
		smu.Unlock()
		return nil
	})
	if err != nil {
		fmt.Fprintln(os.Stderr, err)
		return 2
	}
	stats["scenarios"] = n
	stats["lines"] = out.n
	json.NewEncoder(os.Stdout).Encode(stats)
	return 0
}

// ------------------------------------------------------------------ peer leecher

type PeerStep struct {
	Op string `json:"op"`
	ID int    `json:"id"`
}

type PeerScenario struct {
	Parallel int        `json:"parallel"`
	Script   []PeerStep `json:"script"`
}

// plDriver holds the leecher's loop at the beginning of every routine: routine() starts with the
// Done() callback, which blocks on the gate until the script lets one routine run.
type plDriver struct {
	arrive  chan struct{}
	release chan struct{}
	free    int32
	exited  chan struct{}
}

var errPeerLeecherStuck = fmt.Errorf("peer leecher loop did not reach the next routine within 5s")

// waitArrive waits until the loop is blocked at the beginning of the next routine, or has exited.
func (g *plDriver) waitArrive() (alive bool, err error) {
	select {
	case <-g.arrive:
		return true, nil
	case <-g.exited:
		return false, nil
	case <-time.After(5 * time.Second):
		return false, errPeerLeecherStuck
	}
}

func RunPeerLeecherScenario(sc *PeerScenario, scen int, log *scenLog, stats map[string]int) error {
	log.emit(rec{"op": "reset", "scen": scen, "parallel": sc.Parallel, "script": sc.Script})
	g := &plDriver{arrive: make(chan struct{}), release: make(chan struct{}), exited: make(chan struct{})}
	// environment state; changed by the driver only while the loop is held at the gate
	var (
		isDone    bool
		suspended bool
		processed = map[int]bool{}
		seen      = map[int]bool{} // chunk ids the leecher asked IsProcessed about
	)
	wg := new(sync.WaitGroup)
	d := basepeerleecher.New(wg, basepeerleecher.EpochDownloaderConfig{
		RecheckInterval:        50 * time.Microsecond,
		DefaultChunkItemsNum:   10,
		DefaultChunkItemsSize:  1000,
		ParallelChunksDownload: sc.Parallel,
	}, basepeerleecher.EpochDownloaderCallbacks{
		Done: func() bool {
			if atomic.LoadInt32(&g.free) != 0 {
				return true
			}
			select {
			case g.arrive <- struct{}{}:
			case <-time.After(10 * time.Second):
				return true
			}
			<-g.release
			if atomic.LoadInt32(&g.free) != 0 {
				return true
			}
			log.emit(rec{"op": "done", "b": isDone})
			return isDone
		},
		IsProcessed: func(id interface{}) bool {
			i := id.(int)
			seen[i] = true
			log.emit(rec{"op": "isprocessed", "id": i, "b": processed[i]})
			return processed[i]
		},
		Suspend: func() bool {
			log.emit(rec{"op": "suspended", "b": suspended})
			return suspended
		},
		RequestChunks: func(maxNum uint32, maxSize uint64, maxChunks uint32) error {
			log.emit(rec{"op": "request", "n": int(maxChunks)})
			stats["request"]++
			return nil
		},
	})
	d.Start()
	go func() { wg.Wait(); close(g.exited) }()
	alive, err := g.waitArrive() // the first tick
	if err != nil {
		return err
	}
	// one routine: let the held routine run and wait for the loop to be held again
	routine := func() error {
		if !alive {
			return nil
		}
		g.release <- struct{}{}
		alive, err = g.waitArrive()
		return err
	}
	for _, st := range sc.Script {
		switch st.Op {
		case "tick":
			log.emit(rec{"op": "tick"})
			if err := routine(); err != nil {
				return err
			}
		case "chunk":
			log.emit(rec{"op": "chunk", "id": st.ID})
			sent := make(chan struct{})
			go func(id int) { d.NotifyChunkReceived(id); close(sent) }(st.ID)
			// run routines until the leecher has taken the chunk (a full window drops it silently)
			for k := 0; k < 8 && alive; k++ {
				if err := routine(); err != nil {
					return err
				}
				if seen[st.ID] {
					stats["chunk_taken"]++
					break
				}
			}
			if alive {
				select {
				case <-sent:
				case <-time.After(5 * time.Second):
					return errPeerLeecherStuck
				}
			}
		case "processed":
			processed[st.ID] = true
			log.emit(rec{"op": "processed", "id": st.ID})
			stats["processed"]++
		case "suspend":
			suspended = !suspended
			log.emit(rec{"op": "suspend", "b": suspended})
			if suspended {
				stats["suspend"]++
			}
		case "setdone":
			isDone = true
			log.emit(rec{"op": "setdone"})
			stats["setdone"]++
		}
	}
	// the held routine (if any) has not begun: Stopped() reflects everything the script did
	log.emit(rec{"op": "end", "stopped": d.Stopped()})
	log.stop()
	atomic.StoreInt32(&g.free, 1)
	if alive {
		g.release <- struct{}{}
	}
	d.Stop()
	return nil
}

// CmdPeerLeecherRun: vh gsp-peerleecher <scenarios.ndjson> <trace.ndjson>
func CmdPeerLeecherRun(args []string) int {
	if len(args) < 2 {
		fmt.Fprintln(os.Stderr, "usage: vh gsp-peerleecher <scenarios.ndjson> <trace.ndjson>")
		return 2
	}
	out, closeOut, err := openTrace(args[1])
	if err != nil {
		fmt.Fprintln(os.Stderr, err)
		return 2
	}
	defer closeOut()
	stats := map[string]int{}
	var smu sync.Mutex
	n, err := forEachScenario(args[0], 8, func(idx int, raw []byte) error {
		var s PeerScenario
		if err := json.Unmarshal(raw, &s); err != nil {
			return fmt.Errorf("bad scenario: %v", err)
		}
		log := &scenLog{}
		st := map[string]int{}
		if err := RunPeerLeecherScenario(&s, idx, log, st); err != nil {
			return err
		}
		out.flush(log)
		smu.Lock()
		mergeStats(stats, st)
		smu.Unlock()
		return nil
	})
	if err != nil {
		fmt.Fprintln(os.Stderr, err)
		return 2
	}
	stats["scenarios"] = n
	stats["lines"] = out.n
	json.NewEncoder(os.Stdout).Encode(stats)
	return 0
}
