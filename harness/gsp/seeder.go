package gsp

import (
	"encoding/json"
	"fmt"
	"os"
	"runtime"
	"sync"
	"sync/atomic"
	"time"

	"github.com/Fantom-foundation/lachesis-base/gossip/basestream"
	"github.com/Fantom-foundation/lachesis-base/gossip/basestream/basestreamseeder"
)

// integer locators
type sloc int

func (l sloc) Compare(b basestream.Locator) int { return int(l) - int(b.(sloc)) }
func (l sloc) Inc() basestream.Locator          { return l + 1 }

const (
	seedItems    = 8    // the item source holds the items 0..7
	seedItemSize = 10   // size and memory of one item
	sentinelLoc  = 1000 // requests starting here are the driver's barrier, not part of the script
)

type spay struct {
	items    []int
	sentinel bool
}

func (p *spay) Len() int          { return len(p.items) }
func (p *spay) TotalSize() uint64 { return uint64(len(p.items) * seedItemSize) }
func (p *spay) TotalMemSize() int {
	if p.sentinel {
		return 0
	}
	return 1 + len(p.items)*seedItemSize
}

type SeedStep struct {
	Op     string `json:"op"`
	P      string `json:"p"`
	Sid    int    `json:"sid"`
	Chunks int    `json:"chunks"`
}

type SeedScenario struct {
	Lim    string     `json:"lim"`
	Script []SeedStep `json:"script"`
	Tight  bool       `json:"tight"` // small pending-responses limit and a slow SendChunk
	// Slow: sender queues of one task (MaxSenderTasks = 1, two senders), twice the chunk counts and a SendChunk
	// that takes 500us: more chunks of one session are outstanding than a sender queue holds while the other
	// sender is idle
	Slow bool `json:"slow"`
	// Overlap (with Slow): a request that resumes the session of the step just before it is handed over without
	// waiting for that step's responses, so chunks of two requests of one session are in flight together
	Overlap bool `json:"overlap"`
}

// session ranges: Start/Stop of session id s (index s-1); the same for every peer
var seedStart = []int{0, 1, 2, 3}
var seedStop = []int{3, 3, 6, 3}

var errSeederStuck = fmt.Errorf("seeder did not become quiet within 10s")

func RunSeederScenario(sc *SeedScenario, scen int, log *scenLog, stats map[string]int) error {
	num, size, maxItems := uint32(100), uint64(1<<20), 0
	switch sc.Lim {
	case "n1":
		num, maxItems = 1, 1
	case "n2":
		num, maxItems = 2, 2
	case "s15":
		size, maxItems = 15, 2
	default:
		return fmt.Errorf("unknown limit %q", sc.Lim)
	}
	pendLimit := int64(1 << 20)
	if sc.Tight {
		pendLimit = 5
	}
	cf := rec{"start": seedStart, "stop": seedStop, "num": int(num), "size": int(size), "isize": seedItemSize,
		"pendlimit": pendLimit, "oneresp": 1 + (maxItems+1)*seedItemSize}
	log.emit(rec{"op": "reset", "scen": scen, "cf": cf, "lim": sc.Lim, "tight": sc.Tight, "slow": sc.Slow, "overlap": sc.Overlap, "script": sc.Script})
	senderTasks, chunkFactor := 64, 1
	if sc.Slow {
		senderTasks, chunkFactor = 1, 2
	}

	var s *basestreamseeder.BaseSeeder
	barrier := make(chan struct{}, 4)
	s = basestreamseeder.New(basestreamseeder.Config{
		SenderThreads: 2, MaxSenderTasks: senderTasks, MaxPendingResponsesSize: pendLimit,
		MaxResponsePayloadNum: 100, MaxResponsePayloadSize: 1 << 20, MaxResponseChunks: 4,
	}, basestreamseeder.Callbacks{
		ForEachItem: func(start basestream.Locator, _ basestream.RequestType, onKey func(basestream.Locator) bool, onAppended func(basestream.Payload) bool) basestream.Payload {
			from := int(start.(sloc))
			if from >= sentinelLoc {
				barrier <- struct{}{}
				return &spay{sentinel: true}
			}
			if sc.Tight { // the pending-memory sample only matters under a tight limit; keeps the other traces short
				log.emit(rec{"op": "foreach", "from": from, "pending": s.VerifPendingResponsesSize()})
			}
			p := &spay{}
			for i := from; i < seedItems; i++ {
				if !onKey(sloc(i)) {
					break
				}
				p.items = append(p.items, i)
				if !onAppended(p) {
					break
				}
			}
			return p
		},
	})
	s.Start()
	defer s.Stop()
	var smu sync.Mutex
	mkPeer := func(id string) basestreamseeder.Peer {
		return basestreamseeder.Peer{ID: id,
			SendChunk: func(r basestream.Response) error {
				// logged on entry: the order of the send lines of a session is the order in which SendChunk is entered
				p := r.Payload.(*spay)
				log.emit(rec{"op": "send", "p": id, "sid": int(r.SessionID), "items": append([]int{}, p.items...),
					"size": int(p.TotalSize()), "done": r.Done, "pending": s.VerifPendingResponsesSize()})
				if sc.Tight {
					time.Sleep(300 * time.Microsecond) // let the reader run ahead of the sender, then sample again
					log.emit(rec{"op": "pending", "pending": s.VerifPendingResponsesSize()})
				}
				if sc.Slow {
					time.Sleep(500 * time.Microsecond) // a slow peer: later chunks queue up behind this one
				}
				smu.Lock()
				stats["send"]++
				if r.Done {
					stats["send_done"]++
				}
				if len(p.items) == 0 {
					stats["send_empty"]++
				}
				smu.Unlock()
				return nil
			},
			Misbehaviour: func(err error) { log.emit(rec{"op": "misbehaviour", "p": id, "err": err.Error()}) },
		}
	}
	zpeer := basestreamseeder.Peer{ID: "z", SendChunk: func(basestream.Response) error { return nil }, Misbehaviour: func(error) {}}
	zsid := uint32(0)
	// quiet waits until the reader loop has finished everything handed over so far and nothing is pending
	quiet := func() error {
		deadline := time.Now().Add(10 * time.Second)
		for s.VerifQueuedNotifications() != 0 { // the notification was taken by the reader loop
			if time.Now().After(deadline) {
				return errSeederStuck
			}
			runtime.Gosched()
		}
		zsid++
		s.NotifyRequestReceived(zpeer, basestream.Request{Session: basestream.Session{ID: zsid, Start: sloc(sentinelLoc), Stop: sloc(sentinelLoc)},
			MaxPayloadNum: 1, MaxPayloadSize: 1, MaxChunks: 1})
		select {
		case <-barrier: // the reader loop reached the barrier request: the previous one is fully handled
		case <-time.After(10 * time.Second):
			return errSeederStuck
		}
		for s.VerifPendingResponsesSize() != 0 { // every enqueued response was sent
			if time.Now().After(deadline) {
				return errSeederStuck
			}
			time.Sleep(20 * time.Microsecond)
		}
		return nil
	}
	held := map[string]map[int]bool{"p": {}, "q": {}}
	for si, st := range sc.Script {
		switch st.Op {
		case "request":
			chunks := st.Chunks * chunkFactor
			log.emit(rec{"op": "request", "p": st.P, "sid": st.Sid, "chunks": chunks})
			smu.Lock()
			if held[st.P][st.Sid] {
				stats["resume"]++
			} else if len(held[st.P]) >= 3 {
				stats["open_while_three"]++
			}
			smu.Unlock()
			held[st.P][st.Sid] = true
			s.NotifyRequestReceived(mkPeer(st.P), basestream.Request{
				Session:       basestream.Session{ID: uint32(st.Sid), Start: sloc(seedStart[st.Sid-1]), Stop: sloc(seedStop[st.Sid-1])},
				MaxPayloadNum: num, MaxPayloadSize: size, MaxChunks: uint32(chunks)})
		case "unregister":
			log.emit(rec{"op": "unregister", "p": st.P})
			held[st.P] = map[int]bool{}
			smu.Lock()
			stats["unregister"]++
			smu.Unlock()
			s.UnregisterPeer(st.P)
		}
		if nx := si + 1; sc.Overlap && st.Op == "request" && nx < len(sc.Script) && sc.Script[nx].Op == "request" &&
			sc.Script[nx].P == st.P && sc.Script[nx].Sid == st.Sid {
			// the next step resumes this session: do not wait, its chunks are queued behind (and must not overtake) these
			smu.Lock()
			stats["overlapping_resume"]++
			smu.Unlock()
			continue
		}
		if err := quiet(); err != nil {
			return err
		}
		log.emit(rec{"op": "quiet"})
	}
	smu.Lock()
	if sc.Tight {
		stats["tight"]++
	}
	if sc.Slow {
		stats["slow"]++
	}
	smu.Unlock()
	return nil
}

// CmdSeederRun: vh gsp-seeder <scenarios.ndjson> <trace.ndjson> [tightEvery]
// every tightEvery-th scenario is run a second time with a tight pending-responses limit, another tightEvery-th
// with slow peers and sender queues of one task
// (tightEvery < 0: each scenario once, with its own "tight" flag).
func CmdSeederRun(args []string) int {
	if len(args) < 2 {
		fmt.Fprintln(os.Stderr, "usage: vh gsp-seeder <scenarios.ndjson> <trace.ndjson> [tightEvery]")
		return 2
	}
	tightEvery := 0
	if len(args) > 2 {
		fmt.Sscan(args[2], &tightEvery)
	}
	out, closeOut, err := openTrace(args[1])
	if err != nil {
		fmt.Fprintln(os.Stderr, err)
		return 2
	}
	defer closeOut()
	stats := map[string]int{}
	var smu sync.Mutex
	var nrun int64
	n, err := forEachScenario(args[0], 8, func(idx int, raw []byte) error {
		var s SeedScenario
		if err := json.Unmarshal(raw, &s); err != nil {
			return fmt.Errorf("bad scenario: %v", err)
		}
		type variant struct{ tight, slow, overlap bool }
		variants := []variant{{false, false, false}}
		if tightEvery > 0 && idx%tightEvery == 0 {
			variants = append(variants, variant{true, false, false})
		}
		if tightEvery > 0 && idx%tightEvery == tightEvery/2 {
			variants = append(variants, variant{false, true, false})
		}
		if tightEvery > 0 && idx%tightEvery == tightEvery/4 {
			variants = append(variants, variant{false, true, true})
		}
		if tightEvery < 0 { // replay: as recorded
			variants = []variant{{s.Tight, s.Slow, s.Overlap}}
		}
		for _, v := range variants {
			s.Tight, s.Slow, s.Overlap = v.tight, v.slow, v.overlap
			log := &scenLog{}
			st := map[string]int{}
			if err := RunSeederScenario(&s, idx, log, st); err != nil {
				return err
			}
			out.flush(log)
			atomic.AddInt64(&nrun, 1)
			smu.Lock()
			mergeStats(stats, st)
			smu.Unlock()
		}
		return nil
	})
	if err != nil {
		fmt.Fprintln(os.Stderr, err)
		return 2
	}
	stats["scripts"] = n
	stats["scenarios"] = int(nrun)
	stats["lines"] = out.n
	json.NewEncoder(os.Stdout).Encode(stats)
	return 0
}
