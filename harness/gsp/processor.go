package gsp

import (
	"encoding/json"
	"errors"
	"fmt"
	"math/rand"
	"os"
	"runtime"
	"strings"
	"sync"
	"time"

	"github.com/Fantom-foundation/lachesis-base/eventcheck"
	"github.com/Fantom-foundation/lachesis-base/gossip/dagprocessor"
	"github.com/Fantom-foundation/lachesis-base/hash"
	"github.com/Fantom-foundation/lachesis-base/inter/dag"
	"github.com/Fantom-foundation/lachesis-base/inter/dag/tdag"
	"github.com/Fantom-foundation/lachesis-base/inter/idx"
	"github.com/Fantom-foundation/lachesis-base/utils/datasemaphore"
)

// procCopy is one event instance handed to Enqueue: every instance is a distinct pointer, so the
// callbacks can tell copies of the same event apart.
type procCopy struct {
	*tdag.TestEvent
	c    int
	ev   int
	size int
}

func (c *procCopy) Size() int { return c.size }

type procEvent struct {
	e       *tdag.TestEvent
	ev      int
	lam     int
	size    int
	missing bool // never handed to the processor: its children stay incomplete
}

func metricRec(m dag.Metric) rec { return rec{"num": int(m.Num), "size": int(m.Size)} }

type procStats struct {
	mu sync.Mutex
	m  map[string]int
}

func (s *procStats) inc(k string, n int) {
	s.mu.Lock()
	s.m[k] += n
	s.mu.Unlock()
}

// RunProcessorScenario generates one seeded scenario (events, batches, enqueuers, failing checks,
// far-future Lamports, capacities), runs it on a fresh Processor and records the trace.
// Returns whether a watchdog had to unblock an Enqueue call.
func RunProcessorScenario(seed int64, scen int, log *scenLog, st *procStats) (watchdog bool, err error) {
	r := rand.New(rand.NewSource(seed))
	// ---- scenario parameters
	limNum := []int{2, 3, 5, 12, 40}[r.Intn(5)]
	h0 := r.Intn(4)
	n := 6 + r.Intn(30)
	maxBatch := 1 + r.Intn(8)
	risky := r.Intn(12) == 0 // semaphore not larger than what the buffer may park: Enqueue may have to give up
	capNum := limNum + 2*maxBatch + 4 + r.Intn(8)
	if risky {
		capNum = maxBatch + r.Intn(limNum+1)
	}
	if r.Intn(10) == 0 && maxBatch > 2 {
		capNum = maxBatch - 1 // some batches exceed the capacity outright: immediate ErrBusy
	}
	evSize := func() int { return 20 + r.Intn(30) }
	capSize := 1 << 20
	if r.Intn(4) == 0 {
		capSize = 50 * capNum // size-bound instead of count-bound
	}
	limSize := 1 << 20
	if r.Intn(5) == 0 {
		limSize = 40 * limNum
	}
	earlyStop := r.Intn(6) == 0
	// shutdown scenarios (own generator, so that the other parameters of a seed stay what they were):
	// gatedStop: after the regular batches a last batch, whose final event has a missing parent, is enqueued and
	//            the inserter is held inside the HighestLamport callback of that event until Stop() has been
	//            called and has had time to progress; the batch then runs to completion while Stop is running.
	// jitter:    random yields / short sleeps inside the callbacks, and Stop() more often while batches are in flight.
	gr := rand.New(rand.NewSource(seed ^ 0x6a7e))
	gatedStop := gr.Intn(4) == 0
	jitter := gr.Intn(3) == 0
	if gatedStop {
		earlyStop, risky = false, false
		capNum = limNum + 2*maxBatch + 12
		capSize = 1 << 20
	} else if jitter && gr.Intn(2) == 0 {
		earlyStop = true
	}

	// ---- events: a DAG with parents among earlier events; Lamport = 1 + max parent Lamport
	evs := make([]*procEvent, 0, n+8)
	mk := func(parents []int, lam int) *procEvent {
		e := &tdag.TestEvent{}
		e.SetEpoch(1)
		e.SetSeq(1)
		e.SetLamport(idx.Lamport(lam))
		var ps hash.Events
		for _, p := range parents {
			ps = append(ps, evs[p].e.ID())
		}
		e.SetParents(ps)
		var id [24]byte
		k := len(evs) + 1
		id[0], id[1] = byte(k), byte(k>>8)
		e.SetID(id)
		pe := &procEvent{e: e, ev: k, lam: lam, size: evSize()}
		evs = append(evs, pe)
		return pe
	}
	for i := 0; i < n; i++ {
		var parents []int
		lam := 1
		if i > 0 {
			seen := map[int]bool{}
			for j := r.Intn(4); j > 0; j-- {
				p := r.Intn(i)
				if !seen[p] {
					seen[p] = true
					parents = append(parents, p)
					if evs[p].lam+1 > lam {
						lam = evs[p].lam + 1
					}
				}
			}
		}
		pe := mk(parents, lam)
		pe.missing = r.Intn(9) == 0
	}
	// parentless events around the far-future threshold (relative to plausible values of `highest`)
	nfar := r.Intn(6)
	for i := 0; i < nfar; i++ {
		base := h0
		if r.Intn(2) == 0 {
			base = evs[r.Intn(n)].lam
		}
		mk(nil, base+limNum+r.Intn(4)) // threshold is highest+limNum+1: offsets 0..3 straddle it
	}
	if r.Intn(3) == 0 {
		mk(nil, 1000+r.Intn(1000))
	}

	// ---- the enqueue list: every non-missing event once, some twice, shuffled a little (mostly parents first)
	type item struct{ pe *procEvent }
	var list []item
	for _, pe := range evs {
		if pe.missing {
			continue
		}
		list = append(list, item{pe})
		if r.Intn(10) == 0 {
			list = append(list, item{pe})
		}
	}
	for k := r.Intn(len(list)/2 + 1); k > 0; k-- {
		i, j := r.Intn(len(list)), r.Intn(len(list))
		list[i], list[j] = list[j], list[i]
	}
	type batch struct {
		b       int
		ordered bool
		copies  []*procCopy
	}
	var batches []*batch
	copyN := 0
	failCheck := map[int]bool{}   // copy ids whose parentless check fails
	failParents := map[int]bool{} // event ids whose parents check fails
	failProcess := map[int]bool{} // event ids whose Process fails
	for len(list) > 0 {
		k := 1 + r.Intn(maxBatch)
		if k > len(list) {
			k = len(list)
		}
		bt := &batch{b: len(batches) + 1, ordered: r.Intn(2) == 0}
		for _, it := range list[:k] {
			copyN++
			bt.copies = append(bt.copies, &procCopy{TestEvent: it.pe.e, c: copyN, ev: it.pe.ev, size: it.pe.size})
			if r.Intn(14) == 0 {
				failCheck[copyN] = true
			}
		}
		list = list[k:]
		batches = append(batches, bt)
	}
	// the last batch of a gated-stop scenario: 0-2 parentless events and, last, an event whose parent is never handed over
	var finalBatch *batch
	if gatedStop {
		finalBatch = &batch{b: len(batches) + 1, ordered: gr.Intn(2) == 0}
		var fes []*procEvent
		for k := gr.Intn(3); k > 0; k-- {
			fes = append(fes, mk(nil, 1+gr.Intn(2)))
		}
		m := mk(nil, 1)
		m.missing = true
		fes = append(fes, mk([]int{len(evs) - 1}, 2))
		for _, pe := range fes {
			copyN++
			finalBatch.copies = append(finalBatch.copies, &procCopy{TestEvent: pe.e, c: copyN, ev: pe.ev, size: pe.size})
		}
	}
	for _, pe := range evs {
		if r.Intn(25) == 0 {
			failParents[pe.ev] = true
		}
		if r.Intn(25) == 0 {
			failProcess[pe.ev] = true
		}
	}
	if finalBatch != nil {
		for _, c := range finalBatch.copies {
			delete(failParents, c.ev)
			delete(failProcess, c.ev)
		}
	}
	finalCopy := map[int]bool{}
	if finalBatch != nil {
		for _, c := range finalBatch.copies {
			finalCopy[c.c] = true
		}
	}
	lamOf := map[int]int{}
	evOf := map[hash.Event]int{}
	for _, pe := range evs {
		lamOf[pe.ev] = pe.lam
		evOf[pe.e.ID()] = pe.ev
	}

	// ---- the processor and its recorder
	var mu sync.Mutex // one lock for the environment state and the trace: line order = observation order
	connected := map[hash.Event]dag.Event{}
	asked := map[int]bool{} // events the buffer asked Exists about
	highest := idx.Lamport(h0)
	sem := datasemaphore.New(dag.Metric{Num: idx.Event(capNum), Size: uint64(capSize)}, func(received, processing, releasing dag.Metric) {
		log.emit(rec{"op": "warning", "processing": metricRec(processing), "releasing": metricRec(releasing)})
	})
	held := func() rec { return metricRec(sem.Processing()) }
	log.emit(rec{"op": "reset", "scen": scen, "seed": seed, "cap": rec{"num": capNum, "size": capSize}, "limnum": limNum, "limsize": limSize,
		"h0": h0, "events": len(evs), "batches": len(batches), "risky": risky, "earlystop": earlyStop, "gatedstop": gatedStop, "jitter": jitter})
	checkDelay := r.Intn(3)                       // 0: answer synchronously, 1: short random delays, 2: longer random delays
	dr := rand.New(rand.NewSource(seed ^ 0x5eed)) // delays; used by the single checker goroutine only
	var cbWg sync.WaitGroup
	jr := rand.New(rand.NewSource(seed ^ 0x717e)) // yields; used on the inserter goroutine only
	yield := func(rr *rand.Rand) {
		if !jitter {
			return
		}
		switch rr.Intn(4) {
		case 0:
			runtime.Gosched()
		case 1:
			time.Sleep(time.Duration(rr.Intn(60)) * time.Microsecond)
		}
	}
	// the gate: the gateLeft-th HighestLamport call from now on blocks until releaseGate()
	gateLeft := 0
	heldC := make(chan struct{}, 1)
	releaseC := make(chan struct{})
	var releaseOnce sync.Once
	releaseGate := func() { releaseOnce.Do(func() { close(releaseC) }) }
	defer releaseGate()
	p := dagprocessor.New(sem, dagprocessor.Config{
		EventsBufferLimit:      dag.Metric{Num: idx.Event(limNum), Size: uint64(limSize)},
		EventsSemaphoreTimeout: 100 * time.Millisecond,
		MaxTasks:               64,
	}, dagprocessor.Callback{
		Event: dagprocessor.EventCallback{
			Process: func(e dag.Event) error {
				c := e.(*procCopy)
				mu.Lock()
				defer mu.Unlock()
				if failProcess[c.ev] {
					log.emit(rec{"op": "process", "c": c.c, "ev": c.ev, "ok": false})
					st.inc("process_fail", 1)
					return errors.New("process failed")
				}
				connected[e.ID()] = e
				if e.Lamport() > highest {
					highest = e.Lamport()
				}
				log.emit(rec{"op": "process", "c": c.c, "ev": c.ev, "ok": true})
				st.inc("process_ok", 1)
				return nil
			},
			Released: func(e dag.Event, peer string, err error) {
				c := e.(*procCopy)
				mu.Lock()
				defer mu.Unlock()
				kind := "ok"
				if err != nil {
					kind = err.Error()
				}
				log.emit(rec{"op": "released", "c": c.c, "ev": c.ev, "err": kind, "held": held()})
				st.inc("released", 1)
				if err == eventcheck.ErrSpilledEvent && !asked[c.ev] {
					st.inc("dropped_far_future", 1) // spilled without ever reaching the buffer
				}
				st.inc("released:"+kind, 1)
			},
			Get: func(h hash.Event) dag.Event {
				yield(jr)
				mu.Lock()
				defer mu.Unlock()
				return connected[h]
			},
			Exists: func(h hash.Event) bool {
				yield(jr)
				mu.Lock()
				defer mu.Unlock()
				log.emit(rec{"op": "exists", "ev": evOf[h]})
				asked[evOf[h]] = true
				return connected[h] != nil
			},
			CheckParents: func(e dag.Event, parents dag.Events) error {
				yield(jr)
				if failParents[e.(*procCopy).ev] {
					return errors.New("bad parents")
				}
				return nil
			},
			CheckParentless: func(e dag.Event, checked func(error)) {
				c := e.(*procCopy)
				yield(dr)
				var res error
				if failCheck[c.c] {
					res = errors.New("bad event")
				}
				if checkDelay == 0 || finalCopy[c.c] { // the gated batch is answered at once, so it is handled in batch order
					checked(res)
					return
				}
				d := time.Duration(dr.Intn(150*checkDelay*checkDelay)) * time.Microsecond
				cbWg.Add(1)
				go func() {
					defer cbWg.Done()
					time.Sleep(d)
					checked(res)
				}()
			},
		},
		HighestLamport: func() idx.Lamport {
			yield(jr)
			mu.Lock()
			h := highest
			hit := false
			if gateLeft > 0 {
				gateLeft--
				hit = gateLeft == 0
			}
			mu.Unlock()
			if hit { // hold the inserter between taking the check result and pushing the event
				heldC <- struct{}{}
				<-releaseC
			}
			return h
		},
	})
	p.Start()

	// ---- enqueuers
	nenq := 1 + r.Intn(8)
	var enqWg sync.WaitGroup
	var accMu sync.Mutex
	accepted := 0
	terminated := 0
	doneC := make(chan int, len(batches))
	stopOnce := sync.Once{}
	stopped := make(chan struct{})
	doStop := func() {
		stopOnce.Do(func() {
			mu.Lock()
			log.emit(rec{"op": "stop"})
			mu.Unlock()
			p.Stop()
			close(stopped)
		})
	}
	enqueueBatch := func(bt *batch) {
		events := make(dag.Events, len(bt.copies))
		crecs := make([]rec, len(bt.copies))
		for i, c := range bt.copies {
			events[i] = c
			crecs[i] = rec{"c": c.c, "ev": c.ev, "lam": lamOf[c.ev], "size": c.size}
		}
		mu.Lock()
		log.emit(rec{"op": "enqueue", "b": bt.b, "ordered": bt.ordered, "copies": crecs})
		mu.Unlock()
		b := bt.b
		resC := make(chan error, 1)
		go func() {
			resC <- p.Enqueue("peer", events, bt.ordered, nil, func() {
				mu.Lock()
				log.emit(rec{"op": "done", "b": b, "held": held()})
				mu.Unlock()
				doneC <- b
			})
		}()
		var res error
		select {
		case res = <-resC:
		case <-time.After(1500 * time.Millisecond):
			// Acquire did not give up at its timeout (datasemaphore has no timer, C30/F10): not a C15
			// matter. Stopping the processor terminates the semaphore and unblocks the call.
			accMu.Lock()
			watchdog = true
			accMu.Unlock()
			st.inc("watchdog", 1)
			doStop()
			res = <-resC
		}
		kind := "ok"
		if res == dagprocessor.ErrBusy {
			kind = "busy"
			st.inc("enqueue_busy", 1)
		} else if res != nil {
			kind = "terminated"
			accMu.Lock()
			terminated++
			accMu.Unlock()
			st.inc("enqueue_terminated", 1)
		} else {
			accMu.Lock()
			accepted++
			accMu.Unlock()
			st.inc("enqueue_ok", 1)
			if bt.ordered {
				st.inc("enqueue_ok_ordered", 1)
			}
		}
		mu.Lock()
		log.emit(rec{"op": "enqueued", "b": bt.b, "res": kind, "held": held()})
		mu.Unlock()
	}
	for w := 0; w < nenq; w++ {
		enqWg.Add(1)
		go func(w int) {
			defer enqWg.Done()
			for k := w; k < len(batches); k += nenq {
				enqueueBatch(batches[k])
			}
		}(w)
	}
	if earlyStop {
		time.Sleep(time.Duration(r.Intn(400)) * time.Microsecond)
		doStop()
		st.inc("early_stop", 1)
	}
	enqWg.Wait()
	select {
	case <-stopped:
	default:
		// wait until every accepted batch is finished, then sample the idle processor
		deadline := time.After(2 * time.Second)
		stalled := false
		for got := 0; got < accepted && !stalled; got++ {
			select {
			case <-doneC:
			case <-deadline:
				// every check was answered long ago, yet an accepted batch has not finished: the statement has no
				// liveness clause, so this is recorded (note line, counter) and the processor is stopped; whatever
				// the trace shows up to and after Stop is validated like any other
				stalled = true
				st.inc("stalled_scenarios", 1)
				mu.Lock()
				log.emit(rec{"op": "stalled", "finished": got, "accepted": accepted})
				mu.Unlock()
			}
		}
		if !stalled {
			mu.Lock()
			log.emit(rec{"op": "idle", "held": held()})
			mu.Unlock()
			st.inc("idle_samples", 1)
			if sem.Processing().Num != 0 {
				st.inc("idle_with_parked_events", 1)
			}
		}
		if finalBatch != nil && !stalled {
			mu.Lock()
			gateLeft = len(finalBatch.copies) // one HighestLamport call per event (all pass their checks)
			mu.Unlock()
			enqueueBatch(finalBatch)
			select {
			case <-heldC:
				// the inserter is about to push the event with the missing parent: stop the processor now and let
				// Stop() progress for a while before the inserter continues
				st.inc("gated_stop", 1)
				go doStop()
				time.Sleep(time.Duration(50+gr.Intn(3000)) * time.Microsecond)
			case <-time.After(3 * time.Second): // the batch was refused
				st.inc("gate_not_reached", 1)
			}
			releaseGate()
		}
		doStop()
	}
	<-stopped
	mu.Lock()
	log.emit(rec{"op": "stopped", "held": held(), "leaked": terminated > 0})
	mu.Unlock()
	log.stop()
	cbWg.Wait()
	if risky {
		st.inc("risky", 1)
	}
	st.inc("far_candidates", nfar)
	return watchdog, nil
}

// CmdProcessorRun: vh gsp-processor <scenarios> <trace.ndjson>; scenario k uses seed VERIF_SEED*1000003+k
func CmdProcessorRun(args []string, seed int64) int {
	if len(args) < 2 {
		fmt.Fprintln(os.Stderr, "usage: vh gsp-processor <scenarios> <trace.ndjson>")
		return 2
	}
	var runs int
	var oneSeed int64
	if strings.HasPrefix(args[0], "seed=") { // replay of one recorded scenario
		fmt.Sscan(args[0][5:], &oneSeed)
		runs = 1
	} else {
		fmt.Sscan(args[0], &runs)
	}
	out, closeOut, err := openTrace(args[1])
	if err != nil {
		fmt.Fprintln(os.Stderr, err)
		return 2
	}
	defer closeOut()
	st := &procStats{m: map[string]int{}}
	par := 4
	jobs := make(chan int, runs)
	for k := 1; k <= runs; k++ {
		jobs <- k
	}
	close(jobs)
	var wg sync.WaitGroup
	var emu sync.Mutex
	var firstErr error
	for w := 0; w < par; w++ {
		wg.Add(1)
		go func() {
			defer wg.Done()
			for k := range jobs {
				log := &scenLog{}
				sd := seed*1000003 + int64(k)
				if oneSeed != 0 {
					sd = oneSeed
				}
				wd, err := RunProcessorScenario(sd, k, log, st)
				if err != nil {
					emu.Lock()
					if firstErr == nil {
						firstErr = err
					}
					emu.Unlock()
					continue
				}
				if wd {
					st.inc("scenarios_with_watchdog", 1)
				}
				out.flush(log)
			}
		}()
	}
	wg.Wait()
	if firstErr != nil {
		fmt.Fprintln(os.Stderr, firstErr)
		return 2
	}
	st.m["scenarios"] = runs
	st.m["lines"] = out.n
	json.NewEncoder(os.Stdout).Encode(st.m)
	return 0
}
