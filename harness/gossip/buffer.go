// Package gossip: recorders for the gossip components (pattern S+T).
package gossip

import (
	"bufio"
	"encoding/json"
	"errors"
	"fmt"
	"math/rand"
	"os"
	"runtime"
	"sync"
	"sync/atomic"
	"time"

	"github.com/Fantom-foundation/lachesis-base/gossip/dagordering"
	"github.com/Fantom-foundation/lachesis-base/hash"
	"github.com/Fantom-foundation/lachesis-base/inter/dag"
	"github.com/Fantom-foundation/lachesis-base/inter/dag/tdag"
	"github.com/Fantom-foundation/lachesis-base/inter/idx"
)

// bufCopy is one pushed copy: every PushEvent call gets a distinct pointer so that the
// callbacks can tell copies of the same event apart.
type bufCopy struct {
	*tdag.TestEvent
	copyID int
	size   int
}

func (c *bufCopy) Size() int { return c.size }

type BufScenario struct {
	N       int     `json:"n"`
	Parents [][]int `json:"parents"`
	Order   []int   `json:"order"`
	Fail    struct {
		Kind string `json:"kind"`
		Ev   int    `json:"ev"`
	} `json:"fail"`
	Limit struct {
		Num  int `json:"num"`
		Size int `json:"size"`
	} `json:"limit"`
	Size  int   `json:"size"`
	Sizes []int `json:"sizes"`
}

type rec map[string]interface{}

type traceWriter struct {
	w *bufio.Writer
	n int
}

func (t *traceWriter) emit(r rec) {
	b, _ := json.Marshal(r)
	t.w.Write(b)
	t.w.WriteByte('\n')
	t.n++
}

func mkEvents(parents [][]int, size int) ([]*tdag.TestEvent, []int, map[hash.Event]int) {
	n := len(parents)
	evs := make([]*tdag.TestEvent, n)
	sizes := make([]int, n)
	idOf := map[hash.Event]int{}
	for i := range parents {
		e := &tdag.TestEvent{}
		e.SetSeq(1)
		e.SetLamport(idx.Lamport(i + 1))
		e.SetEpoch(1)
		var ps hash.Events
		for _, p := range parents[i] {
			ps = append(ps, evs[p-1].ID())
		}
		e.SetParents(ps)
		var id [24]byte
		id[0] = byte(i + 1)
		id[1] = byte((i + 1) >> 8)
		e.SetID(id)
		evs[i] = e
		sizes[i] = size + len(parents[i])
		idOf[e.ID()] = i + 1
	}
	return evs, sizes, idOf
}

// RunBufScenario executes one sequential scenario on a fresh EventsBuffer and records the trace.
func RunBufScenario(sc *BufScenario, scen int, tw *traceWriter) {
	evs, sizes, idOf := mkEvents(sc.Parents, sc.Size)
	if len(sc.Sizes) == len(sizes) {
		sizes = sc.Sizes
	}
	tw.emit(rec{"op": "reset", "scen": scen, "parents": sc.Parents, "sizes": sizes, "sequential": true,
		"limit": rec{"num": sc.Limit.Num, "size": sc.Limit.Size}})
	connected := map[hash.Event]dag.Event{}
	cb := dagordering.Callback{
		Process: func(e dag.Event) error {
			c := e.(*bufCopy)
			ev := idOf[e.ID()]
			if sc.Fail.Kind == "process" && sc.Fail.Ev == ev {
				tw.emit(rec{"op": "process", "copy": c.copyID, "ev": ev, "ok": false})
				return errors.New("process failed")
			}
			connected[e.ID()] = e
			tw.emit(rec{"op": "process", "copy": c.copyID, "ev": ev, "ok": true})
			return nil
		},
		Released: func(e dag.Event, peer string, err error) {
			tw.emit(rec{"op": "released", "copy": e.(*bufCopy).copyID, "ev": idOf[e.ID()], "err": err != nil})
		},
		Get:    func(h hash.Event) dag.Event { return connected[h] },
		Exists: func(h hash.Event) bool { return connected[h] != nil },
		Check: func(e dag.Event, parents dag.Events) error {
			c := e.(*bufCopy)
			ev := idOf[e.ID()]
			if sc.Fail.Kind == "check" && sc.Fail.Ev == ev {
				tw.emit(rec{"op": "check", "copy": c.copyID, "ev": ev, "ok": false})
				return errors.New("check failed")
			}
			tw.emit(rec{"op": "check", "copy": c.copyID, "ev": ev, "ok": true})
			return nil
		},
	}
	b := dagordering.New(dag.Metric{Num: idx.Event(sc.Limit.Num), Size: uint64(sc.Limit.Size)}, cb)
	copyN := 0
	for _, ev := range sc.Order {
		if ev < 0 {
			// the application connects the event by another path, provided its parents are connected
			e := evs[-ev-1]
			ok := connected[e.ID()] == nil
			for _, p := range e.Parents() {
				if connected[p] == nil {
					ok = false
				}
			}
			if ok {
				connected[e.ID()] = e
				tw.emit(rec{"op": "ext", "ev": -ev})
			}
			continue
		}
		copyN++
		tw.emit(rec{"op": "push", "copy": copyN, "ev": ev})
		complete := b.PushEvent(&bufCopy{evs[ev-1], copyN, sizes[ev-1]}, "peer")
		tot := b.Total()
		tw.emit(rec{"op": "pushed", "copy": copyN, "complete": complete, "num": int(tot.Num), "size": int(tot.Size)})
	}
	tw.emit(rec{"op": "clear"})
	b.Clear()
	tw.emit(rec{"op": "cleared", "ncon": len(connected)})
}

// CmdBufRun: vh bufrun <scenarios.ndjson> <trace.ndjson>
func CmdBufRun(args []string) int {
	if len(args) < 2 {
		fmt.Fprintln(os.Stderr, "usage: vh bufrun <scenarios.ndjson> <trace.ndjson>")
		return 2
	}
	in, err := os.Open(args[0])
	if err != nil {
		fmt.Fprintln(os.Stderr, err)
		return 2
	}
	defer in.Close()
	out, err := os.Create(args[1])
	if err != nil {
		fmt.Fprintln(os.Stderr, err)
		return 2
	}
	defer out.Close()
	tw := &traceWriter{w: bufio.NewWriterSize(out, 1<<20)}
	defer tw.w.Flush()
	sc := bufio.NewScanner(in)
	sc.Buffer(make([]byte, 1<<20), 1<<26)
	n := 0
	stats := map[string]int{}
	for sc.Scan() {
		if len(sc.Bytes()) == 0 {
			continue
		}
		var s BufScenario
		if err := json.Unmarshal(sc.Bytes(), &s); err != nil {
			fmt.Fprintln(os.Stderr, "bad scenario:", err)
			return 2
		}
		n++
		RunBufScenario(&s, n, tw)
		stats["fail_"+s.Fail.Kind]++
		if len(s.Order) > s.N {
			stats["with_duplicate"]++
		}
		for _, x := range s.Order {
			if x < 0 {
				stats["with_external_connect"]++
			}
		}
		if s.Limit.Num < s.N {
			stats["tight_num"]++
		}
	}
	stats["scenarios"] = n
	stats["lines"] = tw.n
	json.NewEncoder(os.Stdout).Encode(stats)
	return 0
}

var yieldCtr uint32

// yield perturbs the schedule inside lookup callbacks (every few calls a Gosched or a short sleep).
func yield(h hash.Event) {
	n := atomic.AddUint32(&yieldCtr, 1)
	switch (n + uint32(h[8])) % 5 {
	case 0:
		runtime.Gosched()
	case 1:
		time.Sleep(time.Duration(20+n%60) * time.Microsecond)
	}
}

// CmdBufConc: vh bufconc <runs> <trace.ndjson> — seeded concurrent pushers on random DAGs.
// All callbacks run under the buffer's mutex, so the recorded callback order is a linearization;
// push/pushed lines are written under a separate lock and only bracket the calls.
func CmdBufConc(args []string, seed int64) int {
	if len(args) < 2 {
		fmt.Fprintln(os.Stderr, "usage: vh bufconc <runs> <trace.ndjson>")
		return 2
	}
	var runs int
	fmt.Sscan(args[0], &runs)
	out, err := os.Create(args[1])
	if err != nil {
		fmt.Fprintln(os.Stderr, err)
		return 2
	}
	defer out.Close()
	tw := &traceWriter{w: bufio.NewWriterSize(out, 1<<20)}
	defer tw.w.Flush()
	r := rand.New(rand.NewSource(seed))
	stats := map[string]int{}
	for run := 1; run <= runs; run++ {
		n := 4 + r.Intn(12)
		parents := make([][]int, n)
		for i := 1; i < n; i++ {
			k := r.Intn(4)
			seen := map[int]bool{}
			for j := 0; j < k; j++ {
				p := 1 + r.Intn(i)
				if !seen[p] {
					seen[p] = true
					parents[i] = append(parents[i], p)
				}
			}
		}
		for i := range parents {
			if parents[i] == nil {
				parents[i] = []int{}
			}
		}
		limNum := []int{1000, 1000, 2, 3, 5}[r.Intn(5)]
		failEv, failKind := 0, "none"
		if r.Intn(3) == 0 {
			failEv = 1 + r.Intn(n)
			failKind = []string{"check", "process"}[r.Intn(2)]
		}
		evs, sizes, idOf := mkEvents(parents, 10)
		var lmu sync.Mutex // protects the trace writer
		emit := func(x rec) { lmu.Lock(); tw.emit(x); lmu.Unlock() }
		emit(rec{"op": "reset", "scen": run, "parents": parents, "sizes": sizes, "sequential": false,
			"limit": rec{"num": limNum, "size": 1 << 30}})
		var cmu sync.RWMutex
		connected := map[hash.Event]dag.Event{}
		cb := dagordering.Callback{
			Process: func(e dag.Event) error {
				c := e.(*bufCopy)
				ev := idOf[e.ID()]
				if failKind == "process" && failEv == ev {
					emit(rec{"op": "process", "copy": c.copyID, "ev": ev, "ok": false})
					return errors.New("process failed")
				}
				cmu.Lock()
				connected[e.ID()] = e
				cmu.Unlock()
				emit(rec{"op": "process", "copy": c.copyID, "ev": ev, "ok": true})
				return nil
			},
			Released: func(e dag.Event, peer string, err error) {
				emit(rec{"op": "released", "copy": e.(*bufCopy).copyID, "ev": idOf[e.ID()], "err": err != nil})
			},
			// the lookups yield now and then: they widen any window between a lookup and the use of its answer
			Get: func(h hash.Event) dag.Event {
				cmu.RLock()
				x := connected[h]
				cmu.RUnlock()
				yield(h)
				return x
			},
			Exists: func(h hash.Event) bool {
				cmu.RLock()
				x := connected[h] != nil
				cmu.RUnlock()
				yield(h)
				return x
			},
			Check: func(e dag.Event, ps dag.Events) error {
				c := e.(*bufCopy)
				ev := idOf[e.ID()]
				if failKind == "check" && failEv == ev {
					emit(rec{"op": "check", "copy": c.copyID, "ev": ev, "ok": false})
					return errors.New("check failed")
				}
				emit(rec{"op": "check", "copy": c.copyID, "ev": ev, "ok": true})
				return nil
			},
		}
		b := dagordering.New(dag.Metric{Num: idx.Event(limNum), Size: 1 << 30}, cb)
		// pushes: every event once or twice, shuffled, distributed over 2-4 goroutines
		var pushes []int
		for i := 1; i <= n; i++ {
			pushes = append(pushes, i)
			if r.Intn(4) == 0 {
				pushes = append(pushes, i)
			}
		}
		r.Shuffle(len(pushes), func(i, j int) { pushes[i], pushes[j] = pushes[j], pushes[i] })
		g := 2 + r.Intn(3)
		var wg sync.WaitGroup
		for w := 0; w < g; w++ {
			wg.Add(1)
			go func(w int) {
				defer wg.Done()
				for k := w; k < len(pushes); k += g {
					ev := pushes[k]
					copyID := k + 1
					emit(rec{"op": "push", "copy": copyID, "ev": ev})
					complete := b.PushEvent(&bufCopy{evs[ev-1], copyID, sizes[ev-1]}, "peer")
					emit(rec{"op": "pushed", "copy": copyID, "complete": complete, "num": 0, "size": 0})
				}
			}(w)
		}
		wg.Wait()
		emit(rec{"op": "clear"})
		b.Clear()
		emit(rec{"op": "cleared", "ncon": len(connected)})
		stats["pushes"] += len(pushes)
		stats["fail_"+failKind]++
	}
	stats["scenarios"] = runs
	stats["lines"] = tw.n
	json.NewEncoder(os.Stdout).Encode(stats)
	return 0
}
