package ext

import (
	"fmt"
	"math"
	"math/rand"
	"os"
	"strconv"
	"sync/atomic"

	"verifharness/replay"

	"github.com/Fantom-foundation/lachesis-base/common/prque"
)

// The prque adapters (Prque.tla).  The harness plays the application: it hands ints to Push, keeps the
// index last reported for each value by the setIndex callback, and calls Remove with that index.
//
//   prque       priorities used as they are
//   prque-wrap  priorities shifted so that the used range straddles the int64 wrap-around point
//               (the package promises order by wrapped difference while the range stays below 2^63)
//   prque-big   the queue additionally holds 4094 filler elements of lower priority which are never
//               popped, so the explored sizes straddle the 4096-element block boundary of the container;
//               Size is reported net of the fillers, Empty and the index set are not projected

const fillerBase = 1000

type prqInst struct {
	q       *prque.Prque
	n       int // model items are 1..n
	base    int64
	fillers int
	idx     map[int]int // last index reported by the callback, per value
	prio    map[int]int // priority handed to Push for the values the harness pushed (inputs, not a model)
	rnd     *rand.Rand
	applies int
}

var prqCounter int64

func envSeed() int64 {
	s, err := strconv.ParseInt(os.Getenv("VERIF_SEED"), 10, 64)
	if err != nil {
		return 1
	}
	return s
}

func newPrq(base int64, fillers int) func(pre interface{}) (replay.Inst, error) {
	return func(pre interface{}) (replay.Inst, error) {
		ps, ok := pre.([]interface{})
		if !ok {
			return nil, fmt.Errorf("prque pre-state is not an array: %v", pre)
		}
		in := &prqInst{n: len(ps), base: base, fillers: fillers, idx: map[int]int{}, prio: map[int]int{},
			rnd: rand.New(rand.NewSource(envSeed()*7919 + atomic.AddInt64(&prqCounter, 1)))}
		in.q = prque.New(func(a interface{}, i int) { in.idx[a.(int)] = i })
		in.fill()
		for _, j := range in.rnd.Perm(len(ps)) {
			if p := int(ps[j].(float64)); p >= 0 {
				in.push(j+1, p)
			}
		}
		return in, nil
	}
}

func (in *prqInst) fill() {
	for i := 0; i < in.fillers; i++ {
		in.q.Push(fillerBase+i, in.base-1-int64(i%7))
	}
}

func (in *prqInst) push(v, p int) {
	in.prio[v] = p
	in.q.Push(v, in.base+int64(p))
}

func (in *prqInst) Close() {}

func (in *prqInst) Apply(act map[string]interface{}) (map[string]interface{}, error) {
	in.applies++
	v := 0
	if f, ok := act["v"].(float64); ok {
		v = int(f)
	}
	switch act["op"] {
	case "push":
		in.push(v, int(act["p"].(float64)))
		return map[string]interface{}{}, nil
	case "pop":
		x, p := in.q.Pop()
		return map[string]interface{}{"res": map[string]interface{}{"v": x, "p": p - in.base}}, nil
	case "popitem":
		return map[string]interface{}{"res": map[string]interface{}{"v": in.q.PopItem()}}, nil
	case "remove", "removegone":
		i, known := in.idx[v]
		if !known {
			i = -1 // the application was never told anything about v
		}
		r := in.q.Remove(i)
		return map[string]interface{}{"res": map[string]interface{}{"removed": r != nil}}, nil
	case "empty":
		if in.fillers > 0 {
			return map[string]interface{}{}, nil
		}
		return map[string]interface{}{"res": map[string]interface{}{"b": in.q.Empty()}}, nil
	case "size":
		return map[string]interface{}{"res": map[string]interface{}{"n": in.q.Size() - in.fillers}}, nil
	case "reset":
		in.q.Reset()
		// Reset drops the container without telling the callback: the application forgets its indices too
		in.idx = map[int]int{}
		in.fill()
		return map[string]interface{}{}, nil
	}
	return nil, fmt.Errorf("unknown op %v", act["op"])
}

func (in *prqInst) Project() interface{} {
	out := map[string]interface{}{"size": in.q.Size() - in.fillers}
	tracked := replay.Set{}
	idxs := replay.Set{}
	gone := replay.Set{}
	for v := 1; v <= in.n; v++ {
		if i, ok := in.idx[v]; ok && i >= 0 {
			tracked = append(tracked, map[string]interface{}{"v": v, "p": in.prio[v]})
			idxs = append(idxs, i)
		} else {
			gone = append(gone, v)
		}
	}
	out["tracked"] = tracked
	out["gone"] = gone
	if in.fillers == 0 {
		out["empty"] = in.q.Empty()
		out["idxs"] = idxs
	}
	if in.applies <= 1 || in.rnd.Intn(5) == 0 {
		// complete drain of the (non-filler) elements, then put them back in another order
		n := in.q.Size() - in.fillers
		drain := []interface{}{}
		items := replay.Set{}
		type it struct {
			v int
			p int64
		}
		var popped []it
		for i := 0; i < n; i++ {
			x, p := in.q.Pop()
			drain = append(drain, p-in.base)
			items = append(items, map[string]interface{}{"v": x, "p": p - in.base})
			popped = append(popped, it{x.(int), p})
		}
		for _, j := range in.rnd.Perm(len(popped)) {
			in.q.Push(popped[j].v, popped[j].p)
		}
		out["drain"] = drain
		out["items"] = items
	}
	return out
}

func PrqueAdapters() []replay.Adapter {
	return []replay.Adapter{
		{Name: "prque", New: newPrq(0, 0)},
		{Name: "prque-wrap", New: newPrq(math.MaxInt64-1, 0)},
		{Name: "prque-big", New: newPrq(0, 4094)},
	}
}
