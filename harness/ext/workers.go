package ext

import (
	"bufio"
	"encoding/json"
	"flag"
	"fmt"
	"math/rand"
	"os"
	"runtime"
	"sync"
	"sync/atomic"
	"time"

	"github.com/Fantom-foundation/lachesis-base/utils/workers"
)

// Recorder for WorkersTrace.tla (X02): seeded scenarios drive a real workers.Workers pool from several
// goroutines; every public call is logged as a call line before and a ret line after it, every task
// function logs a start line as its first and an end line as its last statement.  All lines are appended
// under one mutex, so the logged interval of a call contains its real interval and a start line follows the
// real removal of the task from the queue.  The recorder decides nothing: TLC accepts or rejects the log.

type wrec map[string]interface{}

type wlog struct {
	mu sync.Mutex
	w  *bufio.Writer
	n  int64
}

func (h *wlog) emit(r wrec) {
	b, _ := json.Marshal(r)
	h.mu.Lock()
	h.w.Write(b)
	h.w.WriteByte('\n')
	h.n++
	h.mu.Unlock()
}

func (h *wlog) call(g int, fn string, t, n int) {
	h.emit(wrec{"op": "call", "g": g, "a": wrec{"fn": fn, "t": t, "n": n}})
}
func (h *wlog) ret(g int, s string, n int) {
	h.emit(wrec{"op": "ret", "g": g, "res": wrec{"s": s, "n": n}})
}

type wop struct {
	kind  string // enq | gated | open | drain | count | start | stop
	n     int
	pause int // microseconds before the op (0 = none, -1 = yield)
}

type wscen struct {
	name    string
	cap, nw int
	drivers [][]wop
}

func randomScen(r *rand.Rand) wscen {
	sc := wscen{name: "random", cap: r.Intn(4), nw: r.Intn(4)}
	if r.Intn(3) == 0 {
		sc.cap = r.Intn(2)
	}
	nd := 1 + r.Intn(3)
	for d := 0; d < nd; d++ {
		var ops []wop
		for i, n := 0, 2+r.Intn(4); i < n; i++ {
			var o wop
			switch x := r.Intn(100); {
			case x < 35:
				o.kind = "enq"
			case x < 55:
				o.kind = "gated"
			case x < 68:
				o.kind = "open"
			case x < 80:
				o.kind = "drain"
			case x < 93:
				o.kind = "count"
			case x < 97:
				o.kind, o.n = "start", 1
			default:
				o.kind = "stop"
			}
			switch r.Intn(5) {
			case 0:
				o.pause = -1
			case 1:
				o.pause = r.Intn(60)
			}
			ops = append(ops, o)
		}
		sc.drivers = append(sc.drivers, ops)
	}
	return sc
}

func ops(kinds ...string) []wop {
	out := make([]wop, len(kinds))
	for i, k := range kinds {
		out[i] = wop{kind: k, n: 1}
	}
	return out
}

// designed scenarios: full queue with a busy worker, drain without workers, callers blocked until quit, rendezvous queue, stop while busy
var designed = []wscen{
	{"full", 1, 1, [][]wop{ops("gated", "enq", "enq", "count"), ops("count", "open", "count")}},
	{"drain-noworkers", 3, 0, [][]wop{ops("enq", "enq", "drain", "count", "enq"), ops("count", "drain", "count")}},
	{"blocked-until-quit", 1, 0, [][]wop{ops("enq", "enq", "enq"), ops("count", "stop", "count")}},
	{"rendezvous", 0, 1, [][]wop{ops("enq", "enq", "count"), ops("drain", "count")}},
	{"stop-while-busy", 2, 2, [][]wop{ops("gated", "gated", "enq", "enq"), ops("count", "stop", "open", "open", "count")}},
	{"late-start", 2, 0, [][]wop{ops("enq", "enq", "count", "start", "enq"), ops("count", "drain")}},
}

const giveUp = 10 * time.Second

func runScen(h *wlog, sc wscen, r *rand.Rand, stats map[string]int) {
	quit := make(chan struct{})
	var wg sync.WaitGroup
	pool := workers.New(&wg, quit, sc.cap)
	h.emit(wrec{"op": "reset", "cap": sc.cap, "workers": sc.nw, "scenario": sc.name})

	var (
		mu       sync.Mutex // gates, stop
		gates    []chan struct{}
		opened   int
		allOpen  bool
		stopped  bool
		nextTask int64
		nworkers int64
		nstarted int64
		nended   int64
		smu      sync.Mutex // stats
	)
	stat := func(k string, n int) { smu.Lock(); stats[k] += n; smu.Unlock() }
	openOne := func() {
		mu.Lock()
		if opened < len(gates) {
			close(gates[opened])
			opened++
		}
		mu.Unlock()
	}
	openAll := func() {
		mu.Lock()
		allOpen = true
		for ; opened < len(gates); opened++ {
			close(gates[opened])
		}
		mu.Unlock()
	}
	stop := func(g int) {
		mu.Lock()
		if !stopped {
			h.call(g, "stop", 0, 0)
			close(quit)
			h.ret(g, "ok", 0)
			stopped = true
		}
		mu.Unlock()
	}
	isStopped := func() bool { mu.Lock(); defer mu.Unlock(); return stopped }
	start := func(g, n int) {
		atomic.AddInt64(&nworkers, int64(n))
		h.call(g, "start", 0, n)
		pool.Start(n)
		h.ret(g, "ok", 0)
	}
	enqueue := func(g int, gated bool) {
		t := int(atomic.AddInt64(&nextTask, 1))
		var gate chan struct{}
		if gated {
			mu.Lock()
			if !allOpen {
				gate = make(chan struct{})
				gates = append(gates, gate)
			}
			mu.Unlock()
		}
		fn := func() {
			h.emit(wrec{"op": "start", "t": t})
			atomic.AddInt64(&nstarted, 1)
			if gate != nil {
				<-gate
			}
			atomic.AddInt64(&nended, 1)
			h.emit(wrec{"op": "end", "t": t})
		}
		before := atomic.LoadInt64(&h.n)
		h.call(g, "enqueue", t, 0)
		err := pool.Enqueue(fn)
		if atomic.LoadInt64(&h.n) > before+1 {
			stat("enqueue_overlapped_by_other_lines", 1)
		}
		if err == nil {
			h.ret(g, "ok", 0)
			stat("enqueue_ok", 1)
		} else {
			h.ret(g, err.Error(), 0)
			stat("enqueue_refused", 1)
		}
	}
	count := func(g int) {
		h.call(g, "count", 0, 0)
		n := pool.TasksCount()
		h.ret(g, "n", n)
		if n > 0 {
			stat("count_nonzero", 1)
		}
	}
	drain := func(g int) {
		h.call(g, "drain", 0, 0)
		pool.Drain()
		h.ret(g, "ok", 0)
		stat("drains", 1)
	}

	if sc.nw > 0 {
		start(0, sc.nw)
	}
	var dwg sync.WaitGroup
	for d, script := range sc.drivers {
		dwg.Add(1)
		go func(g int, script []wop, seed int64) {
			defer dwg.Done()
			for _, o := range script {
				if o.pause < 0 {
					runtime.Gosched()
				} else if o.pause > 0 {
					time.Sleep(time.Duration(o.pause) * time.Microsecond)
				}
				switch o.kind {
				case "enq":
					enqueue(g, false)
				case "gated":
					enqueue(g, true)
				case "open":
					openOne()
				case "drain":
					drain(g)
				case "count":
					count(g)
				case "start":
					start(g, o.n)
				case "stop":
					stop(g)
				}
			}
		}(d+1, script, r.Int63())
	}
	driversDone := make(chan struct{})
	go func() { dwg.Wait(); close(driversDone) }()
	waitDrivers := func(d time.Duration) bool {
		select {
		case <-driversDone:
			return true
		case <-time.After(d):
			return false
		}
	}
	stuck := func(what string) {
		h.emit(wrec{"op": "stuck", "what": what})
		stat("stuck", 1)
	}

	// let the drivers run for a moment with the gates as they are, then open every gate
	waitDrivers(time.Duration(50+r.Intn(450)) * time.Microsecond)
	openAll()
	ok := true
	if atomic.LoadInt64(&nworkers) > 0 && !isStopped() {
		// live workers, open gates, quit not closed: blocked callers get room and the queue empties
		if !waitDrivers(giveUp) && !isStopped() {
			stuck("callers still blocked although workers are live and no task is blocked")
			ok = false
		}
		for t0 := time.Now(); ok && !isStopped() && pool.TasksCount() > 0; {
			if time.Since(t0) > giveUp {
				stuck("tasks stay queued although workers are live and no task is blocked")
				ok = false
			}
			time.Sleep(20 * time.Microsecond)
		}
	}
	stop(0)
	if !waitDrivers(giveUp) {
		stuck("a caller is still blocked after quit was closed")
		ok = false
	}
	if ok {
		h.call(0, "wait", 0, 0)
		waited := make(chan struct{})
		go func() { wg.Wait(); close(waited) }()
		select {
		case <-waited:
			h.ret(0, "ok", 0)
		case <-time.After(giveUp):
			stuck("workers did not leave after quit was closed")
			ok = false
		}
	}
	if ok {
		count(0)
		if r.Intn(2) == 0 {
			drain(0)
			count(0)
		}
	}
	stat("scenarios", 1)
	stat("scenario_"+sc.name, 1)
	stat("tasks_run", int(atomic.LoadInt64(&nended)))
	stat("tasks_not_run", int(atomic.LoadInt64(&nextTask)-atomic.LoadInt64(&nstarted)))
}

// CmdWorkers: vh extworkers -runs N -out trace.ndjson   (prints statistics as JSON)
func CmdWorkers(args []string, seed int64) int {
	fs := flag.NewFlagSet("extworkers", flag.ExitOnError)
	runs := fs.Int("runs", 100, "scenarios")
	out := fs.String("out", "workers.ndjson", "output")
	fs.Parse(args)
	f, err := os.Create(*out)
	if err != nil {
		fmt.Fprintln(os.Stderr, err)
		return 2
	}
	defer f.Close()
	h := &wlog{w: bufio.NewWriterSize(f, 1<<20)}
	stats := map[string]int{}
	r := rand.New(rand.NewSource(seed*1000003 + 17))
	for i := 0; i < *runs; i++ {
		if i%4 == 0 {
			runScen(h, designed[(i/4)%len(designed)], r, stats)
		} else {
			runScen(h, randomScen(r), r, stats)
		}
	}
	h.w.Flush()
	stats["lines"] = int(h.n)
	json.NewEncoder(os.Stdout).Encode(stats)
	return 0
}
