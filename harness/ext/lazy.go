package ext

import (
	"errors"
	"fmt"

	"verifharness/replay"

	"github.com/Fantom-foundation/lachesis-base/kvdb"
	"github.com/Fantom-foundation/lachesis-base/kvdb/flushable"
	"github.com/Fantom-foundation/lachesis-base/kvdb/memorydb"
)

// The lazy adapter (Lazy.tla): a flushable.LazyFlushable whose producer hands out a memorydb that exists
// from the start with the content named by the abstract state, fails as often as the state says and
// counts its calls.  Reads use the observation plan of kvwrap.go (EXT_KVCONF).

type lazyInst struct {
	conf   *kvConf
	real   kvdb.Store
	lz     *flushable.LazyFlushable
	fails  int
	calls  int
	closed bool
}

func newLazy(pre interface{}) (replay.Inst, error) {
	conf, err := loadKVConf()
	if err != nil {
		return nil, err
	}
	p := mobj(pre)
	in := &lazyInst{conf: conf, real: memorydb.New()}
	for _, pr := range mlist(p["real"]) {
		l := mlist(pr)
		if err := in.real.Put([]byte(mstr(l[0])), conf.decVal(mstr(l[1]))); err != nil {
			return nil, err
		}
	}
	in.lz = flushable.NewLazy(func() (kvdb.Store, error) {
		in.calls++
		if in.fails > 0 {
			in.fails--
			return nil, errors.New("producer failed")
		}
		return in.real, nil
	}, func() {})
	if p["opened"] == true {
		if _, err := in.lz.InitUnderlyingDb(); err != nil {
			return nil, err
		}
	}
	for _, m := range mlist(p["mods"]) {
		l := mlist(m)
		if mstr(l[1]) == "~" {
			err = in.lz.Delete([]byte(mstr(l[0])))
		} else {
			err = in.lz.Put([]byte(mstr(l[0])), conf.decVal(mstr(l[1])))
		}
		if err != nil {
			return nil, err
		}
	}
	in.fails = int(p["fails"].(float64))
	in.calls = int(p["pcalls"].(float64))
	if p["closed"] == true {
		if err := in.lz.Close(); err != nil {
			return nil, err
		}
		in.closed = true
	}
	return in, nil
}

func (in *lazyInst) Close() {}

func (in *lazyInst) Apply(act map[string]interface{}) (map[string]interface{}, error) {
	k := []byte(mstr(act["k"]))
	e := func(err error) (map[string]interface{}, error) {
		return map[string]interface{}{"err": errStr(err)}, nil
	}
	switch mstr(act["op"]) {
	case "put":
		return e(in.lz.Put(k, in.conf.decVal(mstr(act["v"]))))
	case "del":
		return e(in.lz.Delete(k))
	case "flush":
		return e(in.lz.Flush())
	case "initdb":
		_, err := in.lz.InitUnderlyingDb()
		return e(err)
	case "dropnotflushed":
		in.lz.DropNotFlushed()
		return map[string]interface{}{}, nil
	case "close":
		err := in.lz.Close()
		in.closed = in.closed || err == nil
		return e(err)
	}
	return nil, fmt.Errorf("unknown op %v", act["op"])
}

func (in *lazyInst) Project() interface{} {
	w := &kvwInst{conf: in.conf}
	out := w.reader(in.lz)
	if _, err := in.real.Has([]byte("a")); err != nil && err.Error() == "database closed" {
		out["real"] = map[string]interface{}{"kind": "closed"}
	} else {
		out["real"] = map[string]interface{}{"kind": "open", "pairs": w.iterate(in.real, nil, nil)["pairs"]}
	}
	if in.closed {
		out["notflushed"] = -1 // NotFlushedPairs of a closed store dereferences nil: not read
	} else {
		out["notflushed"] = in.lz.NotFlushedPairs()
	}
	out["pcalls"] = in.calls
	return out
}

func LazyAdapters() []replay.Adapter {
	return []replay.Adapter{{Name: "lazy", New: newLazy}}
}
