package ext

import (
	"fmt"

	"verifharness/replay"

	"github.com/Fantom-foundation/lachesis-base/inter/pos"
	"github.com/Fantom-foundation/lachesis-base/utils/wmedian"
)

// wmedian adapter (WMedian.tla): stateless; every vector computed by TLC is executed on wmedian.Of and the
// position of the returned value (or the panic) is reported.

type wval struct {
	w pos.Weight
	i int
}

func (v wval) Weight() pos.Weight { return v.w }

type wmedInst struct{}

func (wmedInst) Close()               {}
func (wmedInst) Project() interface{} { return map[string]interface{}{"s": 0} }

func (wmedInst) Apply(act map[string]interface{}) (out map[string]interface{}, err error) {
	if act["op"] != "of" {
		return nil, fmt.Errorf("unknown op %v", act["op"])
	}
	ws, _ := act["ws"].([]interface{})
	vals := make([]wmedian.WeightedValue, len(ws))
	for i, w := range ws {
		vals[i] = wval{pos.Weight(w.(float64)), i + 1}
	}
	stop := pos.Weight(act["stop"].(float64))
	defer func() {
		if p := recover(); p != nil {
			out = map[string]interface{}{"res": map[string]interface{}{"panic": true, "i": 0}, "msg": fmt.Sprint(p)}
			err = nil
		}
	}()
	r := wmedian.Of(vals, stop)
	return map[string]interface{}{"res": map[string]interface{}{"panic": false, "i": r.(wval).i}, "msg": ""}, nil
}

func WMedianAdapters() []replay.Adapter {
	return []replay.Adapter{{Name: "wmedian", New: func(pre interface{}) (replay.Inst, error) { return wmedInst{}, nil }}}
}
