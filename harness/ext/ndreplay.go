// Package ext is the Go side of the extra checks X01-X03 (parts of the library beyond the 33 listed
// properties): adapters that build the real objects in a given abstract state, apply the calls emitted
// by TLC from specs/ext/*.tla, and recorders for the trace specifications.  Nothing here decides what
// the code should return: expected values come from the TLC output.
package ext

import (
	"encoding/json"
	"flag"
	"fmt"
	"math/rand"
	"os"
	"sort"

	"verifharness/replay"
)

// RunND is pattern R for specifications that leave a choice open (several transitions with the same
// pre-state and the same call, e.g. Pop among equal priorities).  Transitions are grouped by
// (pre-state, call = act without the output keys); the call is executed once on the real object and
// has conformed when at least one transition of the group has exactly the observed outputs and the
// observed projection.  Deterministic specifications are the special case of one transition per group.
//
// A projection that is a JSON object is compared key by key over the keys the adapter returned, so an
// adapter may return a cheap partial projection on some steps (see prque.go).
func RunND(a replay.Adapter, edges []replay.Edge, outKeys []string, o replay.Options) *replay.Report {
	rep := &replay.Report{Adapter: a.Name, Edges: len(edges), Ops: map[string]int{}, Sigs: map[string]int{}}
	if o.MaxKeep == 0 {
		o.MaxKeep = 12
	}
	add := func(m replay.Mismatch) {
		rep.MismatchCount++
		rep.Sigs[m.Sig]++
		if len(rep.Mismatches) < o.MaxKeep && rep.Sigs[m.Sig] <= 3 {
			rep.Mismatches = append(rep.Mismatches, m)
		}
	}
	isOut := map[string]bool{}
	for _, k := range outKeys {
		isOut[k] = true
	}
	canon := func(v interface{}) string { b, _ := json.Marshal(v); return string(b) }
	callOf := func(act map[string]interface{}) string {
		c := map[string]interface{}{}
		for k, v := range act {
			if !isOut[k] {
				c[k] = v
			}
		}
		return canon(c)
	}
	type group struct {
		pre   string
		edges []int
	}
	var groups []*group
	gidx := map[string]*group{}
	byPre := map[string][]*group{}
	obsOf := map[string]interface{}{} // what a state shows, from any transition that leads to it
	for i, e := range edges {
		if e.Obs != nil {
			obsOf[canon(e.Post)] = e.Obs
		}
		if a.Skip != nil && a.Skip(e.Act) {
			rep.Skipped++
			continue
		}
		pk := canon(e.Pre)
		gk := pk + "|" + callOf(e.Act)
		g := gidx[gk]
		if g == nil {
			g = &group{pre: pk}
			gidx[gk] = g
			groups = append(groups, g)
			byPre[pk] = append(byPre[pk], g)
		}
		g.edges = append(g.edges, i)
	}
	rep.DistinctPre = len(byPre)
	rep.DistinctEdges = len(groups)

	// step executes the call of group g on inst; returns the matching transition (or -1)
	step := func(inst replay.Inst, g *group, mode string, path []replay.Edge) (match int) {
		e0 := edges[g.edges[0]]
		op, _ := e0.Act["op"].(string)
		match = -1
		defer func() {
			if p := recover(); p != nil {
				add(replay.Mismatch{Kind: "panic", Op: op, Sig: a.Name + ":" + op + ":panic", Edge: e0, Got: fmt.Sprint(p), Mode: mode, Path: path})
				match = -1
			}
		}()
		out, err := inst.Apply(e0.Act)
		if err != nil {
			add(replay.Mismatch{Kind: "error", Op: op, Sig: a.Name + ":" + op + ":error", Edge: e0, Got: err.Error(), Mode: mode, Path: path})
			return -1
		}
		got := inst.Project()
		resOK := -1
		badKey := ""
		for _, i := range g.edges {
			e := edges[i]
			ok := true
			for k, v := range out {
				if !replay.Equal(e.Act[k], v) {
					ok = false
					if badKey == "" {
						badKey = k
					}
				}
			}
			if !ok {
				continue
			}
			if resOK < 0 {
				resOK = i
			}
			want := e.Post
			if e.Obs != nil {
				want = e.Obs
			}
			if partialEqual(want, got) {
				return i
			}
		}
		if resOK < 0 {
			var allowed []interface{}
			for _, i := range g.edges {
				o := map[string]interface{}{}
				for k := range out {
					o[k] = edges[i].Act[k]
				}
				allowed = append(allowed, o)
			}
			add(replay.Mismatch{Kind: "res:" + badKey, Op: op, Sig: a.Name + ":" + op + ":" + badKey, Edge: e0, Want: allowed, Got: generic(out), Mode: mode, Path: path})
			return -1
		}
		e := edges[resOK]
		want := e.Post
		if e.Obs != nil {
			want = e.Obs
		}
		add(replay.Mismatch{Kind: "post", Op: op, Sig: a.Name + ":" + op + ":post", Edge: e, Want: want, Got: generic(got), Mode: mode, Path: path})
		return -1
	}

	for gi, g := range groups {
		e0 := edges[g.edges[0]]
		if len(rep.Sample) < 3 && gi%(len(groups)/3+1) == 0 {
			rep.Sample = append(rep.Sample, e0)
		}
		inst, err := safeNew(a, e0.Pre)
		if err != nil {
			add(replay.Mismatch{Kind: "error", Op: "new", Sig: a.Name + ":new:error", Edge: e0, Got: err.Error(), Mode: "edge"})
			continue
		}
		// the freshly built object must show what the specification says about the pre-state
		if want, ok := obsOf[g.pre]; ok {
			got, perr := safeProject(inst)
			if perr != nil {
				add(replay.Mismatch{Kind: "panic", Op: "new", Sig: a.Name + ":new:panic", Edge: e0, Got: perr.Error(), Mode: "edge"})
				continue
			}
			if !partialEqual(want, got) {
				add(replay.Mismatch{Kind: "pre", Op: "new", Sig: a.Name + ":new:pre", Edge: e0, Want: want, Got: generic(got), Mode: "edge"})
				inst.Close()
				continue
			}
		}
		step(inst, g, "edge", nil)
		inst.Close()
		rep.Applied += len(g.edges)
		rep.Ops[fmt.Sprint(e0.Act["op"])]++
	}

	rnd := rand.New(rand.NewSource(o.Seed))
	pres := make([]string, 0, len(byPre))
	for k := range byPre {
		pres = append(pres, k)
	}
	sort.Strings(pres)
	for w := 0; w < o.Walks && len(pres) > 0; w++ {
		cur := pres[rnd.Intn(len(pres))]
		inst, err := safeNew(a, edges[byPre[cur][0].edges[0]].Pre)
		if err != nil {
			add(replay.Mismatch{Kind: "error", Op: "new", Sig: a.Name + ":new:error", Edge: edges[byPre[cur][0].edges[0]], Got: err.Error(), Mode: "walk"})
			continue
		}
		var path []replay.Edge
		for s := 0; s < o.WalkLen; s++ {
			gs := byPre[cur]
			if len(gs) == 0 {
				break
			}
			g := gs[rnd.Intn(len(gs))]
			p := path
			if len(p) > 40 {
				p = p[len(p)-40:]
			}
			m := step(inst, g, "walk", append([]replay.Edge{}, p...))
			rep.WalkSteps++
			if m < 0 {
				break
			}
			path = append(path, edges[m])
			cur = canon(edges[m].Post)
		}
		inst.Close()
		rep.Walks++
	}
	return rep
}

// building the pre-state and projecting run real code too: a panic there is an observation, not a harness failure
func safeNew(a replay.Adapter, pre interface{}) (inst replay.Inst, err error) {
	defer func() {
		if p := recover(); p != nil {
			inst, err = nil, fmt.Errorf("panic while building the pre-state: %v", p)
		}
	}()
	return a.New(pre)
}

func safeProject(inst replay.Inst) (got interface{}, err error) {
	defer func() {
		if p := recover(); p != nil {
			got, err = nil, fmt.Errorf("panic while reading the state: %v", p)
		}
	}()
	return inst.Project(), nil
}

func generic(v interface{}) interface{} {
	b, err := json.Marshal(v)
	if err != nil {
		return fmt.Sprint(v)
	}
	var g interface{}
	json.Unmarshal(b, &g)
	return g
}

// partialEqual: objects are compared over the keys present in got; everything else exactly.
func partialEqual(want, got interface{}) bool {
	gm, ok1 := got.(map[string]interface{})
	wm, ok2 := want.(map[string]interface{})
	if ok1 && ok2 {
		for k, v := range gm {
			wv, ok := wm[k]
			if !ok || !replay.Equal(wv, v) {
				return false
			}
		}
		return true
	}
	return replay.Equal(want, got)
}

// CmdReplayND: vh extreplay [-walks N -len L -out k1,k2] <adapter> <edges.ndjson>
func CmdReplayND(args []string, seed int64, adapters map[string]replay.Adapter) int {
	fs := flag.NewFlagSet("extreplay", flag.ExitOnError)
	walks := fs.Int("walks", 200, "random walks through the transition graph")
	wlen := fs.Int("len", 50, "length of each walk")
	fs.Parse(args)
	if fs.NArg() < 2 {
		fmt.Fprintln(os.Stderr, "usage: vh extreplay [-walks N -len L] <adapter> <edges.ndjson>")
		return 2
	}
	a, ok := adapters[fs.Arg(0)]
	if !ok {
		fmt.Fprintln(os.Stderr, "unknown adapter", fs.Arg(0))
		return 2
	}
	edges, err := replay.LoadEdges(fs.Arg(1))
	if err != nil {
		fmt.Fprintln(os.Stderr, err)
		return 2
	}
	rep := RunND(a, edges, []string{"res"}, replay.Options{Walks: *walks, WalkLen: *wlen, Seed: seed})
	json.NewEncoder(os.Stdout).Encode(rep)
	return 0
}
