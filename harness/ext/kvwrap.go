package ext

import (
	"bytes"
	"encoding/json"
	"errors"
	"fmt"
	"os"
	"sync"

	"verifharness/replay"

	"github.com/Fantom-foundation/lachesis-base/kvdb"
	"github.com/Fantom-foundation/lachesis-base/kvdb/batched"
	"github.com/Fantom-foundation/lachesis-base/kvdb/devnulldb"
	"github.com/Fantom-foundation/lachesis-base/kvdb/fallible"
	"github.com/Fantom-foundation/lachesis-base/kvdb/memorydb"
	"github.com/Fantom-foundation/lachesis-base/kvdb/nokeyiserr"
	"github.com/Fantom-foundation/lachesis-base/kvdb/readonlystore"
	"github.com/Fantom-foundation/lachesis-base/kvdb/skiperrors"
	"github.com/Fantom-foundation/lachesis-base/kvdb/skipkeys"
)

// The kvwrap adapter (KVWrappers.tla): builds the wrapper stack named by the abstract state over a fresh
// memorydb / devnulldb, applies the calls emitted by TLC and projects what the public API shows
// (reads through the top of the stack, the parent read directly, the snapshot, GetWriteCount, Replay of
// the pending and the user batch).  Keys are "a"/"b" strings; a value name with a length > 8 in the
// observation plan (conf.vlen) stands for that many copies of its first character.

type kvConf struct {
	Probe     []string       `json:"probe"`
	Iters     [][2]string    `json:"iters"`
	VLen      map[string]int `json:"vlen"`
	Threshold int            `json:"threshold"`
}

var (
	kvConfOnce sync.Once
	kvConfVal  *kvConf
	kvConfErr  error
)

func loadKVConf() (*kvConf, error) {
	kvConfOnce.Do(func() {
		b, err := os.ReadFile(os.Getenv("EXT_KVCONF"))
		if err != nil {
			kvConfErr = fmt.Errorf("EXT_KVCONF: %v", err)
			return
		}
		c := &kvConf{}
		if err := json.Unmarshal(b, c); err != nil {
			kvConfErr = err
			return
		}
		if len(c.Probe) == 0 || len(c.Iters) == 0 || (c.Threshold != 0 && c.Threshold != kvdb.IdealBatchSize) {
			kvConfErr = fmt.Errorf("observation plan unusable (probe %d, iters %d, threshold %d vs kvdb.IdealBatchSize %d)",
				len(c.Probe), len(c.Iters), c.Threshold, kvdb.IdealBatchSize)
			return
		}
		kvConfVal = c
	})
	return kvConfVal, kvConfErr
}

func (c *kvConf) decVal(s string) []byte {
	if n, ok := c.VLen[s]; ok && n > 8 && len(s) == 1 {
		return bytes.Repeat([]byte{s[0]}, n)
	}
	return append(make([]byte, 0, len(s)), s...)
}

func (c *kvConf) encVal(b []byte) string {
	if len(b) <= 8 {
		return string(b)
	}
	same := true
	for _, x := range b {
		if x != b[0] {
			same = false
			break
		}
	}
	if same && c.VLen[string(b[:1])] == len(b) {
		return string(b[:1])
	}
	return fmt.Sprintf("LONG(%q...,%d bytes,uniform=%v)", b[:4], len(b), same)
}

type opRec struct {
	conf *kvConf
	ops  []interface{}
}

func (r *opRec) Put(k, v []byte) error {
	r.ops = append(r.ops, map[string]interface{}{"t": "put", "k": string(k), "v": r.conf.encVal(v)})
	return nil
}
func (r *opRec) Delete(k []byte) error {
	r.ops = append(r.ops, map[string]interface{}{"t": "del", "k": string(k), "v": "~"})
	return nil
}

type kvwInst struct {
	conf   *kvConf
	bottom kvdb.Store
	devnul bool
	top    kvdb.Store
	f      *fallible.Fallible
	b      *batched.Store
	ub     kvdb.Batch
	snap   kvdb.Snapshot
}

func errStr(err error) string {
	if err == nil {
		return ""
	}
	return err.Error()
}

func mobj(v interface{}) map[string]interface{} { m, _ := v.(map[string]interface{}); return m }
func mlist(v interface{}) []interface{}         { l, _ := v.([]interface{}); return l }
func mstr(v interface{}) string                 { s, _ := v.(string); return s }

func (in *kvwInst) setBottom(pairs []interface{}) error {
	if in.devnul {
		return nil
	}
	it := in.bottom.NewIterator(nil, nil)
	var ks [][]byte
	for it.Next() {
		ks = append(ks, append([]byte{}, it.Key()...))
	}
	it.Release()
	for _, k := range ks {
		if err := in.bottom.Delete(k); err != nil {
			return err
		}
	}
	for _, p := range pairs {
		l := mlist(p)
		if err := in.bottom.Put([]byte(mstr(l[0])), in.conf.decVal(mstr(l[1]))); err != nil {
			return err
		}
	}
	return nil
}

func applyOps(conf *kvConf, w kvdb.Writer, ops []interface{}) error {
	for _, o := range ops {
		m := mobj(o)
		var err error
		if m["t"] == "put" {
			err = w.Put([]byte(mstr(m["k"])), conf.decVal(mstr(m["v"])))
		} else {
			err = w.Delete([]byte(mstr(m["k"])))
		}
		if err != nil {
			return err
		}
	}
	return nil
}

func newKVWrap(pre interface{}) (replay.Inst, error) {
	conf, err := loadKVConf()
	if err != nil {
		return nil, err
	}
	p := mobj(pre)
	layers := mlist(mobj(p["cfg"])["layers"])
	if len(layers) == 0 {
		return nil, fmt.Errorf("no layers in %v", p["cfg"])
	}
	in := &kvwInst{conf: conf}
	for i, lv := range layers {
		l := mobj(lv)
		t := mstr(l["t"])
		if (i == 0) != (t == "mem" || t == "devnull") {
			return nil, fmt.Errorf("layer %d of the stack is %q", i, t)
		}
		switch t {
		case "mem":
			in.bottom = memorydb.New()
			in.top = in.bottom
		case "devnull":
			in.bottom = devnulldb.New()
			in.devnul = true
			in.top = in.bottom
		case "readonly":
			in.top = readonlystore.Wrap(in.top)
		case "skipkeys":
			in.top = skipkeys.Wrap(in.top, []byte(mstr(l["p"])))
		case "nokeyiserr":
			in.top = nokeyiserr.Wrap(in.top)
		case "skiperrors":
			var errs []error
			for _, e := range mlist(l["errs"]) {
				errs = append(errs, errors.New(mstr(e)))
			}
			in.top = skiperrors.Wrap(in.top, errs...)
		case "fallible":
			in.f = fallible.Wrap(in.top)
			in.top = in.f
		case "batched":
			in.b = batched.Wrap(in.top)
			in.top = in.b
		default:
			return nil, fmt.Errorf("unknown layer %q", t)
		}
	}
	sn := mobj(p["snap"])
	if sn["live"] == true {
		if err := in.setBottom(mlist(sn["view"])); err != nil {
			return nil, err
		}
		if in.snap, err = in.top.GetSnapshot(); err != nil {
			return nil, err
		}
	}
	if err := in.setBottom(mlist(p["parent"])); err != nil {
		return nil, err
	}
	if in.b != nil {
		if err := applyOps(conf, in.b, mlist(p["pending"])); err != nil {
			return nil, fmt.Errorf("queueing the pending batch: %v", err)
		}
	} else if len(mlist(p["pending"])) > 0 {
		return nil, fmt.Errorf("pending operations without a batched layer")
	}
	in.ub = in.top.NewBatch()
	if err := applyOps(conf, in.ub, mlist(p["ub"])); err != nil {
		return nil, fmt.Errorf("filling the user batch: %v", err)
	}
	if in.f != nil {
		in.f.SetWriteCount(int(p["budget"].(float64)))
	}
	if p["closed"] == true {
		if err := in.bottom.Close(); err != nil {
			return nil, err
		}
	}
	return in, nil
}

func (in *kvwInst) Close() {}

func (in *kvwInst) Apply(act map[string]interface{}) (out map[string]interface{}, err error) {
	k := []byte(mstr(act["k"]))
	v := in.conf.decVal(mstr(act["v"]))
	op := mstr(act["op"])
	defer func() {
		// fallible answers an exhausted budget with a panic: part of its contract, reported as a result
		if p := recover(); p != nil {
			out, err = map[string]interface{}{"err": "PANIC " + fmt.Sprint(p)}, nil
		}
	}()
	e := func(err error) (map[string]interface{}, error) {
		return map[string]interface{}{"err": errStr(err)}, nil
	}
	none := map[string]interface{}{}
	switch op {
	case "put":
		return e(in.top.Put(k, v))
	case "del":
		return e(in.top.Delete(k))
	case "pput":
		return none, in.bottom.Put(k, v)
	case "pdel":
		return none, in.bottom.Delete(k)
	case "pclose":
		return none, in.bottom.Close()
	case "close":
		return e(in.top.Close())
	case "drop":
		in.top.Drop()
		return e(nil)
	case "setwc":
		in.f.SetWriteCount(int(act["n"].(float64)))
		return none, nil
	case "ubput":
		return e(in.ub.Put(k, v))
	case "ubdel":
		return e(in.ub.Delete(k))
	case "ubwrite":
		return e(in.ub.Write())
	case "ubreset":
		in.ub.Reset()
		return none, nil
	case "snap":
		s, err := in.top.GetSnapshot()
		in.snap = s
		return none, err
	case "release":
		in.snap.Release()
		in.snap = nil
		return none, nil
	case "bwrite":
		return e(in.b.Write())
	case "breset":
		in.b.Reset()
		return none, nil
	case "bflush":
		return e(in.b.Flush())
	case "bmayflush":
		fl, err := in.b.MayFlush()
		return map[string]interface{}{"flushed": fl, "err": errStr(err)}, nil
	}
	return nil, fmt.Errorf("unknown op %q", op)
}

func (in *kvwInst) iterate(r kvdb.Iteratee, prefix, start []byte) map[string]interface{} {
	pairs := []interface{}{}
	it := r.NewIterator(prefix, start)
	for n := 0; it.Next(); n++ {
		pairs = append(pairs, []interface{}{string(it.Key()), in.conf.encVal(it.Value())})
		if n > 1000 {
			pairs = append(pairs, []interface{}{"RUNAWAY", ""})
			break
		}
	}
	err := it.Error()
	it.Release()
	return map[string]interface{}{"pairs": pairs, "err": errStr(err)}
}

func (in *kvwInst) reader(r kvdb.IteratedReader) map[string]interface{} {
	get := make([]interface{}, len(in.conf.Probe))
	has := make([]interface{}, len(in.conf.Probe))
	for i, ks := range in.conf.Probe {
		v, err := r.Get([]byte(ks))
		switch {
		case err != nil:
			get[i] = "ERROR " + err.Error()
		case v == nil:
			get[i] = "~"
		default:
			get[i] = in.conf.encVal(v)
		}
		h, err := r.Has([]byte(ks))
		if err != nil {
			has[i] = map[string]interface{}{"err": err.Error()}
		} else {
			has[i] = map[string]interface{}{"b": h}
		}
	}
	iters := make([]interface{}, len(in.conf.Iters))
	for i, ps := range in.conf.Iters {
		iters[i] = in.iterate(r, []byte(ps[0]), []byte(ps[1]))
	}
	return map[string]interface{}{"get": get, "has": has, "iters": iters}
}

func (in *kvwInst) replayed(b interface{ Replay(kvdb.Writer) error }) interface{} {
	rec := &opRec{conf: in.conf, ops: []interface{}{}}
	if err := b.Replay(rec); err != nil {
		return "ERROR " + err.Error()
	}
	return rec.ops
}

func (in *kvwInst) Project() interface{} {
	out := map[string]interface{}{"top": in.reader(in.top), "budget": 0, "pending": []interface{}{}}
	switch _, err := in.bottom.Has([]byte("a")); {
	case in.devnul:
		out["parent"] = map[string]interface{}{"kind": "devnull"}
	case err != nil && err.Error() == "database closed":
		out["parent"] = map[string]interface{}{"kind": "closed"}
	default:
		out["parent"] = map[string]interface{}{"kind": "open", "pairs": in.iterate(in.bottom, nil, nil)["pairs"]}
	}
	if in.snap != nil {
		out["snap"] = map[string]interface{}{"live": true, "view": in.reader(in.snap)}
	} else {
		out["snap"] = map[string]interface{}{"live": false}
	}
	if in.f != nil {
		out["budget"] = in.f.GetWriteCount()
	}
	if in.b != nil {
		out["pending"] = in.replayed(in.b)
	}
	out["ub"] = in.replayed(in.ub)
	return out
}

func KVWrapAdapters() []replay.Adapter {
	return []replay.Adapter{{Name: "kvwrap", New: newKVWrap}}
}
