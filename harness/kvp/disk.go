package kvp

import (
	"sort"
	"sync"

	"github.com/Fantom-foundation/lachesis-base/kvdb"
	"github.com/Fantom-foundation/lachesis-base/kvdb/memorydb"
)

// Disk is what survives a crash: database name -> key -> value.  Store objects handed out by a
// diskProducer are memorydb stores pre-loaded from the image; every durable operation (database
// creation, Put, Delete, Batch.Write, Drop) is first announced to the controller (which records
// it and may stop the process there) and then applied to both the image and the memory store.
// A restart builds fresh store objects from the image; objects of the stopped process are
// never reused.
type Disk struct {
	mu    sync.Mutex
	files map[string]map[string][]byte
}

func NewDisk() *Disk { return &Disk{files: map[string]map[string][]byte{}} }

func (d *Disk) Names() []string {
	d.mu.Lock()
	defer d.mu.Unlock()
	names := make([]string, 0, len(d.files))
	for n := range d.files {
		names = append(names, n)
	}
	sort.Strings(names)
	return names
}

// Image returns a copy of the persisted contents of one database (nil if it does not exist).
func (d *Disk) Image(name string) map[string][]byte {
	d.mu.Lock()
	defer d.mu.Unlock()
	f, ok := d.files[name]
	if !ok {
		return nil
	}
	out := make(map[string][]byte, len(f))
	for k, v := range f {
		out[k] = append([]byte{}, v...)
	}
	return out
}

// DurableOp is one durable operation as seen by the backend.
type DurableOp struct {
	Kind   string // "create" | "put" | "del" | "batch" | "drop"
	DB     string
	Key    []byte
	Val    []byte
	Writes []BatchWrite
}

type BatchWrite struct {
	Key []byte
	Val []byte // nil = delete
}

// Controller sees every durable operation before it is applied.  Step may panic to stop the
// process at that point (the operation is then not applied).
type Controller interface {
	Step(op DurableOp)
}

type diskProducer struct {
	disk *Disk
	ctl  Controller
	mu   sync.Mutex
	open map[string]*diskStore
}

func newDiskProducer(d *Disk, ctl Controller) *diskProducer {
	return &diskProducer{disk: d, ctl: ctl, open: map[string]*diskStore{}}
}

func (p *diskProducer) step(op DurableOp) {
	if p.ctl != nil {
		p.ctl.Step(op)
	}
}

func (p *diskProducer) Names() []string { return p.disk.Names() }

func (p *diskProducer) OpenDB(name string) (kvdb.Store, error) {
	p.mu.Lock()
	defer p.mu.Unlock()
	if st := p.open[name]; st != nil {
		return st, nil
	}
	if p.disk.Image(name) == nil {
		p.step(DurableOp{Kind: "create", DB: name})
		p.disk.mu.Lock()
		p.disk.files[name] = map[string][]byte{}
		p.disk.mu.Unlock()
	}
	mem := memorydb.New()
	for k, v := range p.disk.Image(name) {
		if err := mem.Put([]byte(k), v); err != nil {
			return nil, err
		}
	}
	st := &diskStore{Store: mem, p: p, name: name}
	p.open[name] = st
	return st, nil
}

type diskStore struct {
	kvdb.Store
	p    *diskProducer
	name string
}

func (s *diskStore) persist(key, val []byte) {
	s.p.disk.mu.Lock()
	defer s.p.disk.mu.Unlock()
	f := s.p.disk.files[s.name]
	if f == nil {
		return // dropped meanwhile
	}
	if val == nil {
		delete(f, string(key))
	} else {
		f[string(key)] = append([]byte{}, val...)
	}
}

func (s *diskStore) Put(key, val []byte) error {
	s.p.step(DurableOp{Kind: "put", DB: s.name, Key: key, Val: val})
	s.persist(key, val)
	return s.Store.Put(key, val)
}

func (s *diskStore) Delete(key []byte) error {
	s.p.step(DurableOp{Kind: "del", DB: s.name, Key: key})
	s.persist(key, nil)
	return s.Store.Delete(key)
}

func (s *diskStore) Close() error {
	s.p.mu.Lock()
	if s.p.open[s.name] == s {
		delete(s.p.open, s.name)
	}
	s.p.mu.Unlock()
	return s.Store.Close()
}

func (s *diskStore) Drop() {
	s.p.step(DurableOp{Kind: "drop", DB: s.name})
	s.p.disk.mu.Lock()
	delete(s.p.disk.files, s.name)
	s.p.disk.mu.Unlock()
	s.p.mu.Lock()
	if s.p.open[s.name] == s {
		delete(s.p.open, s.name)
	}
	s.p.mu.Unlock()
}

func (s *diskStore) NewBatch() kvdb.Batch {
	return &diskBatch{Batch: s.Store.NewBatch(), s: s}
}

// diskBatch: Write is one atomic durable operation (as a LevelDB/Pebble write batch is).
type diskBatch struct {
	kvdb.Batch
	s      *diskStore
	writes []BatchWrite
}

func (b *diskBatch) Put(key, val []byte) error {
	b.writes = append(b.writes, BatchWrite{Key: append([]byte{}, key...), Val: append([]byte{}, val...)})
	return b.Batch.Put(key, val)
}

func (b *diskBatch) Delete(key []byte) error {
	b.writes = append(b.writes, BatchWrite{Key: append([]byte{}, key...)})
	return b.Batch.Delete(key)
}

func (b *diskBatch) Reset() {
	b.writes = nil
	b.Batch.Reset()
}

func (b *diskBatch) Write() error {
	b.s.p.step(DurableOp{Kind: "batch", DB: b.s.name, Writes: append([]BatchWrite{}, b.writes...)})
	for _, w := range b.writes {
		b.s.persist(w.Key, w.Val)
	}
	return b.Batch.Write()
}
