// Package kvp: Go side of the checks C25 (crash-consistent multi-database flushes), C26 (multidb
// routing) and C27 (caching producer).  It only executes the real code and projects what the
// public API shows; every expected value comes from TLC (specs/kvp).
package kvp

import (
	"bufio"
	"encoding/json"
	"errors"
	"fmt"
	"os"
	"sync"
	"time"

	"verifharness/replay"

	"github.com/Fantom-foundation/lachesis-base/kvdb"
	"github.com/Fantom-foundation/lachesis-base/kvdb/cachedproducer"
	"github.com/Fantom-foundation/lachesis-base/kvdb/memorydb"
)

// countingProducer is the underlying producer of C27: it only counts what reaches it.  On demand it
// fails the next OpenDB of a name (transient fault) and, in the concurrent mode, records every call
// that reaches it and holds the first one that arrives while the gate is armed.
type countingProducer struct {
	mu                          sync.Mutex
	opens, closes, drops, fails map[string]int
	failNext                    map[string]bool
	record                      func(rec)
	armed                       bool
	entered                     chan struct{}
	release                     chan struct{}
}

func newCountingProducer() *countingProducer {
	return &countingProducer{opens: map[string]int{}, closes: map[string]int{}, drops: map[string]int{}, fails: map[string]int{},
		failNext: map[string]bool{}}
}

// reached is called at the entry of every underlying call
func (p *countingProducer) reached(kind, name string) {
	p.mu.Lock()
	if p.record != nil {
		p.record(rec{"op": kind, "n": name})
	}
	hold := p.armed
	p.armed = false
	p.mu.Unlock()
	if hold {
		p.entered <- struct{}{}
		<-p.release
	}
}

type countingStore struct {
	kvdb.Store
	p    *countingProducer
	name string
}

func (s *countingStore) Close() error {
	s.p.reached("uclose", s.name)
	s.p.mu.Lock()
	s.p.closes[s.name]++
	s.p.mu.Unlock()
	return nil
}

func (s *countingStore) Drop() {
	s.p.reached("udrop", s.name)
	s.p.mu.Lock()
	s.p.drops[s.name]++
	s.p.mu.Unlock()
}

func (p *countingProducer) OpenDB(name string) (kvdb.Store, error) {
	p.mu.Lock()
	if p.failNext[name] {
		p.failNext[name] = false
		p.fails[name]++
		p.mu.Unlock()
		return nil, errors.New("transient failure of the underlying producer")
	}
	p.mu.Unlock()
	p.reached("uopen", name)
	p.mu.Lock()
	p.opens[name]++
	p.mu.Unlock()
	return &countingStore{Store: memorydb.New(), p: p, name: name}, nil
}
func (p *countingProducer) Names() []string        { return nil }
func (p *countingProducer) NotFlushedSizeEst() int { return 0 }
func (p *countingProducer) Flush(id []byte) error  { return nil }
func (p *countingProducer) Close() error           { return nil }
func (p *countingProducer) Initialize(dbNames []string, flushID []byte) ([]byte, error) {
	return flushID, nil
}

type cachedInst struct {
	under  *countingProducer
	prod   kvdb.DBProducer
	names  []string
	latest map[string]kvdb.Store
}

func (in *cachedInst) Close() {}

func (in *cachedInst) call(op, n string) (map[string]interface{}, error) {
	switch op {
	case "open", "openfail":
		if op == "openfail" {
			in.under.failNext[n] = true
		}
		st, err := in.prod.OpenDB(n)
		prev := in.latest[n]
		same := prev != nil && err == nil && st == prev
		if err == nil {
			in.latest[n] = st
		}
		return map[string]interface{}{"err": err != nil, "same": same}, nil
	case "close":
		st := in.latest[n]
		if st == nil {
			return nil, fmt.Errorf("close %s: no store was handed out", n)
		}
		err := st.Close()
		return map[string]interface{}{"err": err != nil}, nil
	case "drop":
		st := in.latest[n]
		if st == nil {
			return nil, fmt.Errorf("drop %s: no store was handed out", n)
		}
		st.Drop()
		return map[string]interface{}{"err": false}, nil
	}
	return nil, fmt.Errorf("unknown op %q", op)
}

func (in *cachedInst) Apply(act map[string]interface{}) (map[string]interface{}, error) {
	op, _ := act["op"].(string)
	n, _ := act["n"].(string)
	res, err := in.call(op, n)
	if err != nil {
		return nil, err
	}
	return map[string]interface{}{"res": res}, nil
}

func (in *cachedInst) Project() interface{} {
	pick := func(m map[string]int) map[string]interface{} {
		out := map[string]interface{}{}
		for _, n := range in.names {
			out[n] = m[n]
		}
		return out
	}
	return map[string]interface{}{"uopen": pick(in.under.opens), "uclose": pick(in.under.closes), "udrop": pick(in.under.drops),
		"ufail": pick(in.under.fails)}
}

func newCached(all bool) func(pre interface{}) (replay.Inst, error) {
	return func(pre interface{}) (inst replay.Inst, err error) {
		p, _ := pre.(map[string]interface{})
		in := &cachedInst{under: newCountingProducer(), latest: map[string]kvdb.Store{}}
		for _, n := range asList(p["names"]) {
			in.names = append(in.names, n.(string))
		}
		if all {
			in.prod = cachedproducer.WrapAll(in.under)
		} else {
			in.prod = cachedproducer.Wrap(in.under)
		}
		// re-establish the pre-state by executing its call history on the fresh producer
		step := ""
		defer func() {
			if r := recover(); r != nil {
				inst, err = nil, fmt.Errorf("panic in %s while rebuilding the pre-state: %v", step, r)
			}
		}()
		for _, h := range asList(p["hist"]) {
			m := h.(map[string]interface{})
			step, _ = m["op"].(string)
			if _, err := in.call(step, m["n"].(string)); err != nil {
				return nil, err
			}
		}
		return in, nil
	}
}

func asList(v interface{}) []interface{} {
	l, _ := v.([]interface{})
	return l
}

// CachedAdapters: pattern R adapters for cachedproducer.Wrap and cachedproducer.WrapAll.
func CachedAdapters() []replay.Adapter {
	return []replay.Adapter{
		{Name: "cached-wrap", New: newCached(false)},
		{Name: "cached-wrapall", New: newCached(true)},
	}
}

// ---------------------------------------------------------------------------------------------
// concurrent mode: vh cachedconc <scenarios.ndjson> <trace.ndjson>

type concCall struct {
	Op string `json:"op"`
	N  string `json:"n"`
}

type concScenario struct {
	Hist  []concCall    `json:"hist"`
	Names []string      `json:"names"`
	Pairs [][2]concCall `json:"pairs"`
}

type concRecorder struct {
	mu sync.Mutex
	w  *bufio.Writer
	n  int
}

func (r *concRecorder) emit(x rec) {
	r.mu.Lock()
	b, _ := json.Marshal(x)
	r.w.Write(b)
	r.w.WriteByte('\n')
	r.n++
	r.mu.Unlock()
}

// runConc: history sequentially, then x from goroutine 1 (held inside its first underlying call, if it makes
// one) and y from goroutine 2 meanwhile.
func runConc(all bool, sc *concScenario, x, y concCall, scen int, r *concRecorder, stats map[string]int) error {
	in := &cachedInst{under: newCountingProducer(), latest: map[string]kvdb.Store{}, names: sc.Names}
	in.under.record = r.emit
	in.under.entered = make(chan struct{}, 1)
	in.under.release = make(chan struct{})
	if all {
		in.prod = cachedproducer.WrapAll(in.under)
	} else {
		in.prod = cachedproducer.Wrap(in.under)
	}
	mode := "wrap"
	if all {
		mode = "wrapall"
	}
	r.emit(rec{"op": "reset", "scen": scen, "mode": mode, "hist": sc.Hist, "x": x, "y": y})
	var lmu sync.Mutex // protects in.latest between the two goroutines
	do := func(g int, c concCall) (err error) {
		defer func() {
			if p := recover(); p != nil {
				err = fmt.Errorf("panic in %s(%s): %v", c.Op, c.N, p)
			}
		}()
		r.emit(rec{"op": "call", "g": g, "call": c.Op, "n": c.N})
		var res map[string]interface{}
		switch c.Op {
		case "open":
			st, e := in.prod.OpenDB(c.N)
			lmu.Lock()
			if e == nil {
				in.latest[c.N] = st
			}
			lmu.Unlock()
			res = map[string]interface{}{"err": e != nil}
		case "close":
			lmu.Lock()
			st := in.latest[c.N]
			lmu.Unlock()
			res = map[string]interface{}{"err": st.Close() != nil}
		case "drop":
			lmu.Lock()
			st := in.latest[c.N]
			lmu.Unlock()
			st.Drop()
			res = map[string]interface{}{"err": false}
		default:
			return fmt.Errorf("unknown call %q", c.Op)
		}
		r.emit(rec{"op": "ret", "g": g, "call": c.Op, "n": c.N, "res": res})
		return nil
	}
	for _, h := range sc.Hist {
		if err := do(0, h); err != nil {
			return err
		}
	}
	in.under.mu.Lock()
	in.under.armed = true
	in.under.mu.Unlock()
	done1 := make(chan error, 1)
	go func() { done1 <- do(1, x) }()
	held := false
	select {
	case <-in.under.entered:
		held = true
		stats["held_in_"+x.Op]++
	case err := <-done1:
		if err != nil {
			return err
		}
		done1 = nil
		stats["not_held"]++
	case <-time.After(10 * time.Second):
		return errors.New("first call neither returned nor reached the underlying producer")
	}
	in.under.mu.Lock()
	in.under.armed = false
	in.under.mu.Unlock()
	done2 := make(chan error, 1)
	go func() { done2 <- do(2, y) }()
	released := false
	if held {
		select {
		case err := <-done2:
			if err != nil {
				return err
			}
			done2 = nil
			stats["second_completed_while_first_held"]++
		case <-time.After(300 * time.Millisecond):
			stats["second_waited_for_first"]++
		}
		close(in.under.release)
		released = true
	}
	_ = released
	for _, ch := range []chan error{done1, done2} {
		if ch == nil {
			continue
		}
		select {
		case err := <-ch:
			if err != nil {
				return err
			}
		case <-time.After(10 * time.Second):
			return errors.New("a call did not return")
		}
	}
	return nil
}

func CmdCachedConc(args []string) int {
	if len(args) < 2 {
		fmt.Fprintln(os.Stderr, "usage: vh cachedconc <scenarios.ndjson> <trace.ndjson>")
		return 2
	}
	in, err := os.Open(args[0])
	if err != nil {
		fmt.Fprintln(os.Stderr, err)
		return 2
	}
	defer in.Close()
	out, err := os.Create(args[1])
	if err != nil {
		fmt.Fprintln(os.Stderr, err)
		return 2
	}
	defer out.Close()
	r := &concRecorder{w: bufio.NewWriterSize(out, 1<<20)}
	defer r.w.Flush()
	stats := map[string]int{}
	scen := 0
	sc := bufio.NewScanner(in)
	sc.Buffer(make([]byte, 1<<20), 1<<26)
	for sc.Scan() {
		if len(sc.Bytes()) == 0 {
			continue
		}
		var s concScenario
		if err := json.Unmarshal(sc.Bytes(), &s); err != nil {
			fmt.Fprintln(os.Stderr, "bad scenario line:", err)
			return 2
		}
		for _, pr := range s.Pairs {
			for _, all := range []bool{false, true} {
				scen++
				if err := runConc(all, &s, pr[0], pr[1], scen, r, stats); err != nil {
					// a panic or a hang of the real code is an observation, not a harness failure: record it
					r.emit(rec{"op": "failure", "scen": scen, "error": err.Error()})
					stats["failures"]++
				}
				stats["scenarios"]++
				if pr[0].N == pr[1].N {
					stats["same_name_pairs"]++
				}
				stats["pair_"+pr[0].Op+"_"+pr[1].Op]++
			}
		}
	}
	stats["lines"] = r.n
	json.NewEncoder(os.Stdout).Encode(stats)
	return 0
}
