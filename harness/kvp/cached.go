// Package kvp: Go side of the checks C25 (crash-consistent multi-database flushes), C26 (multidb
// routing) and C27 (caching producer).  It only executes the real code and projects what the
// public API shows; every expected value comes from TLC (specs/kvp).
package kvp

import (
	"fmt"

	"verifharness/replay"

	"github.com/Fantom-foundation/lachesis-base/kvdb"
	"github.com/Fantom-foundation/lachesis-base/kvdb/cachedproducer"
	"github.com/Fantom-foundation/lachesis-base/kvdb/memorydb"
)

// countingProducer is the underlying producer of C27: it only counts what reaches it.
type countingProducer struct {
	opens, closes, drops map[string]int
}

func newCountingProducer() *countingProducer {
	return &countingProducer{opens: map[string]int{}, closes: map[string]int{}, drops: map[string]int{}}
}

type countingStore struct {
	kvdb.Store
	p    *countingProducer
	name string
}

func (s *countingStore) Close() error { s.p.closes[s.name]++; return nil }
func (s *countingStore) Drop()        { s.p.drops[s.name]++ }

func (p *countingProducer) OpenDB(name string) (kvdb.Store, error) {
	p.opens[name]++
	return &countingStore{Store: memorydb.New(), p: p, name: name}, nil
}
func (p *countingProducer) Names() []string        { return nil }
func (p *countingProducer) NotFlushedSizeEst() int { return 0 }
func (p *countingProducer) Flush(id []byte) error  { return nil }
func (p *countingProducer) Close() error           { return nil }
func (p *countingProducer) Initialize(dbNames []string, flushID []byte) ([]byte, error) {
	return flushID, nil
}

type cachedInst struct {
	under  *countingProducer
	prod   kvdb.DBProducer
	names  []string
	latest map[string]kvdb.Store
}

func (in *cachedInst) Close() {}

func (in *cachedInst) call(op, n string) (map[string]interface{}, error) {
	switch op {
	case "open":
		st, err := in.prod.OpenDB(n)
		prev := in.latest[n]
		same := prev != nil && err == nil && st == prev
		if err == nil {
			in.latest[n] = st
		}
		return map[string]interface{}{"err": err != nil, "same": same}, nil
	case "close":
		st := in.latest[n]
		if st == nil {
			return nil, fmt.Errorf("close %s: no store was handed out", n)
		}
		err := st.Close()
		return map[string]interface{}{"err": err != nil}, nil
	case "drop":
		st := in.latest[n]
		if st == nil {
			return nil, fmt.Errorf("drop %s: no store was handed out", n)
		}
		st.Drop()
		return map[string]interface{}{"err": false}, nil
	}
	return nil, fmt.Errorf("unknown op %q", op)
}

func (in *cachedInst) Apply(act map[string]interface{}) (map[string]interface{}, error) {
	op, _ := act["op"].(string)
	n, _ := act["n"].(string)
	res, err := in.call(op, n)
	if err != nil {
		return nil, err
	}
	return map[string]interface{}{"res": res}, nil
}

func (in *cachedInst) Project() interface{} {
	pick := func(m map[string]int) map[string]interface{} {
		out := map[string]interface{}{}
		for _, n := range in.names {
			out[n] = m[n]
		}
		return out
	}
	return map[string]interface{}{"uopen": pick(in.under.opens), "uclose": pick(in.under.closes), "udrop": pick(in.under.drops)}
}

func newCached(all bool) func(pre interface{}) (replay.Inst, error) {
	return func(pre interface{}) (inst replay.Inst, err error) {
		p, _ := pre.(map[string]interface{})
		in := &cachedInst{under: newCountingProducer(), latest: map[string]kvdb.Store{}}
		for _, n := range asList(p["names"]) {
			in.names = append(in.names, n.(string))
		}
		if all {
			in.prod = cachedproducer.WrapAll(in.under)
		} else {
			in.prod = cachedproducer.Wrap(in.under)
		}
		// re-establish the pre-state by executing its call history on the fresh producer
		step := ""
		defer func() {
			if r := recover(); r != nil {
				inst, err = nil, fmt.Errorf("panic in %s while rebuilding the pre-state: %v", step, r)
			}
		}()
		for _, h := range asList(p["hist"]) {
			m := h.(map[string]interface{})
			step, _ = m["op"].(string)
			if _, err := in.call(step, m["n"].(string)); err != nil {
				return nil, err
			}
		}
		return in, nil
	}
}

func asList(v interface{}) []interface{} {
	l, _ := v.([]interface{})
	return l
}

// CachedAdapters: pattern R adapters for cachedproducer.Wrap and cachedproducer.WrapAll.
func CachedAdapters() []replay.Adapter {
	return []replay.Adapter{
		{Name: "cached-wrap", New: newCached(false)},
		{Name: "cached-wrapall", New: newCached(true)},
	}
}
