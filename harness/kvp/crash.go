package kvp

import (
	"bufio"
	"encoding/json"
	"errors"
	"fmt"
	"os"
	"strconv"
	"strings"

	"github.com/Fantom-foundation/lachesis-base/kvdb"
	"github.com/Fantom-foundation/lachesis-base/kvdb/flaggedproducer"
	"github.com/Fantom-foundation/lachesis-base/kvdb/flushable"
)

// C25: crash injection into flushable.SyncedPool and flaggedproducer.
// A history enumerated by TLC (specs/kvp/FlushScen.tla: path to an abstract state + one call) is run
// once without a crash and then once for every durable operation k of its last call with the
// process stopped at that operation (the operation is not applied, nothing of the stopped process
// is used afterwards; the crash points of the earlier calls belong to the histories that end there).  After each run a fresh
// pool/producer over fresh stores built from the surviving disk image calls Initialize over the
// surviving database names.  Every run is written as one trace for SyncedPoolTrace.tla /
// FlaggedTrace.tla, which decide whether the restart verdict is crash consistent.

var c25FlushKey = []byte("flag")

type scenOp struct {
	Op string `json:"op"`
	DB string `json:"db"`
	K  string `json:"k"`
	V   int    `json:"v"`
	ID  int    `json:"id"`
	Via string `json:"via"`
}

type scenario struct {
	Comp string   `json:"comp"`
	Ops  []scenOp `json:"ops"`
	Last int      `json:"last"` // 1-based index of the call whose durable operations are the crash points (0: all calls)
	Cls  string   `json:"cls"`
}

// bigPad makes a value large enough (60 KiB) for three of them to exceed kvdb.IdealBatchSize twice over,
// so that one Flushable.Flush writes several batches
var bigPad = strings.Repeat("x", 60*1024)

func encodeVal(v, big int) []byte {
	if big != 0 && v == big {
		return []byte(strconv.Itoa(v) + bigPad)
	}
	return []byte(strconv.Itoa(v))
}

type rec map[string]interface{}

type stopped struct{}

// crashCtl records the durable operations and stops the process at the crashAt-th one.
type crashCtl struct {
	n       int
	crashAt int
	dead    bool
	last    string
	emit    func(rec)
}

func decodeVal(b []byte) int {
	n := 0
	for n < len(b) && b[n] >= '0' && b[n] <= '9' {
		n++
	}
	v, err := strconv.Atoi(string(b[:n]))
	if err != nil {
		return -1000
	}
	return v
}

func (c *crashCtl) Step(op DurableOp) {
	if c.dead {
		panic(stopped{}) // a stopped process never performs another durable operation
	}
	c.n++
	if c.crashAt > 0 && c.n == c.crashAt {
		c.dead = true
		panic(stopped{})
	}
	switch op.Kind {
	case "create":
		c.last = "create"
		c.emit(rec{"op": "create", "db": op.DB})
	case "drop":
		c.last = "drop"
		c.emit(rec{"op": "drop", "db": op.DB})
	case "put":
		if string(op.Key) == string(c25FlushKey) {
			kind, id := decodeMark(op.Val)
			if kind == "D" {
				c.last = "dirty"
				c.emit(rec{"op": "dirty", "db": op.DB})
			} else {
				c.last = "clean"
				c.emit(rec{"op": "clean", "db": op.DB, "id": id, "mark": kind})
			}
			return
		}
		c.last = "data"
		c.emit(rec{"op": "data", "db": op.DB, "w": rec{string(op.Key): decodeVal(op.Val)}})
	case "del":
		c.last = "data"
		c.emit(rec{"op": "data", "db": op.DB, "w": rec{string(op.Key): 0}})
	case "batch":
		w := rec{}
		line := rec{"op": "data", "db": op.DB, "w": w}
		for _, bw := range op.Writes {
			if string(bw.Key) == string(c25FlushKey) {
				// a flush mark inside a write batch: one atomic durable operation carrying data and mark
				kind, id := decodeMark(bw.Val)
				line["mark"] = []interface{}{kind, id}
				continue
			}
			if bw.Val == nil {
				w[string(bw.Key)] = 0
			} else {
				w[string(bw.Key)] = decodeVal(bw.Val)
			}
		}
		c.last = "data"
		c.emit(line)
	}
}

// decodeMark: flush mark = prefix byte (0xde dirty, 0x00 clean) followed by the flush id.
func decodeMark(b []byte) (string, int) {
	if len(b) == 0 {
		return "none", 0
	}
	id := 0
	if len(b) > 1 {
		id = int(b[len(b)-1])
	}
	switch b[0] {
	case flushable.DirtyPrefix:
		return "D", 0
	case flushable.CleanPrefix:
		return "C", id
	}
	return "?", id
}

type initializer interface {
	Initialize(dbNames []string, flushID []byte) ([]byte, error)
}

// restart: fresh stores from the surviving image, fresh pool/producer, Initialize over the survivors.
func restartLine(comp string, disk *Disk, keys []string, dbs []string, k int, last string) (rec, error) {
	prod := newDiskProducer(disk, nil)
	var fresh initializer
	if comp == "pool" {
		fresh = flushable.NewSyncedPool(prod, c25FlushKey)
	} else {
		fresh = flaggedproducer.Wrap(prod, c25FlushKey)
	}
	names := disk.Names()
	id, err := fresh.Initialize(names, nil)
	verdict, vid := "ok", 0
	switch {
	case err == nil:
		if id != nil {
			_, vid = decodeMark(id)
		}
	case strings.Contains(err.Error(), "dirty state"):
		verdict = "dirty"
	case strings.Contains(err.Error(), "not synced"):
		verdict = "unsynced"
	case strings.Contains(err.Error(), "non-initialized"):
		verdict = "noninit"
	default:
		return nil, fmt.Errorf("unexpected Initialize error: %v", err)
	}
	state := rec{}
	for _, d := range dbs {
		img := disk.Image(d)
		data := rec{}
		for _, key := range keys {
			data[key] = 0
		}
		mark := []interface{}{"none", 0}
		for key, val := range img {
			if key == string(c25FlushKey) {
				kind, mid := decodeMark(val)
				mark = []interface{}{kind, mid}
				continue
			}
			data[key] = decodeVal(val)
		}
		state[d] = rec{"ex": img != nil, "mark": mark, "data": data}
	}
	return rec{"op": "restart", "k": k, "last": last, "verdict": verdict, "id": vid, "survivors": names, "dbs": state}, nil
}

// runHistory executes one history with the process stopped at the crashAt-th durable operation
// (0: never); returns the number of durable operations that were performed.
func runHistory(sc *scenario, scen, crashAt int, keys, dbs []string, emit func(rec)) (done int, before int, err error) {
	disk := NewDisk()
	ctl := &crashCtl{crashAt: crashAt, emit: emit, last: "none"}
	emit(rec{"op": "reset", "comp": sc.Comp, "scen": scen, "crash": crashAt})
	var runErr error
	func() {
		defer func() {
			if r := recover(); r != nil {
				if _, ok := r.(stopped); !ok {
					panic(r)
				}
			}
		}()
		prod := newDiskProducer(disk, ctl)
		var (
			opener kvdb.DBProducer
			flush  func(id []byte) error
		)
		if sc.Comp == "pool" {
			pool := flushable.NewSyncedPool(prod, c25FlushKey)
			opener, flush = pool, pool.Flush
		} else {
			fp := flaggedproducer.Wrap(prod, c25FlushKey)
			opener, flush = fp, fp.Flush
		}
		stores := map[string]kvdb.Store{}
		longLived := map[string]kvdb.Batch{} // one long-lived batch per open store, reused with Reset
		for i, op := range sc.Ops {
			if i+1 == sc.Last {
				before = ctl.n
			}
			switch op.Op {
			case "bput":
				st := stores[op.DB]
				if st == nil {
					runErr = fmt.Errorf("bput on a database that is not open: %s", op.DB)
					return
				}
				for _, key := range keys {
					emit(rec{"op": "put", "db": op.DB, "k": key, "v": op.V})
					if err := st.Put([]byte(key), encodeVal(op.V, op.V)); err != nil {
						runErr = err
						return
					}
				}
			case "open":
				emit(rec{"op": "open", "db": op.DB})
				st, err := opener.OpenDB(op.DB)
				if err != nil {
					runErr = err
					return
				}
				stores[op.DB] = st
			case "put":
				st := stores[op.DB]
				if st == nil {
					runErr = fmt.Errorf("put on a database that is not open: %s", op.DB)
					return
				}
				if sc.Comp == "pool" {
					emit(rec{"op": "put", "db": op.DB, "k": op.K, "v": op.V})
				} else {
					emit(rec{"op": "put", "db": op.DB, "w": rec{op.K: op.V}})
				}
				var err error
				viaBatch := (scen+i)%3 == 0 // either way it is one durable write of one key
				switch {
				case op.Via == "lbatch":
					b := longLived[op.DB]
					if b == nil {
						b = st.NewBatch()
						longLived[op.DB] = b
					}
					b.Reset()
					if op.V == 0 {
						err = b.Delete([]byte(op.K))
					} else {
						err = b.Put([]byte(op.K), []byte(strconv.Itoa(op.V)))
					}
					if err == nil {
						err = b.Write()
					}
				case viaBatch:
					b := st.NewBatch()
					if op.V == 0 {
						err = b.Delete([]byte(op.K))
					} else {
						err = b.Put([]byte(op.K), []byte(strconv.Itoa(op.V)))
					}
					if err == nil {
						err = b.Write()
					}
				case op.V == 0:
					err = st.Delete([]byte(op.K))
				default:
					err = st.Put([]byte(op.K), []byte(strconv.Itoa(op.V)))
				}
				if err != nil {
					runErr = err
					return
				}
			case "drop":
				st := stores[op.DB]
				if st == nil {
					runErr = fmt.Errorf("drop of a database that is not open: %s", op.DB)
					return
				}
				if sc.Comp == "pool" {
					emit(rec{"op": "qdrop", "db": op.DB})
				} else {
					emit(rec{"op": "fdrop", "db": op.DB})
				}
				if err := st.Close(); err != nil {
					runErr = err
					return
				}
				st.Drop()
				delete(stores, op.DB)
				delete(longLived, op.DB)
			case "flush":
				emit(rec{"op": "flush", "id": op.ID})
				if err := flush([]byte{byte(op.ID)}); err != nil {
					runErr = err
					return
				}
				emit(rec{"op": "flushed", "id": op.ID})
			default:
				runErr = fmt.Errorf("unknown op %q", op.Op)
				return
			}
		}
	}()
	if runErr != nil {
		return ctl.n, before, runErr
	}
	if crashAt > 0 && !ctl.dead {
		return ctl.n, before, errors.New("the run performed fewer durable operations than the crash point")
	}
	line, err := restartLine(sc.Comp, disk, keys, dbs, crashAt, ctl.last)
	if err != nil {
		return ctl.n, before, err
	}
	emit(line)
	done = ctl.n
	if ctl.dead {
		done--
	}
	return done, before, nil
}

// CmdCrashRun: vh crashrun <scenarios.ndjson> <pool-trace.ndjson> <flagged-trace.ndjson>
// Writes one trace per run; prints statistics as json.
func CmdCrashRun(args []string) int {
	if len(args) < 3 {
		fmt.Fprintln(os.Stderr, "usage: vh crashrun <scenarios.ndjson> <pool-trace.ndjson> <flagged-trace.ndjson>")
		return 2
	}
	in, err := os.Open(args[0])
	if err != nil {
		fmt.Fprintln(os.Stderr, err)
		return 2
	}
	defer in.Close()
	outs := map[string]*bufio.Writer{}
	for i, comp := range []string{"pool", "flagged"} {
		f, err := os.Create(args[1+i])
		if err != nil {
			fmt.Fprintln(os.Stderr, err)
			return 2
		}
		defer f.Close()
		w := bufio.NewWriterSize(f, 1<<20)
		defer w.Flush()
		outs[comp] = w
	}
	keys := []string{"k1", "k2", "k3"}
	dbs := []string{"A", "B"}
	stats := map[string]int{}
	sc := bufio.NewScanner(in)
	sc.Buffer(make([]byte, 1<<20), 1<<26)
	scen := 0
	for sc.Scan() {
		if len(sc.Bytes()) == 0 {
			continue
		}
		var s scenario
		if err := json.Unmarshal(sc.Bytes(), &s); err != nil {
			fmt.Fprintln(os.Stderr, "bad scenario line:", err)
			return 2
		}
		w := outs[s.Comp]
		if w == nil {
			fmt.Fprintln(os.Stderr, "unknown component", s.Comp)
			return 2
		}
		scen++
		lines := 0
		emit := func(r rec) {
			b, _ := json.Marshal(r)
			w.Write(b)
			w.WriteByte('\n')
			lines++
			if r["op"] == "restart" {
				stats[s.Comp+"_verdict_"+r["verdict"].(string)]++
				if r["verdict"] == "ok" && r["id"].(int) > 0 {
					stats[s.Comp+"_ok_with_flush_id"]++
				}
				if r["k"].(int) > 0 {
					stats[s.Comp+"_crash_after_"+r["last"].(string)]++
				}
			}
		}
		// the run without a crash tells how many durable operations the history has
		n, before, err := runHistory(&s, scen, 0, keys, dbs, emit)
		if err != nil {
			fmt.Fprintf(os.Stderr, "scenario %d (%s): %v\n", scen, sc.Text(), err)
			return 2
		}
		stats[s.Comp+"_histories"]++
		stats[s.Comp+"_runs"]++
		stats[s.Comp+"_durable_ops"] += n
		if n-before > 1 {
			stats[s.Comp+"_calls_with_several_durable_ops"]++
		}
		for _, o := range s.Ops {
			if o.Op == "bput" {
				stats[s.Comp+"_histories_with_large_values"]++
				break
			}
		}
		if last := s.Ops[len(s.Ops)-1]; last.Via == "lbatch" {
			stats[s.Comp+"_last_call_through_long_lived_batch"]++
		}
		for k := before + 1; k <= n; k++ {
			if _, _, err := runHistory(&s, scen, k, keys, dbs, emit); err != nil {
				fmt.Fprintf(os.Stderr, "scenario %d crash %d (%s): %v\n", scen, k, sc.Text(), err)
				return 2
			}
			stats[s.Comp+"_runs"]++
			stats[s.Comp+"_crash_points"]++
		}
		stats[s.Comp+"_lines"] += lines
	}
	if err := sc.Err(); err != nil {
		fmt.Fprintln(os.Stderr, err)
		return 2
	}
	json.NewEncoder(os.Stdout).Encode(stats)
	return 0
}
