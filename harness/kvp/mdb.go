package kvp

import (
	"fmt"
	"sort"
	"strings"

	"verifharness/replay"

	"github.com/Fantom-foundation/lachesis-base/kvdb"
	"github.com/Fantom-foundation/lachesis-base/kvdb/flaggedproducer"
	"github.com/Fantom-foundation/lachesis-base/kvdb/flushable"
	"github.com/Fantom-foundation/lachesis-base/kvdb/multidb"
)

// C26: multidb.Producer over two backends: type "x" = flaggedproducer, type "y" = SyncedPool,
// both over disk-image producers so that a restart really starts again from persisted contents.

var (
	mdbRecordsKey = []byte("!rec")
	mdbFlushKey   = []byte("!flag")
)

const mdbInstances = 50

func chars(s string) []interface{} {
	out := make([]interface{}, 0, len(s))
	for _, r := range s {
		out = append(out, string(r))
	}
	return out
}

func unchars(v interface{}) string {
	var sb strings.Builder
	for _, c := range asList(v) {
		sb.WriteString(c.(string))
	}
	return sb.String()
}

func routingTable(v interface{}) map[string]multidb.Route {
	rt := map[string]multidb.Route{}
	m, _ := v.(map[string]interface{})
	for k, r := range m {
		rm := r.(map[string]interface{})
		rt[k] = multidb.Route{Type: multidb.TypeName(rm["type"].(string)), Name: rm["name"].(string), Table: unchars(rm["table"])}
	}
	return rt
}

func routeJSON(r multidb.Route) map[string]interface{} {
	return map[string]interface{}{"type": string(r.Type), "name": r.Name, "table": chars(r.Table)}
}

type mdbInst struct {
	rt      map[string]multidb.Route
	disks   map[multidb.TypeName]*Disk
	backs   map[multidb.TypeName]kvdb.FullDBProducer
	mp      *multidb.Producer
	live    map[string]kvdb.Store
	flushes int
}

func (in *mdbInst) start() error {
	in.backs = map[multidb.TypeName]kvdb.FullDBProducer{
		"x": flaggedproducer.Wrap(newDiskProducer(in.disks["x"], nil), mdbFlushKey),
		"y": flushable.NewSyncedPool(newDiskProducer(in.disks["y"], nil), mdbFlushKey),
	}
	for _, t := range []multidb.TypeName{"x", "y"} {
		if _, err := in.backs[t].Initialize(in.disks[t].Names(), nil); err != nil {
			return fmt.Errorf("Initialize(%s): %v", t, err)
		}
	}
	mp, err := multidb.NewProducer(in.backs, in.rt, mdbRecordsKey)
	if err != nil {
		return err
	}
	in.mp = mp
	in.live = map[string]kvdb.Store{}
	return nil
}

func (in *mdbInst) Close() {}

func (in *mdbInst) call(act map[string]interface{}) (map[string]interface{}, error) {
	switch act["op"] {
	case "open":
		req := act["req"].(string)
		st, err := in.mp.OpenDB(req)
		if err == nil {
			if err := st.Put([]byte("m"), []byte(req)); err != nil {
				return nil, err
			}
			in.live[req] = st
		}
		return map[string]interface{}{"ok": err == nil, "route": routeJSON(in.mp.RouteOf(req))}, nil
	case "restart":
		in.flushes++
		if err := in.mp.Flush([]byte{byte(in.flushes)}); err != nil {
			return nil, err
		}
		if err := in.mp.Close(); err != nil {
			return nil, err
		}
		err := in.start()
		return map[string]interface{}{"ok": err == nil}, nil
	case "verify":
		mp2, err := multidb.NewProducer(in.backs, routingTable(act["rt2"]), mdbRecordsKey)
		if err != nil {
			return nil, err
		}
		return map[string]interface{}{"ok": mp2.Verify() == nil}, nil
	}
	return nil, fmt.Errorf("unknown op %v", act["op"])
}

func (in *mdbInst) Apply(act map[string]interface{}) (map[string]interface{}, error) {
	res, err := in.call(act)
	if err != nil {
		return nil, err
	}
	return map[string]interface{}{"res": res}, nil
}

// Project: what each live store shows (all keys, all values), the two metadata keys excluded
// (C26 excludes tables that are prefixes of the metadata key: only the empty table is).
func (in *mdbInst) Project() interface{} {
	if len(in.live) == 0 {
		return map[string]interface{}{"views": []interface{}{}}
	}
	views := map[string]interface{}{}
	for req, st := range in.live {
		var pairs replay.Set
		it := st.NewIterator(nil, nil)
		for it.Next() {
			k := string(it.Key())
			if k == string(mdbRecordsKey) || k == string(mdbFlushKey) {
				continue
			}
			pairs = append(pairs, map[string]interface{}{"k": chars(k), "v": string(it.Value())})
		}
		it.Release()
		if pairs == nil {
			pairs = replay.Set{}
		}
		views[req] = pairs
	}
	return map[string]interface{}{"views": views}
}

func newMDB(pre interface{}) (replay.Inst, error) {
	p, _ := pre.(map[string]interface{})
	in := &mdbInst{rt: routingTable(p["rt"]), disks: map[multidb.TypeName]*Disk{"x": NewDisk(), "y": NewDisk()}}
	if err := in.start(); err != nil {
		return nil, err
	}
	for _, h := range asList(p["hist"]) {
		if _, err := in.call(h.(map[string]interface{})); err != nil {
			return nil, err
		}
	}
	return in, nil
}

// mdbRouteInst answers routing queries from many producers built from the same routing table
// (NewProducer walks the Go map, so every instance sees the routes in another order).
type mdbRouteInst struct {
	rt map[string]multidb.Route
}

func (in *mdbRouteInst) Close() {}

func (in *mdbRouteInst) Apply(act map[string]interface{}) (map[string]interface{}, error) {
	if act["op"] != "route" {
		return nil, fmt.Errorf("unknown op %v", act["op"])
	}
	req := act["req"].(string)
	seen := map[string]multidb.Route{}
	for i := 0; i < mdbInstances; i++ {
		mp, err := multidb.NewProducer(map[multidb.TypeName]kvdb.FullDBProducer{"x": nil, "y": nil}, in.rt, mdbRecordsKey)
		if err != nil {
			return nil, err
		}
		r := mp.RouteOf(req)
		seen[fmt.Sprintf("%s|%s|%s", r.Type, r.Name, r.Table)] = r
	}
	keys := make([]string, 0, len(seen))
	for k := range seen {
		keys = append(keys, k)
	}
	sort.Strings(keys)
	member := true
	for _, k := range keys {
		found := false
		for _, c := range asList(act["cands"]) {
			if replay.Equal(c, routeJSON(seen[k])) {
				found = true
			}
		}
		member = member && found
	}
	return map[string]interface{}{"res": map[string]interface{}{"distinct": len(seen), "member": member}}, nil
}

func (in *mdbRouteInst) Project() interface{} {
	return map[string]interface{}{"views": []interface{}{}}
}

func MDBAdapters() []replay.Adapter {
	return []replay.Adapter{
		{Name: "multidb", New: newMDB, Skip: func(act map[string]interface{}) bool { return act["op"] == "route" }},
		{Name: "multidb-route", New: func(pre interface{}) (replay.Inst, error) {
			p, _ := pre.(map[string]interface{})
			return &mdbRouteInst{rt: routingTable(p["rt"])}, nil
		}, Skip: func(act map[string]interface{}) bool { return act["op"] != "route" }},
	}
}
