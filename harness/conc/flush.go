package conc

import (
	"math/rand"
	"runtime"
	"sync"
	"sync/atomic"
	"time"

	"github.com/Fantom-foundation/lachesis-base/inter/dag"
	"github.com/Fantom-foundation/lachesis-base/inter/idx"
	"github.com/Fantom-foundation/lachesis-base/kvdb"
	"github.com/Fantom-foundation/lachesis-base/kvdb/flushable"
	"github.com/Fantom-foundation/lachesis-base/kvdb/memorydb"
	"github.com/Fantom-foundation/lachesis-base/utils/datasemaphore"
)

func key(k int) []byte { return []byte{'k', byte('0' + k)} }

func getRes(v []byte, err error) rec {
	if err != nil || v == nil {
		return rec{"ok": false, "v": 0}
	}
	return rec{"ok": true, "v": int(v[0])}
}

func init() {
	Components["flush"] = FlushHistories
	Components["pool"] = PoolHistories
	Components["poolslow"] = PoolSlowFlushScenario
	Components["sem"] = SemHistories
}

// yieldStore is a memory store whose calls yield the processor now and then: it widens any window in which the
// wrapper above it works without holding its lock (it changes nothing for a wrapper that holds its lock).
type yieldStore struct {
	kvdb.Store
	n uint32
}

func (y *yieldStore) tick() {
	switch atomic.AddUint32(&y.n, 1) % 3 {
	case 0:
		runtime.Gosched()
	case 1:
		time.Sleep(30 * time.Microsecond)
	}
}
func (y *yieldStore) GetSnapshot() (kvdb.Snapshot, error) {
	s, err := y.Store.GetSnapshot()
	y.tick()
	return s, err
}
func (y *yieldStore) Get(k []byte) ([]byte, error) { v, err := y.Store.Get(k); y.tick(); return v, err }
func (y *yieldStore) NewBatch() kvdb.Batch         { return &yieldBatch{y.Store.NewBatch(), y} }

type yieldBatch struct {
	kvdb.Batch
	y *yieldStore
}

func (b *yieldBatch) Write() error { b.y.tick(); err := b.Batch.Write(); b.y.tick(); return err }

// FlushHistories: concurrent histories on flushable.Wrap(memorydb).
func FlushHistories(h *Hist, seed int64, runs int, stats map[string]int) {
	for run := 0; run < runs; run++ {
		r := rand.New(rand.NewSource(seed*104729 + int64(run)))
		var under kvdb.Store = memorydb.New()
		if run%2 == 1 {
			under = &yieldStore{Store: under}
		}
		f := flushable.Wrap(under)
		h.Reset(rec{"scen": run + 1})
		var sidCtr int32
		snapFocus := run%4 == 3 // histories made of put / flush / snapshot / snapshot-read only
		G := 2 + r.Intn(3)
		per := 2 + r.Intn(3)
		var wg sync.WaitGroup
		for g := 1; g <= G; g++ {
			wg.Add(1)
			go func(g int, gr *rand.Rand) {
				defer wg.Done()
				for i := 0; i < per; i++ {
					perturb(gr)
					k, v := 1+gr.Intn(4), 1+gr.Intn(3)
					op := gr.Intn(14)
					if snapFocus {
						op = []int{0, 7, 12, 12}[gr.Intn(4)]
						k = 1 + gr.Intn(2)
					}
					switch op {
					case 12, 13:
						sid := int(atomic.AddInt32(&sidCtr, 1))
						h.Call(g, rec{"op": "snap", "sid": sid})
						sn, err := f.GetSnapshot()
						h.Ret(g, rec{"ok": err == nil})
						if err == nil {
							perturb(gr)
							h.Call(g, rec{"op": "sget", "sid": sid, "k": k})
							h.Ret(g, getRes(sn.Get(key(k))))
							k2 := 1 + gr.Intn(4)
							h.Call(g, rec{"op": "sget", "sid": sid, "k": k2})
							h.Ret(g, getRes(sn.Get(key(k2))))
							sn.Release()
						}
					case 0, 1, 2:
						h.Call(g, rec{"op": "put", "k": k, "v": v})
						err := f.Put(key(k), []byte{byte(v)})
						h.Ret(g, rec{"ok": err == nil})
					case 3:
						h.Call(g, rec{"op": "del", "k": k})
						err := f.Delete(key(k))
						h.Ret(g, rec{"ok": err == nil})
					case 4, 5:
						h.Call(g, rec{"op": "get", "k": k})
						h.Ret(g, getRes(f.Get(key(k))))
					case 6:
						h.Call(g, rec{"op": "has", "k": k})
						ok, _ := f.Has(key(k))
						h.Ret(g, rec{"ok": ok})
					case 7, 8:
						h.Call(g, rec{"op": "flush"})
						err := f.Flush()
						h.Ret(g, rec{"ok": err == nil})
					case 9:
						h.Call(g, rec{"op": "drop"})
						f.DropNotFlushed()
						h.Ret(g, rec{"ok": true})
					case 10:
						h.Call(g, rec{"op": "nfp"})
						h.Ret(g, rec{"n": f.NotFlushedPairs()})
					case 11:
						h.Call(g, rec{"op": "uget", "k": k})
						h.Ret(g, getRes(under.Get(key(k))))
					}
				}
			}(g, rand.New(rand.NewSource(r.Int63())))
		}
		wg.Wait()
		stats["flush_histories"]++
		stats["flush_ops"] += G * per
	}
}

type memProducer struct {
	mu   sync.Mutex
	dbs  map[string]kvdb.Store
	wrap func(name string, s kvdb.Store) kvdb.Store
}

func (p *memProducer) OpenDB(name string) (kvdb.Store, error) {
	p.mu.Lock()
	defer p.mu.Unlock()
	if p.dbs[name] == nil {
		var s kvdb.Store = memorydb.New()
		if p.wrap != nil {
			s = p.wrap(name, s)
		}
		p.dbs[name] = s
	}
	return p.dbs[name], nil
}

var poolNames = []string{"", "dbA", "dbB", "dbC"}

// PoolHistories: concurrent histories on a SyncedPool with two databases.
func PoolHistories(h *Hist, seed int64, runs int, stats map[string]int) {
	for run := 0; run < runs; run++ {
		r := rand.New(rand.NewSource(seed*15485863 + int64(run)))
		prod := &memProducer{dbs: map[string]kvdb.Store{}}
		pool := flushable.NewSyncedPool(prod, []byte("flushid"))
		if _, err := pool.Initialize([]string{}, nil); err != nil {
			panic(err)
		}
		stores := map[int]kvdb.Store{}
		unders := map[int]kvdb.Store{}
		for d := 1; d <= 2; d++ {
			s, _ := pool.OpenDB(poolNames[d])
			stores[d] = s
			u, err := pool.GetUnderlying(poolNames[d])
			if err != nil {
				panic(err)
			}
			unders[d] = u
		}
		h.Reset(rec{"scen": run + 1})
		G := 2 + r.Intn(3)
		per := 2 + r.Intn(3)
		var flushN int32
		var wg sync.WaitGroup
		for g := 1; g <= G; g++ {
			wg.Add(1)
			go func(g int, gr *rand.Rand) {
				defer wg.Done()
				for i := 0; i < per; i++ {
					perturb(gr)
					d, k, v := 1+gr.Intn(2), 1+gr.Intn(3), 1+gr.Intn(3)
					switch gr.Intn(10) {
					case 0, 1, 2:
						h.Call(g, rec{"op": "put", "d": d, "k": k, "v": v})
						err := stores[d].Put(key(k), []byte{byte(v)})
						h.Ret(g, rec{"ok": err == nil})
					case 3:
						h.Call(g, rec{"op": "del", "d": d, "k": k})
						err := stores[d].Delete(key(k))
						h.Ret(g, rec{"ok": err == nil})
					case 4, 5:
						h.Call(g, rec{"op": "get", "d": d, "k": k})
						h.Ret(g, getRes(stores[d].Get(key(k))))
					case 6, 7:
						h.Call(g, rec{"op": "flush"})
						n := atomic.AddInt32(&flushN, 1)
						err := pool.Flush([]byte{byte(n)})
						h.Ret(g, rec{"ok": err == nil})
					case 8, 9:
						h.Call(g, rec{"op": "uget", "d": d, "k": k})
						h.Ret(g, getRes(unders[d].Get(key(k))))
					}
				}
			}(g, rand.New(rand.NewSource(r.Int63())))
		}
		wg.Wait()
		stats["pool_histories"]++
		stats["pool_ops"] += G * per
	}
}

// slowStore delays batch writes that carry data (flushes) of one database.
type slowStore struct {
	kvdb.Store
	delay   time.Duration
	started chan struct{}
	once    sync.Once
}

type slowBatch struct {
	kvdb.Batch
	s *slowStore
	n int
}

func (s *slowStore) NewBatch() kvdb.Batch { return &slowBatch{Batch: s.Store.NewBatch(), s: s} }
func (b *slowBatch) Put(k, v []byte) error {
	if len(k) == 2 && k[0] == 'k' {
		b.n++
	}
	return b.Batch.Put(k, v)
}
func (b *slowBatch) Write() error {
	if b.n > 0 {
		b.s.once.Do(func() { close(b.s.started) })
		time.Sleep(b.s.delay)
	}
	return b.Batch.Write()
}

// PoolSlowFlushScenario: three databases; the flush of one of them is slow. While it is in progress a
// goroutine writes first to one other database and then to the third one. Whenever the pool happens to flush
// the databases in the order (first-written, slow, second-written) the flush contains the later write but not
// the earlier one. The history is recorded with two databases (the slow one carries a key nobody reads).
func PoolSlowFlushScenario(h *Hist, seed int64, runs int, stats map[string]int) {
	for run := 0; run < runs; run++ {
		slow := &slowStore{delay: 60 * time.Millisecond, started: make(chan struct{})}
		prod := &memProducer{dbs: map[string]kvdb.Store{}, wrap: func(name string, s kvdb.Store) kvdb.Store {
			if name == "dbC" {
				slow.Store = s
				return slow
			}
			return s
		}}
		pool := flushable.NewSyncedPool(prod, []byte("flushid"))
		if _, err := pool.Initialize([]string{}, nil); err != nil {
			panic(err)
		}
		stores := map[int]kvdb.Store{}
		unders := map[int]kvdb.Store{}
		for d := 1; d <= 3; d++ {
			s, _ := pool.OpenDB(poolNames[d])
			stores[d] = s
			u, err := pool.GetUnderlying(poolNames[d])
			if err != nil {
				panic(err)
			}
			unders[d] = u
		}
		stores[3].Put(key(1), []byte{9}) // something to flush in the slow database
		first, second := 1+run%2, 2-run%2
		h.Reset(rec{"scen": run + 1, "first": first})
		var wg sync.WaitGroup
		wg.Add(2)
		go func() {
			defer wg.Done()
			h.Call(1, rec{"op": "flush"})
			err := pool.Flush([]byte{1})
			h.Ret(1, rec{"ok": err == nil})
		}()
		go func() {
			defer wg.Done()
			select {
			case <-slow.started:
			case <-time.After(2 * time.Second):
			}
			h.Call(2, rec{"op": "put", "d": first, "k": 1, "v": 1})
			err := stores[first].Put(key(1), []byte{1})
			h.Ret(2, rec{"ok": err == nil})
			h.Call(2, rec{"op": "put", "d": second, "k": 1, "v": 2})
			err = stores[second].Put(key(1), []byte{2})
			h.Ret(2, rec{"ok": err == nil})
		}()
		wg.Wait()
		h.Call(3, rec{"op": "uget", "d": first, "k": 1})
		a := getRes(unders[first].Get(key(1)))
		h.Ret(3, a)
		h.Call(3, rec{"op": "uget", "d": second, "k": 1})
		b := getRes(unders[second].Get(key(1)))
		h.Ret(3, b)
		if a["ok"] == false && b["ok"] == true {
			stats["poolslow_later_write_flushed_without_earlier"]++
		}
		stats["poolslow_histories"]++
	}
}

// SemHistories: concurrent histories on DataSemaphore.
func SemHistories(h *Hist, seed int64, runs int, stats map[string]int) {
	for run := 0; run < runs; run++ {
		r := rand.New(rand.NewSource(seed*32452843 + int64(run)))
		capN, capS := 2+r.Intn(3), 4+r.Intn(5)
		warnCh := make(chan struct{}, 64)
		s := datasemaphore.New(dag.Metric{Num: idx.Event(capN), Size: uint64(capS)}, func(received, processing, releasing dag.Metric) {
			warnCh <- struct{}{}
			// a slow callback (it belongs to the application): whoever runs it must still make check-and-reset one step
			time.Sleep(300 * time.Microsecond)
		})
		h.Reset(rec{"scen": run + 1, "cap": rec{"num": capN, "size": capS}})
		G := 2 + r.Intn(3)
		per := 2 + r.Intn(3)
		var wg sync.WaitGroup
		for g := 1; g <= G; g++ {
			wg.Add(1)
			go func(g int, gr *rand.Rand) {
				defer wg.Done()
				for i := 0; i < per; i++ {
					perturb(gr)
					w := dag.Metric{Num: idx.Event(1 + gr.Intn(2)), Size: uint64(1 + gr.Intn(4))}
					wj := rec{"num": int(w.Num), "size": int(w.Size)}
					switch gr.Intn(10) {
					case 0, 1, 2, 3:
						h.Call(g, rec{"op": "try", "w": wj})
						h.Ret(g, rec{"ok": s.TryAcquire(w)})
					case 4, 5, 6:
						// the warning callback runs inside Release under the semaphore's lock
						h.Call(g, rec{"op": "release", "w": wj})
						wd := releaseWarned(s, w, warnCh)
						h.Ret(g, rec{"warned": wd})
					case 7, 8:
						h.Call(g, rec{"op": "processing"})
						p := s.Processing()
						h.Ret(g, rec{"num": int(p.Num), "size": int(p.Size)})
					case 9:
						big := dag.Metric{Num: idx.Event(capN + 1), Size: 1}
						h.Call(g, rec{"op": "acquire", "w": rec{"num": capN + 1, "size": 1}})
						h.Ret(g, rec{"ok": s.Acquire(big, time.Hour)})
					}
				}
			}(g, rand.New(rand.NewSource(r.Int63())))
		}
		wg.Wait()
		stats["sem_histories"]++
		stats["sem_ops"] += G * per
	}
}

var releaseMu sync.Mutex

// releaseWarned calls Release and reports whether the warning callback fired during this call; releases
// are serialised among themselves so that a warning can be attributed to its call.
func releaseWarned(s *datasemaphore.DataSemaphore, w dag.Metric, warnCh chan struct{}) bool {
	releaseMu.Lock()
	defer releaseMu.Unlock()
	for len(warnCh) > 0 {
		<-warnCh
	}
	s.Release(w)
	select {
	case <-warnCh:
		return true
	default:
		return false
	}
}
