package conc

import (
	"math/rand"
	"sort"
	"sync"
	"time"

	"github.com/Fantom-foundation/lachesis-base/kvdb"
	"github.com/Fantom-foundation/lachesis-base/kvdb/flushable"
)

func init() { Components["pooldrop"] = PoolDropHistories }

// slowDropStore makes the underlying Drop slow: it widens the time a Flush spends executing queued drops.
type slowDropStore struct {
	kvdb.Store
	d time.Duration
}

func (s *slowDropStore) Drop() { time.Sleep(s.d); s.Store.Drop() }

// PoolDropHistories: three databases in a SyncedPool; goroutines queue drops (Store.Drop), flush and list names.
func PoolDropHistories(h *Hist, seed int64, runs int, stats map[string]int) {
	for run := 0; run < runs; run++ {
		r := rand.New(rand.NewSource(seed*49979687 + int64(run)))
		prod := &memProducer{dbs: map[string]kvdb.Store{}, wrap: func(name string, s kvdb.Store) kvdb.Store {
			return &slowDropStore{Store: s, d: time.Duration(200+r.Intn(1500)) * time.Microsecond}
		}}
		pool := flushable.NewSyncedPool(prod, []byte("flushid"))
		if _, err := pool.Initialize([]string{}, nil); err != nil {
			panic(err)
		}
		stores := map[int]kvdb.Store{}
		for d := 1; d <= 3; d++ {
			s, _ := pool.OpenDB(poolNames[d])
			s.Put(key(1), []byte{1})
			stores[d] = s
		}
		pool.Flush([]byte{0})
		h.Reset(rec{"scen": run + 1})
		names := func() []int {
			var out []int
			for _, n := range pool.Names() {
				for d := 1; d <= 3; d++ {
					if poolNames[d] == n {
						out = append(out, d)
					}
				}
			}
			sort.Ints(out)
			if out == nil {
				out = []int{}
			}
			return out
		}
		// one goroutine drops databases one after the other, two flush and list
		order := r.Perm(3)
		var wg sync.WaitGroup
		var fl int32 = 1
		var flmu sync.Mutex
		nextID := func() []byte { flmu.Lock(); fl++; id := []byte{byte(fl)}; flmu.Unlock(); return id }
		wg.Add(3)
		go func() {
			defer wg.Done()
			gr := rand.New(rand.NewSource(r.Int63()))
			for _, i := range order[:2+gr.Intn(2)] {
				perturb(gr)
				d := i + 1
				h.Call(1, rec{"op": "dropdb", "d": d})
				stores[d].Drop()
				h.Ret(1, rec{"ok": true})
				if gr.Intn(2) == 0 {
					time.Sleep(time.Duration(gr.Intn(800)) * time.Microsecond)
				}
			}
		}()
		for g := 2; g <= 3; g++ {
			go func(g int, gr *rand.Rand) {
				defer wg.Done()
				for i := 0; i < 3; i++ {
					perturb(gr)
					if gr.Intn(3) != 0 {
						h.Call(g, rec{"op": "flush"})
						err := pool.Flush(nextID())
						h.Ret(g, rec{"ok": err == nil})
					} else {
						h.Call(g, rec{"op": "names"})
						h.Ret(g, rec{"n": names()})
					}
				}
			}(g, rand.New(rand.NewSource(r.Int63())))
		}
		wg.Wait()
		// a final flush and listing: every drop that returned must have taken effect by now
		h.Call(4, rec{"op": "flush"})
		err := pool.Flush(nextID())
		h.Ret(4, rec{"ok": err == nil})
		h.Call(4, rec{"op": "names"})
		h.Ret(4, rec{"n": names()})
		stats["pooldrop_histories"]++
	}
}
