package conc

import (
	"fmt"
	"math/rand"
	"os"
	"sync"
	"time"

	"github.com/Fantom-foundation/lachesis-base/gossip/dagordering"
	"github.com/Fantom-foundation/lachesis-base/hash"
	"github.com/Fantom-foundation/lachesis-base/inter/dag"
	"github.com/Fantom-foundation/lachesis-base/inter/dag/tdag"
	"github.com/Fantom-foundation/lachesis-base/inter/idx"
	"github.com/Fantom-foundation/lachesis-base/kvdb"
	"github.com/Fantom-foundation/lachesis-base/kvdb/flushable"
	"github.com/Fantom-foundation/lachesis-base/kvdb/memorydb"
	"github.com/Fantom-foundation/lachesis-base/utils/datasemaphore"
	"github.com/Fantom-foundation/lachesis-base/utils/wlru"
)

func hammer(G int, iters int, seed int64, f func(g int, r *rand.Rand)) {
	var wg sync.WaitGroup
	for g := 0; g < G; g++ {
		wg.Add(1)
		go func(g int) {
			defer wg.Done()
			r := rand.New(rand.NewSource(seed + int64(g)*977))
			for i := 0; i < iters; i++ {
				f(g, r)
			}
		}(g)
	}
	wg.Wait()
}

// CmdConcRace: vh concrace <component|all> <iterations> — workloads meant to run in a -race build:
// 2-8 goroutines mixing ALL public operations, including the size/statistics accessors.
func CmdConcRace(args []string, seed int64) int {
	comp, iters := "all", 400
	if len(args) > 0 {
		comp = args[0]
	}
	if len(args) > 1 {
		fmt.Sscan(args[1], &iters)
	}
	run := func(name string) bool { return comp == "all" || comp == name }
	r0 := rand.New(rand.NewSource(seed))
	if run("flush") {
		f := flushable.Wrap(memorydb.New())
		hammer(2+r0.Intn(7), iters, seed, func(g int, r *rand.Rand) {
			k := key(1 + r.Intn(4))
			switch r.Intn(14) {
			case 0, 1:
				f.Put(k, []byte{byte(r.Intn(3) + 1)})
			case 2:
				f.Delete(k)
			case 3:
				f.Get(k)
			case 4:
				f.Has(k)
			case 5:
				f.Flush()
			case 6:
				f.DropNotFlushed()
			case 7:
				f.NotFlushedPairs()
			case 8:
				f.NotFlushedSizeEst()
			case 9:
				it := f.NewIterator(nil, nil)
				for it.Next() {
					_ = it.Key()
					_ = it.Value()
				}
				it.Release()
			case 10:
				b := f.NewBatch()
				b.Put(k, []byte{7})
				b.Delete(key(1 + r.Intn(4)))
				b.Write()
			case 11:
				if s, err := f.GetSnapshot(); err == nil {
					s.Get(k)
					s.Release()
				}
			case 12:
				f.Stat("x")
			case 13:
				f.Compact(nil, nil)
			}
		})
		fmt.Fprintln(os.Stderr, "race workload flush done")
	}
	if run("pool") {
		prod := &memProducer{dbs: map[string]kvdb.Store{}}
		pool := flushable.NewSyncedPool(prod, []byte("flushid"))
		pool.Initialize([]string{}, nil)
		n := 0
		var nmu sync.Mutex
		hammer(2+r0.Intn(7), iters, seed+1, func(g int, r *rand.Rand) {
			name := poolNames[1+r.Intn(3)]
			switch r.Intn(9) {
			case 0, 1, 2:
				s, _ := pool.OpenDB(name)
				s.Put(key(1+r.Intn(3)), []byte{1})
			case 3:
				s, _ := pool.OpenDB(name)
				s.Get(key(1 + r.Intn(3)))
			case 4:
				nmu.Lock()
				n++
				id := []byte{byte(n), byte(n >> 8)}
				nmu.Unlock()
				pool.Flush(id)
			case 5:
				pool.NotFlushedSizeEst()
			case 6:
				pool.Names()
			case 7:
				if u, err := pool.GetUnderlying(name); err == nil {
					u.Get(key(1))
				}
			case 8:
				s, _ := pool.OpenDB(name)
				it := s.NewIterator(nil, nil)
				for it.Next() {
				}
				it.Release()
			}
		})
		fmt.Fprintln(os.Stderr, "race workload pool done")
	}
	if run("lru") {
		c, _ := wlru.NewWithEvict(6, 3, func(k, v interface{}) {})
		hammer(2+r0.Intn(7), iters, seed+2, func(g int, r *rand.Rand) {
			k := 1 + r.Intn(4)
			switch r.Intn(15) {
			case 0, 1:
				c.Add(k, g, uint(1+r.Intn(3)))
			case 2:
				c.Get(k)
			case 3:
				c.Peek(k)
			case 4:
				c.Contains(k)
			case 5:
				c.Remove(k)
			case 6:
				c.RemoveOldest()
			case 7:
				c.GetOldest()
			case 8:
				c.Keys()
			case 9:
				c.Len()
			case 10:
				c.Weight()
			case 11:
				c.Total()
			case 12:
				c.Resize(uint(3+r.Intn(5)), 1+r.Intn(3))
			case 13:
				c.ContainsOrAdd(k, g, 1)
			case 14:
				c.PeekOrAdd(k, g, 2)
				if r.Intn(20) == 0 {
					c.Purge()
				}
			}
		})
		// a phase of lookups only (hits refresh recency, which is a write to the shared list): readers next to readers
		c2, _ := wlru.New(100, 8)
		for k := 1; k <= 6; k++ {
			c2.Add(k, k, 1)
		}
		hammer(2+r0.Intn(7), iters, seed+12, func(g int, r *rand.Rand) {
			k := 1 + r.Intn(7)
			switch r.Intn(8) {
			case 0, 1, 2:
				c2.Get(k)
			case 3:
				c2.Peek(k)
			case 4:
				c2.Contains(k)
			case 5:
				c2.Keys()
			case 6:
				c2.GetOldest()
			case 7:
				c2.Total()
			}
		})
		fmt.Fprintln(os.Stderr, "race workload lru done")
	}
	if run("sem") {
		s := datasemaphore.New(dag.Metric{Num: 4, Size: 10}, func(a, b, c dag.Metric) {})
		hammer(2+r0.Intn(7), iters, seed+3, func(g int, r *rand.Rand) {
			w := dag.Metric{Num: idx.Event(1 + r.Intn(2)), Size: uint64(1 + r.Intn(3))}
			switch r.Intn(6) {
			case 0, 1:
				if s.TryAcquire(w) {
					s.Release(w)
				}
			case 2:
				if s.Acquire(w, 20*time.Millisecond) {
					s.Release(w)
				}
			case 3:
				s.Processing()
			case 4:
				s.Available()
			case 5:
				s.Release(dag.Metric{})
			}
		})
		s.Terminate()
		fmt.Fprintln(os.Stderr, "race workload sem done")
	}
	if run("buffer") {
		var cmu sync.RWMutex
		connected := map[hash.Event]dag.Event{}
		n := 24
		parents := make([][]int, n)
		rr := rand.New(rand.NewSource(seed + 4))
		for i := 1; i < n; i++ {
			for j := 0; j < rr.Intn(3); j++ {
				parents[i] = append(parents[i], 1+rr.Intn(i))
			}
		}
		evs := make([]*tdag.TestEvent, n)
		for i := range parents {
			e := &tdag.TestEvent{}
			e.SetSeq(1)
			e.SetLamport(idx.Lamport(i + 1))
			e.SetEpoch(1)
			var ps hash.Events
			seen := map[int]bool{}
			for _, p := range parents[i] {
				if !seen[p] {
					seen[p] = true
					ps = append(ps, evs[p-1].ID())
				}
			}
			e.SetParents(ps)
			var id [24]byte
			id[0] = byte(i + 1)
			e.SetID(id)
			evs[i] = e
		}
		b := dagordering.New(dag.Metric{Num: 6, Size: 1 << 20}, dagordering.Callback{
			Process:  func(e dag.Event) error { cmu.Lock(); connected[e.ID()] = e; cmu.Unlock(); return nil },
			Released: func(e dag.Event, peer string, err error) {},
			Get:      func(h hash.Event) dag.Event { cmu.RLock(); defer cmu.RUnlock(); return connected[h] },
			Exists:   func(h hash.Event) bool { cmu.RLock(); defer cmu.RUnlock(); return connected[h] != nil },
			Check:    func(e dag.Event, ps dag.Events) error { return nil },
		})
		hammer(2+r0.Intn(7), iters, seed+5, func(g int, r *rand.Rand) {
			e := evs[r.Intn(n)]
			switch r.Intn(6) {
			case 0, 1, 2:
				b.PushEvent(e, "p")
			case 3:
				b.IsBuffered(e.ID())
			case 4:
				b.Total()
			case 5:
				if r.Intn(10) == 0 {
					b.Clear()
				}
			}
		})
		fmt.Fprintln(os.Stderr, "race workload buffer done")
	}
	return 0
}
