package conc

import (
	"encoding/json"
	"flag"
	"fmt"
	"os"
)

// CmdConcRecord: vh concrecord -comp lru -runs N -out hist.ndjson
func CmdConcRecord(args []string, seed int64) int {
	fs := flag.NewFlagSet("concrecord", flag.ExitOnError)
	comp := fs.String("comp", "lru", "component")
	runs := fs.Int("runs", 100, "histories")
	out := fs.String("out", "hist.ndjson", "output")
	fs.Parse(args)
	f, err := os.Create(*out)
	if err != nil {
		fmt.Fprintln(os.Stderr, err)
		return 2
	}
	defer f.Close()
	h := NewHist(f)
	stats := map[string]int{}
	switch *comp {
	case "lru":
		LRUHistories(h, seed, *runs, stats)
	default:
		if fn, ok := Components[*comp]; ok {
			fn(h, seed, *runs, stats)
		} else {
			fmt.Fprintln(os.Stderr, "unknown component", *comp)
			return 2
		}
	}
	h.Flush()
	stats["lines"] = h.N
	json.NewEncoder(os.Stdout).Encode(stats)
	return 0
}

// Components lets other files register history generators.
var Components = map[string]func(h *Hist, seed int64, runs int, stats map[string]int){}
