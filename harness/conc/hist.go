// Package conc records concurrent histories (call/ret lines) of the thread-safe components for the
// linearizability trace specifications under specs/conc (pattern L), and runs race-detector workloads.
package conc

import (
	"bufio"
	"encoding/json"
	"io"
	"math/rand"
	"runtime"
	"sync"
	"time"
)

type rec map[string]interface{}

// Hist is an append-only log; Call is appended before the operation is invoked and Ret after it
// returned, both under one mutex, so the logged interval of a call contains its real interval.
type Hist struct {
	mu sync.Mutex
	w  *bufio.Writer
	N  int
}

func NewHist(w io.Writer) *Hist { return &Hist{w: bufio.NewWriterSize(w, 1<<20)} }

func (h *Hist) emit(r rec) {
	b, _ := json.Marshal(r)
	h.mu.Lock()
	h.w.Write(b)
	h.w.WriteByte('\n')
	h.N++
	h.mu.Unlock()
}

func (h *Hist) Reset(fields rec) {
	fields["op"] = "reset"
	h.emit(fields)
}
func (h *Hist) Call(g int, a rec)          { h.emit(rec{"op": "call", "g": g, "a": a}) }
func (h *Hist) Ret(g int, res interface{}) { h.emit(rec{"op": "ret", "g": g, "res": res}) }
func (h *Hist) Flush()                     { h.mu.Lock(); h.w.Flush(); h.mu.Unlock() }

// perturb yields / sleeps a little, keyed by the goroutine's PRNG, to vary the schedule.
func perturb(r *rand.Rand) {
	switch r.Intn(6) {
	case 0:
		runtime.Gosched()
	case 1:
		time.Sleep(time.Duration(r.Intn(50)) * time.Microsecond)
	}
}
